#!/bin/bash
# ./run.sh <property-id> quick|thorough      decide one property on /repo's current working tree
# ./run.sh <property-id> --explain <replay>   print a replay record
set -uo pipefail
cd "$(dirname "$0")"
. ./env.sh
id="$1"; tier="${2:-quick}"
if [ ! -x checker/istiocheck ] || [ -n "$(find checker -name '*.go' -newer checker/istiocheck 2>/dev/null | head -1)" ]; then
  (cd checker && go build -o istiocheck .) || { echo "VIOLATION property=$id replay=checker-build-failed"; exit 1; }
fi
if [ "$tier" = "--explain" ]; then exec checker/istiocheck -explain "$3"; fi
REPO="${VERIF_REPO:-/repo}"
exec checker/istiocheck -prop "$id" -tier "$tier" -repo "$REPO" -verif "$(pwd)"
