#!/bin/bash
# ./run.sh <property-id> quick|thorough      decide one property on /repo's current working tree
# ./run.sh <property-id> --explain <replay>   print a replay record
set -uo pipefail
cd "$(dirname "$0")"
. ./env.sh
id="$1"; tier="${2:-quick}"
need_build() { [ ! -x checker/istiocheck ] || [ -n "$(find checker -name '*.go' -newer checker/istiocheck 2>/dev/null | head -1)" ]; }
if need_build; then
  # checks may be started in parallel: build once, under a lock, and install the binary atomically
  (
    flock 9
    if need_build; then
      (cd checker && go build -o istiocheck.new . && mv -f istiocheck.new istiocheck) || exit 1
    fi
  ) 9>checker/.build.lock || { echo "VIOLATION property=$id replay=checker-build-failed"; exit 1; }
fi
if [ "$tier" = "--explain" ]; then exec checker/istiocheck -explain "$3"; fi
REPO="${VERIF_REPO:-/repo}"
exec checker/istiocheck -prop "$id" -tier "$tier" -repo "$REPO" -verif "$(pwd)"
