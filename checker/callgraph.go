package main

import (
	"go/types"
	"sort"
	"strings"

	"golang.org/x/tools/go/ssa"
)

// CG is the module-bounded call graph of DESIGN.md 3.1.
type CG struct {
	p        *Prog
	named    []*types.Named // istio named non-interface types
	implMemo map[string][]*ssa.Function
	calleeMemo map[*ssa.Function][]*ssa.Function
	fieldFuncs map[*types.Var][]*ssa.Function
}

func (p *Prog) CG() *CG {
	if p.cg != nil {
		return p.cg
	}
	g := &CG{p: p, implMemo: map[string][]*ssa.Function{}, calleeMemo: map[*ssa.Function][]*ssa.Function{}}
	for _, pk := range p.Pkgs {
		if !isIstioPath(pk.PkgPath) {
			continue
		}
		sc := pk.Types.Scope()
		for _, n := range sc.Names() {
			tn, ok := sc.Lookup(n).(*types.TypeName)
			if !ok || tn.IsAlias() {
				continue
			}
			nt, ok := tn.Type().(*types.Named)
			if !ok || types.IsInterface(nt) || nt.TypeParams().Len() > 0 {
				continue
			}
			g.named = append(g.named, nt)
		}
	}
	// instantiated generic named types that occur as method receivers in SSA
	seen := map[string]bool{}
	for _, fn := range p.AllFuncs {
		if fn.Signature.Recv() == nil {
			continue
		}
		t := fn.Signature.Recv().Type()
		if pt, ok := t.(*types.Pointer); ok {
			t = pt.Elem()
		}
		if nt, ok := t.(*types.Named); ok && nt.TypeArgs().Len() > 0 {
			k := nt.String()
			if !seen[k] {
				seen[k] = true
				g.named = append(g.named, nt)
			}
		}
	}
	p.cg = g
	return g
}

// implementations of interface method m (declared on interface type it) among istio named types.
func (g *CG) impls(it *types.Interface, recvT types.Type, m *types.Func) []*ssa.Function {
	key := recvT.String() + "#" + m.Name()
	if r, ok := g.implMemo[key]; ok {
		return r
	}
	var out []*ssa.Function
	for _, nt := range g.named {
		for _, t := range []types.Type{nt, types.NewPointer(nt)} {
			if !types.Implements(t, it) {
				continue
			}
			sel := g.p.SSA.MethodSets.MethodSet(t).Lookup(m.Pkg(), m.Name())
			if sel == nil {
				continue
			}
			if f := g.p.SSA.MethodValue(sel); f != nil {
				out = append(out, f)
			}
			break // value-receiver impl covers the pointer too (wrapper reaches same method)
		}
	}
	g.implMemo[key] = out
	return out
}

// Callees returns the bounded out-edges of fn (functions with istio bodies only).
func (g *CG) Callees(fn *ssa.Function) []*ssa.Function {
	if r, ok := g.calleeMemo[fn]; ok {
		return r
	}
	set := map[*ssa.Function]bool{}
	for _, b := range fn.Blocks {
		g.blockCallees(b, set)
	}
	out := make([]*ssa.Function, 0, len(set))
	for f := range set {
		out = append(out, f)
	}
	sort.Slice(out, func(i, j int) bool { return fnKey(out[i]) < fnKey(out[j]) })
	g.calleeMemo[fn] = out
	return out
}

// blockCallees adds the bounded out-edges of one basic block to set.
func (g *CG) blockCallees(b *ssa.BasicBlock, set map[*ssa.Function]bool) {
	for _, ins := range b.Instrs {
		g.instrCallees(ins, set)
	}
}

// instrCallees adds the bounded out-edges of one instruction to set.
func (g *CG) instrCallees(ins ssa.Instruction, set map[*ssa.Function]bool) {
	add := func(f *ssa.Function) {
		if f == nil || f.Blocks == nil || !isIstioFunc(f) {
			return
		}
		set[f] = true
	}
	var ops []*ssa.Value
	{
		// referenced function values / closures
		ops = ins.Operands(ops[:0])
		for _, op := range ops {
			if op == nil || *op == nil {
				continue
			}
			switch v := (*op).(type) {
			case *ssa.Function:
				add(v)
			case *ssa.MakeClosure:
				if f, ok := v.Fn.(*ssa.Function); ok {
					add(f)
				}
			}
		}
		if mc, ok := ins.(*ssa.MakeClosure); ok {
			if f, ok := mc.Fn.(*ssa.Function); ok {
				add(f)
			}
		}
		ci, ok := ins.(ssa.CallInstruction)
		if !ok {
			return
		}
		cc := ci.Common()
		if cc.IsInvoke() {
			recvT := cc.Value.Type()
			// single concrete type when the receiver is a MakeInterface in this function
			if mi, ok := cc.Value.(*ssa.MakeInterface); ok {
				sel := g.p.SSA.MethodSets.MethodSet(mi.X.Type()).Lookup(cc.Method.Pkg(), cc.Method.Name())
				if sel != nil {
					add(g.p.SSA.MethodValue(sel))
					return
				}
			}
			it, ok := recvT.Underlying().(*types.Interface)
			if !ok {
				return
			}
			for _, f := range g.impls(it, recvT, cc.Method) {
				add(f)
			}
		} else if f := cc.StaticCallee(); f != nil {
			add(f)
		} else if fv := fieldOfLoad(cc.Value); fv != nil {
			// call through a function-valued struct field: every function stored into that field anywhere in istio
			for _, f := range g.funcsStoredTo(fv) {
				add(f)
			}
		}
	}
}

// funcsStoredTo: field-based resolution of function-valued struct fields (composite literals and assignments).
func (g *CG) funcsStoredTo(fv *types.Var) []*ssa.Function {
	if g.fieldFuncs == nil {
		g.fieldFuncs = map[*types.Var][]*ssa.Function{}
		for _, fn := range g.p.AllFuncs {
			for _, b := range fn.Blocks {
				for _, ins := range b.Instrs {
					st, ok := ins.(*ssa.Store)
					if !ok {
						continue
					}
					fa, ok := st.Addr.(*ssa.FieldAddr)
					if !ok {
						continue
					}
					if _, isSig := st.Val.Type().Underlying().(*types.Signature); !isSig {
						continue
					}
					v := st.Val
					if ct, ok := v.(*ssa.ChangeType); ok {
						v = ct.X
					}
					var f *ssa.Function
					switch x := v.(type) {
					case *ssa.Function:
						f = x
					case *ssa.MakeClosure:
						f, _ = x.Fn.(*ssa.Function)
					}
					if f != nil {
						k := fieldVar(fa.X.Type(), fa.Field)
						g.fieldFuncs[k] = append(g.fieldFuncs[k], f)
					}
				}
			}
		}
	}
	return g.fieldFuncs[fv]
}

// ReachLive is Reach with per-function block liveness: live(f) returns the set of live blocks of f, or nil for all.
func (g *CG) ReachLive(entries []*ssa.Function, stop func(*ssa.Function) bool, live func(*ssa.Function) map[*ssa.BasicBlock]bool) map[*ssa.Function]*ssa.Function {
	parent := map[*ssa.Function]*ssa.Function{}
	var q []*ssa.Function
	for _, e := range entries {
		if e == nil {
			continue
		}
		if _, ok := parent[e]; !ok {
			parent[e] = nil
			q = append(q, e)
		}
	}
	for len(q) > 0 {
		f := q[0]
		q = q[1:]
		var cs []*ssa.Function
		if lb := live(f); lb == nil {
			cs = g.Callees(f)
		} else {
			set := map[*ssa.Function]bool{}
			for _, b := range f.Blocks {
				if lb[b] {
					g.blockCallees(b, set)
				}
			}
			for c := range set {
				cs = append(cs, c)
			}
			sort.Slice(cs, func(i, j int) bool { return fnKey(cs[i]) < fnKey(cs[j]) })
		}
		for _, c := range cs {
			if _, ok := parent[c]; ok {
				continue
			}
			if stop != nil && stop(c) {
				continue
			}
			parent[c] = f
			q = append(q, c)
		}
	}
	return parent
}

// Reach computes the functions reachable from entries; the map value is the BFS parent (nil for entries).
// stop(f) == true makes f a boundary: it is not entered.
func (g *CG) Reach(entries []*ssa.Function, stop func(*ssa.Function) bool) map[*ssa.Function]*ssa.Function {
	parent := map[*ssa.Function]*ssa.Function{}
	var q []*ssa.Function
	for _, e := range entries {
		if e == nil {
			continue
		}
		if _, ok := parent[e]; !ok {
			parent[e] = nil
			q = append(q, e)
		}
	}
	for len(q) > 0 {
		f := q[0]
		q = q[1:]
		for _, c := range g.Callees(f) {
			if _, ok := parent[c]; ok {
				continue
			}
			if stop != nil && stop(c) {
				continue
			}
			parent[c] = f
			q = append(q, c)
		}
	}
	return parent
}

func pathTo(parent map[*ssa.Function]*ssa.Function, f *ssa.Function) string {
	var parts []string
	for g := f; g != nil; g = parent[g] {
		parts = append(parts, shortFn(g))
		if len(parts) > 12 {
			parts = append(parts, "...")
			break
		}
	}
	for i, j := 0, len(parts)-1; i < j; i, j = i+1, j-1 {
		parts[i], parts[j] = parts[j], parts[i]
	}
	return strings.Join(parts, " -> ")
}

func shortFn(f *ssa.Function) string {
	s := f.String()
	s = strings.ReplaceAll(s, istioMod+"/", "")
	return s
}

// extractedFrom: fn is not in a frozen who-may table itself, but it is a helper extracted from a listed function: it is
// unexported, not used as a value, has at least one call site, and every call site lies in a listed function (or in such
// a helper, one more level). Returns the listed function it belongs to. The reason frozen for the listed function covers
// the code that was moved out of it; anything reachable from elsewhere is NOT covered.
func (p *Prog) extractedFrom(fn *ssa.Function, listed func(*ssa.Function) bool, depth int) *ssa.Function {
	root := fn
	for root.Parent() != nil {
		root = root.Parent()
	}
	if listed(root) {
		return root
	}
	if depth == 0 || root.Object() == nil || root.Object().Exported() {
		return nil
	}
	sites := p.staticCallers()[root]
	if len(sites) == 0 {
		return nil
	}
	// used as a value anywhere?
	if p.addrTakenMemo == nil {
		p.addrTakenMemo = map[*ssa.Function]bool{}
		for _, f := range p.AllFuncs {
			if !isIstioFunc(f) {
				continue
			}
			eachInstr(f, func(ins ssa.Instruction) {
				var callee ssa.Value
				if ci, ok := ins.(ssa.CallInstruction); ok {
					callee = ci.Common().Value
				}
				for _, op := range ins.Operands(nil) {
					if op == nil || *op == nil {
						continue
					}
					if g, ok := (*op).(*ssa.Function); ok && *op != callee {
						p.addrTakenMemo[g] = true
					}
				}
			})
		}
	}
	if p.addrTakenMemo[root] {
		return nil
	}
	var owner *ssa.Function
	for _, cs := range sites {
		par := cs.Parent()
		if strings.HasSuffix(p.Fset.Position(par.Pos()).Filename, "_test.go") {
			continue
		}
		o := p.extractedFrom(par, listed, depth-1)
		if o == nil {
			return nil
		}
		owner = o
	}
	return owner
}
