package main

import (
	"fmt"
	"go/token"
	"go/types"
	"sort"
	"strings"

	"golang.org/x/tools/go/ssa"
)

const pkgEndpoints = "pilot/pkg/xds/endpoints"
const pkgRoute = "pilot/pkg/networking/core/route"

func init() {
	register(&PropDef{
		ID: "C06",
		Clauses: []string{
			"R1 every field of every XdsCacheEntry key struct is read by its Key() (frozen exceptions: derived 'convenience' fields), and each primary-key field's contribution is unconditional or conditioned only on the field itself",
			"R2 proxy attributes read by cached generation (EDS load assignment, cluster build) are read by the key construction",
			"R3 DependentConfigs() of each entry reads every config-valued key field",
			"R4 lruCache state is touched only under mu (write lock for LRU-mutating calls incl. Get); Clear/ClearAll advance the token on every path; Add inserts only after both staleness comparisons",
			"R6 the key is final at lookup: after a generator consults the cache with an entry, nothing on the way to the insertion writes a field of that entry that its Key() hashes (lookup and insertion use one key)",
			"R7 the deferred (Flush) clean-up of the dependency index consults the store for the key on every path before it removes an index entry (an entry re-added since the eviction keeps its index)",
			"R8 every mutation of an endpoint shard is followed by the cache clear for that service on every path (the push-type decision is not a proxy for 'nothing observable changed': the shard is written in every case)",
			"R9 Proxy.LastPushTime - the time stamp a connection's cache writes carry and lruCache.Add compares with the invalidation token - is only ever assigned PushRequest.Start: a clock reading taken after the snapshot pointer was captured would let a writer holding an older snapshot pass the stale-writer check",
			"R5 invalidate before publish: dropCacheForRequest precedes SetPushContext; the Address-kind ClearAll precedes the hand-off to the push channel; XdsCacheImpl.Clear clears every typed cache",
		},
		NotDecided: "byte equality with a fresh generation; completeness of what a conditional hash contribution depends on; interleavings beyond lock/order structure; that the liveness re-validation of the index clean-up computes the right difference",
		Rules: []Rule{
			{"C06-R1", "key covers every field", c06r1},
			{"C06-R2", "generation reads of proxy attributes are keyed", c06r2},
			{"C06-R3", "dependent configs cover config-valued key fields", c06r3},
			{"C06-R4", "cache lock and token discipline", c06r4},
			{"C06-R5", "invalidate before publish", c06r5},
			{"C06-R6", "the key is complete when the cache is consulted", c06r6},
			{"C06-R7", "deferred index clean-up re-validates liveness", c06r7},
			{"C06-R8", "the endpoint cache is cleared with every shard mutation (shared with C13-R3)", c13r3},
			{"C06-R9", "a proxy's cache-write time stamp is the start time of a push request", c06r9},
		},
	})
}

type cacheEntrySpec struct {
	pkg, typ string
	keyFn    string            // method computing the hash
	except   map[string]string // field -> reason it need not be hashed
	selfOnly bool              // apply the "unconditional or self-conditioned" sub-rule
	proxyGated map[string]string // fields whose contribution may be conditioned on another named field (frozen)
}

var cacheEntries = []cacheEntrySpec{
	{pkg: pkgCore, typ: "clusterCache", keyFn: "Key", except: map[string]string{}, selfOnly: true},
	{pkg: pkgRoute, typ: "Cache", keyFn: "Key", except: map[string]string{
		"ListenerPort": "determined by RouteName (the route name is the port or host:port); only used by Cacheable()"}, selfOnly: true},
	{pkg: pkgEndpoints, typ: "EndpointBuilder", keyFn: "WriteHash", except: map[string]string{
		"subsetName": "parsed from clusterName", "subsetLabels": "function of subsetName + destinationRule (hashed)", "hostname": "parsed from clusterName",
		"port": "parsed from clusterName (hashed explicitly for the self-discovery cluster)", "push": "snapshot handle; staleness is handled by the cache token",
		"dir": "parsed from clusterName", "serviceInfo": "ambient service info looked up from service (hashed by identity)",
		"mtlsChecker": "derived from push/destinationRule/service", "canonicalServiceForMeshExternal": "function of service",
		"supportsUnhealthyEndpoints": "function of service", "proxy": "individual attributes are hashed (see R2)", "isSelfDiscoveryCluster": "function of clusterName",
	}, selfOnly: true},
	{pkg: pkgXds, typ: "SecretResource", keyFn: "Key", except: map[string]string{}},
}

func c06r1(c *Ctx) {
	p := c.P
	// discovery: every istio named type implementing model.XdsCacheEntry must be in the table
	iface := p.Named(pkgModel, "XdsCacheEntry").Underlying().(*types.Interface)
	known := map[string]bool{}
	for _, e := range cacheEntries {
		known[istioMod+"/"+e.pkg+"."+e.typ] = true
	}
	nImpl := 0
	for _, nt := range p.CG().named {
		if !types.Implements(nt, iface) && !types.Implements(types.NewPointer(nt), iface) {
			continue
		}
		if strings.HasSuffix(p.Fset.Position(nt.Obj().Pos()).Filename, "_test.go") || strings.Contains(pkgPathOf(nt.Obj()), "/test") {
			continue
		}
		nImpl++
		k := pkgPathOf(nt.Obj()) + "." + nt.Obj().Name()
		c.Check("cache entry type known:"+strings.TrimPrefix(k, istioMod+"/"), nt.Obj().Pos(), known[k], "a type implements XdsCacheEntry but is not covered by the key-completeness table of this check")
	}
	for _, e := range cacheEntries {
		st := p.Struct(e.pkg, e.typ)
		fn := p.Func(e.pkg, e.typ, e.keyFn)
		reach := p.CG().Reach([]*ssa.Function{fn}, nil)
		eff := effectsOf(reach)
		for _, f := range fieldsOf(st) {
			if _, ok := e.except[f.Name()]; ok {
				continue
			}
			_, read := eff.Reads[f]
			if !read && f.Embedded() {
				// embedded struct: all of its fields must be read
				if es := structOf(f.Type()); es != nil {
					read = true
					for _, ef := range fieldsOf(es) {
						if _, r := eff.Reads[ef]; !r {
							read = false
						}
					}
				}
			}
			c.Check(e.typ+"."+f.Name()+" hashed", f.Pos(), read, "field of cache entry "+e.typ+" is not read by "+e.keyFn+"(): two entries that differ only in it share a cached resource (the architecture doc's CVE class)")
		}
		if !e.selfOnly {
			continue
		}
		// unconditional-or-self-conditioned contribution
		recv := fn.Params[0]
		for _, f := range fieldsOf(st) {
			if _, ok := e.except[f.Name()]; ok {
				continue
			}
			var pos token.Pos = fn.Pos()
			nsites := 0
			sites := map[ssa.Instruction]bool{}
			eachInstr(fn, func(ins ssa.Instruction) {
				var base ssa.Value
				var fv *types.Var
				switch x := ins.(type) {
				case *ssa.FieldAddr:
					base, fv = x.X, fieldVar(x.X.Type(), x.Field)
				case *ssa.Field:
					base, fv = x.X, fieldVar(x.X.Type(), x.Field)
				default:
					return
				}
				if fv != f || base != ssa.Value(recv) {
					return
				}
				nsites++
				pos = ins.Pos()
				sites[ins] = true
			})
			// the contribution is made on every path to a return, except for paths that leave through a condition
			// about the field itself / the receiver (nil receiver, empty field, loop over the field) on the edge
			// that leads away from the contribution
			isSite := func(ins ssa.Instruction) bool { return sites[ins] }
			reachesSite := func(b *ssa.BasicBlock) bool {
				seenB := map[*ssa.BasicBlock]bool{b: true}
				st := []*ssa.BasicBlock{b}
				for len(st) > 0 {
					cur := st[len(st)-1]
					st = st[:len(st)-1]
					for _, ins := range cur.Instrs {
						if sites[ins] {
							return true
						}
					}
					for _, su := range cur.Succs {
						if !seenB[su] {
							seenB[su] = true
							st = append(st, su)
						}
					}
				}
				return false
			}
			var cut []Edge
			for _, i := range allIfs(fn) {
				self := strings.HasSuffix(i.Block().Comment, ".loop") || condOnlyAbout(i.Cond, recv, f)
				if !self {
					continue
				}
				// a guard of the contribution: one edge leads to it, the other leads away
				r0, r1 := reachesSite(i.Block().Succs[0]), reachesSite(i.Block().Succs[1])
				if r0 && !r1 {
					cut = append(cut, Edge{i.Block(), 1})
				}
				if r1 && !r0 {
					cut = append(cut, Edge{i.Block(), 0})
				}
			}
			_, found := pathAvoidingE(fn.Blocks[0], nil, isSite, isReturn, cut, nil)
			okSite := !found
			if nsites == 0 {
				continue // read in a callee; covered by the set rule
			}
			c.Check(e.typ+"."+f.Name()+" contributes unconditionally", pos, okSite, "the key contribution of "+e.typ+"."+f.Name()+" is made only under a condition on something other than the field itself: whether two proxies share an entry now depends on that condition being a complete description of when the field matters")
		}
	}
	c.Check("cache entry implementations found", token.NoPos, nImpl >= 4, "fewer XdsCacheEntry implementations than confirmed by hand")
	c.Floor(50)
}

// condOnlyAbout: the condition is a nil/len/emptiness test of recv.f or of recv itself.
func condOnlyAbout(cond ssa.Value, recv ssa.Value, f *types.Var) bool {
	ok := true
	seen := map[ssa.Value]bool{}
	var walk func(v ssa.Value, d int)
	walk = func(v ssa.Value, d int) {
		if v == nil || seen[v] || d > 8 {
			return
		}
		seen[v] = true
		switch x := v.(type) {
		case *ssa.Const:
		case *ssa.BinOp:
			walk(x.X, d+1)
			walk(x.Y, d+1)
		case *ssa.UnOp:
			if x.Op == token.MUL {
				if fa, isFA := x.X.(*ssa.FieldAddr); isFA {
					if fa.X == recv && fieldVar(fa.X.Type(), fa.Field) == f {
						return
					}
					ok = false
					return
				}
			}
			walk(x.X, d+1)
		case *ssa.Field:
			if x.X == recv && fieldVar(x.X.Type(), x.Field) == f {
				return
			}
			ok = false
		case *ssa.Call:
			if bi, isB := x.Call.Value.(*ssa.Builtin); isB && bi.Name() == "len" {
				walk(x.Call.Args[0], d+1)
				return
			}
			ok = false
		case *ssa.Parameter:
			if v != recv {
				ok = false
			}
		case *ssa.Phi:
			for _, e := range x.Edges {
				walk(e, d+1)
			}
		default:
			ok = false
		}
	}
	walk(cond, 0)
	return ok
}

func c06r2(c *Ctx) {
	p := c.P
	proxyT := p.Struct(pkgModel, "Proxy")
	metaT := structOf(p.Field(pkgModel, "Proxy", "Metadata").Type())
	if metaT == nil {
		anchorFail("Proxy.Metadata is not a struct pointer")
	}
	isProxyAttr := map[*types.Var]string{}
	for _, f := range fieldsOf(proxyT) {
		isProxyAttr[f] = "Proxy." + f.Name()
	}
	for _, f := range fieldsOf(metaT) {
		isProxyAttr[f] = "NodeMetadata." + f.Name()
	}
	// (a) EDS: cached generation = BuildClusterLoadAssignment; key construction = NewCDSEndpointBuilder + WriteHash
	gen := p.CG().Reach([]*ssa.Function{p.Func(pkgEndpoints, "EndpointBuilder", "BuildClusterLoadAssignment")}, nil)
	key := p.CG().Reach([]*ssa.Function{p.Func(pkgEndpoints, "", "NewCDSEndpointBuilder"), p.Func(pkgEndpoints, "EndpointBuilder", "WriteHash")}, nil)
	ge, ke := effectsOf(gen), effectsOf(key)
	// frozen exceptions (one reason each)
	edsExcept := map[string]string{
		"Proxy.RWMutex":       "lock, not an attribute",
		"Proxy.Metadata":      "container; individual NodeMetadata fields are checked",
		"Proxy.ID":            "logging only",
		"Proxy.SidecarScope":  "scope identity is captured by destinationRule/service/AuthnPolicies version in the key",
		"Proxy.Type":          "hashed as nodeType",
		"Proxy.Labels":        "self-discovery labels hashed explicitly; locality labels captured by locality/failoverPriorityLabels",
		"Proxy.XdsNode":       "locality fallback source, captured by the locality key field",
	}
	pending := map[string]string{}
	n := 0
	var names []string
	for f, nm := range isProxyAttr {
		if _, ok := ge.Reads[f]; ok {
			names = append(names, nm)
		}
		_ = f
	}
	sort.Strings(names)
	c.Infof("EDS cached generation reads proxy attributes: %v", names)
	for f, nm := range isProxyAttr {
		acc, read := ge.Reads[f]
		if !read {
			continue
		}
		if _, ex := edsExcept[nm]; ex {
			continue
		}
		n++
		_, keyed := ke.Reads[f]
		det := ""
		if !keyed {
			det = fmt.Sprintf("cached EDS generation reads %s (%s, via %s) but neither NewCDSEndpointBuilder nor WriteHash reads it: proxies differing only in it share a cached ClusterLoadAssignment", nm, p.pos(acc.Pos), pathTo(gen, acc.Fn))
		}
		if _, p := pending["EDS:"+nm]; p && !keyed {
			c.Infof("PENDING-TRIAGE EDS:%s keyed: %s", nm, det)
			continue
		}
		c.Check("EDS:"+nm+" keyed", acc.Pos, keyed, det)
	}
	// (b) CDS: ClusterBuilder fields read in the cached sub-graph must be read by buildClusterKey (the comment on
	// ClusterBuilder states this rule in prose)
	cbT := p.Struct(pkgCore, "ClusterBuilder")
	cbField := map[*types.Var]bool{}
	for _, f := range fieldsOf(cbT) {
		cbField[f] = true
	}
	cachedEntries := []*ssa.Function{
		p.Func(pkgCore, "ClusterBuilder", "buildCluster"),
		p.Func(pkgCore, "ClusterBuilder", "applyDestinationRule"),
	}
	cgen := p.CG().Reach(cachedEntries, nil)
	ckey := p.CG().Reach([]*ssa.Function{p.Func(pkgCore, "", "buildClusterKey")}, nil)
	cge, cke := effectsOf(cgen), effectsOf(ckey)
	cdsExcept := map[string]string{
		"req":     "request handle (Push snapshot; staleness handled by the cache token)",
		"cache":   "the cache itself",
		"proxyID": "used only for log/metric text in the cached path (confirmed by findings/C06-S3: no byte difference)",
	}
	var cnames []string
	for f := range cbField {
		if _, ok := cge.Reads[f]; ok {
			cnames = append(cnames, f.Name())
		}
	}
	sort.Strings(cnames)
	c.Infof("CDS cached sub-graph reads ClusterBuilder fields: %v", cnames)
	for f := range cbField {
		acc, read := cge.Reads[f]
		if !read {
			continue
		}
		if _, ex := cdsExcept[f.Name()]; ex {
			continue
		}
		n++
		_, keyed := cke.Reads[f]
		det := ""
		if !keyed {
			det = fmt.Sprintf("the cached cluster build reads ClusterBuilder.%s (%s, via %s) but buildClusterKey does not: the comment on ClusterBuilder requires every field used in the cached path to be part of the key", f.Name(), p.pos(acc.Pos), pathTo(cgen, acc.Fn))
		}
		if _, p := pending["CDS:ClusterBuilder."+f.Name()]; p && !keyed {
			c.Infof("PENDING-TRIAGE CDS:ClusterBuilder.%s keyed: %s", f.Name(), det)
			continue
		}
		c.Check("CDS:ClusterBuilder."+f.Name()+" keyed", acc.Pos, keyed, det)
	}
	// (c) RDS: key construction and generation share one function, so the key side is taken by value flow: every proxy
	// attribute that reaches a field of the route.Cache literal (directly, or inside a module function the proxy is
	// handed to on the way) is keyed; the generation side is everything reachable from the function that builds and
	// caches the RouteConfiguration.
	rgenFn := p.Func(pkgCore, "ConfigGeneratorImpl", "buildSidecarOutboundHTTPRouteConfig")
	rkeyFn := p.Func(pkgCore, "", "BuildSidecarOutboundVirtualHosts")
	// the cached RDS is the sidecar outbound one: specialise to sidecar proxies, and do not walk into the cache
	// (Add/Get reach every other entry's Key() through the interface)
	noEW := false
	sidecar := newSpec(p, "SidecarProxy", &noEW, "")
	stopAtCache := func(f *ssa.Function) bool {
		if f.Signature.Recv() == nil {
			return false
		}
		t := f.Signature.Recv().Type()
		if pt, ok := t.(*types.Pointer); ok {
			t = pt.Elem()
		}
		n, ok := t.(*types.Named)
		return ok && n.Obj().Pkg() != nil && n.Obj().Pkg().Path() == istioMod+"/"+pkgModel && strings.Contains(n.Obj().Name(), "Cache")
	}
	rgen := p.CG().ReachLive([]*ssa.Function{rgenFn}, stopAtCache, sidecar.live)
	rge := effectsOfLive(rgen, sidecar.live)
	cacheT := p.Struct(pkgRoute, "Cache")
	keyed := map[*types.Var]bool{}
	seenV := map[ssa.Value]bool{}
	var back func(v ssa.Value, d int)
	back = func(v ssa.Value, d int) {
		if v == nil || seenV[v] || d > 10 {
			return
		}
		seenV[v] = true
		if f := fieldOfLoad(v); f != nil {
			keyed[f] = true
		}
		switch x := v.(type) {
		case *ssa.UnOp:
			back(x.X, d+1)
		case *ssa.FieldAddr:
			keyed[fieldVar(x.X.Type(), x.Field)] = true
			back(x.X, d+1)
		case *ssa.Field:
			keyed[fieldVar(x.X.Type(), x.Field)] = true
			back(x.X, d+1)
		case *ssa.Convert:
			back(x.X, d+1)
		case *ssa.ChangeType:
			back(x.X, d+1)
		case *ssa.BinOp:
			back(x.X, d+1)
			back(x.Y, d+1)
		case *ssa.Phi:
			for _, e := range x.Edges {
				back(e, d+1)
			}
		case *ssa.Extract:
			back(x.Tuple, d+1)
		case *ssa.Alloc:
			// a local (struct) variable: whatever was stored into it
			for _, r := range *x.Referrers() {
				if st, ok := r.(*ssa.Store); ok && st.Addr == ssa.Value(x) {
					back(st.Val, d+1)
				}
			}
		case *ssa.Call:
			for _, a := range x.Call.Args {
				back(a, d+1)
			}
			if sc := x.Call.StaticCallee(); sc != nil && isIstioFunc(sc) {
				for f := range effectsOf(p.CG().Reach([]*ssa.Function{sc}, nil)).Reads {
					keyed[f] = true
				}
			}
		}
	}
	nKeyStores := 0
	eachInstr(rkeyFn, func(ins ssa.Instruction) {
		st, ok := ins.(*ssa.Store)
		if !ok {
			return
		}
		fa, ok := st.Addr.(*ssa.FieldAddr)
		if !ok || structOf(fa.X.Type()) != cacheT {
			return
		}
		nKeyStores++
		back(st.Val, 0)
	})
	c.Check("RDS: the route cache entry is built in BuildSidecarOutboundVirtualHosts", rkeyFn.Pos(), nKeyStores >= 8, fmt.Sprintf("%d stores into route.Cache fields found", nKeyStores))
	rdsExcept := map[string]string{
		"Proxy.RWMutex":            "lock, not an attribute",
		"Proxy.Metadata":           "container; individual NodeMetadata fields are checked",
		"Proxy.ID":                 "metric / log text only",
		"Proxy.SidecarScope":       "the scope's contribution is keyed by value: Services, VirtualServices, DestinationRules of the egress listener are key fields",
		"Proxy.Labels":             "read for sourceLabels matching only; an entry whose VirtualServices carry a source match is not Cacheable()",
		"Proxy.ConfigNamespace":    "read for sourceNamespace matching (not Cacheable()) and for same-namespace tie-breaks between the listener's services, which are key fields",
		"NodeMetadata.Namespace":   "same as Proxy.ConfigNamespace",
		"NodeMetadata.Generator":   "IsProxylessGrpc via SidecarIgnorePort: proxyless gRPC clients are served by grpcgen, which calls BuildSidecarOutboundVirtualHosts with the disabled cache; proxies that reach the cached path have no generator",
		"NodeMetadata.Network":     "read by waypointKeyForProxy behind opts.LookupDestinationCluster, which only the waypoint listener builder binds (field-based function-value resolution over-approximates); sidecar RDS never calls it",
		"Proxy.ServiceTargets":     "same path as NodeMetadata.Network (waypoint only)",
		"Proxy.MergedGateway":      "EnvoyFilter route patching reads it for the GATEWAY patch context only; nil for sidecars (same exemption as C01-R4)",
	}
	var rnames []string
	for f, nm := range isProxyAttr {
		if _, ok := rge.Reads[f]; ok {
			rnames = append(rnames, nm)
		}
	}
	sort.Strings(rnames)
	c.Infof("RDS cached generation reads proxy attributes: %v", rnames)
	for f, nm := range isProxyAttr {
		acc, read := rge.Reads[f]
		if !read {
			continue
		}
		if _, ex := rdsExcept[nm]; ex {
			continue
		}
		n++
		det := ""
		if !keyed[f] {
			det = fmt.Sprintf("the cached sidecar RDS generation reads %s (%s, via %s) but nothing derived from it reaches a field of route.Cache: proxies that differ only in it share a cached RouteConfiguration", nm, p.pos(acc.Pos), pathTo(rgen, acc.Fn))
		}
		c.Check("RDS:"+nm+" keyed", acc.Pos, keyed[f], det)
	}
	c.Floor(8)
}

func c06r3(c *Ctx) {
	p := c.P
	// config-valued key fields per entry type and the reason they must be in DependentConfigs
	specs := []struct {
		pkg, typ string
		fields   []string
	}{
		{pkgCore, "clusterCache", []string{"service", "destinationRule", "envoyFilterKeys"}},
		{pkgRoute, "Cache", []string{"Services", "VirtualServices", "DestinationRules", "EnvoyFilterKeys"}},
		{pkgEndpoints, "EndpointBuilder", []string{"service", "destinationRule"}},
	}
	for _, s := range specs {
		fn := p.Func(s.pkg, s.typ, "DependentConfigs")
		eff := effectsOf(p.CG().Reach([]*ssa.Function{fn}, nil))
		for _, f := range s.fields {
			fv := p.Field(s.pkg, s.typ, f)
			_, read := eff.Reads[fv]
			c.Check(s.typ+".DependentConfigs reads "+f, fn.Pos(), read, "DependentConfigs() of "+s.typ+" ignores "+f+": a change of those configs does not evict the entries built from them (targeted Clear misses them)")
		}
	}
	c.Floor(9)
}

func c06r4(c *Ctx) {
	p := c.P
	lru := p.Named(pkgModel, "lruCache")
	checkGuards(c, GuardSpec{
		Name: "lruCache", Struct: lru, Guard: "mu",
		Fields: map[string]bool{"store": true, "token": true, "configIndex": true, "evictQueue": true, "evictedOnClear": true},
		// hashicorp simplelru is not concurrency safe and Get reorders the recency list: all of these mutate
		WriteCalls: map[string][]string{"store": {"Get", "Add", "Remove", "Purge", "RemoveOldest", "Resize", "ContainsOrAdd", "PeekOrAdd"}},
		Locked: map[string]int{
			"(*pilot/pkg/model.lruCache[K]).updateConfigIndex":          modeW,
			"(*pilot/pkg/model.lruCache[K]).clearConfigIndex":           modeW,
			"(*pilot/pkg/model.lruCache[K]).onEvict":                    modeW,
			"(*pilot/pkg/model.lruCache[K]).recordDependentConfigSize": modeR,
		},
		Exempt: map[string]string{"pilot/pkg/model.newTypedXdsCache[K]": "constructor"},
	})
	// onEvict is only ever invoked by the LRU (callback) which runs inside store.Add/Remove under the lock:
	// who-may-reference it = the constructor(s) handing it to newLru.
	// token discipline
	tokenF := p.Field(pkgModel, "lruCache", "token")
	isTokenStore := func(ins ssa.Instruction) bool {
		s, ok := ins.(*ssa.Store)
		if !ok {
			return false
		}
		fa, ok := s.Addr.(*ssa.FieldAddr)
		return ok && fieldVar(fa.X.Type(), fa.Field) == tokenF
	}
	for _, m := range []string{"Clear", "ClearAll"} {
		fn := p.Func(pkgModel, "lruCache", m)
		bad := pathAvoiding(fn, nil, isTokenStore, isReturn)
		c.Check("lruCache."+m+" advances token on every path", fn.Pos(), bad == nil, "an invalidation can complete without advancing the cache token: a writer that started before the invalidation (its entry may be absent, so nothing was evicted) is no longer rejected by Add and re-inserts a resource built from the older state")
		// the new token is the current time, not derived from entries
		eachInstr(fn, func(ins ssa.Instruction) {
			if !isTokenStore(ins) {
				return
			}
			s := ins.(*ssa.Store)
			fromNow := false
			var walk func(v ssa.Value, d int)
			walk = func(v ssa.Value, d int) {
				if d > 5 {
					return
				}
				switch x := v.(type) {
				case *ssa.Convert:
					walk(x.X, d+1)
				case *ssa.ChangeType:
					walk(x.X, d+1)
				case *ssa.Call:
					if o := calleeObj(x); o != nil && (o.Name() == "UnixNano" || o.Name() == "Now") {
						fromNow = true
					}
					for _, a := range x.Call.Args {
						walk(a, d+1)
					}
				}
			}
			walk(s.Val, 0)
			c.Check("lruCache."+m+" token is the invalidation time", s.Pos(), fromNow, "the token stored by an invalidation is not the current time")
		})
	}
	// Add: insertion only after both comparisons
	add := p.Func(pkgModel, "lruCache", "Add")
	cvToken := p.Field(pkgModel, "cacheValue", "token")
	var storeAdd ssa.Instruction
	eachInstr(add, func(ins ssa.Instruction) {
		ci, ok := ins.(ssa.CallInstruction)
		if !ok || !ci.Common().IsInvoke() || ci.Common().Method.Name() != "Add" {
			return
		}
		if fv := fieldOfLoad(ci.Common().Value); fv != nil && fv.Name() == "store" {
			storeAdd = ins
		}
	})
	if storeAdd == nil {
		c.Check("lruCache.Add inserts into store", add.Pos(), false, "no store.Add call found")
		return
	}
	// edges on which the writer is known fresh with respect to field `fld`
	freshEdges := func(fld *types.Var, strict bool) []Edge {
		var out []Edge
		for _, i := range allIfs(add) {
			b, ok := i.Cond.(*ssa.BinOp)
			if !ok {
				continue
			}
			isFld := func(v ssa.Value) bool { return fieldOfLoad(v) == fld }
			op := b.Op
			switch {
			case isFld(b.Y) && !isFld(b.X):
			case isFld(b.X) && !isFld(b.Y):
				// swap: field OP local  ==  local OP' field
				switch op {
				case token.LSS:
					op = token.GTR
				case token.GTR:
					op = token.LSS
				case token.LEQ:
					op = token.GEQ
				case token.GEQ:
					op = token.LEQ
				}
			default:
				continue
			}
			// local OP field
			switch op {
			case token.LSS: // stale if local < field ; fresh (>=) on false edge
				if !strict {
					out = append(out, Edge{i.Block(), 1})
				}
			case token.LEQ: // stale-or-same if local <= field ; strictly newer on false edge
				out = append(out, Edge{i.Block(), 1})
			case token.GEQ:
				if !strict {
					out = append(out, Edge{i.Block(), 0})
				}
			case token.GTR:
				out = append(out, Edge{i.Block(), 0})
			}
		}
		return out
	}
	cacheFresh := freshEdges(tokenF, false)
	c.Check("lruCache.Add compares against the cache token", add.Pos(), len(cacheFresh) >= 1, "no comparison of the writer's token with l.token")
	c.Check("lruCache.Add inserts only if not older than the last invalidation", storeAdd.Pos(), underEdges(add, storeAdd.Block(), cacheFresh),
		"store.Add is reachable without passing `token >= l.token`: a resource generated before the last Clear/ClearAll is inserted after it")
	entryFresh := freshEdges(cvToken, true)
	// "not found" edges of the store.Get lookup
	var notFound []Edge
	for _, i := range allIfs(add) {
		if ex, ok := i.Cond.(*ssa.Extract); ok && ex.Index == 1 {
			if call, ok := ex.Tuple.(*ssa.Call); ok && call.Call.IsInvoke() && call.Call.Method.Name() == "Get" {
				notFound = append(notFound, Edge{i.Block(), 1})
			}
		}
	}
	c.Check("lruCache.Add compares against the existing entry's token", add.Pos(), len(entryFresh) >= 1 && len(notFound) >= 1, "no comparison of the writer's token with the existing entry's token")
	c.Check("lruCache.Add never replaces a newer or same-age entry", storeAdd.Pos(), underEdges(add, storeAdd.Block(), append(append([]Edge{}, entryFresh...), notFound...)),
		"store.Add is reachable when an entry exists whose token is not older than the writer's: an older push overwrites a newer push's resource")
	c.Floor(30)
}

func c06r5(c *Ctx) {
	p := c.P
	// initPushContext: drop cache before publishing the snapshot
	ipc := p.Func(pkgXds, "DiscoveryServer", "initPushContext")
	drop := p.FuncObj(pkgXds, "DiscoveryServer", "dropCacheForRequest")
	setPC := p.FuncObj(pkgModel, "Environment", "SetPushContext")
	pubs := callsIn(ipc, setPC)
	c.Check("initPushContext publishes the snapshot", ipc.Pos(), len(pubs) == 1, "expected one SetPushContext call")
	for _, pub := range pubs {
		c.Check("initPushContext:dropCacheForRequest before SetPushContext", pub.Pos(), precededOnAllPaths(ipc, pub, func(i ssa.Instruction) bool { return isCallTo(i, drop) }),
			"the new snapshot is published before the response cache is invalidated: a request served between the two caches a resource built from the new snapshot and the invalidation then... or serves an old cached resource for the new snapshot")
	}
	// dropCacheForRequest: every path calls ClearAll or Clear
	dfn := p.Func(pkgXds, "DiscoveryServer", "dropCacheForRequest")
	isClear := func(i ssa.Instruction) bool {
		o := calleeObj(i)
		return o != nil && (o.Name() == "Clear" || o.Name() == "ClearAll")
	}
	c.Check("dropCacheForRequest clears on every path", dfn.Pos(), pathAvoiding(dfn, nil, isClear, isReturn) == nil, "a path through dropCacheForRequest clears nothing")
	// forced => ClearAll
	forced := p.Field(pkgModel, "PushRequest", "Forced")
	fe := edgesWhere(dfn, func(v ssa.Value) bool { return fieldOfLoad(v) == forced }, true)
	okForced := len(fe) == 1
	if okForced {
		_, found := pathAvoidingE(fe[0].To(), nil, func(i ssa.Instruction) bool { o := calleeObj(i); return o != nil && o.Name() == "ClearAll" }, isReturn, nil, nil)
		okForced = !found
	}
	c.Check("dropCacheForRequest: forced push clears everything", dfn.Pos(), okForced, "a forced push (unknown set of changes) does not ClearAll")
	// ConfigUpdate: Address kind => ClearAll before the request is handed to the debouncer
	cu := p.Func(pkgXds, "DiscoveryServer", "ConfigUpdate")
	var send *ssa.Send
	eachInstr(cu, func(i ssa.Instruction) {
		if s, ok := i.(*ssa.Send); ok {
			send = s
		}
	})
	if send == nil {
		c.Check("ConfigUpdate hands the request to the push channel", cu.Pos(), false, "no channel send found")
	} else {
		hasKind := p.FuncObj(pkgModel, "", "HasConfigsOfKind")
		addrVal, _ := constInt(p.Const(istioMod+"/"+pkgKind, "Address"))
		var addrTrue []Edge
		for _, i := range allIfs(cu) {
			call, ok := i.Cond.(*ssa.Call)
			if !ok || !isCallTo(call, hasKind) || len(call.Call.Args) < 2 {
				continue
			}
			if k, ok := call.Call.Args[1].(*ssa.Const); ok && k.Value != nil && k.Int64() == addrVal {
				addrTrue = append(addrTrue, Edge{i.Block(), 0})
				// the test itself precedes the send on every path
				c.Check("ConfigUpdate: Address test precedes the hand-off", send.Pos(), precededOnAllPaths(cu, send, func(x ssa.Instruction) bool { return x == ssa.Instruction(call) }),
					"the request can reach the push channel without the Address-kind test")
			}
		}
		okA := len(addrTrue) == 1
		if okA {
			_, found := pathAvoidingE(addrTrue[0].To(), nil, func(i ssa.Instruction) bool { o := calleeObj(i); return o != nil && o.Name() == "ClearAll" },
				func(i ssa.Instruction) bool { return i == ssa.Instruction(send) }, nil, nil)
			okA = !found
		}
		c.Check("ConfigUpdate: Address change clears the cache before the hand-off", send.Pos(), okA, "an Address-kind update reaches the push channel without ClearAll: address-derived resources are not protected by the dependency index")
	}
	// XdsCacheImpl.Clear / ClearAll touch every typed cache field
	xc := p.Struct(pkgModel, "XdsCacheImpl")
	for _, m := range []string{"Clear", "ClearAll"} {
		fn := p.Func(pkgModel, "XdsCacheImpl", m)
		// value receiver: go/ssa spills it, so use the function's own effect set - and that of the methods of the same
		// type it calls (a branch extracted into a helper method)
		own := []*ssa.Function{fn}
		for _, g := range p.CG().Callees(fn) {
			if funcPkgPath(g) == funcPkgPath(fn) && len(g.Blocks) > 0 && g.Signature.Recv() != nil && strings.Contains(g.Signature.Recv().Type().String(), "XdsCacheImpl") {
				own = append(own, g)
			}
		}
		reads := effectsOfFuncs(own).Reads
		for _, f := range fieldsOf(xc) {
			_, ok := reads[f]
			c.Check("XdsCacheImpl."+m+" covers "+f.Name(), fn.Pos(), ok, "typed cache "+f.Name()+" is not touched by XdsCacheImpl."+m)
			// ... on every path: no condition decides whether a typed cache is invalidated at all (which entries go is
			// decided by the typed cache's own dependency index)
			f := f
			var clearsOnEveryPath func(g *ssa.Function, depth int) bool
			isClearOfFIn := func(depth int) func(i ssa.Instruction) bool {
				return func(i ssa.Instruction) bool {
					call, isCall := i.(*ssa.Call)
					if !isCall {
						return false
					}
					if !call.Call.IsInvoke() {
						// a method of the same type that clears f on every path of its own
						sc := call.Call.StaticCallee()
						return depth < 2 && sc != nil && len(sc.Blocks) > 0 && funcPkgPath(sc) == funcPkgPath(fn) && sc.Signature.Recv() != nil &&
							strings.Contains(sc.Signature.Recv().Type().String(), "XdsCacheImpl") && clearsOnEveryPath(sc, depth+1)
					}
					if n := call.Call.Method.Name(); n != "Clear" && n != "ClearAll" {
						return false
					}
					return fieldOfLoad(call.Call.Value) == f
				}
			}
			clearsOnEveryPath = func(g *ssa.Function, depth int) bool {
				_, found := pathAvoidingE(g.Blocks[0], nil, isClearOfFIn(depth), isReturn, nil, nil)
				return !found
			}
			bad, found := pathAvoidingE(fn.Blocks[0], nil, isClearOfFIn(0), isReturn, nil, nil)
			pos := fn.Pos()
			if found && bad != nil {
				pos = bad.Pos()
			}
			c.Check("XdsCacheImpl."+m+" clears "+f.Name()+" on every path", pos, !found,
				"XdsCacheImpl."+m+" can return without calling Clear / ClearAll on the typed cache "+f.Name()+": whether a kind of change invalidates entries of that cache is decided by the entries' dependency index (SDS entries depend on Secrets and ConfigMaps, CDS entries on services and DestinationRules ...), not by a kind test in front of it; a change of a kind the test forgets leaves entries derived from the old state in the cache, and they are served for newer snapshots")
		}
	}
	c.Floor(20)
}


// keyFieldsOf: the fields of a cache entry struct read (transitively) by its key function.
func keyFieldsOf(p *Prog, e cacheEntrySpec) map[*types.Var]bool {
	st := p.Struct(e.pkg, e.typ)
	fn := p.Func(e.pkg, e.typ, e.keyFn)
	eff := effectsOf(p.CG().Reach([]*ssa.Function{fn}, nil))
	out := map[*types.Var]bool{}
	for _, f := range fieldsOf(st) {
		if _, ok := eff.Reads[f]; ok {
			out[f] = true
		}
	}
	return out
}

func stripIface(v ssa.Value) ssa.Value {
	for {
		switch x := v.(type) {
		case *ssa.MakeInterface:
			v = x.X
		case *ssa.ChangeInterface:
			v = x.X
		default:
			return v
		}
	}
}

func c06r6(c *Ctx) {
	p := c.P
	gen := map[string]bool{istioMod + "/" + pkgCore: true, istioMod + "/" + pkgRoute: true, istioMod + "/" + pkgXds: true, istioMod + "/" + pkgEndpoints: true}
	type ent struct {
		spec cacheEntrySpec
		nt   *types.Named
		keys map[*types.Var]bool
	}
	var ents []ent
	for _, e := range cacheEntries {
		ents = append(ents, ent{e, p.Named(e.pkg, e.typ), keyFieldsOf(p, e)})
	}
	entOf := func(t types.Type) *ent {
		nt, _ := derefNamed(t)
		if nt == nil {
			return nil
		}
		for i := range ents {
			if ents[i].nt.Obj() == nt.Obj() {
				return &ents[i]
			}
		}
		return nil
	}
	n := 0
	for _, fn := range p.AllFuncs {
		if !gen[funcPkgPath(fn)] || strings.HasSuffix(p.Fset.Position(fn.Pos()).Filename, "_test.go") {
			continue
		}
		eachInstr(fn, func(ins ssa.Instruction) {
			ci, ok := ins.(ssa.CallInstruction)
			if !ok {
				return
			}
			cc := ci.Common()
			name := ""
			if cc.IsInvoke() {
				name = cc.Method.Name()
			} else if o := calleeObj(ins); o != nil {
				name = o.Name()
			}
			if name != "Get" || len(cc.Args) == 0 {
				return
			}
			// receiver is the xDS cache
			var recvT types.Type
			if cc.IsInvoke() {
				recvT = cc.Value.Type()
			} else if len(cc.Args) > 0 {
				recvT = cc.Args[0].Type()
			}
			rn, _ := derefNamed(recvT)
			if rn == nil || pkgPathOf(rn.Obj()) != istioMod+"/"+pkgModel || !strings.Contains(rn.Obj().Name(), "Cache") {
				return
			}
			arg := cc.Args[len(cc.Args)-1]
			ev := stripIface(arg)
			en := entOf(ev.Type())
			if en == nil {
				return
			}
			n++
			def, _ := ev.(ssa.Instruction)
			// the entry may also be reachable through the variable it was loaded from / its address taken from
			same := func(v ssa.Value) bool {
				v = stripIface(v)
				return v == ev
			}
			var witness string
			goal := func(i ssa.Instruction) bool {
				switch x := i.(type) {
				case *ssa.Store:
					if fa, ok := x.Addr.(*ssa.FieldAddr); ok && same(fa.X) {
						if fv := fieldVar(fa.X.Type(), fa.Field); en.keys[fv] {
							witness = "writes " + en.spec.typ + "." + fv.Name() + " at " + p.pos(x.Pos())
							return true
						}
					}
				case ssa.CallInstruction:
					xc := x.Common()
					passes := false
					for _, a := range xc.Args {
						if same(a) {
							passes = true
						}
					}
					if xc.IsInvoke() && same(xc.Value) {
						passes = true
					}
					if !passes {
						return false
					}
					// the cache itself is a summarised boundary (it only calls Key()/DependentConfigs() on the entry)
					if xc.IsInvoke() {
						if r, _ := derefNamed(xc.Value.Type()); r != nil && pkgPathOf(r.Obj()) == istioMod+"/"+pkgModel && strings.Contains(r.Obj().Name(), "Cache") {
							return false
						}
					}
					set := map[*ssa.Function]bool{}
					p.CG().instrCallees(i, set)
					var roots []*ssa.Function
					for f := range set {
						roots = append(roots, f)
					}
					if len(roots) == 0 {
						return false
					}
					// writes to the entry the caller handed in (not to a fresh entry the callee builds for itself)
					if w := entryWrittenByCall(p, i, same, en.keys, map[string]bool{}, 0); w != "" {
						witness = "calls " + shortFn(roots[0]) + " at " + p.pos(i.Pos()) + ", which writes " + en.spec.typ + "." + w
						return true
					}
				}
				return false
			}
			block := func(i ssa.Instruction) bool { return def != nil && i == def }
			bad := pathAvoiding(fn, ins, block, goal)
			if bad != nil {
				// only matters when the same entry is inserted afterwards (re-keying a copy for further lookups is fine)
				isAdd := func(i ssa.Instruction) bool {
					if r, ok := i.(*ssa.Return); ok {
						// handed back to the caller, which inserts it
						for _, rv := range r.Results {
							if same(rv) {
								return true
							}
						}
						return false
					}
					x, ok := i.(ssa.CallInstruction)
					if !ok {
						return false
					}
					xc := x.Common()
					nm := ""
					if xc.IsInvoke() {
						nm = xc.Method.Name()
					} else if o := calleeObj(i); o != nil {
						nm = o.Name()
					}
					if nm != "Add" {
						return false
					}
					for _, a := range xc.Args {
						if same(a) {
							return true
						}
					}
					return false
				}
				if pathAvoiding(fn, bad, block, isAdd) == nil {
					bad = nil
				}
			}
			c.Check("key final at lookup: "+stableFnName(fn)+"|"+en.spec.typ, ins.Pos(), bad == nil,
				"after the cache is consulted with this entry the code "+witness+": the lookup used a key without that part while the insertion (and the dependency index) uses the full key, so a resource built for a different value of the field is returned from the cache")
		})
	}
	c.Check("cache lookups with key structs found", token.NoPos, n >= 3, "fewer cache Get sites than confirmed by hand (route, cluster, endpoint)")
	c.Floor(4)
}

func c06r7(c *Ctx) {
	p := c.P
	idxF := p.Field(pkgModel, "lruCache", "configIndex")
	storeF := p.Field(pkgModel, "lruCache", "store")
	flush := p.Func(pkgModel, "lruCache", "Flush")
	reach := p.CG().Reach([]*ssa.Function{flush}, func(f *ssa.Function) bool { return funcPkgPath(f) != istioMod+"/"+pkgModel })
	isRemoval := func(ins ssa.Instruction) bool {
		ci, ok := ins.(ssa.CallInstruction)
		if !ok {
			return false
		}
		cc := ci.Common()
		touches := false
		for _, a := range cc.Args {
			if fieldOfLoad(a) == idxF {
				touches = true
			}
		}
		if !touches {
			return false
		}
		if bi, ok := cc.Value.(*ssa.Builtin); ok {
			return bi.Name() == "delete"
		}
		if o := calleeObj(ins); o != nil {
			return strings.HasPrefix(o.Name(), "Delete")
		}
		return false
	}
	isLookup := func(ins ssa.Instruction) bool {
		ci, ok := ins.(ssa.CallInstruction)
		if !ok {
			return false
		}
		cc := ci.Common()
		var recv ssa.Value
		if cc.IsInvoke() {
			recv = cc.Value
		} else if len(cc.Args) > 0 {
			recv = cc.Args[0]
		}
		if recv == nil || fieldOfLoad(recv) != storeF {
			return false
		}
		name := ""
		if cc.IsInvoke() {
			name = cc.Method.Name()
		} else if o := calleeObj(ins); o != nil {
			name = o.Name()
		}
		return name == "Get" || name == "Peek" || name == "Contains"
	}
	n := 0
	var fns []*ssa.Function
	for f := range reach {
		fns = append(fns, f)
	}
	sort.Slice(fns, func(i, j int) bool { return fnKey(fns[i]) < fnKey(fns[j]) })
	for _, fn := range fns {
		has := false
		eachInstr(fn, func(ins ssa.Instruction) {
			if isRemoval(ins) {
				has = true
			}
		})
		if !has {
			continue
		}
		n++
		bad := pathAvoiding(fn, nil, isLookup, isRemoval)
		pos := fn.Pos()
		if bad != nil {
			pos = bad.Pos()
		}
		c.Check("deferred index removal looks the key up first: "+stableFnName(fn), pos, bad == nil,
			"the clean-up that runs from Flush removes dependency-index entries of a key without asking the store whether the key is live again: a key that was evicted and re-added before the Flush tick loses its index, the next change of the configuration it depends on no longer evicts it, and the stale resource is served indefinitely")
	}
	c.Check("index removal on the Flush path found", flush.Pos(), n >= 1, "no dependency-index removal reachable from Flush")
	c.Floor(2)
}


// entryWrittenByCall: does the call hand a tracked pointer to a callee that (transitively) stores into one of the
// given fields THROUGH that pointer? Returns "field (pos)" of a witness or "".
func entryWrittenByCall(p *Prog, call ssa.Instruction, tracked func(ssa.Value) bool, keys map[*types.Var]bool, seen map[string]bool, depth int) string {
	if depth > 6 {
		return ""
	}
	ci, ok := call.(ssa.CallInstruction)
	if !ok {
		return ""
	}
	cc := ci.Common()
	set := map[*ssa.Function]bool{}
	p.CG().instrCallees(call, set)
	for callee := range set {
		// map actuals to formals
		var idxs []int
		if cc.IsInvoke() {
			if tracked(cc.Value) {
				idxs = append(idxs, 0)
			}
			for k, a := range cc.Args {
				if tracked(a) {
					idxs = append(idxs, k+1)
				}
			}
		} else {
			for k, a := range cc.Args {
				if tracked(a) {
					idxs = append(idxs, k)
				}
			}
		}
		for _, k := range idxs {
			if k >= len(callee.Params) {
				continue
			}
			if w := writtenThrough(p, callee, callee.Params[k], keys, seen, depth+1); w != "" {
				return w
			}
		}
	}
	return ""
}

func writtenThrough(p *Prog, fn *ssa.Function, root ssa.Value, keys map[*types.Var]bool, seen map[string]bool, depth int) string {
	if _, isPtr := root.Type().Underlying().(*types.Pointer); !isPtr {
		if _, isIf := root.Type().Underlying().(*types.Interface); !isIf {
			return "" // passed by value: the callee works on a copy
		}
	}
	key := fnKey(fn) + "#" + root.Name()
	if seen[key] {
		return ""
	}
	seen[key] = true
	der := map[ssa.Value]bool{root: true}
	changed := true
	for changed {
		changed = false
		eachInstr(fn, func(ins ssa.Instruction) {
			v, ok := ins.(ssa.Value)
			if !ok || der[v] {
				return
			}
			switch x := ins.(type) {
			case *ssa.Phi:
				for _, e := range x.Edges {
					if der[e] {
						der[v], changed = true, true
					}
				}
			case *ssa.ChangeType:
				if der[x.X] {
					der[v], changed = true, true
				}
			case *ssa.MakeInterface:
				if der[x.X] {
					der[v], changed = true, true
				}
			case *ssa.ChangeInterface:
				if der[x.X] {
					der[v], changed = true, true
				}
			case *ssa.TypeAssert:
				if der[x.X] {
					der[v], changed = true, true
				}
			case *ssa.FieldAddr:
				// address of an embedded struct inside the entry
				if der[x.X] && structOf(x.Type()) != nil {
					der[v], changed = true, true
				}
			}
		})
	}
	tracked := func(v ssa.Value) bool { return der[v] }
	res := ""
	eachInstr(fn, func(ins ssa.Instruction) {
		if res != "" {
			return
		}
		switch x := ins.(type) {
		case *ssa.Store:
			if fa, ok := x.Addr.(*ssa.FieldAddr); ok && der[fa.X] {
				if fv := fieldVar(fa.X.Type(), fa.Field); keys[fv] {
					res = fv.Name() + " of the entry it was given (" + p.pos(x.Pos()) + ")"
				}
			}
		case ssa.CallInstruction:
			res = entryWrittenByCall(p, ins, tracked, keys, seen, depth)
		}
	})
	return res
}


// C06-R9: provenance of the stale-writer time stamp.
func c06r9(c *Ctx) {
	p := c.P
	lpt := p.Field(pkgModel, "Proxy", "LastPushTime")
	start := p.Field(pkgModel, "PushRequest", "Start")
	n := 0
	for _, fn := range p.AllFuncs {
		if strings.HasSuffix(p.Fset.Position(fn.Pos()).Filename, "_test.go") || strings.Contains(funcPkgPath(fn), "/test") {
			continue
		}
		for _, st := range storesTo(fn, lpt) {
			n++
			var ls []ssa.Value
			phiLeaves(st.Val, map[ssa.Value]bool{}, &ls)
			okAll := true
			for _, l := range ls {
				if fieldOfLoad(l) != start {
					okAll = false
				}
			}
			c.Check("Proxy.LastPushTime is assigned a push request's Start: "+stableFnName(fn), st.Pos(), okAll,
				"Proxy.LastPushTime receives a value other than PushRequest.Start ("+st.Val.String()+"): the responses a connection generates are stamped with it, and the cache accepts a write only if the stamp is not older than the last invalidation. A clock reading taken after the connection captured its snapshot (e.g. at the end of its initialisation) is newer than an invalidation that happened in between, so resources built from the older snapshot are cached and handed to every proxy sharing the key")
		}
	}
	c.Check("assignments of Proxy.LastPushTime found", token.NoPos, n >= 1, "no store to Proxy.LastPushTime found")
	c.Floor(2)
}
