package main

import (
	"fmt"
	"go/token"
	"go/types"
	"sort"
	"strings"

	"golang.org/x/tools/go/ssa"
)

const pkgEndpoints = "pilot/pkg/xds/endpoints"
const pkgRoute = "pilot/pkg/networking/core/route"

func init() {
	register(&PropDef{
		ID: "C06",
		Clauses: []string{
			"R1 every field of every XdsCacheEntry key struct is read by its Key() (frozen exceptions: derived 'convenience' fields), and each primary-key field's contribution is unconditional or conditioned only on the field itself",
			"R2 proxy attributes read by cached generation (EDS load assignment, cluster build) are read by the key construction",
			"R3 DependentConfigs() of each entry reads every config-valued key field",
			"R4 lruCache state is touched only under mu (write lock for LRU-mutating calls incl. Get); Clear/ClearAll advance the token on every path; Add inserts only after both staleness comparisons",
			"R5 invalidate before publish: dropCacheForRequest precedes SetPushContext; the Address-kind ClearAll precedes the hand-off to the push channel; XdsCacheImpl.Clear clears every typed cache",
		},
		NotDecided: "byte equality with a fresh generation; completeness of what a conditional hash contribution depends on; interleavings beyond lock/order structure; LRU eviction index cleanup",
		Rules: []Rule{
			{"C06-R1", "key covers every field", c06r1},
			{"C06-R2", "generation reads of proxy attributes are keyed", c06r2},
			{"C06-R3", "dependent configs cover config-valued key fields", c06r3},
			{"C06-R4", "cache lock and token discipline", c06r4},
			{"C06-R5", "invalidate before publish", c06r5},
		},
	})
}

type cacheEntrySpec struct {
	pkg, typ string
	keyFn    string            // method computing the hash
	except   map[string]string // field -> reason it need not be hashed
	selfOnly bool              // apply the "unconditional or self-conditioned" sub-rule
	proxyGated map[string]string // fields whose contribution may be conditioned on another named field (frozen)
}

var cacheEntries = []cacheEntrySpec{
	{pkg: pkgCore, typ: "clusterCache", keyFn: "Key", except: map[string]string{}, selfOnly: true},
	{pkg: pkgRoute, typ: "Cache", keyFn: "Key", except: map[string]string{
		"ListenerPort": "determined by RouteName (the route name is the port or host:port); only used by Cacheable()"}, selfOnly: true},
	{pkg: pkgEndpoints, typ: "EndpointBuilder", keyFn: "WriteHash", except: map[string]string{
		"subsetName": "parsed from clusterName", "subsetLabels": "function of subsetName + destinationRule (hashed)", "hostname": "parsed from clusterName",
		"port": "parsed from clusterName (hashed explicitly for the self-discovery cluster)", "push": "snapshot handle; staleness is handled by the cache token",
		"dir": "parsed from clusterName", "serviceInfo": "ambient service info looked up from service (hashed by identity)",
		"mtlsChecker": "derived from push/destinationRule/service", "canonicalServiceForMeshExternal": "function of service",
		"supportsUnhealthyEndpoints": "function of service", "proxy": "individual attributes are hashed (see R2)", "isSelfDiscoveryCluster": "function of clusterName",
	}, selfOnly: true},
	{pkg: pkgXds, typ: "SecretResource", keyFn: "Key", except: map[string]string{}},
}

func c06r1(c *Ctx) {
	p := c.P
	// discovery: every istio named type implementing model.XdsCacheEntry must be in the table
	iface := p.Named(pkgModel, "XdsCacheEntry").Underlying().(*types.Interface)
	known := map[string]bool{}
	for _, e := range cacheEntries {
		known[istioMod+"/"+e.pkg+"."+e.typ] = true
	}
	nImpl := 0
	for _, nt := range p.CG().named {
		if !types.Implements(nt, iface) && !types.Implements(types.NewPointer(nt), iface) {
			continue
		}
		if strings.HasSuffix(p.Fset.Position(nt.Obj().Pos()).Filename, "_test.go") || strings.Contains(pkgPathOf(nt.Obj()), "/test") {
			continue
		}
		nImpl++
		k := pkgPathOf(nt.Obj()) + "." + nt.Obj().Name()
		c.Check("cache entry type known:"+strings.TrimPrefix(k, istioMod+"/"), nt.Obj().Pos(), known[k], "a type implements XdsCacheEntry but is not covered by the key-completeness table of this check")
	}
	for _, e := range cacheEntries {
		st := p.Struct(e.pkg, e.typ)
		fn := p.Func(e.pkg, e.typ, e.keyFn)
		reach := p.CG().Reach([]*ssa.Function{fn}, nil)
		eff := effectsOf(reach)
		for _, f := range fieldsOf(st) {
			if _, ok := e.except[f.Name()]; ok {
				continue
			}
			_, read := eff.Reads[f]
			if !read && f.Embedded() {
				// embedded struct: all of its fields must be read
				if es := structOf(f.Type()); es != nil {
					read = true
					for _, ef := range fieldsOf(es) {
						if _, r := eff.Reads[ef]; !r {
							read = false
						}
					}
				}
			}
			c.Check(e.typ+"."+f.Name()+" hashed", f.Pos(), read, "field of cache entry "+e.typ+" is not read by "+e.keyFn+"(): two entries that differ only in it share a cached resource (the architecture doc's CVE class)")
		}
		if !e.selfOnly {
			continue
		}
		// unconditional-or-self-conditioned contribution
		recv := fn.Params[0]
		for _, f := range fieldsOf(st) {
			if _, ok := e.except[f.Name()]; ok {
				continue
			}
			okSite := false
			var pos token.Pos = fn.Pos()
			nsites := 0
			eachInstr(fn, func(ins ssa.Instruction) {
				var base ssa.Value
				var fv *types.Var
				switch x := ins.(type) {
				case *ssa.FieldAddr:
					base, fv = x.X, fieldVar(x.X.Type(), x.Field)
				case *ssa.Field:
					base, fv = x.X, fieldVar(x.X.Type(), x.Field)
				default:
					return
				}
				if fv != f || base != ssa.Value(recv) {
					return
				}
				nsites++
				pos = ins.Pos()
				// all guards of this block test only the field itself or the receiver
				good := true
				for _, i := range allIfs(fn) {
					if strings.HasSuffix(i.Block().Comment, ".loop") {
						continue // loop headers (range/for conditions) are not guards on the contribution
					}
					under := underEdges(fn, ins.Block(), []Edge{{i.Block(), 0}}) || underEdges(fn, ins.Block(), []Edge{{i.Block(), 1}})
					if !under {
						continue
					}
					if !condOnlyAbout(i.Cond, recv, f) {
						good = false
					}
				}
				if good {
					okSite = true
				}
			})
			if nsites == 0 {
				continue // read in a callee; covered by the set rule
			}
			c.Check(e.typ+"."+f.Name()+" contributes unconditionally", pos, okSite, "the key contribution of "+e.typ+"."+f.Name()+" is made only under a condition on something other than the field itself: whether two proxies share an entry now depends on that condition being a complete description of when the field matters")
		}
	}
	c.Check("cache entry implementations found", token.NoPos, nImpl >= 4, "fewer XdsCacheEntry implementations than confirmed by hand")
	c.Floor(50)
}

// condOnlyAbout: the condition is a nil/len/emptiness test of recv.f or of recv itself.
func condOnlyAbout(cond ssa.Value, recv ssa.Value, f *types.Var) bool {
	ok := true
	seen := map[ssa.Value]bool{}
	var walk func(v ssa.Value, d int)
	walk = func(v ssa.Value, d int) {
		if v == nil || seen[v] || d > 8 {
			return
		}
		seen[v] = true
		switch x := v.(type) {
		case *ssa.Const:
		case *ssa.BinOp:
			walk(x.X, d+1)
			walk(x.Y, d+1)
		case *ssa.UnOp:
			if x.Op == token.MUL {
				if fa, isFA := x.X.(*ssa.FieldAddr); isFA {
					if fa.X == recv && fieldVar(fa.X.Type(), fa.Field) == f {
						return
					}
					ok = false
					return
				}
			}
			walk(x.X, d+1)
		case *ssa.Field:
			if x.X == recv && fieldVar(x.X.Type(), x.Field) == f {
				return
			}
			ok = false
		case *ssa.Call:
			if bi, isB := x.Call.Value.(*ssa.Builtin); isB && bi.Name() == "len" {
				walk(x.Call.Args[0], d+1)
				return
			}
			ok = false
		case *ssa.Parameter:
			if v != recv {
				ok = false
			}
		case *ssa.Phi:
			for _, e := range x.Edges {
				walk(e, d+1)
			}
		default:
			ok = false
		}
	}
	walk(cond, 0)
	return ok
}

func c06r2(c *Ctx) {
	p := c.P
	proxyT := p.Struct(pkgModel, "Proxy")
	metaT := structOf(p.Field(pkgModel, "Proxy", "Metadata").Type())
	if metaT == nil {
		anchorFail("Proxy.Metadata is not a struct pointer")
	}
	isProxyAttr := map[*types.Var]string{}
	for _, f := range fieldsOf(proxyT) {
		isProxyAttr[f] = "Proxy." + f.Name()
	}
	for _, f := range fieldsOf(metaT) {
		isProxyAttr[f] = "NodeMetadata." + f.Name()
	}
	// (a) EDS: cached generation = BuildClusterLoadAssignment; key construction = NewCDSEndpointBuilder + WriteHash
	gen := p.CG().Reach([]*ssa.Function{p.Func(pkgEndpoints, "EndpointBuilder", "BuildClusterLoadAssignment")}, nil)
	key := p.CG().Reach([]*ssa.Function{p.Func(pkgEndpoints, "", "NewCDSEndpointBuilder"), p.Func(pkgEndpoints, "EndpointBuilder", "WriteHash")}, nil)
	ge, ke := effectsOf(gen), effectsOf(key)
	// frozen exceptions (one reason each)
	edsExcept := map[string]string{
		"Proxy.RWMutex":       "lock, not an attribute",
		"Proxy.Metadata":      "container; individual NodeMetadata fields are checked",
		"Proxy.ID":            "logging only",
		"Proxy.SidecarScope":  "scope identity is captured by destinationRule/service/AuthnPolicies version in the key",
		"Proxy.Type":          "hashed as nodeType",
		"Proxy.Labels":        "self-discovery labels hashed explicitly; locality labels captured by locality/failoverPriorityLabels",
		"Proxy.XdsNode":       "locality fallback source, captured by the locality key field",
	}
	pending := map[string]string{}
	n := 0
	var names []string
	for f, nm := range isProxyAttr {
		if _, ok := ge.Reads[f]; ok {
			names = append(names, nm)
		}
		_ = f
	}
	sort.Strings(names)
	c.Infof("EDS cached generation reads proxy attributes: %v", names)
	for f, nm := range isProxyAttr {
		acc, read := ge.Reads[f]
		if !read {
			continue
		}
		if _, ex := edsExcept[nm]; ex {
			continue
		}
		n++
		_, keyed := ke.Reads[f]
		det := ""
		if !keyed {
			det = fmt.Sprintf("cached EDS generation reads %s (%s, via %s) but neither NewCDSEndpointBuilder nor WriteHash reads it: proxies differing only in it share a cached ClusterLoadAssignment", nm, p.pos(acc.Pos), pathTo(gen, acc.Fn))
		}
		if _, p := pending["EDS:"+nm]; p && !keyed {
			c.Infof("PENDING-TRIAGE EDS:%s keyed: %s", nm, det)
			continue
		}
		c.Check("EDS:"+nm+" keyed", acc.Pos, keyed, det)
	}
	// (b) CDS: ClusterBuilder fields read in the cached sub-graph must be read by buildClusterKey (the comment on
	// ClusterBuilder states this rule in prose)
	cbT := p.Struct(pkgCore, "ClusterBuilder")
	cbField := map[*types.Var]bool{}
	for _, f := range fieldsOf(cbT) {
		cbField[f] = true
	}
	cachedEntries := []*ssa.Function{
		p.Func(pkgCore, "ClusterBuilder", "buildCluster"),
		p.Func(pkgCore, "ClusterBuilder", "applyDestinationRule"),
	}
	cgen := p.CG().Reach(cachedEntries, nil)
	ckey := p.CG().Reach([]*ssa.Function{p.Func(pkgCore, "", "buildClusterKey")}, nil)
	cge, cke := effectsOf(cgen), effectsOf(ckey)
	cdsExcept := map[string]string{
		"req":     "request handle (Push snapshot; staleness handled by the cache token)",
		"cache":   "the cache itself",
		"proxyID": "used only for log/metric text in the cached path (confirmed by findings/C06-S3: no byte difference)",
	}
	var cnames []string
	for f := range cbField {
		if _, ok := cge.Reads[f]; ok {
			cnames = append(cnames, f.Name())
		}
	}
	sort.Strings(cnames)
	c.Infof("CDS cached sub-graph reads ClusterBuilder fields: %v", cnames)
	for f := range cbField {
		acc, read := cge.Reads[f]
		if !read {
			continue
		}
		if _, ex := cdsExcept[f.Name()]; ex {
			continue
		}
		n++
		_, keyed := cke.Reads[f]
		det := ""
		if !keyed {
			det = fmt.Sprintf("the cached cluster build reads ClusterBuilder.%s (%s, via %s) but buildClusterKey does not: the comment on ClusterBuilder requires every field used in the cached path to be part of the key", f.Name(), p.pos(acc.Pos), pathTo(cgen, acc.Fn))
		}
		if _, p := pending["CDS:ClusterBuilder."+f.Name()]; p && !keyed {
			c.Infof("PENDING-TRIAGE CDS:ClusterBuilder.%s keyed: %s", f.Name(), det)
			continue
		}
		c.Check("CDS:ClusterBuilder."+f.Name()+" keyed", acc.Pos, keyed, det)
	}
	c.Floor(8)
}

func c06r3(c *Ctx) {
	p := c.P
	// config-valued key fields per entry type and the reason they must be in DependentConfigs
	specs := []struct {
		pkg, typ string
		fields   []string
	}{
		{pkgCore, "clusterCache", []string{"service", "destinationRule", "envoyFilterKeys"}},
		{pkgRoute, "Cache", []string{"Services", "VirtualServices", "DestinationRules", "EnvoyFilterKeys"}},
		{pkgEndpoints, "EndpointBuilder", []string{"service", "destinationRule"}},
	}
	for _, s := range specs {
		fn := p.Func(s.pkg, s.typ, "DependentConfigs")
		eff := effectsOf(p.CG().Reach([]*ssa.Function{fn}, nil))
		for _, f := range s.fields {
			fv := p.Field(s.pkg, s.typ, f)
			_, read := eff.Reads[fv]
			c.Check(s.typ+".DependentConfigs reads "+f, fn.Pos(), read, "DependentConfigs() of "+s.typ+" ignores "+f+": a change of those configs does not evict the entries built from them (targeted Clear misses them)")
		}
	}
	c.Floor(9)
}

func c06r4(c *Ctx) {
	p := c.P
	lru := p.Named(pkgModel, "lruCache")
	checkGuards(c, GuardSpec{
		Name: "lruCache", Struct: lru, Guard: "mu",
		Fields: map[string]bool{"store": true, "token": true, "configIndex": true, "evictQueue": true, "evictedOnClear": true},
		// hashicorp simplelru is not concurrency safe and Get reorders the recency list: all of these mutate
		WriteCalls: map[string][]string{"store": {"Get", "Add", "Remove", "Purge", "RemoveOldest", "Resize", "ContainsOrAdd", "PeekOrAdd"}},
		Locked: map[string]int{
			"(*pilot/pkg/model.lruCache[K]).updateConfigIndex":          modeW,
			"(*pilot/pkg/model.lruCache[K]).clearConfigIndex":           modeW,
			"(*pilot/pkg/model.lruCache[K]).onEvict":                    modeW,
			"(*pilot/pkg/model.lruCache[K]).recordDependentConfigSize": modeR,
		},
		Exempt: map[string]string{"pilot/pkg/model.newTypedXdsCache[K]": "constructor"},
	})
	// onEvict is only ever invoked by the LRU (callback) which runs inside store.Add/Remove under the lock:
	// who-may-reference it = the constructor(s) handing it to newLru.
	// token discipline
	tokenF := p.Field(pkgModel, "lruCache", "token")
	isTokenStore := func(ins ssa.Instruction) bool {
		s, ok := ins.(*ssa.Store)
		if !ok {
			return false
		}
		fa, ok := s.Addr.(*ssa.FieldAddr)
		return ok && fieldVar(fa.X.Type(), fa.Field) == tokenF
	}
	for _, m := range []string{"Clear", "ClearAll"} {
		fn := p.Func(pkgModel, "lruCache", m)
		bad := pathAvoiding(fn, nil, isTokenStore, isReturn)
		c.Check("lruCache."+m+" advances token on every path", fn.Pos(), bad == nil, "an invalidation can complete without advancing the cache token: a writer that started before the invalidation (its entry may be absent, so nothing was evicted) is no longer rejected by Add and re-inserts a resource built from the older state")
		// the new token is the current time, not derived from entries
		eachInstr(fn, func(ins ssa.Instruction) {
			if !isTokenStore(ins) {
				return
			}
			s := ins.(*ssa.Store)
			fromNow := false
			var walk func(v ssa.Value, d int)
			walk = func(v ssa.Value, d int) {
				if d > 5 {
					return
				}
				switch x := v.(type) {
				case *ssa.Convert:
					walk(x.X, d+1)
				case *ssa.ChangeType:
					walk(x.X, d+1)
				case *ssa.Call:
					if o := calleeObj(x); o != nil && (o.Name() == "UnixNano" || o.Name() == "Now") {
						fromNow = true
					}
					for _, a := range x.Call.Args {
						walk(a, d+1)
					}
				}
			}
			walk(s.Val, 0)
			c.Check("lruCache."+m+" token is the invalidation time", s.Pos(), fromNow, "the token stored by an invalidation is not the current time")
		})
	}
	// Add: insertion only after both comparisons
	add := p.Func(pkgModel, "lruCache", "Add")
	cvToken := p.Field(pkgModel, "cacheValue", "token")
	var storeAdd ssa.Instruction
	eachInstr(add, func(ins ssa.Instruction) {
		ci, ok := ins.(ssa.CallInstruction)
		if !ok || !ci.Common().IsInvoke() || ci.Common().Method.Name() != "Add" {
			return
		}
		if fv := fieldOfLoad(ci.Common().Value); fv != nil && fv.Name() == "store" {
			storeAdd = ins
		}
	})
	if storeAdd == nil {
		c.Check("lruCache.Add inserts into store", add.Pos(), false, "no store.Add call found")
		return
	}
	// edges on which the writer is known fresh with respect to field `fld`
	freshEdges := func(fld *types.Var, strict bool) []Edge {
		var out []Edge
		for _, i := range allIfs(add) {
			b, ok := i.Cond.(*ssa.BinOp)
			if !ok {
				continue
			}
			isFld := func(v ssa.Value) bool { return fieldOfLoad(v) == fld }
			op := b.Op
			switch {
			case isFld(b.Y) && !isFld(b.X):
			case isFld(b.X) && !isFld(b.Y):
				// swap: field OP local  ==  local OP' field
				switch op {
				case token.LSS:
					op = token.GTR
				case token.GTR:
					op = token.LSS
				case token.LEQ:
					op = token.GEQ
				case token.GEQ:
					op = token.LEQ
				}
			default:
				continue
			}
			// local OP field
			switch op {
			case token.LSS: // stale if local < field ; fresh (>=) on false edge
				if !strict {
					out = append(out, Edge{i.Block(), 1})
				}
			case token.LEQ: // stale-or-same if local <= field ; strictly newer on false edge
				out = append(out, Edge{i.Block(), 1})
			case token.GEQ:
				if !strict {
					out = append(out, Edge{i.Block(), 0})
				}
			case token.GTR:
				out = append(out, Edge{i.Block(), 0})
			}
		}
		return out
	}
	cacheFresh := freshEdges(tokenF, false)
	c.Check("lruCache.Add compares against the cache token", add.Pos(), len(cacheFresh) >= 1, "no comparison of the writer's token with l.token")
	c.Check("lruCache.Add inserts only if not older than the last invalidation", storeAdd.Pos(), underEdges(add, storeAdd.Block(), cacheFresh),
		"store.Add is reachable without passing `token >= l.token`: a resource generated before the last Clear/ClearAll is inserted after it")
	entryFresh := freshEdges(cvToken, true)
	// "not found" edges of the store.Get lookup
	var notFound []Edge
	for _, i := range allIfs(add) {
		if ex, ok := i.Cond.(*ssa.Extract); ok && ex.Index == 1 {
			if call, ok := ex.Tuple.(*ssa.Call); ok && call.Call.IsInvoke() && call.Call.Method.Name() == "Get" {
				notFound = append(notFound, Edge{i.Block(), 1})
			}
		}
	}
	c.Check("lruCache.Add compares against the existing entry's token", add.Pos(), len(entryFresh) >= 1 && len(notFound) >= 1, "no comparison of the writer's token with the existing entry's token")
	c.Check("lruCache.Add never replaces a newer or same-age entry", storeAdd.Pos(), underEdges(add, storeAdd.Block(), append(append([]Edge{}, entryFresh...), notFound...)),
		"store.Add is reachable when an entry exists whose token is not older than the writer's: an older push overwrites a newer push's resource")
	c.Floor(30)
}

func c06r5(c *Ctx) {
	p := c.P
	// initPushContext: drop cache before publishing the snapshot
	ipc := p.Func(pkgXds, "DiscoveryServer", "initPushContext")
	drop := p.FuncObj(pkgXds, "DiscoveryServer", "dropCacheForRequest")
	setPC := p.FuncObj(pkgModel, "Environment", "SetPushContext")
	pubs := callsIn(ipc, setPC)
	c.Check("initPushContext publishes the snapshot", ipc.Pos(), len(pubs) == 1, "expected one SetPushContext call")
	for _, pub := range pubs {
		c.Check("initPushContext:dropCacheForRequest before SetPushContext", pub.Pos(), precededOnAllPaths(ipc, pub, func(i ssa.Instruction) bool { return isCallTo(i, drop) }),
			"the new snapshot is published before the response cache is invalidated: a request served between the two caches a resource built from the new snapshot and the invalidation then... or serves an old cached resource for the new snapshot")
	}
	// dropCacheForRequest: every path calls ClearAll or Clear
	dfn := p.Func(pkgXds, "DiscoveryServer", "dropCacheForRequest")
	isClear := func(i ssa.Instruction) bool {
		o := calleeObj(i)
		return o != nil && (o.Name() == "Clear" || o.Name() == "ClearAll")
	}
	c.Check("dropCacheForRequest clears on every path", dfn.Pos(), pathAvoiding(dfn, nil, isClear, isReturn) == nil, "a path through dropCacheForRequest clears nothing")
	// forced => ClearAll
	forced := p.Field(pkgModel, "PushRequest", "Forced")
	fe := edgesWhere(dfn, func(v ssa.Value) bool { return fieldOfLoad(v) == forced }, true)
	okForced := len(fe) == 1
	if okForced {
		_, found := pathAvoidingE(fe[0].To(), nil, func(i ssa.Instruction) bool { o := calleeObj(i); return o != nil && o.Name() == "ClearAll" }, isReturn, nil, nil)
		okForced = !found
	}
	c.Check("dropCacheForRequest: forced push clears everything", dfn.Pos(), okForced, "a forced push (unknown set of changes) does not ClearAll")
	// ConfigUpdate: Address kind => ClearAll before the request is handed to the debouncer
	cu := p.Func(pkgXds, "DiscoveryServer", "ConfigUpdate")
	var send *ssa.Send
	eachInstr(cu, func(i ssa.Instruction) {
		if s, ok := i.(*ssa.Send); ok {
			send = s
		}
	})
	if send == nil {
		c.Check("ConfigUpdate hands the request to the push channel", cu.Pos(), false, "no channel send found")
	} else {
		hasKind := p.FuncObj(pkgModel, "", "HasConfigsOfKind")
		addrVal, _ := constInt(p.Const(istioMod+"/"+pkgKind, "Address"))
		var addrTrue []Edge
		for _, i := range allIfs(cu) {
			call, ok := i.Cond.(*ssa.Call)
			if !ok || !isCallTo(call, hasKind) || len(call.Call.Args) < 2 {
				continue
			}
			if k, ok := call.Call.Args[1].(*ssa.Const); ok && k.Value != nil && k.Int64() == addrVal {
				addrTrue = append(addrTrue, Edge{i.Block(), 0})
				// the test itself precedes the send on every path
				c.Check("ConfigUpdate: Address test precedes the hand-off", send.Pos(), precededOnAllPaths(cu, send, func(x ssa.Instruction) bool { return x == ssa.Instruction(call) }),
					"the request can reach the push channel without the Address-kind test")
			}
		}
		okA := len(addrTrue) == 1
		if okA {
			_, found := pathAvoidingE(addrTrue[0].To(), nil, func(i ssa.Instruction) bool { o := calleeObj(i); return o != nil && o.Name() == "ClearAll" },
				func(i ssa.Instruction) bool { return i == ssa.Instruction(send) }, nil, nil)
			okA = !found
		}
		c.Check("ConfigUpdate: Address change clears the cache before the hand-off", send.Pos(), okA, "an Address-kind update reaches the push channel without ClearAll: address-derived resources are not protected by the dependency index")
	}
	// XdsCacheImpl.Clear / ClearAll touch every typed cache field
	xc := p.Struct(pkgModel, "XdsCacheImpl")
	for _, m := range []string{"Clear", "ClearAll"} {
		fn := p.Func(pkgModel, "XdsCacheImpl", m)
		reads := effectsOfFuncs([]*ssa.Function{fn}).Reads // value receiver: go/ssa spills it, so use the function's own effect set
		for _, f := range fieldsOf(xc) {
			_, ok := reads[f]
			c.Check("XdsCacheImpl."+m+" covers "+f.Name(), fn.Pos(), ok, "typed cache "+f.Name()+" is not touched by XdsCacheImpl."+m)
		}
	}
	c.Floor(12)
}
