package main

import (
	"fmt"
	"go/token"
	"go/types"
	"sort"
	"strings"

	"golang.org/x/tools/go/ssa"
)

const pkgNetAPI = "istio.io/api/networking/v1alpha3"
const pkgEnvoyRoute = "github.com/envoyproxy/go-control-plane/envoy/config/route/v3"

func init() {
	register(&PropDef{
		ID: "C12",
		Clauses: []string{
			"R1 every field of the VirtualService HTTP routing messages is read by the route translator (a match condition nobody reads is silently dropped)",
			"R2 every RouteMatch field the translator writes is taken into account by catch-all detection",
			"R3 rule order: the translated routes are only appended in rule order, every early stop is under `catch-all` or `no match conditions`, and the catch-all reordering is a stable two-way partition (no sort call)",
		},
		NotDecided: "matcher translation semantics, virtual-host domain generation and de-duplication, weights, per-gateway memoisation of translated routes",
		Rules: []Rule{
			{"C12-R1", "every routing field is consumed", c12r1},
			{"C12-R2", "catch-all detection sees every restriction", c12r2},
			{"C12-R3", "rule order preserved", c12r3},
			{"C12-R4", "per-call route memos are keyed by everything that varies", c12r4},
			{"C12-R5", "the source pre-filter is a conjunction of gateway / labels / namespace", c12r5},
			{"C12-R6", "the table of real FQDNs is complete before virtual hosts are built", c12r6},
		},
	})
}

func c12r1(c *Ctx) {
	p := c.P
	entry := p.Func(pkgRoute, "", "BuildHTTPRoutesForVirtualService")
	reach := p.CG().Reach([]*ssa.Function{entry}, nil)
	eff := effectsOf(reach)
	c.Stat("reachable_functions", len(reach))
	// frozen exceptions: field -> reason it is legitimately not read on this path
	except := map[string]string{
		"HTTPRoute.Name":                      "informational (used for route naming via a different path / telemetry only)",
		"HTTPMatchRequest.Name":               "informational",
		"HTTPRoute.Delegate":                  "resolved by the VirtualService controller before translation (merged virtual services)",
		"HTTPMatchRequest.StatPrefix":         "stat prefix only",
	}
	msgs := []string{"HTTPMatchRequest", "HTTPRoute", "HTTPRouteDestination", "Destination", "HTTPRedirect", "HTTPDirectResponse", "HTTPRewrite", "HTTPRetry", "HTTPMirrorPolicy", "PortSelector", "Headers", "Headers_HeaderOperations"}
	var unread []string
	for _, m := range msgs {
		st := p.Struct(pkgNetAPI, m)
		for _, f := range fieldsOf(st) {
			if isProtoInternal(f) {
				continue
			}
			key := m + "." + f.Name()
			if _, ok := except[key]; ok {
				continue
			}
			_, read := eff.Reads[f]
			if !read {
				unread = append(unread, key)
			}
			c.Check(key+" is consumed by route translation", f.Pos(), read, "VirtualService field "+key+" is never read in the graph of BuildHTTPRoutesForVirtualService: a match condition or action written in the VirtualService has no effect on the generated route (requests are routed by the remaining, weaker conditions)")
		}
	}
	// StringMatch oneof: every variant handled where StringMatch is translated
	sm := p.Named(pkgNetAPI, "StringMatch")
	_ = sm
	for _, v := range []string{"StringMatch_Exact", "StringMatch_Prefix", "StringMatch_Regex"} {
		st := p.Struct(pkgNetAPI, v)
		f := fieldsOf(st)[0]
		_, read := eff.Reads[f]
		c.Check(v+" is consumed by route translation", f.Pos(), read, "StringMatch variant "+v+" is never read by the route translator")
	}
	sort.Strings(unread)
	c.Infof("unread: %v", unread)
	c.Floor(50)
}

func c12r2(c *Ctx) {
	p := c.P
	tm := p.Func(pkgRoute, "", "TranslateRouteMatch")
	ica := p.Func(pkgRoute, "", "IsCatchAllRoute")
	rm := p.Struct(pkgEnvoyRoute, "RouteMatch")
	wr := effectsOf(p.CG().Reach([]*ssa.Function{tm}, func(f *ssa.Function) bool { return funcPkgPath(f) != istioMod+"/"+pkgRoute }))
	rd := effectsOf(p.CG().Reach([]*ssa.Function{ica}, nil))
	except := map[string]string{"CaseSensitive": "modifier of the path specifier, not a restriction of its own"}
	n := 0
	for _, f := range fieldsOf(rm) {
		if isProtoInternal(f) {
			continue
		}
		if _, w := wr.Writes[f]; !w {
			continue
		}
		if _, ok := except[f.Name()]; ok {
			continue
		}
		n++
		_, r := rd.Reads[f]
		c.Check("RouteMatch."+f.Name()+" written by the translator is seen by IsCatchAllRoute", f.Pos(), r, "TranslateRouteMatch can set RouteMatch."+f.Name()+" but IsCatchAllRoute ignores it: a route restricted by it is treated as matching everything, and every later rule of the VirtualService is dropped")
	}
	c.Check("RouteMatch fields written by the translator found", tm.Pos(), n >= 3, "fewer RouteMatch fields written than confirmed by hand")
	c.Floor(4)
}

func c12r3(c *Ctx) {
	p := c.P
	fn := p.Func(pkgRoute, "", "BuildHTTPRoutesForVirtualService")
	ica := p.FuncObj(pkgRoute, "", "IsCatchAllRoute")
	tr := p.FuncObj(pkgRoute, "", "TranslateRoute")
	// no sort / reorder of the output in the builder
	eachInstr(fn, func(ins ssa.Instruction) {
		if o := calleeObj(ins); o != nil && o.Pkg() != nil && (o.Pkg().Path() == "sort" || (o.Pkg().Path() == "slices" && strings.HasPrefix(o.Name(), "Sort"))) {
			c.Check("no reordering of translated rules", ins.Pos(), false, "the translated routes are sorted/reordered: Envoy evaluates routes first-match, so rule order is semantics")
		}
	})
	c.Check("builder translates each rule", fn.Pos(), len(callsIn(fn, tr)) >= 2, "expected TranslateRoute calls for rules with and without match conditions")
	// loops
	loops := rangeLoops(fn)
	c.Check("builder iterates rules and match conditions", fn.Pos(), len(loops) == 2, "expected the loop over vs.Http and the loop over http.Match")
	// every edge that leaves a loop body other than through the header's normal exit (= break) must be justified:
	// under IsCatchAllRoute(r)==true, or under len(http.Match)==0, or under the `catchall` flag which is only set there.
	catchTrue := edgesWhere(fn, func(v ssa.Value) bool { call, ok := v.(*ssa.Call); return ok && isCallTo(call, ica) }, true)
	// len(http.Match) == 0 edges
	var noMatch []Edge
	for _, i := range allIfs(fn) {
		b, ok := i.Cond.(*ssa.BinOp)
		if !ok || b.Op != token.EQL {
			continue
		}
		if k, ok := b.Y.(*ssa.Const); ok && k.Value != nil && k.Int64() == 0 {
			if call, ok := b.X.(*ssa.Call); ok {
				if bi, ok := call.Call.Value.(*ssa.Builtin); ok && bi.Name() == "len" {
					if fv := fieldOfLoad(call.Call.Args[0]); fv != nil && fv.Name() == "Match" {
						noMatch = append(noMatch, Edge{i.Block(), 0})
					}
				}
			}
		}
	}
	c.Check("catch-all test present", fn.Pos(), len(catchTrue) == 1, "no IsCatchAllRoute test in the builder")
	c.Check("no-match-conditions test present", fn.Pos(), len(noMatch) == 1, "no len(http.Match)==0 test")
	// the boolean flag: phi whose `true` incomings come only from blocks under those edges
	just := append(append([]Edge{}, catchTrue...), noMatch...)
	for _, l := range loops {
		H := l.Header
		// natural loop: blocks dominated by the header that can reach it through dominated blocks
		member := map[*ssa.BasicBlock]bool{H: true}
		changed := true
		for changed {
			changed = false
			for _, b := range fn.Blocks {
				if member[b] || !H.Dominates(b) {
					continue
				}
				for _, s := range b.Succs {
					if member[s] {
						member[b] = true
						changed = true
						break
					}
				}
			}
		}
		for b := range member {
			if b == H {
				continue // the header's own exit is the normal end of iteration
			}
			for k, s := range b.Succs {
				if member[s] {
					continue
				}
				// break edge b -> s
				iff := ifOf(b)
				okb := underEdges(fn, b, just)
				if !okb && iff != nil {
					okb = flagTrueOnlyUnder(fn, iff.Cond, just, k == 0)
					for _, e := range just {
						if e.From == b && e.Idx == k {
							okb = true
						}
					}
				}
				pos := fn.Pos()
				if iff != nil {
					pos = iff.Pos()
				}
				c.Check("early stop only after a catch-all or a rule without match conditions", pos, okb, "the loop over the VirtualService's rules can stop early for a reason other than `this route matches everything`: later rules are dropped although a request could still reach them")
			}
		}
	}
	// SortVHostRoutes: stable partition
	sv := p.Func(pkgRoute, "", "SortVHostRoutes")
	nsort := 0
	eachInstr(sv, func(ins ssa.Instruction) {
		if o := calleeObj(ins); o != nil && o.Pkg() != nil && (o.Pkg().Path() == "sort" || o.Pkg().Path() == "slices") {
			nsort++
		}
	})
	c.Check("SortVHostRoutes does not call a sort", sv.Pos(), nsort == 0, "catch-all reordering uses a sort: sort.Slice is not stable (and a comparator that only says `catch-all last` leaves all other routes unordered), so rules of merged VirtualServices are permuted once there are more than a dozen routes")
	napp := 0
	eachInstr(sv, func(ins ssa.Instruction) {
		if isAppendCall(ins) {
			napp++
		}
	})
	// exactly one loop, running forward: a `range` over the routes, or an index loop counting up from 0 by 1
	nLoops, forward := 0, true
	for _, h := range sv.Blocks {
		isHeader := false
		for _, pr := range h.Preds {
			if h.Dominates(pr) {
				isHeader = true
			}
		}
		if !isHeader {
			continue
		}
		nLoops++
		if strings.HasPrefix(h.Comment, "rangeindex") {
			continue
		}
		// hand-written index loop: some phi in the header starts at 0 and is incremented by 1
		up := false
		for _, ins := range h.Instrs {
			ph, ok := ins.(*ssa.Phi)
			if !ok {
				continue
			}
			zero, inc := false, false
			for _, e := range ph.Edges {
				if k, ok := e.(*ssa.Const); ok && k.Value != nil && k.Int64() == 0 {
					zero = true
				}
				if b, ok := e.(*ssa.BinOp); ok && b.Op == token.ADD && b.X == ssa.Value(ph) {
					if k, ok := b.Y.(*ssa.Const); ok && k.Value != nil && k.Int64() == 1 {
						inc = true
					}
				}
			}
			if zero && inc {
				up = true
			}
		}
		if !up {
			forward = false
		}
	}
	c.Check("SortVHostRoutes is a single in-order pass with two buckets", sv.Pos(), nLoops == 1 && forward && napp == 3, "expected one forward pass over the routes appending to two buckets and one final concatenation")
	c.Floor(8)
}

// flagTrueOnlyUnder: cond is (a load/phi of) a boolean flag whose `true` assignments all happen under the given edges.
func flagTrueOnlyUnder(fn *ssa.Function, cond ssa.Value, edges []Edge, breakOnTrue bool) bool {
	if !breakOnTrue {
		return false
	}
	var ls []ssa.Value
	seen := map[ssa.Value]bool{}
	var walk func(v ssa.Value) bool
	walk = func(v ssa.Value) bool {
		if seen[v] {
			return true
		}
		seen[v] = true
		ph, ok := v.(*ssa.Phi)
		if !ok {
			if b, isC := constBool(v); isC {
				_ = b
				return true
			}
			return false
		}
		for i, e := range ph.Edges {
			if b, isC := constBool(e); isC {
				if b && !underEdges(fn, ph.Block().Preds[i], edges) {
					// the assignment block itself may be the edge target
					okp := false
					for _, ed := range edges {
						if ed.To() == ph.Block().Preds[i] || ed.From == ph.Block().Preds[i] {
							okp = true
						}
					}
					if !okp {
						return false
					}
				}
				continue
			}
			if !walk(e) {
				return false
			}
		}
		return true
	}
	_ = ls
	_ = types.Typ
	return walk(cond)
}


// C12-R4: the route and listener builders memoise translated routes / looked-up lists in maps created per call and
// filled inside loops (over servers, gateways, virtual services). Every loop that encloses such a memo site (but not the
// map's creation) and that the memoised value depends on must also flow into the key; otherwise the routes translated
// for one server/gateway are reused for another.
func c12r4(c *Ctx) {
	p := c.P
	pkgs := map[string]bool{istioMod + "/" + pkgCore: true, istioMod + "/" + pkgRoute: true}
	n := 0
	for _, fn := range p.AllFuncs {
		if !pkgs[funcPkgPath(fn)] || strings.HasSuffix(p.Fset.Position(fn.Pos()).Filename, "_test.go") {
			continue
		}
		for _, m := range memoSites(p, fn) {
			if !m.local {
				continue
			}
			n++
			c.Check("per-call memo key covers the enclosing loops the value depends on: "+stableFnName(fn), m.lookup.Pos(), len(m.missing) == 0,
				"a value computed inside nested loops is memoised under a key that does not depend on "+strings.Join(m.missing, ", ")+" although the value does: what was translated for one iteration (e.g. one gateway server, with its own name, port and TLS setting) is reused for the others")
		}
	}
	c.Check("per-call memo sites found in the route/listener builders", token.NoPos, n >= 2, "fewer memo sites than confirmed by hand (buildGatewayHTTPRouteConfig: virtual services per gateway, routes per gateway and virtual service)")
	why := memoSelfTest()
	c.Check("positive control: the memo detector reports the incomplete keys of its fixture and not the complete ones", token.NoPos, why == "", why)
	c.Floor(4)
}

// C12-R5: the source pre-filter is a conjunction. A rule's match is kept for a proxy only if ALL its source conditions
// hold: the mesh-gateway list names one of the proxy's gateways, or both the source labels select the proxy and the
// source namespace (when given) is the proxy's. In sourceMatchHTTP every return that can be true lies under the
// `match == nil` edge, under a gateway-hit edge, or under the true edge of the label test; and a return under the label
// test only is also decided by the namespace (its value is computed from SourceNamespace or it lies behind a test of it).
// An early `return namespace matches` in front of the label test keeps a rule with both conditions for every proxy of
// the namespace; the rule usually has no other condition, counts as catch-all and cuts off everything after it.
func c12r5(c *Ctx) {
	p := c.P
	fn := p.Func("pilot/pkg/networking/core/route", "", "sourceMatchHTTP")
	match := fn.Params[0]
	fromField := func(v ssa.Value, field, getter string) bool {
		seen := map[ssa.Value]bool{}
		var walk func(v ssa.Value, d int) bool
		walk = func(v ssa.Value, d int) bool {
			if v == nil || seen[v] || d > 8 {
				return false
			}
			seen[v] = true
			if f := fieldOfLoad(v); f != nil && f.Name() == field {
				return true
			}
			switch x := v.(type) {
			case *ssa.Call:
				if o := calleeObj(x); o != nil && o.Name() == getter {
					return true
				}
				for _, a := range x.Call.Args {
					if walk(a, d+1) {
						return true
					}
				}
			case *ssa.ChangeType:
				return walk(x.X, d+1)
			case *ssa.Convert:
				return walk(x.X, d+1)
			case *ssa.BinOp:
				return walk(x.X, d+1) || walk(x.Y, d+1)
			case *ssa.UnOp:
				return walk(x.X, d+1)
			case *ssa.Phi:
				for _, e := range x.Edges {
					if walk(e, d+1) {
						return true
					}
				}
			}
			return false
		}
		return walk(v, 0)
	}
	var nilE, gwE, lblE, nsE []Edge
	for _, i := range allIfs(fn) {
		if x, eq, ok := nilCmp(i.Cond); ok && x == ssa.Value(match) {
			idx := 1
			if eq {
				idx = 0
			}
			nilE = append(nilE, Edge{i.Block(), idx})
			continue
		}
		v, neg := stripNot(i.Cond)
		tIdx := 0
		if neg {
			tIdx = 1
		}
		if call, ok := v.(*ssa.Call); ok {
			if o := calleeObj(call); o != nil {
				switch {
				case o.Name() == "Contains" || o.Name() == "ContainsAny":
					gwE = append(gwE, Edge{i.Block(), tIdx})
				case o.Name() == "SubsetOf" && len(call.Call.Args) > 0 && fromField(call.Call.Args[0], "SourceLabels", "GetSourceLabels"):
					lblE = append(lblE, Edge{i.Block(), tIdx})
				}
			}
		}
		if b, ok := v.(*ssa.BinOp); ok && (fromField(b.X, "SourceNamespace", "GetSourceNamespace") || fromField(b.Y, "SourceNamespace", "GetSourceNamespace")) {
			nsE = append(nsE, Edge{i.Block(), 0}, Edge{i.Block(), 1})
		}
	}
	c.Check("sourceMatchHTTP tests the source labels", fn.Pos(), len(lblE) >= 1, "no SubsetOf test of the match's source labels found")
	n := 0
	for _, b := range fn.Blocks {
		r, ok := b.Instrs[len(b.Instrs)-1].(*ssa.Return)
		if !ok || len(r.Results) != 1 {
			continue
		}
		v := retVal(r, 0)
		if k, ok := constBool(v); ok && !k {
			continue
		}
		n++
		// decided by the gateway list in a helper: the returned value is a call that is handed the proxy's gateway names
		if call, ok := v.(*ssa.Call); ok && len(fn.Params) >= 3 {
			viaGw := false
			for _, a := range call.Call.Args {
				if a == ssa.Value(fn.Params[2]) {
					viaGw = true
				}
			}
			if sc := call.Call.StaticCallee(); viaGw && sc != nil && sc.Pkg == fn.Pkg {
				c.Check("a kept match passed the gateway list or the source labels", r.Pos(), true, "")
				continue
			}
		}
		all := append(append(append([]Edge{}, nilE...), gwE...), lblE...)
		c.Check("a kept match passed the gateway list or the source labels", r.Pos(), underEdges(fn, b, all),
			"sourceMatchHTTP can keep a match for a proxy on a path that passed neither the gateway list nor the source-label test: a rule with sourceLabels (and sourceNamespace) is emitted for proxies its labels do not select, and - having no other condition - is taken for a catch-all that cuts off every later rule for them")
		if underEdges(fn, b, append(append([]Edge{}, nilE...), gwE...)) {
			continue
		}
		c.Check("a match kept for its source labels is also decided by the source namespace", r.Pos(),
			fromField(v, "SourceNamespace", "GetSourceNamespace") || underEdges(fn, b, nsE),
			"sourceMatchHTTP keeps a match whose source labels select the proxy without looking at sourceNamespace: a rule for workloads of another namespace is emitted for same-labelled proxies here")
	}
	c.Check("sourceMatchHTTP has positive answers", fn.Pos(), n >= 2, "fewer non-false returns than expected")
	c.Floor(4)
}

// C12-R6: the FQDN table is complete before the first virtual host is built. dedupeDomains drops an *expanded* short
// name of a service when some other service really owns that name; the owners are looked up in a table the function only
// reads. The table is therefore filled in a phase of its own: in the function that owns it, no insertion into the table
// is reachable from a point where virtual hosts are already being built (a call of the builder literal or of
// dedupeDomains). Which parameter is the read-only table is derived from dedupeDomains itself (set-typed parameters it
// never writes).
func c12r6(c *Ctx) {
	p := c.P
	pkgCore := "pilot/pkg/networking/core"
	dd := p.Func(pkgCore, "", "dedupeDomains")
	isWriteName := func(n string) bool {
		return strings.HasPrefix(n, "Insert") || strings.HasPrefix(n, "Delete") || n == "Merge" || strings.HasSuffix(n, "InPlace")
	}
	var ro []int
	for i, prm := range dd.Params {
		if _, ok := prm.Type().Underlying().(*types.Map); !ok {
			continue
		}
		written := false
		for _, r := range *prm.Referrers() {
			switch x := r.(type) {
			case *ssa.MapUpdate:
				written = true
			case *ssa.Call:
				if o := calleeObj(x); o != nil && isWriteName(o.Name()) && len(x.Call.Args) > 0 && x.Call.Args[0] == ssa.Value(prm) {
					written = true
				}
			}
		}
		if !written {
			ro = append(ro, i)
		}
	}
	c.Check("dedupeDomains has a read-only lookup table", dd.Pos(), len(ro) >= 1, "no set-typed parameter of dedupeDomains is read-only any more")
	n := 0
	for _, cs := range p.staticCallers()[dd] {
		user := cs.Parent()
		if strings.HasSuffix(p.Fset.Position(user.Pos()).Filename, "_test.go") {
			continue
		}
		for _, i := range ro {
			arg := cs.Common().Args[i]
			// resolve a captured variable to the owner's value
			owner, table := user, arg
			var lit *ssa.Function
			fvArg := arg
			if u, ok := arg.(*ssa.UnOp); ok && u.Op == token.MUL {
				fvArg = u.X // captured by reference: the free variable is the cell
			}
			if fv, ok := fvArg.(*ssa.FreeVar); ok && user.Parent() != nil {
				lit, owner = user, user.Parent()
				idx := -1
				for k, f := range user.FreeVars {
					if f == fv {
						idx = k
					}
				}
				table = nil
				eachInstr(owner, func(ins ssa.Instruction) {
					if mk, ok := ins.(*ssa.MakeClosure); ok && mk.Fn == ssa.Value(user) && idx >= 0 {
						table = mk.Bindings[idx]
					}
				})
			}
			if table == nil {
				c.Check("owner of the FQDN table resolved", cs.Pos(), false, "the table handed to dedupeDomains could not be traced to the function that fills it")
				continue
			}
			isTable := func(v ssa.Value) bool {
				if v == table || sameValue(v, table) {
					return true
				}
				// the table lives in a cell: loads of the same cell
				if u, ok := v.(*ssa.UnOp); ok && u.Op == token.MUL {
					if tu, ok := table.(*ssa.UnOp); ok && tu.Op == token.MUL && u.X == tu.X {
						return true
					}
					if u.X == table {
						return true
					}
				}
				return false
			}
			isWrite := func(ins ssa.Instruction) bool {
				switch x := ins.(type) {
				case *ssa.MapUpdate:
					return isTable(x.Map)
				case *ssa.Call:
					if o := calleeObj(x); o != nil && isWriteName(o.Name()) && len(x.Call.Args) > 0 && isTable(x.Call.Args[0]) {
						return true
					}
				}
				return false
			}
			isConsult := func(ins ssa.Instruction) bool {
				call, ok := ins.(*ssa.Call)
				if !ok {
					return false
				}
				if lit == nil {
					return ins == cs.(ssa.Instruction)
				}
				// a call of the builder literal (directly or through its cell)
				v := call.Call.Value
				if u, ok := v.(*ssa.UnOp); ok && u.Op == token.MUL {
					for _, r := range *u.X.Referrers() {
						if st, ok := r.(*ssa.Store); ok {
							if mk, ok := st.Val.(*ssa.MakeClosure); ok && mk.Fn == ssa.Value(lit) {
								return true
							}
						}
					}
				}
				if mk, ok := v.(*ssa.MakeClosure); ok && mk.Fn == ssa.Value(lit) {
					return true
				}
				return false
			}
			nW, nC := 0, 0
			var bad ssa.Instruction
			eachInstr(owner, func(ins ssa.Instruction) {
				if isWrite(ins) {
					nW++
				}
				if isConsult(ins) {
					nC++
					if w := pathAvoiding(owner, ins, func(ssa.Instruction) bool { return false }, isWrite); w != nil && bad == nil {
						bad = w
					}
				}
			})
			n++
			c.Check("FQDN table of "+owner.Name()+" is filled and consulted", owner.Pos(), nW >= 1 && nC >= 1, fmt.Sprintf("%d insertions, %d consulting calls found", nW, nC))
			pos := owner.Pos()
			if bad != nil {
				pos = bad.Pos()
			}
			c.Check("the FQDN table is complete before the first virtual host is built: "+owner.Name(), pos, bad == nil,
				"an insertion into the table of real service FQDNs is reachable after virtual hosts have started to be built: a host that is expanded earlier (a longer host with a VirtualService comes first) does not yet see the real owner of its short name, keeps the expanded domain, and the real service then loses its own domain to the duplicate check - requests for it are routed by the other host's rules")
		}
	}
	c.Check("dedupeDomains callers found", dd.Pos(), n >= 1, "no caller of dedupeDomains resolved")
	c.Floor(3)
}
