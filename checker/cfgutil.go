package main

import (
	"go/constant"
	"go/token"
	"go/types"

	"golang.org/x/tools/go/ssa"
)

// Edge is a CFG edge From -> From.Succs[Idx].
type Edge struct {
	From *ssa.BasicBlock
	Idx  int
}

func (e Edge) To() *ssa.BasicBlock { return e.From.Succs[e.Idx] }

// reachableWithout returns the blocks reachable from the entry when the given edges and blocks are removed.
func reachableWithout(fn *ssa.Function, cutEdges []Edge, cutBlocks map[*ssa.BasicBlock]bool) map[*ssa.BasicBlock]bool {
	cut := map[Edge]bool{}
	for _, e := range cutEdges {
		cut[e] = true
	}
	seen := map[*ssa.BasicBlock]bool{}
	if len(fn.Blocks) == 0 {
		return seen
	}
	var st []*ssa.BasicBlock
	if !cutBlocks[fn.Blocks[0]] {
		st = append(st, fn.Blocks[0])
		seen[fn.Blocks[0]] = true
	}
	for len(st) > 0 {
		b := st[len(st)-1]
		st = st[:len(st)-1]
		for i, s := range b.Succs {
			if cut[Edge{b, i}] || cutBlocks[s] || seen[s] {
				continue
			}
			seen[s] = true
			st = append(st, s)
		}
	}
	return seen
}

// underEdges: every path from the entry to block b passes through one of the edges.
func underEdges(fn *ssa.Function, b *ssa.BasicBlock, edges []Edge) bool {
	if len(edges) == 0 {
		return false
	}
	return !reachableWithout(fn, edges, nil)[b]
}

// instrIndex returns the index of ins in its block.
func instrIndex(ins ssa.Instruction) int {
	for i, x := range ins.Block().Instrs {
		if x == ins {
			return i
		}
	}
	return -1
}

// pathAvoiding searches a path that starts right after `from` (or at function entry when from == nil) and reaches an
// instruction satisfying `goal` without executing an instruction satisfying `block`. Returns the goal instruction found.
// Used for "every path from P to exit passes D": goal = return, block = D.
func pathAvoiding(fn *ssa.Function, from ssa.Instruction, block func(ssa.Instruction) bool, goal func(ssa.Instruction) bool) ssa.Instruction {
	type pos struct {
		b *ssa.BasicBlock
		i int
	}
	var start pos
	if from == nil {
		start = pos{fn.Blocks[0], 0}
	} else {
		start = pos{from.Block(), instrIndex(from) + 1}
	}
	seen := map[*ssa.BasicBlock]bool{}
	st := []pos{start}
	for len(st) > 0 {
		p := st[len(st)-1]
		st = st[:len(st)-1]
		blocked := false
		for i := p.i; i < len(p.b.Instrs); i++ {
			ins := p.b.Instrs[i]
			if block(ins) {
				blocked = true
				break
			}
			if goal(ins) {
				return ins
			}
		}
		if blocked {
			continue
		}
		for _, s := range p.b.Succs {
			if !seen[s] {
				seen[s] = true
				st = append(st, pos{s, 0})
			}
		}
	}
	return nil
}

func isReturn(ins ssa.Instruction) bool { _, ok := ins.(*ssa.Return); return ok }

func isExit(ins ssa.Instruction) bool {
	switch ins.(type) {
	case *ssa.Return:
		return true
	}
	return false
}

// callee object of a call instruction (static function or interface method), nil otherwise.
func calleeObj(ins ssa.Instruction) *types.Func {
	ci, ok := ins.(ssa.CallInstruction)
	if !ok {
		return nil
	}
	cc := ci.Common()
	if cc.IsInvoke() {
		return cc.Method
	}
	if f := cc.StaticCallee(); f != nil {
		if o, ok := f.Object().(*types.Func); ok {
			return o.Origin()
		}
		// bound-method / thunk wrappers: fall back to origin
		if f.Origin() != nil {
			if o, ok := f.Origin().Object().(*types.Func); ok {
				return o
			}
		}
	}
	return nil
}

func isCallTo(ins ssa.Instruction, objs ...*types.Func) bool {
	o := calleeObj(ins)
	if o == nil {
		return false
	}
	for _, x := range objs {
		if x != nil && (o == x || o == x.Origin()) {
			return true
		}
	}
	return false
}

// callsIn lists call instructions (call/go/defer) in fn whose callee is one of objs.
func callsIn(fn *ssa.Function, objs ...*types.Func) []ssa.CallInstruction {
	var out []ssa.CallInstruction
	for _, b := range fn.Blocks {
		for _, ins := range b.Instrs {
			if isCallTo(ins, objs...) {
				out = append(out, ins.(ssa.CallInstruction))
			}
		}
	}
	return out
}

// callsByName lists calls whose callee (static or invoke) has the given name; for callees that are not
// resolvable as objects (closures stored in locals) use dynamic matching elsewhere.
func callsByName(fn *ssa.Function, name string) []ssa.CallInstruction {
	var out []ssa.CallInstruction
	for _, b := range fn.Blocks {
		for _, ins := range b.Instrs {
			if o := calleeObj(ins); o != nil && o.Name() == name {
				out = append(out, ins.(ssa.CallInstruction))
			}
		}
	}
	return out
}

// ifOf returns the If terminating block b, if any.
func ifOf(b *ssa.BasicBlock) *ssa.If {
	if len(b.Instrs) == 0 {
		return nil
	}
	i, _ := b.Instrs[len(b.Instrs)-1].(*ssa.If)
	return i
}

// allIfs lists every If in fn.
func allIfs(fn *ssa.Function) []*ssa.If {
	var out []*ssa.If
	for _, b := range fn.Blocks {
		if i := ifOf(b); i != nil {
			out = append(out, i)
		}
	}
	return out
}

// stripNot peels `!x`, returning the inner value and whether polarity flipped.
func stripNot(v ssa.Value) (ssa.Value, bool) {
	neg := false
	for {
		u, ok := v.(*ssa.UnOp)
		if !ok || u.Op != token.NOT {
			return v, neg
		}
		v = u.X
		neg = !neg
	}
}

// nilCmp matches `x == nil` / `x != nil`; eq reports whether the true edge means x is nil.
func nilCmp(v ssa.Value) (x ssa.Value, eq bool, ok bool) {
	v, neg := stripNot(v)
	b, isb := v.(*ssa.BinOp)
	if !isb || (b.Op != token.EQL && b.Op != token.NEQ) {
		return nil, false, false
	}
	isNil := func(v ssa.Value) bool {
		c, ok := v.(*ssa.Const)
		return ok && c.IsNil()
	}
	switch {
	case isNil(b.Y):
		x = b.X
	case isNil(b.X):
		x = b.Y
	default:
		return nil, false, false
	}
	eq = b.Op == token.EQL
	if neg {
		eq = !eq
	}
	return x, eq, true
}

// edgesWhere returns, for each If whose condition satisfies match (after stripping !), the edge taken when
// the matched predicate has the truth value `want`.
func edgesWhere(fn *ssa.Function, match func(v ssa.Value) bool, want bool) []Edge {
	var out []Edge
	for _, i := range allIfs(fn) {
		v, neg := stripNot(i.Cond)
		if !match(v) {
			continue
		}
		idx := 0 // true edge
		if want == neg {
			idx = 1
		}
		out = append(out, Edge{i.Block(), idx})
	}
	return out
}

func constBool(v ssa.Value) (bool, bool) {
	c, ok := v.(*ssa.Const)
	if !ok || c.Value == nil || c.Value.Kind() != constant.Bool {
		return false, false
	}
	return constant.BoolVal(c.Value), true
}

func constString(v ssa.Value) (string, bool) {
	c, ok := v.(*ssa.Const)
	if !ok || c.Value == nil || c.Value.Kind() != constant.String {
		return "", false
	}
	return constant.StringVal(c.Value), true
}

// unwrap peels conversions / interface boxing / loads of single-store locals.
func unwrap(v ssa.Value) ssa.Value {
	for i := 0; i < 10; i++ {
		switch x := v.(type) {
		case *ssa.ChangeType:
			v = x.X
		case *ssa.Convert:
			v = x.X
		case *ssa.MakeInterface:
			v = x.X
		case *ssa.ChangeInterface:
			v = x.X
		default:
			return v
		}
	}
	return v
}

// fieldLoadOf matches a load of field `fv` (value Field or *FieldAddr) and returns the base.
func fieldLoadOf(v ssa.Value, fv *types.Var) (base ssa.Value, ok bool) {
	switch x := v.(type) {
	case *ssa.UnOp:
		if x.Op == token.MUL {
			if fa, ok := x.X.(*ssa.FieldAddr); ok && fieldVar(fa.X.Type(), fa.Field) == fv {
				return fa.X, true
			}
		}
	case *ssa.Field:
		if fieldVar(x.X.Type(), x.Field) == fv {
			return x.X, true
		}
	}
	return nil, false
}

// storesTo lists Store instructions in fn whose address is a FieldAddr of field fv.
func storesTo(fn *ssa.Function, fv *types.Var) []*ssa.Store {
	var out []*ssa.Store
	for _, b := range fn.Blocks {
		for _, ins := range b.Instrs {
			if st, ok := ins.(*ssa.Store); ok {
				if fa, ok := st.Addr.(*ssa.FieldAddr); ok && fieldVar(fa.X.Type(), fa.Field) == fv {
					out = append(out, st)
				}
			}
		}
	}
	return out
}

// instrsOf iterates all instructions.
func eachInstr(fn *ssa.Function, f func(ssa.Instruction)) {
	for _, b := range fn.Blocks {
		for _, ins := range b.Instrs {
			f(ins)
		}
	}
}

// precedesOnAllPaths: every path from function entry to `b` executes an instruction satisfying a first.
func precededOnAllPaths(fn *ssa.Function, target ssa.Instruction, a func(ssa.Instruction) bool) bool {
	found := pathAvoiding(fn, nil, a, func(i ssa.Instruction) bool { return i == target })
	return found == nil
}

// retVal returns the i-th returned value of r, looking through go/ssa's defer-spilled results
// (`*res = v; rundefers; return *res`).
func retVal(r *ssa.Return, i int) ssa.Value {
	v := r.Results[i]
	u, ok := v.(*ssa.UnOp)
	if !ok || u.Op != token.MUL {
		return v
	}
	a, ok := u.X.(*ssa.Alloc)
	if !ok {
		return v
	}
	// last store to the cell on the straight-line path into the return
	b := r.Block()
	for hops := 0; hops < 4 && b != nil; hops++ {
		for k := len(b.Instrs) - 1; k >= 0; k-- {
			if s, ok := b.Instrs[k].(*ssa.Store); ok && s.Addr == ssa.Value(a) {
				return s.Val
			}
		}
		if len(b.Preds) != 1 {
			break
		}
		b = b.Preds[0]
	}
	return v
}

func hasRealReferrers(v ssa.Value) bool {
	refs := v.Referrers()
	if refs == nil {
		return true
	}
	for _, r := range *refs {
		if _, ok := r.(*ssa.DebugRef); !ok {
			return true
		}
	}
	return false
}

// pathAvoidingE is pathAvoiding with a set of cut edges that paths may not cross, starting at the first
// instruction of block `start` (from == nil) or right after `from`.
func pathAvoidingE(start *ssa.BasicBlock, from ssa.Instruction, block func(ssa.Instruction) bool, goal func(ssa.Instruction) bool,
	cut []Edge, goalBlock *ssa.BasicBlock) (ssa.Instruction, bool) {
	type pos struct {
		b *ssa.BasicBlock
		i int
	}
	cutm := map[Edge]bool{}
	for _, e := range cut {
		cutm[e] = true
	}
	var st []pos
	if from != nil {
		st = append(st, pos{from.Block(), instrIndex(from) + 1})
	} else {
		st = append(st, pos{start, 0})
	}
	seen := map[*ssa.BasicBlock]bool{}
	for len(st) > 0 {
		p := st[len(st)-1]
		st = st[:len(st)-1]
		blocked := false
		for i := p.i; i < len(p.b.Instrs); i++ {
			ins := p.b.Instrs[i]
			if block != nil && block(ins) {
				blocked = true
				break
			}
			if goal != nil && goal(ins) {
				return ins, true
			}
		}
		if blocked {
			continue
		}
		for k, s := range p.b.Succs {
			if cutm[Edge{p.b, k}] {
				continue
			}
			if goalBlock != nil && s == goalBlock {
				if len(p.b.Instrs) > 0 {
					return p.b.Instrs[len(p.b.Instrs)-1], true
				}
				return nil, true
			}
			if !seen[s] {
				seen[s] = true
				st = append(st, pos{s, 0})
			}
		}
	}
	return nil, false
}

// rangeLoop describes a lowered `for ... range` loop.
type rangeLoop struct {
	Header *ssa.BasicBlock // block that tests for termination
	Body   *ssa.BasicBlock
	Over   ssa.Value // ranged value (slice/map/string/chan), nil if unknown
}

func rangeLoops(fn *ssa.Function) []rangeLoop {
	var out []rangeLoop
	for _, b := range fn.Blocks {
		switch b.Comment {
		case "rangeindex.body":
			l := rangeLoop{Body: b}
			if len(b.Preds) > 0 {
				l.Header = b.Preds[0]
			}
			for _, ins := range b.Instrs {
				switch x := ins.(type) {
				case *ssa.IndexAddr:
					if l.Over == nil {
						l.Over = x.X
					}
				case *ssa.Index:
					if l.Over == nil {
						l.Over = x.X
					}
				}
			}
			if l.Over == nil && l.Header != nil {
				// `for i := range xs` / `for range xs`: bound is len(xs) computed before the loop
				for _, p := range l.Header.Preds {
					for _, ins := range p.Instrs {
						if c, ok := ins.(*ssa.Call); ok {
							if bi, ok := c.Call.Value.(*ssa.Builtin); ok && bi.Name() == "len" {
								l.Over = c.Call.Args[0]
							}
						}
					}
				}
			}
			out = append(out, l)
		case "rangeiter.body":
			l := rangeLoop{Body: b}
			if len(b.Preds) > 0 {
				l.Header = b.Preds[0]
				for _, ins := range l.Header.Instrs {
					if n, ok := ins.(*ssa.Next); ok {
						if r, ok := n.Iter.(*ssa.Range); ok {
							l.Over = r.X
						}
					}
				}
			}
			out = append(out, l)
		}
	}
	return out
}

func isAppendCall(ins ssa.Instruction) bool {
	c, ok := ins.(*ssa.Call)
	if !ok {
		return false
	}
	bi, ok := c.Call.Value.(*ssa.Builtin)
	return ok && bi.Name() == "append"
}

// paramNamed returns fn's parameter with the given name.
func paramNamed(fn *ssa.Function, name string) *ssa.Parameter {
	for _, p := range fn.Params {
		if p.Name() == name {
			return p
		}
	}
	anchorFail("%s has no parameter %q", fn, name)
	return nil
}

// deepMust lifts an instruction predicate over helpers: the result holds for an instruction that satisfies pred itself,
// or that statically calls a function of the same package on EVERY path of which (entry to return) an instruction
// satisfying the lifted predicate is executed. Lets must-pass-through rules survive "block extracted into a helper".
func deepMust(pred func(ssa.Instruction) bool, depth int) func(ssa.Instruction) bool {
	var lifted func(ins ssa.Instruction, d int) bool
	memo := map[*ssa.Function]int{} // 0 unknown, 1 yes, 2 no
	lifted = func(ins ssa.Instruction, d int) bool {
		if pred(ins) {
			return true
		}
		if d <= 0 {
			return false
		}
		ci, ok := ins.(ssa.CallInstruction)
		if !ok {
			return false
		}
		if _, isGo := ins.(*ssa.Go); isGo {
			return false
		}
		g := ci.Common().StaticCallee()
		if g == nil || g.Blocks == nil || ins.Parent() == nil || funcPkgPath(g) != funcPkgPath(ins.Parent()) || g == ins.Parent() {
			return false
		}
		switch memo[g] {
		case 1:
			return true
		case 2:
			return false
		}
		memo[g] = 2 // recursion guard
		escape := pathAvoiding(g, nil, func(i ssa.Instruction) bool { return lifted(i, d-1) }, isReturn)
		if escape == nil {
			memo[g] = 1
			return true
		}
		return false
	}
	return func(ins ssa.Instruction) bool { return lifted(ins, depth) }
}

// deepMay: pred holds for the instruction or somewhere inside a same-package helper it statically calls.
func deepMay(pred func(ssa.Instruction) bool, depth int) func(ssa.Instruction) bool {
	var lifted func(ins ssa.Instruction, d int) bool
	seen := map[*ssa.Function]bool{}
	lifted = func(ins ssa.Instruction, d int) bool {
		if pred(ins) {
			return true
		}
		if d <= 0 {
			return false
		}
		ci, ok := ins.(ssa.CallInstruction)
		if !ok {
			return false
		}
		g := ci.Common().StaticCallee()
		if g == nil || g.Blocks == nil || ins.Parent() == nil || funcPkgPath(g) != funcPkgPath(ins.Parent()) || seen[g] {
			return false
		}
		seen[g] = true
		found := false
		var scan func(f *ssa.Function)
		scan = func(f *ssa.Function) {
			eachInstr(f, func(i ssa.Instruction) {
				if !found && lifted(i, d-1) {
					found = true
				}
			})
			for _, a := range f.AnonFuncs {
				scan(a)
			}
		}
		scan(g)
		seen[g] = false
		return found
	}
	return func(ins ssa.Instruction) bool { return lifted(ins, depth) }
}


// nilTest is one If of a function that decides whether X is nil: on edge NonNilIdx X is known to be non-nil. The test is
// direct (`x == nil`, `x != nil`) or goes through a bool function of the same package that receives x and whose answer
// fixes the nil case: `isFirst(req, x)` answering true whenever x is nil makes the false edge a non-nil edge.
type nilTest struct {
	If        *ssa.If
	X         ssa.Value
	NonNilIdx int
}

func nilTests(fn *ssa.Function) []nilTest {
	var out []nilTest
	for _, i := range allIfs(fn) {
		if x, eq, ok := nilCmp(i.Cond); ok {
			idx := 0
			if eq {
				idx = 1
			}
			out = append(out, nilTest{i, x, idx})
			continue
		}
		v, neg := stripNot(i.Cond)
		hc, ok := v.(*ssa.Call)
		if !ok {
			continue
		}
		h := hc.Call.StaticCallee()
		if h == nil || len(h.Blocks) == 0 || funcPkgPath(h) != funcPkgPath(fn) || hc.Call.IsInvoke() {
			continue
		}
		for k, a := range hc.Call.Args {
			if k >= len(h.Params) {
				break
			}
			if _, isPtr := a.Type().Underlying().(*types.Pointer); !isPtr {
				continue
			}
			for _, want := range []bool{true, false} {
				if !answersWhenNil(h, h.Params[k], want) {
					continue
				}
				// the helper answers `want` whenever the argument is nil: the other answer implies non-nil
				idx := 0
				if want {
					idx = 1
				}
				if neg {
					idx = 1 - idx
				}
				out = append(out, nilTest{i, a, idx})
				break
			}
		}
	}
	return out
}

// answersWhenNil: the bool function h returns `want` on every path on which its parameter prm is nil.
func answersWhenNil(h *ssa.Function, prm *ssa.Parameter, want bool) bool {
	var nonNil []Edge
	for _, i := range allIfs(h) {
		if x, eq, ok := nilCmp(i.Cond); ok && x == prm {
			idx := 0
			if eq {
				idx = 1
			}
			nonNil = append(nonNil, Edge{i.Block(), idx})
		}
	}
	var check func(v ssa.Value, b *ssa.BasicBlock, depth int) bool
	check = func(v ssa.Value, b *ssa.BasicBlock, depth int) bool {
		if depth > 6 {
			return false
		}
		if k, isC := constBool(v); isC && k == want {
			return true
		}
		if x, eq, ok := nilCmp(v); ok && x == prm && eq == want {
			return true
		}
		if underEdges(h, b, nonNil) {
			return true
		}
		if phi, ok := v.(*ssa.Phi); ok {
			for j, e := range phi.Edges {
				if !check(e, phi.Block().Preds[j], depth+1) {
					return false
				}
			}
			return true
		}
		return false
	}
	n := 0
	for _, b := range h.Blocks {
		r, ok := b.Instrs[len(b.Instrs)-1].(*ssa.Return)
		if !ok {
			continue
		}
		if len(r.Results) != 1 {
			return false
		}
		n++
		if !check(retVal(r, 0), b, 0) {
			return false
		}
	}
	return n > 0
}
