package main

import (
	"go/token"
	"go/types"
	"strings"

	"golang.org/x/tools/go/ssa"
)

const pkgKubeCtl = "pilot/pkg/serviceregistry/kube/controller"

func init() {
	register(&PropDef{
		ID: "C15",
		Clauses: []string{
			"R1 endpoint-before-pod: when a Pod-backed address has no Pod yet, the slice is registered for replay (keyed by the EndpointSlice's own name, which is what the replay looks up) on every path, and no endpoint is built from the missing Pod",
			"R2 pod arrival drains the pending replays for its IP on every path that inserts a new IP; an IP change removes the old index entry before inserting the new one; deleteIP removes both indexes together",
			"R3 lock discipline: PodCache indexes, the EndpointSlice endpoint cache and the controller's service/node maps are touched only under their mutex",
		},
		NotDecided: "convergence itself (that every event order ends in the cold-start state), label-change handling",
		Rules: []Rule{
			{"C15-R1", "endpoint before pod is replayed", c15r1},
			{"C15-R2", "pod index maintenance", c15r2},
			{"C15-R3", "kube registry lock discipline", c15r3},
			{"C15-R4", "a slice's cached endpoints depend on that slice alone", c15r4},
			{"C15-R5", "no queued event is dropped on the way to its handler", c15r5},
			{"C15-R6", "the IP a pod was indexed under comes from the cache, not from the event", c15r6},
			{"C15-R7", "every replay taken out of needResync is queued", c15r7},
			{"C15-R8", "a changed cluster network is always propagated", c15r8},
			{"C15-R9", "the slice cache is written per slice, for slices named by EndpointSlice objects", c15r9},
		},
	})
}

func c15r1(c *Ctx) {
	p := c.P
	gp := p.Func(pkgKubeCtl, "", "getPod")
	inner := p.FuncObj(pkgKubeCtl, "Controller", "getPod")
	reg := p.FuncObj(pkgKubeCtl, "Controller", "registerEndpointResync")
	calls := callsIn(gp, inner)
	c.Check("getPod looks the pod up", gp.Pos(), len(calls) == 1, "expected one lookup")
	if len(calls) == 1 {
		pod := calls[0].Value()
		// every return whose expectPod result can be true and pod nil passes registerEndpointResync:
		// on the `pod == nil` edge (inside the Pod-kind branch) all paths to return pass the registration
		n := 0
		for _, i := range allIfs(gp) {
			x, eq, ok := nilCmp(i.Cond)
			if !ok || x != pod {
				continue
			}
			n++
			idx := 1
			if eq {
				idx = 0
			}
			_, found := pathAvoidingE(i.Block().Succs[idx], nil, func(ins ssa.Instruction) bool { return isCallTo(ins, reg) }, isReturn, nil, nil)
			c.Check("missing Pod of a Pod-backed address is registered for replay", i.Pos(), !found, "getPod can report `Pod expected but missing` without registering the slice for replay on Pod arrival: the endpoint (and its service account) is never built once the Pod shows up")
		}
		c.Check("getPod tests for a missing pod", gp.Pos(), n == 1, "no nil test of the looked-up pod")
	}
	// the registration reaches the pod cache with the slice's key
	rf := p.SSA.FuncValue(reg)
	q := p.FuncObj(pkgKubeCtl, "PodCache", "queueEndpointEventOnPodArrival")
	c.Check("registerEndpointResync queues on pod arrival", rf.Pos(), len(callsIn(rf, q)) == 1, "registerEndpointResync no longer calls queueEndpointEventOnPodArrival")
	// call site in updateEndpointCacheForSlice: the object name handed to getPod is the EndpointSlice's own name
	uf := p.Func(pkgKubeCtl, "endpointSliceController", "updateEndpointCacheForSlice")
	slice := paramNamed(uf, "epSlice")
	gpo := p.FuncObj(pkgKubeCtl, "", "getPod")
	for _, call := range callsIn(uf, gpo) {
		// find the argument that carries a name: a fresh struct with a Name field
		okName := false
		found := false
		for _, a := range call.Common().Args {
			base := a
			if u, ok := a.(*ssa.UnOp); ok && u.Op == token.MUL {
				base = u.X
			}
			al, ok := base.(*ssa.Alloc)
			if !ok {
				continue
			}
			for _, r := range *al.Referrers() {
				fa, ok := r.(*ssa.FieldAddr)
				if !ok || fieldVar(fa.X.Type(), fa.Field).Name() != "Name" {
					continue
				}
				for _, r2 := range *fa.Referrers() {
					st, ok := r2.(*ssa.Store)
					if !ok {
						continue
					}
					found = true
					// value: load of <epSlice>.ObjectMeta.Name
					if fv := fieldOfLoad(st.Val); fv != nil && fv.Name() == "Name" {
						b, _ := fieldLoadOf(st.Val, fv)
						for i := 0; i < 3 && b != nil; i++ {
							if b == ssa.Value(slice) {
								okName = true
							}
							if fa2, ok := b.(*ssa.FieldAddr); ok {
								b = fa2.X
							} else {
								break
							}
						}
					}
				}
			}
		}
		c.Check("replay key names the EndpointSlice", call.Pos(), found && okName, "the object name registered for replay on Pod arrival is not the EndpointSlice's own name; podArrived looks an EndpointSlice up by that name, so for real slices (named <service>-<suffix>) the replay finds nothing and the late Pod's endpoint is never built")
		// no endpoint from a missing pod
		podV, expV := extractN(call.Value(), 0), extractN(call.Value(), 1)
		nb := p.FuncObj(pkgKubeCtl, "Controller", "NewEndpointBuilder")
		var okE []Edge
		for _, i := range allIfs(uf) {
			if x, eq, ok := nilCmp(i.Cond); ok && x == podV {
				idx := 0
				if eq {
					idx = 1
				}
				okE = append(okE, Edge{i.Block(), idx})
			}
			v, neg := stripNot(i.Cond)
			if v == expV {
				idx := 1
				if neg {
					idx = 0
				}
				okE = append(okE, Edge{i.Block(), idx})
			}
		}
		for _, b := range callsIn(uf, nb) {
			c.Check("no endpoint is built from a missing Pod", b.Pos(), underEdges(uf, b.Block(), okE), "an endpoint is built although its Pod is expected but unknown: it would carry no labels / service account / locality until some later event")
		}
	}
	c.Floor(6)
}

func extractN(v ssa.Value, n int) ssa.Value {
	if v == nil || v.Referrers() == nil {
		return nil
	}
	for _, r := range *v.Referrers() {
		if ex, ok := r.(*ssa.Extract); ok && ex.Index == n {
			return ex
		}
	}
	return nil
}

func c15r2(c *Ctx) {
	p := c.P
	ap := p.Func(pkgKubeCtl, "PodCache", "addPod")
	byIP := p.Field(pkgKubeCtl, "PodCache", "podsByIP")
	ipBy := p.Field(pkgKubeCtl, "PodCache", "ipByPods")
	need := p.Field(pkgKubeCtl, "PodCache", "needResync")
	qf := p.Field(pkgKubeCtl, "PodCache", "queueEndpointEvent")
	isSetOp := func(ins ssa.Instruction, name string, f *types.Var) bool {
		o := calleeObj(ins)
		if o == nil || o.Name() != name {
			return false
		}
		args := ins.(ssa.CallInstruction).Common().Args
		return len(args) > 0 && fieldOfLoad(args[0]) == f
	}
	var insert ssa.Instruction
	var inserts []ssa.Instruction
	eachInstr(ap, func(ins ssa.Instruction) {
		if isSetOp(ins, "InsertOrNew", byIP) {
			insert = ins
			inserts = append(inserts, ins)
		}
	})
	for _, in2 := range inserts {
		_, miss := pathAvoidingE(nil, in2, deepMust(func(ins ssa.Instruction) bool {
			lk, ok := ins.(*ssa.Lookup)
			return ok && fieldOfLoad(lk.X) == need
		}, 2), isReturn, nil, nil)
		c.Check("every insertion of a pod IP checks for pending endpoint replays", in2.Pos(), !miss, "a path inserts a new pod IP without consulting needResync: EndpointSlices that arrived before this Pod are never re-processed")
	}
	c.Check("addPod inserts into the IP index", ap.Pos(), insert != nil, "no InsertOrNew(podsByIP, ...)")
	if insert != nil {
		// after the insert every path to return looks needResync up
		isNeedLookup := func(ins ssa.Instruction) bool {
			lk, ok := ins.(*ssa.Lookup)
			return ok && fieldOfLoad(lk.X) == need
		}
		_, found := pathAvoidingE(nil, insert, deepMust(isNeedLookup, 2), isReturn, nil, nil)
		c.Check("a newly indexed pod IP always checks for pending endpoint replays", insert.Pos(), !found, "a path inserts a new pod IP without consulting needResync: EndpointSlices that arrived before this Pod are never re-processed")
		// on the found edge: delete + queue
		var lk *ssa.Lookup
		apq := ap // the function holding the needResync lookup: addPod or a helper it calls
		if g := funcHoldingDeep(ap, isNeedLookup, 2); g != nil {
			apq = g
		}
		eachInstr(apq, func(ins ssa.Instruction) {
			if isNeedLookup(ins) {
				lk = ins.(*ssa.Lookup)
			}
		})
		if lk != nil {
			ap := apq
			var foundE []Edge
			for _, i := range allIfs(ap) {
				if ex, ok := i.Cond.(*ssa.Extract); ok && ex.Tuple == ssa.Value(lk) && ex.Index == 1 {
					foundE = append(foundE, Edge{i.Block(), 0})
				}
			}
			okq := false
			eachInstr(ap, func(ins ssa.Instruction) {
				ci, ok := ins.(ssa.CallInstruction)
				if !ok {
					return
				}
				if fieldOfLoad(ci.Common().Value) == qf && underEdges(ap, ins.Block(), foundE) {
					okq = true
				}
			})
			c.Check("pending replays are queued when the pod arrives", lk.Pos(), len(foundE) == 1 && okq, "pending endpoint replays for the arriving Pod's IP are not queued")
		}
		// IP change: old entry removed before inserting the new one
		var cleanup ssa.Instruction
		eachInstr(ap, func(ins ssa.Instruction) {
			if isSetOp(ins, "DeleteCleanupLast", byIP) {
				cleanup = ins
			}
		})
		okc := cleanup != nil
		if okc {
			// under the found edge of the ipByPods lookup and before the insert
			var fe []Edge
			for _, i := range allIfs(ap) {
				if ex, ok := i.Cond.(*ssa.Extract); ok && ex.Index == 1 {
					if l2, ok := ex.Tuple.(*ssa.Lookup); ok && fieldOfLoad(l2.X) == ipBy {
						fe = append(fe, Edge{i.Block(), 0})
						// every path from the found edge to the insert passes the cleanup
						_, miss := pathAvoidingE(i.Block().Succs[0], nil, func(x ssa.Instruction) bool { return x == cleanup }, func(x ssa.Instruction) bool { return x == insert }, nil, nil)
						if miss {
							okc = false
						}
					}
				}
			}
			okc = okc && len(fe) == 1
		}
		c.Check("an IP change removes the pod's old IP entry before indexing the new one", ap.Pos(), okc, "a Pod that changed IP keeps its entry under the old IP: a later Pod reusing that IP is confused with it")
	}
	// deleteIP removes both
	di := p.Func(pkgKubeCtl, "PodCache", "deleteIP")
	var a, b ssa.Instruction
	eachInstr(di, func(ins ssa.Instruction) {
		if isSetOp(ins, "DeleteCleanupLast", byIP) {
			a = ins
		}
		if ci, ok := ins.(ssa.CallInstruction); ok {
			if bi, ok := ci.Common().Value.(*ssa.Builtin); ok && bi.Name() == "delete" && fieldOfLoad(ci.Common().Args[0]) == ipBy {
				b = ins
			}
		}
	})
	c.Check("deleteIP removes the pod from both indexes together", di.Pos(), a != nil && b != nil && a.Block() == b.Block(), "deleteIP updates only one of podsByIP / ipByPods (or on different paths): the two indexes drift apart")
	c.Floor(5)
}

func c15r3(c *Ctx) {
	p := c.P
	checkGuards(c, GuardSpec{
		Name: "PodCache", Struct: p.Named(pkgKubeCtl, "PodCache"), Guard: "RWMutex",
		Fields: map[string]bool{"podsByIP": true, "ipByPods": true, "needResync": true},
		Exempt: map[string]string{"pilot/pkg/serviceregistry/kube/controller.newPodCache": "constructor"},
	})
	checkGuards(c, GuardSpec{
		Name: "endpointSliceCache", Struct: p.Named(pkgKubeCtl, "endpointSliceCache"), Guard: "mu",
		Fields: map[string]bool{"endpointsByServiceAndSlice": true},
		Locked: map[string]int{
			"(*pilot/pkg/serviceregistry/kube/controller.endpointSliceCache).update": modeW,
			"(*pilot/pkg/serviceregistry/kube/controller.endpointSliceCache).delete": modeW,
			"(*pilot/pkg/serviceregistry/kube/controller.endpointSliceCache).get":    modeR,
			"(*pilot/pkg/serviceregistry/kube/controller.endpointSliceCache).has":    modeR,
		},
		Exempt: map[string]string{"pilot/pkg/serviceregistry/kube/controller.newEndpointSliceCache": "constructor"},
	})
	checkGuards(c, GuardSpec{
		Name: "Controller", Struct: p.Named(pkgKubeCtl, "Controller"), Guard: "RWMutex",
		Fields: map[string]bool{"servicesMap": true, "nodeSelectorsForServices": true, "nodeInfoMap": true},
		Locked: map[string]int{"(*pilot/pkg/serviceregistry/kube/controller.Controller).getNodePortGatewayServices": modeR},
		Exempt: map[string]string{"pilot/pkg/serviceregistry/kube/controller.NewController": "constructor"},
	})
	c.Floor(30)
}

// C15-R4: the EndpointSlice cache holds, per service and slice, what the LAST write of THAT slice said; duplicates across
// slices are resolved when reading. update() therefore writes only the entry of the slice it was called for. A write
// into another slice's entry makes the registry depend on the order in which slices were written and cannot be undone
// by a later write of the first slice alone (the final objects no longer determine the endpoints).
func c15r4(c *Ctx) {
	p := c.P
	fn := p.Func(pkgKubeCtl, "endpointSliceCache", "update")
	slice := paramNamed(fn, "slice")
	n := 0
	eachInstr(fn, func(ins ssa.Instruction) {
		mu, ok := ins.(*ssa.MapUpdate)
		if !ok {
			return
		}
		// the inner map: keyed by slice name, holding endpoint lists
		mt, ok := mu.Map.Type().Underlying().(*types.Map)
		if !ok {
			return
		}
		if _, isSlice := mt.Elem().Underlying().(*types.Slice); !isSlice {
			return
		}
		n++
		c.Check("endpointSliceCache.update writes only the entry of its own slice", mu.Pos(), mu.Key == ssa.Value(slice),
			"update() stores endpoints under a slice name other than the one it was called for: the cached content of a slice then depends on which other slice was written later, and an address still listed by a final slice can be missing from the registry")
	})
	// the read side resolves duplicates
	get := p.Func(pkgKubeCtl, "endpointSliceCache", "get")
	dedupes := false
	var scanGet func(f *ssa.Function)
	scanGet = func(f *ssa.Function) {
		eachInstr(f, func(ins ssa.Instruction) {
			if o := calleeObj(ins); o != nil && (o.Name() == "InsertContains" || o.Name() == "Contains") {
				dedupes = true
			}
			// bodies of range-over-func loops and other literals of get
			if mk, ok := ins.(*ssa.MakeClosure); ok {
				if lit, ok := mk.Fn.(*ssa.Function); ok {
					scanGet(lit)
				}
			}
		})
	}
	scanGet(get)
	c.Check("endpointSliceCache.get resolves duplicates across slices when reading", get.Pos(), dedupes, "get() concatenates the slices without de-duplicating endpoints listed by more than one slice")
	c.Check("endpointSliceCache.update stores the slice", fn.Pos(), n >= 1, "no write of the per-slice entry found")
	c.Floor(3)
}

// C15-R5: registerHandlers wraps every resource handler; the wrapper refreshes the object from the informer and calls the
// handler. The only path on which it returns without calling the handler is "the object is gone from the informer"
// (the delete event follows). Any other early return drops an event whose (old, new) pair the handler needs - e.g. a
// label change whose follow-up heartbeat update carries identical old and new labels.
func c15r5(c *Ctx) {
	p := c.P
	var wrap *ssa.Function
	n := 0
	for _, fn := range p.AllFuncs {
		if funcPkgPath(fn) != istioMod+"/"+pkgKubeCtl || fn.Parent() == nil {
			continue
		}
		root := fn.Parent()
		if !strings.HasPrefix(root.Name(), "registerHandlers") || fn.Signature.Params().Len() != 3 {
			continue
		}
		// the wrapper: calls the captured `handler`
		callsHandler := func(ins ssa.Instruction) bool {
			ci, ok := ins.(ssa.CallInstruction)
			if !ok {
				return false
			}
			v := ci.Common().Value
			if u, ok := v.(*ssa.UnOp); ok {
				v = u.X
			}
			fv, ok := v.(*ssa.FreeVar)
			return ok && fv.Name() == "handler"
		}
		has := false
		eachInstr(fn, func(ins ssa.Instruction) {
			if callsHandler(ins) {
				has = true
			}
		})
		if !has {
			continue
		}
		if wrap != nil && wrap.Origin() == fn.Origin() && fn.Origin() != nil {
			continue // one instance per generic origin
		}
		wrap = fn
		n++
		// "object gone" edges: IsNil(<informer.Get result>) is true
		var gone []Edge
		for _, i := range allIfs(fn) {
			v, neg := stripNot(i.Cond)
			if call, ok := v.(*ssa.Call); ok {
				if o := calleeObj(call); o != nil && o.Name() == "IsNil" {
					idx := 0
					if neg {
						idx = 1
					}
					gone = append(gone, Edge{i.Block(), idx})
				}
			}
		}
		bad, found := pathAvoidingE(fn.Blocks[0], nil, callsHandler, isReturn, gone, nil)
		pos := fn.Pos()
		if bad != nil {
			pos = bad.Pos()
		}
		c.Check("handler wrapper calls the handler on every path except 'object gone': "+stableFnName(root), pos, !found,
			"the wrapper around the resource handlers can return without calling the handler although the object still exists: that event's (old, new) pair is lost - e.g. a label edit immediately followed by a heartbeat is handled as old==new, the service for the pod is never recomputed, and the registry keeps state a cold start would not produce")
	}
	c.Check("registerHandlers wrapper found", token.NoPos, n >= 1, "the handler wrapper in registerHandlers was not recognised")
	c.Floor(2)
}

// C15-R6: whether a pod "used to have an IP" is answered by the cache, not by the event. A Failed/evicted pod may arrive
// without its IP, and as a DELETE (no old object) - the pod cache then finds the IP it indexed the pod under in its own
// reverse index. In PodCache.onEvent every return on the "event carries no IP" branch is preceded on all paths by a read
// of PodCache.ipByPods (through a helper). Otherwise the stale pod stays indexed under an IP that is handed to another
// workload: two owners for one address, and an identity that no current object carries.
func c15r6(c *Ctx) {
	p := c.P
	fn := p.Func(pkgKubeCtl, "PodCache", "onEvent")
	rev := p.Field(pkgKubeCtl, "PodCache", "ipByPods")
	var noIP []Edge
	for _, i := range allIfs(fn) {
		v, neg := stripNot(i.Cond)
		b, ok := v.(*ssa.BinOp)
		if !ok || (b.Op != token.EQL && b.Op != token.NEQ) {
			continue
		}
		call, ok := b.X.(*ssa.Call)
		if !ok {
			continue
		}
		if bi, ok := call.Call.Value.(*ssa.Builtin); !ok || bi.Name() != "len" {
			continue
		}
		if f := fieldOfLoad(call.Call.Args[0]); f == nil || f.Name() != "PodIP" {
			continue
		}
		if k, ok := b.Y.(*ssa.Const); !ok || k.Value == nil || k.Int64() != 0 {
			continue
		}
		idx := 0
		if (b.Op == token.NEQ) != neg {
			idx = 1
		}
		noIP = append(noIP, Edge{i.Block(), idx})
	}
	c.Check("onEvent: the no-IP branch found", fn.Pos(), len(noIP) == 1, "expected exactly one test of the event pod's Status.PodIP for emptiness")
	readsRev := func(ins ssa.Instruction) bool {
		if u, ok := ins.(*ssa.UnOp); ok && u.Op == token.MUL {
			if fa, ok := u.X.(*ssa.FieldAddr); ok && fieldVar(fa.X.Type(), fa.Field) == rev {
				return true
			}
		}
		return false
	}
	for _, e := range noIP {
		bad, found := pathAvoidingE(e.To(), nil, deepMust(readsRev, 2), isReturn, nil, nil)
		pos := e.From.Instrs[len(e.From.Instrs)-1].Pos()
		if bad != nil {
			pos = bad.Pos()
		}
		c.Check("onEvent: a pod without IP is dismissed only after the cache's reverse index was consulted", pos, !found,
			"PodCache.onEvent can return for an event whose pod carries no IP without having looked the pod up in ipByPods: the IP the pod is indexed under is then taken from the event (or not at all), and an evicted pod that arrives as a DELETE, or after its Failed update was coalesced, is never removed - its address keeps a second owner and its identity outlives the object")
	}
	c.Floor(2)
}

// C15-R7: every replay that is taken out of needResync is queued. addPod deletes the whole needResync[ip] entry and then
// walks it; an endpoint key that the walk skips has lost its pending replay for good (nothing registers it again unless
// the slice is processed for another reason). Every pass of the loop over the drained entry calls queueEndpointEvent.
func c15r7(c *Ctx) {
	p := c.P
	fn := p.Func(pkgKubeCtl, "PodCache", "addPod")
	qf := p.Field(pkgKubeCtl, "PodCache", "queueEndpointEvent")
	nr := p.Field(pkgKubeCtl, "PodCache", "needResync")
	n := 0
	fns := []*ssa.Function{fn}
	for _, h := range helperCalls(fn) {
		fns = append(fns, h.callee)
	}
	for _, fn := range fns {
		for _, l := range rangeLoops(fn) {
			if l.Over == nil {
				continue
			}
			// the drained entry: a comma-ok lookup in needResync
			fromNR := false
			if ex, ok := l.Over.(*ssa.Extract); ok {
				if lk, ok := ex.Tuple.(*ssa.Lookup); ok && fieldOfLoad(lk.X) == nr {
					fromNR = true
				}
			}
			if lk, ok := l.Over.(*ssa.Lookup); ok && fieldOfLoad(lk.X) == nr {
				fromNR = true
			}
			if !fromNR {
				continue
			}
			n++
			isQ := deepMust(func(ins ssa.Instruction) bool {
				ci, ok := ins.(ssa.CallInstruction)
				return ok && fieldOfLoad(ci.Common().Value) == qf
			}, 1)
			bad, found := pathAvoidingE(l.Body, nil, isQ, nil, nil, l.Header)
			pos := fn.Pos()
			if bad != nil {
				pos = bad.Pos()
			}
			c.Check("addPod: every replay taken out of needResync is queued", pos, !found,
				"a pass of the loop over the drained needResync entry can finish without queueing the endpoint event: the entry was deleted as a whole before the loop, so the skipped EndpointSlice has lost its pending replay - when its own Pod arrives later on the same IP there is nothing left to replay, and the service keeps an endpoint set a cold start would not produce")
		}
	}
	c.Check("addPod drains needResync in a loop", fn.Pos(), n == 1, "no loop over the needResync entry of the pod's IP found in addPod")
	c.Floor(2)
}

// C15-R8: a changed cluster network is always propagated. The network of the registry's endpoints comes from a label on
// the system namespace; whenever setNetworkFromNamespace reports a change, everything built with the previous value is
// refreshed (onNetworkChange: pods, endpoints, services) - whatever the event type, because the Namespace event is not
// ordered against the Pod / EndpointSlice events. In onSystemNamespaceEvent every path from the call to a return passes
// onNetworkChange, except under the "nothing changed" edge.
func c15r8(c *Ctx) {
	p := c.P
	fn := p.Func(pkgKubeCtl, "Controller", "onSystemNamespaceEvent")
	set := p.FuncObj(pkgKubeCtl, "networkManager", "setNetworkFromNamespace")
	onc := p.FuncObj(pkgKubeCtl, "Controller", "onNetworkChange")
	calls := callsIn(fn, set)
	c.Check("onSystemNamespaceEvent reads the network label", fn.Pos(), len(calls) == 1, "expected one call of setNetworkFromNamespace")
	for _, cs := range calls {
		v := cs.Value()
		unchanged := edgesWhere(fn, func(x ssa.Value) bool { return x == ssa.Value(v) }, false)
		bad, found := pathAvoidingE(nil, cs.(ssa.Instruction), deepMust(func(ins ssa.Instruction) bool { return isCallTo(ins, onc) }, 1), isReturn, unchanged, nil)
		pos := cs.Pos()
		if bad != nil {
			pos = bad.Pos()
		}
		c.Check("a changed network label always reaches onNetworkChange", pos, !found,
			"onSystemNamespaceEvent can return after setNetworkFromNamespace reported a change without refreshing what was built with the previous network: endpoints and pods processed before the Namespace event keep the old (empty) network, while the same objects processed namespace-first - or a cold start - carry the labelled one; cross-network routing for those endpoints is wrong until something else touches them")
	}
	c.Floor(2)
}

// C15-R9: the EndpointSlice endpoint cache is a function of the EndpointSlice objects alone. A cold start on the final
// objects fills it from the slices that exist, so on the event path it may be written only (a) by methods of the cache
// type, (b) one slice entry at a time - the inner key of every write is the method's own slice-name parameter, a service's
// whole entry is created only when absent and dropped only when its last slice is gone - and (c) for a slice name that
// is read from an *EndpointSlice object at the call site. A write keyed by anything else (for instance a Service delete
// that drops all slices of a host, seed C15-1) leaves the cache depending on whether the Service or the slice event came
// last: the slices survive the Service, no slice event follows, and a re-created Service finds no endpoints.
func c15r9(c *Ctx) {
	p := c.P
	fv := p.Field(pkgKubeCtl, "endpointSliceCache", "endpointsByServiceAndSlice")
	cacheT := p.Named(pkgKubeCtl, "endpointSliceCache")
	isOuter := func(v ssa.Value) bool { _, ok := fieldLoadOf(v, fv); return ok }
	var innerOf func(v ssa.Value) bool
	innerOf = func(v ssa.Value) bool {
		if ex, ok := v.(*ssa.Extract); ok {
			v = ex.Tuple
		}
		if phi, ok := v.(*ssa.Phi); ok {
			// `m := outer[h]; if m == nil { m = make(...); outer[h] = m }` - the local is the inner map on one edge
			for _, e := range phi.Edges {
				if _, isPhi := e.(*ssa.Phi); !isPhi && innerOf(e) {
					return true
				}
			}
			return false
		}
		lk, ok := v.(*ssa.Lookup)
		return ok && isOuter(lk.X)
	}
	recvIsCache := func(f *ssa.Function) bool {
		if f.Signature.Recv() == nil {
			return false
		}
		t := f.Signature.Recv().Type()
		if pt, ok := t.(*types.Pointer); ok {
			t = pt.Elem()
		}
		n, ok := t.(*types.Named)
		return ok && n.Origin() == cacheT
	}
	builtinName := func(ins ssa.Instruction) (string, []ssa.Value) {
		ci, ok := ins.(ssa.CallInstruction)
		if !ok {
			return "", nil
		}
		if b, ok := ci.Common().Value.(*ssa.Builtin); ok {
			return b.Name(), ci.Common().Args
		}
		return "", nil
	}
	// slice-name parameter index (in Signature.Params) per writer method
	sliceParam := map[*ssa.Function]int{}
	nWrites := 0
	for _, fn := range p.AllFuncs {
		var innerKeys []ssa.Value
		var innerPos []token.Pos
		type outerW struct {
			ins    ssa.Instruction
			remove bool
		}
		var outers []outerW
		eachInstr(fn, func(ins ssa.Instruction) {
			switch x := ins.(type) {
			case *ssa.MapUpdate:
				if innerOf(x.Map) {
					innerKeys, innerPos = append(innerKeys, x.Key), append(innerPos, x.Pos())
				} else if isOuter(x.Map) {
					outers = append(outers, outerW{x, false})
				}
			case *ssa.Store:
				if fa, ok := x.Addr.(*ssa.FieldAddr); ok && fieldVar(fa.X.Type(), fa.Field) == fv {
					_, fresh := fa.X.(*ssa.Alloc)
					nWrites++
					c.Check("the slice cache's map is replaced only while constructing the cache: "+shortFn(fn), x.Pos(), fresh,
						"the whole endpointsByServiceAndSlice map of an existing cache is replaced; the cached endpoints of every slice are lost although no EndpointSlice changed")
				}
			default:
				switch name, args := builtinName(ins); name {
				case "delete":
					if innerOf(args[0]) {
						innerKeys, innerPos = append(innerKeys, args[1]), append(innerPos, ins.Pos())
					} else if isOuter(args[0]) {
						outers = append(outers, outerW{ins, true})
					}
				case "clear":
					if innerOf(args[0]) || isOuter(args[0]) {
						nWrites++
						c.Check("the slice cache is never cleared wholesale: "+shortFn(fn), ins.Pos(), false,
							"clear() on the slice cache drops the endpoints of slices that still exist; no EndpointSlice event will restore them")
					}
				}
			}
		})
		if len(innerKeys) == 0 && len(outers) == 0 {
			continue
		}
		nWrites += len(innerKeys) + len(outers)
		if !c.checkOK("the slice cache is written only by methods of endpointSliceCache: "+shortFn(fn), fn.Pos(), recvIsCache(fn),
			"a function outside the cache type writes endpointsByServiceAndSlice directly; the per-slice write discipline (and the mutex) of the cache cannot be decided for it") {
			continue
		}
		// (b) inner writes are keyed by the method's own string parameter
		for i, k := range innerKeys {
			prm, isP := k.(*ssa.Parameter)
			ok := isP && types.Identical(prm.Type().Underlying(), types.Typ[types.String])
			if ok {
				for j, q := range fn.Params {
					if q == prm {
						idx := j - 1 // Params[0] is the receiver
						if old, seen := sliceParam[fn]; seen && old != idx {
							ok = false
						}
						sliceParam[fn] = idx
					}
				}
			}
			c.Check("a cache write touches only the entry of the slice named by the caller: "+shortFn(fn), innerPos[i], ok,
				"the inner key of a slice-cache write is not the method's slice-name parameter: the entry of another slice is changed by this call")
		}
		lastGone := edgesWhere(fn, func(v ssa.Value) bool {
			b, ok := v.(*ssa.BinOp)
			if !ok || b.Op != token.EQL {
				return false
			}
			ci, ok := b.X.(*ssa.Call)
			if !ok {
				return false
			}
			if bi, ok := ci.Call.Value.(*ssa.Builtin); !ok || bi.Name() != "len" || !innerOf(ci.Call.Args[0]) {
				return false
			}
			k, ok := b.Y.(*ssa.Const)
			return ok && k.Value != nil && k.Value.ExactString() == "0"
		}, true)
		absent := edgesWhere(fn, func(v ssa.Value) bool {
			if ex, ok := v.(*ssa.Extract); ok && ex.Index == 1 {
				lk, ok := ex.Tuple.(*ssa.Lookup)
				return ok && lk.CommaOk && isOuter(lk.X)
			}
			return false
		}, false)
		absent = append(absent, edgesWhere(fn, func(v ssa.Value) bool {
			x, eq, ok := nilCmp(v)
			return ok && eq && innerOf(x)
		}, true)...)
		for _, o := range outers {
			if o.remove {
				_, perSlice := sliceParam[fn]
				c.Check("a service's cache entry is dropped only when its last slice is gone: "+shortFn(fn), o.ins.Pos(),
					perSlice && underEdges(fn, o.ins.Block(), lastGone),
					"all cached slices of a service are dropped at once; the EndpointSlices still exist and no event will re-add them (Service deleted and re-created, or Service event reordered against the slices)")
			} else {
				c.Check("a service's cache entry is created only when absent: "+shortFn(fn), o.ins.Pos(), underEdges(fn, o.ins.Block(), absent),
					"the per-service map of the slice cache is overwritten although it exists: the entries of the service's other slices are lost")
			}
		}
	}
	// (c) call sites: wrappers inside the type pass their own parameter through; everyone else names the slice object
	isSliceObjName := func(v ssa.Value) bool {
		var base ssa.Value
		if call, ok := v.(*ssa.Call); ok {
			// the accessor form: slice.GetName()
			if o := calleeObj(call); o == nil || o.Name() != "GetName" || len(call.Call.Args) != 1 {
				return false
			}
			base = call.Call.Args[0]
		} else {
			u, ok := v.(*ssa.UnOp)
			if !ok || u.Op != token.MUL {
				return false
			}
			fa, ok := u.X.(*ssa.FieldAddr)
			if !ok {
				return false
			}
			if f := fieldVar(fa.X.Type(), fa.Field); f == nil || f.Name() != "Name" {
				return false
			}
			base = fa.X
		}
		if fa2, ok := base.(*ssa.FieldAddr); ok {
			base = fa2.X
		}
		t := base.Type()
		if pt, ok := t.(*types.Pointer); ok {
			t = pt.Elem()
		}
		n, ok := t.(*types.Named)
		return ok && n.Obj().Name() == "EndpointSlice" && n.Obj().Pkg() != nil && n.Obj().Pkg().Path() == "k8s.io/api/discovery/v1"
	}
	nSites := 0
	for changed := true; changed; {
		changed = false
		for _, fn := range p.AllFuncs {
			eachInstr(fn, func(ins ssa.Instruction) {
				ci, ok := ins.(ssa.CallInstruction)
				if !ok {
					return
				}
				callee := ci.Common().StaticCallee()
				idx, isW := sliceParam[callee]
				if !isW || callee == nil {
					return
				}
				arg := ci.Common().Args[idx+1]
				if recvIsCache(fn) {
					if prm, ok := arg.(*ssa.Parameter); ok {
						for j, q := range fn.Params {
							if q == prm {
								if _, seen := sliceParam[fn]; !seen {
									sliceParam[fn] = j - 1
									changed = true
								}
								return
							}
						}
					}
				}
			})
		}
	}
	for _, fn := range p.AllFuncs {
		eachInstr(fn, func(ins ssa.Instruction) {
			ci, ok := ins.(ssa.CallInstruction)
			if !ok {
				return
			}
			callee := ci.Common().StaticCallee()
			if callee == nil {
				return
			}
			idx, isW := sliceParam[callee]
			if !isW {
				return
			}
			arg := ci.Common().Args[idx+1]
			if recvIsCache(fn) {
				if prm, ok := arg.(*ssa.Parameter); ok && sliceParamIs(fn, sliceParam, prm) {
					return // wrapper inside the type
				}
			}
			nSites++
			c.Check("the slice cache is written for a slice named by an EndpointSlice object: "+shortFn(fn)+" -> "+callee.Name(), ins.Pos(), isSliceObjName(arg),
				"the slice name given to the cache does not come from an *EndpointSlice object's Name: the cache entry no longer follows the EndpointSlice objects")
		})
	}
	c.Stat("writes", nWrites)
	c.Stat("call_sites", nSites)
	c.Check("the slice cache has per-slice writers", cacheT.Obj().Pos(), len(sliceParam) >= 2 && nSites >= 2, "no per-slice writer or no call site found")
	c.Floor(8)
}

func sliceParamIs(fn *ssa.Function, m map[*ssa.Function]int, prm *ssa.Parameter) bool {
	idx, ok := m[fn]
	return ok && idx+1 < len(fn.Params) && fn.Params[idx+1] == prm
}

// checkOK records the obligation and returns its truth.
func (c *Ctx) checkOK(construct string, pos token.Pos, ok bool, detail string) bool {
	c.Check(construct, pos, ok, detail)
	return ok
}
