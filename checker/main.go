package main

import (
	"flag"
	"fmt"
	"os"
	"sort"
	"strconv"
	"strings"
	"time"
)

var quickPatterns = []string{"./pilot/...", "./pkg/...", "./security/...", "./tools/istio-iptables/...", "./tools/common/..."}

func main() {
	prop := flag.String("prop", "", "property id (C01..C20), comma list, or 'all'")
	tier := flag.String("tier", "quick", "quick|thorough")
	repo := flag.String("repo", "/repo", "repository root")
	verif := flag.String("verif", "/verif", "verif root")
	tags := flag.String("tags", "", "build tags")
	only := flag.String("rule", "", "run only this rule id (development)")
	explain := flag.String("explain", "", "print a replay record")
	flag.Parse()
	if *explain != "" {
		b, err := os.ReadFile(*explain)
		if err != nil {
			fmt.Println(err)
			os.Exit(2)
		}
		fmt.Println(string(b))
		return
	}
	var ids []string
	if *prop == "all" {
		for id := range props {
			ids = append(ids, id)
		}
		sort.Strings(ids)
	} else {
		ids = strings.Split(*prop, ",")
	}
	for _, id := range ids {
		if props[id] == nil {
			fmt.Printf("unknown property %q\n", id)
			os.Exit(2)
		}
	}
	seed, _ := strconv.Atoi(os.Getenv("VERIF_SEED"))
	patterns := quickPatterns
	if *tier == "thorough" {
		patterns = []string{"./..."}
	}
	t0 := time.Now()
	p, err := loadProg(*repo, patterns, *tags)
	if err != nil {
		// A tree that does not load/type-check cannot be decided: fail every requested property.
		fmt.Println("load failure:", err)
		for _, id := range ids {
			fmt.Printf("VIOLATION property=%s replay=%s\n", id, "load-failure")
		}
		os.Exit(1)
	}
	known, pending := loadKnown(*verif)
	rc := 0
	for _, id := range ids {
		t1 := time.Now()
		pd := props[id]
		c := &Ctx{P: p, Prop: id, Tier: *tier, floors: map[string]int{}, Stats: map[string]any{}, known: known, pending: pending, ruleDocs: map[string]string{}}
		for _, r := range pd.Rules {
			if *only != "" && r.ID != *only {
				continue
			}
			c.runRule(r)
		}
		wall := time.Since(t1).Seconds()
		if len(ids) == 1 {
			wall = time.Since(t0).Seconds()
		}
		pdRun := *pd
		if *only != "" {
			pdRun.Rules = nil
			for _, r := range pd.Rules {
				if r.ID == *only {
					pdRun.Rules = append(pdRun.Rules, r)
				}
			}
		}
		if r := c.finish(*verif, seed, wall, pdRun); r > rc {
			rc = r
		}
	}
	os.Exit(rc)
}
