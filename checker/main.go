package main

import (
	"flag"
	"fmt"
	"os"
	"runtime"
	"sort"
	"strconv"
	"strings"
	"time"

	"golang.org/x/tools/go/ssa"
)

// properties whose anchors live in istiod (pilot-discovery); C18 (agent secret cache) and C20 (iptables) live in the agent / CNI binaries
var istiodProps = map[string]bool{"C01": true, "C02": true, "C03": true, "C04": true, "C05": true, "C06": true, "C07": true, "C08": true, "C09": true, "C10": true,
	"C11": true, "C12": true, "C13": true, "C15": true, "C16": true, "C17": true, "C19": true}

var quickPatterns = []string{"./pilot/...", "./pkg/...", "./security/...", "./tools/istio-iptables/...", "./tools/common/..."}

func main() {
	prop := flag.String("prop", "", "property id (C01..C20), comma list, or 'all'")
	tier := flag.String("tier", "quick", "quick|thorough")
	repo := flag.String("repo", "/repo", "repository root")
	verif := flag.String("verif", "/verif", "verif root")
	tags := flag.String("tags", "", "build tags")
	only := flag.String("rule", "", "run only this rule id (development)")
	explain := flag.String("explain", "", "print a replay record")
	flag.Parse()
	if *explain != "" {
		b, err := os.ReadFile(*explain)
		if err != nil {
			fmt.Println(err)
			os.Exit(2)
		}
		fmt.Println(string(b))
		return
	}
	var ids []string
	if *prop == "all" {
		for id := range props {
			ids = append(ids, id)
		}
		sort.Strings(ids)
	} else {
		ids = strings.Split(*prop, ",")
	}
	for _, id := range ids {
		if props[id] == nil {
			fmt.Printf("unknown property %q\n", id)
			os.Exit(2)
		}
	}
	seed, _ := strconv.Atoi(os.Getenv("VERIF_SEED"))
	type loadCfg struct {
		name     string
		patterns []string
		tags     string
		only     map[string]bool // nil: every property
	}
	cfgs := []loadCfg{{"default", quickPatterns, *tags, nil}}
	if *tier == "thorough" {
		// thorough: the whole main module (who-may-call / who-may-write rules see every package), then the two tag sets
		// the release binaries are built with (Makefile.core.mk STANDARD_TAGS / AGENT_TAGS).
		cfgs = []loadCfg{
			{"default-whole-module", []string{"./..."}, *tags, nil},
			{"istiod-release-tags", []string{"deps:./pilot/cmd/pilot-discovery"}, "vtprotobuf,disable_pgv", istiodProps},
			{"agent-release-tags", []string{"deps:./pilot/cmd/pilot-agent", "deps:./cni/cmd/istio-cni", "deps:./cni/cmd/install-cni"},
				"agent,disable_pgv,grpcnotrace,retrynotrace", map[string]bool{"C18": true, "C20": true}},
		}
	}
	t0 := time.Now()
	known, pending := loadKnown(*verif)
	ctxs := map[string]*Ctx{}
	for _, id := range ids {
		ctxs[id] = &Ctx{Prop: id, Tier: *tier, floors: map[string]int{}, Stats: map[string]any{}, known: known, pending: pending, ruleDocs: map[string]string{}}
	}
	runDefs := map[string]PropDef{}
	for _, id := range ids {
		pd := *props[id]
		if *only != "" {
			pd.Rules = nil
			for _, r := range props[id].Rules {
				if r.ID == *only {
					pd.Rules = append(pd.Rules, r)
				}
			}
		}
		runDefs[id] = pd
	}
	for _, cf := range cfgs {
		any := false
		for _, id := range ids {
			if cf.only == nil || cf.only[id] {
				any = true
			}
		}
		if !any {
			continue
		}
		p, err := loadProg(*repo, cf.patterns, cf.tags)
		if err != nil {
			// A tree that does not load/type-check cannot be decided: fail every requested property.
			fmt.Printf("load failure (config %s): %v\n", cf.name, err)
			for _, id := range ids {
				fmt.Printf("VIOLATION property=%s replay=%s\n", id, "load-failure")
			}
			os.Exit(1)
		}
		for _, id := range ids {
			if cf.only != nil && !cf.only[id] {
				continue
			}
			c := ctxs[id]
			c.P, c.cfg = p, cf.name
			for _, r := range runDefs[id].Rules {
				c.runRule(r)
			}
			c.endConfig(runDefs[id])
			c.P = nil
		}
		p = nil
		resetCaches()
		runtime.GC()
	}
	rc := 0
	wall := time.Since(t0).Seconds()
	for _, id := range ids {
		if r := ctxs[id].finish(*verif, seed, wall/float64(len(ids)), runDefs[id]); r > rc {
			rc = r
		}
	}
	os.Exit(rc)
}

// resetCaches drops per-program state between load configurations (all analysis caches hang off *Prog).
func resetCaches() { derivedSeen = map[ssa.Value]bool{} }
