package main

import (
	"go/token"
	"go/types"
	"sort"
	"strings"

	"golang.org/x/tools/go/ssa"
)

const pkgCapture = "tools/istio-iptables/pkg/capture"
const pkgIptConst = "tools/istio-iptables/pkg/constants"
const pkgToolsCfg = "tools/common/config"

func init() {
	register(&PropDef{
		ID: "C20",
		Clauses: []string{
			"R1 IPv4/IPv6 parity: in every function of the capture package the family-specific rule emissions (…V4 / …V6, direct or as function values) form equal multisets of (operation, chain, table, constant parameters)",
			"R2 ordering in the nat ISTIO_OUTPUT chain: no rule that exempts traffic (-j RETURN: proxy uid/gid bypass, loopback, excluded ports, excluded ranges) is appended after a point where a capturing rule (-j ISTIO_REDIRECT) has been appended; no family-neutral Insert targets ISTIO_OUTPUT",
			"R3 the loopback-included flag of an address list is monotone: it is only ever set to true (accumulates over the list)",
		},
		NotDecided: "packet-level evaluation of the rule set (R7 decides that each excluded port / interface gets a rule, not what the rule matches), correctness of individual match parameters, TPROXY mangle rules, DNS capture rules",
		Rules: []Rule{
			{"C20-R1", "v4/v6 parity", c20r1},
			{"C20-R2", "exemptions precede capture in ISTIO_OUTPUT", c20r2},
			{"C20-R3", "loopback flag is monotone", c20r3},
			{"C20-R4", "a negated include filter is one rule over the whole list", c20r4},
			{"C20-R5", "the idempotency check probes every generated rule", c20r5},
			{"C20-R6", "every CIDR is filed by its own family", c20r6},
			{"C20-R7", "every element of an exclusion list gets its rule", c20r7},
		},
	})
}

// ruleCall describes one rule emission through the builder.
type ruleCall struct {
	ins    ssa.Instruction
	method string   // AppendRule, AppendRuleV4, InsertRuleV6, AppendVersionedRule...
	consts []string // constant string params in order ("?" for non-constants)
	chain  string
	table  string
}

// variadic params of a builder call: constants in order.
func constParams(args []ssa.Value) []string {
	var out []string
	for _, a := range args {
		if s, ok := constString(a); ok {
			out = append(out, s)
			continue
		}
		// variadic slice: fresh array with stores
		if sl, ok := a.(*ssa.Slice); ok {
			if al, ok := sl.X.(*ssa.Alloc); ok {
				type kv struct {
					idx int64
					val string
				}
				var items []kv
				for _, r := range *al.Referrers() {
					ia, ok := r.(*ssa.IndexAddr)
					if !ok {
						continue
					}
					k, ok := ia.Index.(*ssa.Const)
					if !ok {
						continue
					}
					for _, r2 := range *ia.Referrers() {
						if st, ok := r2.(*ssa.Store); ok {
							if s, ok := constString(st.Val); ok {
								items = append(items, kv{k.Int64(), s})
							} else {
								items = append(items, kv{k.Int64(), "?"})
							}
						}
					}
				}
				sort.Slice(items, func(i, j int) bool { return items[i].idx < items[j].idx })
				for _, it := range items {
					out = append(out, it.val)
				}
				continue
			}
		}
		out = append(out, "?")
	}
	return out
}

func builderCalls(p *Prog, fn *ssa.Function) []ruleCall {
	var out []ruleCall
	eachInstr(fn, func(ins ssa.Instruction) {
		ci, ok := ins.(ssa.CallInstruction)
		if !ok {
			return
		}
		o := calleeObj(ins)
		if o == nil || o.Pkg() == nil || !strings.HasSuffix(o.Pkg().Path(), "tools/istio-iptables/pkg/builder") {
			return
		}
		name := o.Name()
		if !(strings.HasPrefix(name, "AppendRule") || strings.HasPrefix(name, "InsertRule") || strings.HasPrefix(name, "AppendVersionedRule")) {
			return
		}
		args := ci.Common().Args[1:] // drop receiver
		cs := constParams(args)
		rc := ruleCall{ins: ins, method: name, consts: cs}
		// chain, table are the first two string constants after optional v4/v6 literals of AppendVersionedRule
		start := 0
		if strings.HasPrefix(name, "AppendVersionedRule") {
			start = 2
		}
		if len(cs) > start+1 {
			rc.chain, rc.table = cs[start], cs[start+1]
		}
		out = append(out, rc)
	})
	return out
}

func c20r1(c *Ctx) {
	p := c.P
	n := 0
	for _, fn := range p.AllFuncs {
		if funcPkgPath(fn) != istioMod+"/"+pkgCapture || strings.HasSuffix(p.Fset.Position(fn.Pos()).Filename, "_test.go") || fn.Synthetic != "" {
			continue
		}
		v4, v6 := map[string]int{}, map[string]int{}
		first := token.NoPos
		for _, rc := range builderCalls(p, fn) {
			fam := ""
			switch {
			case strings.HasSuffix(rc.method, "V4"):
				fam = "4"
			case strings.HasSuffix(rc.method, "V6"):
				fam = "6"
			default:
				continue
			}
			var norm []string
			for _, s := range rc.consts {
				// address literals differ by family by construction (127.0.0.6/32 <-> ::6/128)
				if isAddrLiteral(s) {
					s = "<addr>"
				}
				norm = append(norm, s)
			}
			key := strings.TrimSuffix(strings.TrimSuffix(rc.method, "V4"), "V6") + "(" + strings.Join(norm, " ") + ")"
			if fam == "4" {
				v4[key]++
			} else {
				v6[key]++
			}
			if first == token.NoPos {
				first = rc.ins.Pos()
			}
		}
		// family-specific builder methods passed as function values: calls taking a $bound wrapper of …V4 / …V6
		eachInstr(fn, func(ins ssa.Instruction) {
			ci, ok := ins.(ssa.CallInstruction)
			if !ok {
				return
			}
			var sig []string
			fam := ""
			for _, a := range ci.Common().Args {
				mc, ok := a.(*ssa.MakeClosure)
				if !ok {
					continue
				}
				f, _ := mc.Fn.(*ssa.Function)
				if f == nil || !strings.Contains(f.Synthetic, "bound method wrapper") {
					continue
				}
				nm := f.Name()
				nm = strings.TrimSuffix(nm, "$bound")
				switch {
				case strings.HasSuffix(nm, "V4"):
					fam = "4"
					sig = append(sig, strings.TrimSuffix(nm, "V4"))
				case strings.HasSuffix(nm, "V6"):
					fam = "6"
					sig = append(sig, strings.TrimSuffix(nm, "V6"))
				}
			}
			if fam == "" {
				return
			}
			key := "via " + calleeNameOfCall(ci) + "(" + strings.Join(sig, ",") + ")"
			if fam == "4" {
				v4[key]++
			} else {
				v6[key]++
			}
			if first == token.NoPos {
				first = ins.Pos()
			}
		})
		if len(v4) == 0 && len(v6) == 0 {
			continue
		}
		keys := map[string]bool{}
		for k := range v4 {
			keys[k] = true
		}
		for k := range v6 {
			keys[k] = true
		}
		var ks []string
		for k := range keys {
			ks = append(ks, k)
		}
		sort.Strings(ks)
		for _, k := range ks {
			n++
			c.Check("v4/v6 parity in "+shortFn(fn)+": "+k, first, v4[k] == v6[k], "a family-specific rule is emitted for one IP family only (IPv4 x"+itoa(v4[k])+", IPv6 x"+itoa(v6[k])+"): the IPv4 and IPv6 rule sets express different policies")
		}
	}
	c.Check("family-specific emissions found", token.NoPos, n >= 2, "fewer family-specific rule emissions than confirmed by hand")
	c.Floor(3)
}

func itoa(n int) string {
	if n == 0 {
		return "0"
	}
	s := ""
	for n > 0 {
		s = string(rune('0'+n%10)) + s
		n /= 10
	}
	return s
}

func calleeNameOfCall(ci ssa.CallInstruction) string {
	if o := calleeObj(ci.(ssa.Instruction)); o != nil {
		return o.Name()
	}
	return "<dynamic>"
}

func c20r2(c *Ctx) {
	p := c.P
	run := p.Func(pkgCapture, "IptablesConfigurator", "Run")
	outChain, _ := constStringOf(p.Const(pkgIptConst, "ISTIOOUTPUT"))
	redirect, _ := constStringOf(p.Const(pkgIptConst, "ISTIOREDIRECT"))
	isCaptureRule := func(rc ruleCall) bool {
		if rc.chain != outChain || rc.table != "nat" {
			return false
		}
		for i, s := range rc.consts {
			if s == "-j" && i+1 < len(rc.consts) && rc.consts[i+1] == redirect {
				return true
			}
		}
		return false
	}
	isExemptRule := func(rc ruleCall) bool {
		if rc.chain != outChain || rc.table != "nat" {
			return false
		}
		for i, s := range rc.consts {
			if s == "-j" && i+1 < len(rc.consts) && rc.consts[i+1] == "RETURN" {
				return true
			}
		}
		return false
	}
	// summaries of helpers in the package: does the helper (transitively, package-bounded) emit capture / exempt rules;
	// helpers that take append functions as parameters are summarised by their dynamic calls with constant params
	type summary struct{ capture, exempt bool }
	sums := map[*ssa.Function]summary{}
	var summarise func(f *ssa.Function, depth int) summary
	summarise = func(f *ssa.Function, depth int) summary {
		if s, ok := sums[f]; ok {
			return s
		}
		sums[f] = summary{}
		var s summary
		for _, rc := range builderCalls(p, f) {
			if isCaptureRule(rc) {
				s.capture = true
			}
			if isExemptRule(rc) {
				s.exempt = true
			}
		}
		eachInstr(f, func(ins ssa.Instruction) {
			ci, ok := ins.(ssa.CallInstruction)
			if !ok {
				return
			}
			cc := ci.Common()
			if g := cc.StaticCallee(); g != nil && g.Blocks != nil && funcPkgPath(g) == istioMod+"/"+pkgCapture && depth < 4 {
				gs := summarise(g, depth+1)
				s.capture = s.capture || gs.capture
				s.exempt = s.exempt || gs.exempt
				return
			}
			// dynamic call of an append/insert function parameter with constant params
			if _, isParam := cc.Value.(*ssa.Parameter); isParam {
				cs := constParams(cc.Args)
				rc := ruleCall{consts: cs}
				if len(cs) > 1 {
					rc.chain, rc.table = cs[0], cs[1]
				}
				if isCaptureRule(rc) {
					s.capture = true
				}
				if isExemptRule(rc) {
					s.exempt = true
				}
			}
		})
		sums[f] = s
		return s
	}
	// classify Run's instructions
	var captureSites, exemptSites []ssa.Instruction
	for _, rc := range builderCalls(p, run) {
		if isCaptureRule(rc) {
			captureSites = append(captureSites, rc.ins)
		}
		if isExemptRule(rc) {
			exemptSites = append(exemptSites, rc.ins)
		}
		// family-neutral inserts into ISTIO_OUTPUT could land above the bypass rules
		if strings.HasPrefix(rc.method, "InsertRule") && rc.chain == outChain {
			c.Check("no Insert into ISTIO_OUTPUT", rc.ins.Pos(), false, "a rule is inserted (not appended) into ISTIO_OUTPUT: it can land above the proxy's own bypass rules")
		}
	}
	eachInstr(run, func(ins ssa.Instruction) {
		ci, ok := ins.(ssa.CallInstruction)
		if !ok {
			return
		}
		g := ci.Common().StaticCallee()
		if g == nil || g.Blocks == nil || funcPkgPath(g) != istioMod+"/"+pkgCapture {
			return
		}
		s := summarise(g, 0)
		if s.capture {
			captureSites = append(captureSites, ins)
		}
		if s.exempt {
			// a helper that emits both is an exempting site with respect to EARLIER capture sites
			// (its own internal order is checked when the helper itself is analysed below)
			exemptSites = append(exemptSites, ins)
		}
	})
	c.Check("capturing sites found in Run", run.Pos(), len(captureSites) >= 2, "expected the outbound port and range inclusion sites")
	c.Check("exempting sites found in Run", run.Pos(), len(exemptSites) >= 6, "expected the uid/gid bypass, loopback and exclusion rules")
	isExempt := map[ssa.Instruction]bool{}
	for _, e := range exemptSites {
		isExempt[e] = true
	}
	for _, cs := range captureSites {
		bad, found := pathAvoidingE(nil, cs, nil, func(i ssa.Instruction) bool { return isExempt[i] && i != cs }, nil, nil)
		det := ""
		if found && bad != nil {
			det = "after a capturing rule (-j ISTIO_REDIRECT into ISTIO_OUTPUT) has been appended, an exempting rule (-j RETURN: proxy bypass / loopback / excluded port or range) can still be appended at " + p.pos(bad.Pos()) + ": iptables evaluates first-match, so the exemption never takes effect for traffic the capture rule matches (e.g. traffic to an excluded range on an included port is redirected)"
		}
		c.Check("no exemption is appended after capture site "+p.pos(cs.Pos()), cs.Pos(), !found, det)
	}
	// the same order rule inside every helper of the package that emits both kinds itself
	for _, fn := range p.AllFuncs {
		if fn == run || funcPkgPath(fn) != istioMod+"/"+pkgCapture || strings.HasSuffix(p.Fset.Position(fn.Pos()).Filename, "_test.go") || fn.Synthetic != "" {
			continue
		}
		var caps, exs []ssa.Instruction
		classify := func(rc ruleCall, ins ssa.Instruction) {
			if isCaptureRule(rc) {
				caps = append(caps, ins)
			}
			if isExemptRule(rc) {
				exs = append(exs, ins)
			}
		}
		for _, rc := range builderCalls(p, fn) {
			classify(rc, rc.ins)
		}
		eachInstr(fn, func(ins ssa.Instruction) {
			ci, ok := ins.(ssa.CallInstruction)
			if !ok {
				return
			}
			if _, isParam := ci.Common().Value.(*ssa.Parameter); isParam {
				cs := constParams(ci.Common().Args)
				rc := ruleCall{consts: cs}
				if len(cs) > 1 {
					rc.chain, rc.table = cs[0], cs[1]
				}
				classify(rc, ins)
			}
		})
		if len(caps) == 0 || len(exs) == 0 {
			continue
		}
		isEx := map[ssa.Instruction]bool{}
		for _, e := range exs {
			isEx[e] = true
		}
		for _, cs := range caps {
			_, found := pathAvoidingE(nil, cs, nil, func(i ssa.Instruction) bool { return isEx[i] }, nil, nil)
			c.Check("no exemption is appended after a capture rule in "+shortFn(fn), cs.Pos(), !found, "inside this helper an exempting rule (-j RETURN into ISTIO_OUTPUT) can be appended after a capturing rule (-j ISTIO_REDIRECT)")
		}
	}
	c.Floor(4)
}

func c20r3(c *Ctx) {
	p := c.P
	f := p.Field(pkgToolsCfg, "NetworkRange", "HasLoopBackIP")
	n := 0
	for _, fn := range p.AllFuncs {
		if strings.HasSuffix(p.Fset.Position(fn.Pos()).Filename, "_test.go") {
			continue
		}
		for _, st := range storesTo(fn, f) {
			n++
			b, ok := constBool(st.Val)
			c.Check("HasLoopBackIP is only set to true:"+shortFn(fn), st.Pos(), ok && b, "the loopback-included flag is assigned a computed value: a later non-loopback prefix of the same family resets it, and the capture rules then shadow an explicitly included loopback range")
		}
	}
	c.Check("HasLoopBackIP writers found", token.NoPos, n >= 2, "fewer writers than confirmed by hand")
	c.Floor(3)
}

func isAddrLiteral(s string) bool {
	if !strings.Contains(s, "/") {
		return false
	}
	head := s[:strings.Index(s, "/")]
	if strings.Contains(head, ":") {
		return true
	}
	dots := strings.Count(head, ".")
	if dots != 3 {
		return false
	}
	for _, r := range head {
		if (r < '0' || r > '9') && r != '.' {
			return false
		}
	}
	return true
}

// C20-R4: "capture only the traffic of these owners" is expressed as ONE rule `! owner a ! owner b ... -j RETURN`
// (the packet is none of them => leave it alone). Negated matches only combine by AND inside a single rule: spread over
// several first-match RETURN rules (a loop, chunks of the list) each rule returns the members of the other chunks and
// nothing is captured any more. So: every CombineMatchers whose per-value matcher negates ("!") receives the complete
// value list, and the rule built from its result is not appended inside a loop.
func c20r4(c *Ctx) {
	p := c.P
	pkgCap := "tools/istio-iptables/pkg/capture"
	cm := p.FuncObj(pkgCap, "", "CombineMatchers")
	n := 0
	for _, fn := range p.AllFuncs {
		if funcPkgPath(fn) != istioMod+"/"+pkgCap || strings.HasSuffix(p.Fset.Position(fn.Pos()).Filename, "_test.go") {
			continue
		}
		for _, call := range callsIn(fn, cm) {
			args := call.Common().Args
			// does the matcher negate?
			neg := false
			var lit *ssa.Function
			switch x := args[1].(type) {
			case *ssa.MakeClosure:
				lit, _ = x.Fn.(*ssa.Function)
			case *ssa.Function:
				lit = x
			}
			if lit != nil {
				eachInstr(lit, func(ins ssa.Instruction) {
					var ops []*ssa.Value
					for _, op := range ins.Operands(ops) {
						if op != nil && *op != nil {
							if s, ok := constString(*op); ok && s == "!" {
								neg = true
							}
						}
					}
				})
			}
			if !neg {
				continue
			}
			n++
			_, sliced := args[0].(*ssa.Slice)
			c.Check("negated matchers are combined over the whole list: "+stableFnName(fn), call.Pos(), !sliced && fieldOfLoad(args[0]) != nil,
				"CombineMatchers with a negating matcher is given a part of the value list: the `none of these owners` condition is split over several rules")
			inLoop := false
			for _, h := range fn.Blocks {
				if strings.HasSuffix(h.Comment, ".loop") && loopMembers(fn, h)[call.Block()] {
					inLoop = true
				}
			}
			c.Check("the negated RETURN rule is built once, not per iteration: "+stableFnName(fn), call.Pos(), !inLoop,
				"a rule made of negated owner matches is emitted inside a loop: with more values than fit one pass, each RETURN rule returns the members of the other passes (first match wins), so no included owner's outbound traffic reaches the redirect any more")
		}
	}
	c.Check("negated include filters found", token.NoPos, n >= 1, "no CombineMatchers call with a negating matcher found")
	c.Floor(3)
}

// C20-R5: the state check probes every rule. On a re-run the configurator decides "nothing to do" from the check rules
// (one `iptables -C` per generated rule) plus a per-chain rule count; if a generated rule has no probe, residues of a
// DIFFERENT configuration with the same rule counts pass for the current one and Run() leaves the stale rules in force.
// In CheckRules - or the same-package helper it hands the rules to - every pass of the loop over the rules appends a
// rule to the output (no skip). UndoRules legitimately skips (flushed chains); sharing its loop is what the rule is for.
func c20r5(c *Ctx) {
	p := c.P
	pkgB := "tools/istio-iptables/pkg/builder"
	fn := p.Func(pkgB, "", "CheckRules")
	type target struct {
		f     *ssa.Function
		rules ssa.Value
	}
	ts := []target{{fn, fn.Params[0]}}
	eachInstr(fn, func(ins ssa.Instruction) {
		call, ok := ins.(*ssa.Call)
		if !ok {
			return
		}
		sc := call.Call.StaticCallee()
		if sc == nil || sc.Pkg != fn.Pkg || len(sc.Blocks) == 0 {
			return
		}
		for k, a := range call.Call.Args {
			if a == ssa.Value(fn.Params[0]) && k < len(sc.Params) {
				ts = append(ts, target{sc, sc.Params[k]})
			}
		}
	})
	n := 0
	for _, t := range ts {
		for _, l := range rangeLoops(t.f) {
			if l.Over == nil || !(l.Over == t.rules || sameValue(l.Over, t.rules)) {
				continue
			}
			n++
			isApp := func(ins ssa.Instruction) bool {
				call, ok := ins.(*ssa.Call)
				if !ok || !isAppendCall(ins) {
					return false
				}
				sl, ok := call.Type().Underlying().(*types.Slice)
				if !ok {
					return false
				}
				nn, ok := sl.Elem().(*types.Named)
				return ok && nn.Obj().Name() == "Rule"
			}
			bad, found := pathAvoidingE(l.Body, nil, isApp, nil, nil, l.Header)
			pos := t.f.Pos()
			if bad != nil {
				pos = bad.Pos()
			}
			c.Check("every generated rule gets a check rule: "+t.f.Name(), pos, !found,
				"a pass of the loop over the generated rules can finish without emitting a check rule: that rule is then never probed with `iptables -C`, only the per-chain rule count guards it, so residues of a different configuration with the same counts (another exclude CIDR, another port) are taken for the current state and the re-run leaves the stale rules in force")
		}
	}
	c.Check("CheckRules walks the generated rules", fn.Pos(), n >= 1, "no loop over the rules found in CheckRules or the helper it delegates to")
	c.Floor(2)
}

// C20-R6: every CIDR is filed by its own family. SeparateV4V6 splits a mixed list into the IPv4 and the IPv6 range; the
// rules for one family are generated from one range only, so a prefix filed under the wrong family disappears from its own
// family's rules. In the loop over the list, the range a prefix is recorded in is chosen in that pass from that prefix's own
// family test: no variable of range / pointer-to-range type is carried from one pass of the loop to the next (a phi of the
// loop header), and every store into a range's CIDRs lies under an edge of an Is4 / Is6 test made in the same pass.
func c20r6(c *Ctx) {
	p := c.P
	fn := p.Func("tools/common/config", "", "SeparateV4V6")
	nrT := p.Struct("tools/common/config", "NetworkRange")
	cidrs := p.Field("tools/common/config", "NetworkRange", "CIDRs")
	headers := map[*ssa.BasicBlock]bool{}
	for _, b := range fn.Blocks {
		for _, pr := range b.Preds {
			if b.Dominates(pr) {
				headers[b] = true
			}
		}
	}
	c.Check("SeparateV4V6 walks the list in a loop", fn.Pos(), len(headers) >= 1, "no loop found in SeparateV4V6")
	n := 0
	for h := range headers {
		for _, ins := range h.Instrs {
			phi, ok := ins.(*ssa.Phi)
			if !ok {
				continue
			}
			t := phi.Type()
			if pt, ok := t.(*types.Pointer); ok {
				t = pt.Elem()
			}
			isRange := structOf(types.NewPointer(t)) == nrT && nrT != nil
			c.Check("no range selector is carried from one list entry to the next: "+phi.Comment, phi.Pos(), !isRange,
				"a variable of (pointer to) NetworkRange type is carried around the loop over the CIDR list: the range an entry is filed in then depends on the entries before it - an IPv4 prefix listed after an IPv6 prefix is recorded as IPv6, vanishes from the IPv4 rules (an excluded range is redirected, an included one is not) and shows up in the ip6tables rules instead")
			n++
		}
	}
	// the family test guards each filing
	var fam []Edge
	for _, i := range allIfs(fn) {
		v, _ := stripNot(i.Cond)
		if call, ok := v.(*ssa.Call); ok {
			if o := calleeObj(call); o != nil && (o.Name() == "Is4" || o.Name() == "Is6" || o.Name() == "Is4In6") {
				fam = append(fam, Edge{i.Block(), 0}, Edge{i.Block(), 1})
			}
		}
	}
	m := 0
	for _, st := range storesTo(fn, cidrs) {
		m++
		c.Check("a prefix is filed under an edge of its family test", st.Pos(), underEdges(fn, st.Block(), fam),
			"a store into NetworkRange.CIDRs in SeparateV4V6 is not under an edge of an Is4 / Is6 test: the family of the prefix does not decide which range it is recorded in")
	}
	c.Check("SeparateV4V6 files prefixes into the ranges", fn.Pos(), m >= 1, "no store into NetworkRange.CIDRs")
	_ = n
	c.Floor(3)
}

// C20-R7: every element of a user-given exclusion list gets its rule. In the capture package, a range loop over
// config.Split(<Config field whose name says Exclude>) emits a rule through the builder on every pass: no path through
// the loop body returns to the loop header without a builder call. A pass that skips its element leaves that port or
// interface captured although the user excluded it (seed C20-3 skipped the excluded port equal to the tunnel port,
// arguing another rule already covers it - that rule matches a different chain position).
func c20r7(c *Ctx) {
	p := c.P
	n := 0
	for _, fn := range p.AllFuncs {
		if fn.Pkg == nil || !strings.HasSuffix(fn.Pkg.Pkg.Path(), pkgCapture) {
			continue
		}
		isRule := map[ssa.Instruction]bool{}
		for _, rc := range builderCalls(p, fn) {
			isRule[rc.ins] = true
		}
		for _, l := range rangeLoops(fn) {
			call, ok := l.Over.(*ssa.Call)
			if !ok || l.Header == nil {
				continue
			}
			if o := calleeObj(call); o == nil || o.Name() != "Split" || len(call.Call.Args) != 1 {
				continue
			}
			u, ok := call.Call.Args[0].(*ssa.UnOp)
			if !ok {
				continue
			}
			fa, ok := u.X.(*ssa.FieldAddr)
			if !ok {
				continue
			}
			f := fieldVar(fa.X.Type(), fa.Field)
			if f == nil || !strings.Contains(f.Name(), "Exclude") {
				continue
			}
			n++
			bad, found := pathAvoidingE(l.Body, nil, func(ins ssa.Instruction) bool { return isRule[ins] }, nil, nil, l.Header)
			pos := call.Pos()
			if bad != nil && bad.Pos().IsValid() {
				pos = bad.Pos()
			}
			c.Check("every element of "+f.Name()+" gets its rule: "+shortFn(fn), pos, !found,
				"a pass of the loop over the user's exclusion list can finish without emitting a rule: that port / interface stays captured although it was excluded")
		}
	}
	c.Check("exclusion-list loops found", token.NoPos, n >= 4, "fewer than the four exclusion loops confirmed by hand (inbound ports, outbound ports, interfaces nat + mangle)")
	c.Floor(5)
}
