package main

import (
	"go/token"
	"go/types"

	"golang.org/x/tools/go/ssa"
)

func init() {
	register(&PropDef{
		ID: "C05",
		Clauses: []string{
			"R1 in both classifiers the `no previous record on this stream` edge reaches only a positive answer and first creates the watched-resource record",
			"R2 initConnection: LastPushContext is set before addCon, authorize before addCon, addCon before initializeProxy on every path; a failed initializeProxy passes closeConnection",
			"R3 Stream/StreamDeltas create the connection / start receiving only under IsServerReady()==true, and authenticate first",
			"R4 deltaWatchedResources folds Subscribe, Unsubscribe and InitialResourceVersions into the returned set",
			"R6 once a type was marked AlwaysRespond (its parent type was re-requested on reconnect) the next request for it is answered in full: every negative or narrowed answer lies under the flag==false edge",
			"R7 for every type whose recorded names are left to its generator (requiresResourceNamesModification) the generator writes WatchedResource.ResourceNames, so the names a reconnecting client retained are available when removals are computed",
			"R5 on a full (non-partial) push every requested EDS name and every requested sidecar/waypoint RDS name yields a resource (every skip is under partialPush)",
		},
		NotDecided: "state equality after every cut point; ztunnel initial_resource_versions diffing; removal of retained-but-deleted resources (value-level)",
		Rules: []Rule{
			{"C05-R1", "unknown type on this stream => respond", c05r1},
			{"C05-R2", "register before initialise", c05r2},
			{"C05-R3", "readiness and authentication gate", c05r3},
			{"C05-R4", "retained names folded in", c05r4},
			{"C05-R5", "every requested name answered on a full push", c05r5},
			{"C05-R6", "a forced (warming) response is never lost or narrowed", func(c *Ctx) { alwaysRespondForces(c); c.Floor(4) }},
			{"C05-R7", "names a reconnecting client retained are recorded for generator-managed types (shared with C03-R5)", c03r5},
			{"C05-R8", "only an answered first request creates the per-type record", c05r8},
			{"C05-R9", "the forced EDS push after a delta CDS answer is unconditional (shared with C03)", c05r9},
			{"C05-R10", "ready always includes caches synced", c05r10},
			{"C05-R11", "the context a connection starts from is read while it is being registered", c05r11},
		},
	})
}

func c05r1(c *Ctx) {
	p := c.P
	for _, fn := range classifierFuncs(p) {
		name := fn.Name()
		var nilEdges []Edge
		for _, nt := range nilTests(fn) {
			call, isCall := nt.X.(*ssa.Call)
			if !isCall {
				continue
			}
			if o := calleeObj(call); o == nil || o.Name() != "GetWatchedResource" {
				continue
			}
			// the other edge is the one on which the record may be absent
			nilEdges = append(nilEdges, Edge{nt.If.Block(), 1 - nt.NonNilIdx})
		}
		c.Check(name+":previous-record test present", fn.Pos(), len(nilEdges) == 1, "expected exactly one nil test of GetWatchedResource's result")
		if len(nilEdges) != 1 {
			continue
		}
		start := nilEdges[0].To()
		// every return reachable from the edge answers true
		isCreate := func(ins ssa.Instruction) bool {
			if o := calleeObj(ins); o != nil && o.Name() == "NewWatchedResource" {
				return true
			}
			if mu, ok := ins.(*ssa.MapUpdate); ok {
				if fv := fieldOfLoad(mu.Map); fv != nil && fv.Name() == "WatchedResources" {
					return true
				}
			}
			return false
		}
		bad, found := pathAvoidingE(start, nil, nil, func(ins ssa.Instruction) bool {
			r, ok := ins.(*ssa.Return)
			if !ok {
				return false
			}
			b, isC := constBool(retVal(r, 0))
			return !(isC && b)
		}, nil, nil)
		pos := fn.Pos()
		if found && bad != nil {
			pos = bad.Pos()
		}
		c.Check(name+":no-record edge answers", pos, !found, "a request for a type with no record on this stream (first request or reconnect with a nonce) can be left unanswered: the client stays warming")
		bad, found = pathAvoidingE(start, nil, isCreate, isReturn, nil, nil)
		if found && bad != nil {
			pos = bad.Pos()
		}
		c.Check(name+":no-record edge creates the record", pos, !found, "the no-record path returns without creating the WatchedResource: later pushes skip this type")
	}
	c.Floor(6)
}

func c05r2(c *Ctx) {
	p := c.P
	fn := p.Func(pkgXds, "DiscoveryServer", "initConnection")
	addCon := p.FuncObj(pkgXds, "DiscoveryServer", "addCon")
	initP := p.FuncObj(pkgXds, "DiscoveryServer", "initializeProxy")
	authz := p.FuncObj(pkgXds, "DiscoveryServer", "authorize")
	closeC := p.FuncObj(pkgXds, "DiscoveryServer", "closeConnection")
	lpc := p.Field(pkgModel, "Proxy", "LastPushContext")
	adds := callsIn(fn, addCon)
	inits := callsIn(fn, initP)
	c.Check("initConnection:addCon once", fn.Pos(), len(adds) == 1, "expected one addCon call")
	c.Check("initConnection:initializeProxy once", fn.Pos(), len(inits) == 1, "expected one initializeProxy call")
	if len(adds) != 1 || len(inits) != 1 {
		return
	}
	isStoreLPC := func(ins ssa.Instruction) bool {
		s, ok := ins.(*ssa.Store)
		if !ok {
			return false
		}
		fa, ok := s.Addr.(*ssa.FieldAddr)
		return ok && fieldVar(fa.X.Type(), fa.Field) == lpc
	}
	c.Check("initConnection:LastPushContext before addCon", adds[0].Pos(), precededOnAllPaths(fn, adds[0], isStoreLPC),
		"the connection is registered for pushes before proxy.LastPushContext is set: a push between the two is overwritten by the older snapshot")
	c.Check("initConnection:authorize before addCon", adds[0].Pos(), precededOnAllPaths(fn, adds[0], func(i ssa.Instruction) bool { return isCallTo(i, authz) }),
		"the connection is registered before authorize")
	// authorize's error must lead away from addCon
	for _, a := range callsIn(fn, authz) {
		_, eq, ok := lastNilCmpDominating(adds[0].Block(), a.Value())
		c.Check("initConnection:addCon only if authorize succeeded", adds[0].Pos(), ok && eq, "addCon is reachable when authorize returned an error")
	}
	c.Check("initConnection:addCon before initializeProxy", inits[0].Pos(), precededOnAllPaths(fn, inits[0], func(i ssa.Instruction) bool { return i == ssa.Instruction(adds[0]) }),
		"initializeProxy can run before the connection is registered: a snapshot completed in between is never pushed to this proxy")
	// LastPushContext store is not after addCon on any path (would be a second, later store)
	late, found := pathAvoidingE(nil, adds[0], nil, isStoreLPC, nil, nil)
	pos := fn.Pos()
	if found && late != nil {
		pos = late.Pos()
	}
	c.Check("initConnection:no LastPushContext store after addCon", pos, !found, "LastPushContext is (re)assigned after registration")
	// failed initializeProxy passes closeConnection
	bad := pathAvoiding(fn, inits[0], func(i ssa.Instruction) bool { return isCallTo(i, closeC) }, func(i ssa.Instruction) bool {
		if !isReturn(i) {
			return false
		}
		_, eq, ok := lastNilCmpDominating(i.Block(), inits[0].Value())
		return ok && !eq // a return on the err != nil side
	})
	c.Check("initConnection:failed initializeProxy closes the connection", inits[0].Pos(), bad == nil, "the error path of initializeProxy returns without closeConnection: a dead connection stays registered")
	startPushFanOut(c)
	c.Floor(9)
}

func c05r3(c *Ctx) {
	p := c.P
	ready := p.FuncObj(pkgXds, "DiscoveryServer", "IsServerReady")
	authn := p.FuncObj(pkgXds, "DiscoveryServer", "authenticate")
	for _, spec := range []struct {
		fn      *ssa.Function
		starts  []*types.Func
	}{
		{p.Func(pkgXds, "DiscoveryServer", "Stream"), []*types.Func{p.FuncObj(pkgXds, "", "newConnection"), p.FuncObj(pkgXdsLib, "", "Stream")}},
		{p.Func(pkgXds, "DiscoveryServer", "StreamDeltas"), []*types.Func{p.FuncObj(pkgXds, "", "newDeltaConnection"), p.FuncObj(pkgXds, "DiscoveryServer", "receiveDelta")}},
	} {
		fn := spec.fn
		readyEdges := edgesWhere(fn, func(v ssa.Value) bool {
			call, ok := v.(*ssa.Call)
			return ok && isCallTo(call, ready)
		}, true)
		c.Check(fn.Name()+":readiness test present", fn.Pos(), len(readyEdges) == 1, "no IsServerReady() test")
		sites := callsIn(fn, spec.starts...)
		c.Check(fn.Name()+":connection start sites", fn.Pos(), len(sites) >= 2, "connection creation / receive start not found")
		for _, s := range sites {
			c.Check(fn.Name()+":"+calleeObj(s).Name()+" under IsServerReady", s.Pos(), underEdges(fn, s.Block(), readyEdges),
				"a connection is created/served on a path that does not pass IsServerReady()==true: a reconnecting proxy is initialised from unsynced (empty) state")
			aCalls := callsIn(fn, authn)
			okA := len(aCalls) == 1 && precededOnAllPaths(fn, s, func(i ssa.Instruction) bool { return isCallTo(i, authn) })
			if okA {
				_, eq, ok := lastNilCmpDominating(s.Block(), errOf(aCalls[0]))
				okA = ok && eq
			}
			c.Check(fn.Name()+":"+calleeObj(s).Name()+" after successful authenticate", s.Pos(), okA, "connection created without passing authenticate's err == nil edge")
		}
	}
	c.Floor(10)
}

// errOf returns the Extract of the error (last) result of a tuple-returning call, or the call value itself.
func errOf(call ssa.CallInstruction) ssa.Value {
	v := call.Value()
	if v == nil {
		return nil
	}
	tup, ok := v.Type().(*types.Tuple)
	if !ok {
		return v
	}
	for _, r := range *v.Referrers() {
		if ex, ok := r.(*ssa.Extract); ok && ex.Index == tup.Len()-1 {
			return ex
		}
	}
	return nil
}

func c05r4(c *Ctx) {
	p := c.P
	fn := p.Func(pkgXds, "", "deltaWatchedResources")
	req := fn.Params[1]
	need := map[string]string{"ResourceNamesSubscribe": "InsertContains|Insert|InsertAll", "InitialResourceVersions": "InsertContains|Insert|InsertAll", "ResourceNamesUnsubscribe": "DeleteContains|Delete|DeleteAll"}
	loops := rangeLoops(fn)
	for f, ops := range need {
		found := false
		var pos token.Pos = fn.Pos()
		for _, l := range loops {
			if l.Over == nil {
				continue
			}
			fv := fieldOfLoad(l.Over)
			base, _ := fieldLoadOf(l.Over, fv)
			if fv == nil || fv.Name() != f || base != ssa.Value(req) {
				continue
			}
			// the loop body calls the expected set operation on the result set
			seen := map[*ssa.BasicBlock]bool{}
			st := []*ssa.BasicBlock{l.Body}
			for len(st) > 0 {
				b := st[len(st)-1]
				st = st[:len(st)-1]
				if seen[b] || b == l.Header {
					continue
				}
				seen[b] = true
				for _, ins := range b.Instrs {
					if o := calleeObj(ins); o != nil && containsWord(ops, o.Name()) {
						found = true
						pos = ins.Pos()
					}
				}
				st = append(st, b.Succs...)
			}
		}
		if !found {
			// non-loop form: the field value handed to a bulk set operation
			eachInstr(fn, func(ins ssa.Instruction) {
				o := calleeObj(ins)
				if o == nil || !containsWord(ops, o.Name()) {
					return
				}
				for _, a := range ins.(ssa.CallInstruction).Common().Args {
					if fv := fieldOfLoad(a); fv != nil && fv.Name() == f {
						if base, _ := fieldLoadOf(a, fv); base == ssa.Value(req) {
							found = true
							pos = ins.Pos()
						}
					}
				}
			})
		}
		c.Check("deltaWatchedResources:"+f+" folded in", pos, found, "the request's "+f+" is not folded into the recorded subscription: names retained by a reconnecting client are neither refreshed nor removed")
	}
	// every subscription-bearing field of DeltaDiscoveryRequest is considered
	st := p.Struct(pkgDiscovery, "DeltaDiscoveryRequest")
	for _, f := range fieldsOf(st) {
		if isProtoInternal(f) {
			continue
		}
		switch f.Name() {
		case "Node", "TypeUrl", "ResponseNonce", "ErrorDetail", "ResourceLocatorsSubscribe", "ResourceLocatorsUnsubscribe":
			// not a name set (locators are not used by istio's clients: frozen exception)
			continue
		}
		_, ok := need[f.Name()]
		c.Check("DeltaDiscoveryRequest."+f.Name()+" known", f.Pos(), ok, "DeltaDiscoveryRequest has a subscription field the rule does not know: extend deltaWatchedResources and this table")
	}
	c.Floor(6)
}

func containsWord(list, w string) bool {
	for _, x := range splitBar(list) {
		if x == w {
			return true
		}
	}
	return false
}

func splitBar(s string) []string {
	var out []string
	cur := ""
	for _, r := range s {
		if r == '|' {
			out = append(out, cur)
			cur = ""
		} else {
			cur += string(r)
		}
	}
	return append(out, cur)
}

func c05r5(c *Ctx) {
	p := c.P
	// EDS
	fn := p.Func(pkgXds, "EdsGenerator", "buildEndpoints")
	partial := paramNamed(fn, "partialPush")
	partialTrue := edgesWhere(fn, func(v ssa.Value) bool { return v == ssa.Value(partial) }, true)
	c.Check("buildEndpoints:partialPush tests", fn.Pos(), len(partialTrue) >= 2, "expected tests of partialPush guarding the skips")
	n := 0
	for _, l := range rangeLoops(fn) {
		if l.Over == nil {
			continue
		}
		// the requested names: the set itself, or a list made from it (sets.SortedList(w.ResourceNames))
		fv := fieldOfLoad(l.Over)
		if fv == nil {
			if call, ok := l.Over.(*ssa.Call); ok {
				for _, a := range call.Call.Args {
					if f2 := fieldOfLoad(a); f2 != nil && f2.Name() == "ResourceNames" {
						fv = f2
					}
				}
			}
		}
		if fv == nil || fv.Name() != "ResourceNames" {
			continue
		}
		n++
		bad, found := pathAvoidingE(l.Body, nil, isAppendCall, nil, partialTrue, l.Header)
		pos := fn.Pos()
		if bad != nil {
			pos = bad.Pos()
		}
		c.Check("buildEndpoints:every requested cluster answered unless partialPush", pos, !found,
			"an iteration over the requested cluster names can finish without appending a resource on a path not guarded by partialPush: on a full push / reconnect that cluster's endpoints are never sent and it stays warming")
	}
	c.Check("buildEndpoints:loop over requested names found", fn.Pos(), n == 1, "expected one loop over w.ResourceNames")

	// RDS sidecar / waypoint arm
	rf := p.Func("pilot/pkg/networking/core", "ConfigGeneratorImpl", "BuildHTTPRoutes")
	sidecarBuild := p.FuncObj("pilot/pkg/networking/core", "ConfigGeneratorImpl", "buildSidecarOutboundHTTPRouteConfig")
	names := paramNamed(rf, "routeNames")
	m := 0
	for _, l := range rangeLoops(rf) {
		if l.Over != ssa.Value(names) {
			continue
		}
		// which arm: does the loop body (first block) call the sidecar builder?
		isSidecar := false
		seen := map[*ssa.BasicBlock]bool{}
		st := []*ssa.BasicBlock{l.Body}
		for len(st) > 0 {
			b := st[len(st)-1]
			st = st[:len(st)-1]
			if seen[b] || b == l.Header {
				continue
			}
			seen[b] = true
			for _, ins := range b.Instrs {
				if isCallTo(ins, sidecarBuild) {
					isSidecar = true
				}
			}
			st = append(st, b.Succs...)
		}
		if !isSidecar {
			continue
		}
		m++
		bad, found := pathAvoidingE(l.Body, nil, isAppendCall, nil, nil, l.Header)
		pos := rf.Pos()
		if bad != nil {
			pos = bad.Pos()
		}
		c.Check("BuildHTTPRoutes:every requested sidecar route answered", pos, !found,
			"an iteration over the requested route names can finish without appending a route configuration: the listener referencing it waits for RDS forever")
	}
	c.Check("BuildHTTPRoutes:sidecar loop found", rf.Pos(), m == 1, "expected one sidecar/waypoint loop over routeNames")
	c.Floor(5)
}


// startPushFanOut (C05-R2b, shared as C02-R8): registration before initialisation only helps if the push fan-out sees
// uninitialised connections.
func startPushFanOut(c *Ctx) {
	p := c.P
	// R2b: registration before initialisation only helps if the push fan-out sees uninitialised connections: nothing
	// between StartPush and Enqueue filters on the connection's initialised state, and the fan-out reads adsClients.
	startPush := p.Func(pkgXds, "DiscoveryServer", "StartPush")
	enq := p.FuncObj(pkgXds, "PushQueue", "Enqueue")
	reach := p.CG().Reach([]*ssa.Function{startPush}, func(f *ssa.Function) bool { o, _ := f.Object().(*types.Func); return o != nil && o == enq })
	adsClients := p.Field(pkgXds, "DiscoveryServer", "adsClients")
	initField := p.Field(pkgXdsLib, "Connection", "initialized")
	eff := effectsOf(reach)
	_, readsClients := eff.Reads[adsClients]
	c.Check("StartPush:fans out over adsClients", startPush.Pos(), readsClients && len(callsIn(startPush, enq)) >= 1, "StartPush no longer enqueues the connections registered in adsClients")
	acc, filters := eff.Reads[initField]
	det := ""
	if filters {
		det = "the push fan-out consults the connection's initialised state (" + pathTo(reach, acc.Fn) + "): a snapshot built while a (re)connecting proxy is between addCon and MarkInitialized is never enqueued for it, defeating register-before-initialise"
	}
	c.Check("StartPush:no initialisation filter before Enqueue", acc.Pos, !filters, det)
}

// C05-R8: only an answered first request creates the record. "No record for this type on this stream" is what makes the
// classifiers answer a re-sent subscription unconditionally after a reconnect (C05-R1). The record is therefore created
// exactly where that answer is given; in particular the NACK branch, which answers nothing, must not create it: the
// update literals created under the ErrorDetail != nil edge return their argument (or nil) and nothing there stores into
// the WatchedResources map. If a first-request NACK leaves a record behind, the subscription that follows is compared
// with a nonce this stream never sent and is dropped as stale - the client stays warming.
func c05r8(c *Ctx) {
	p := c.P
	n := 0
	for _, fn := range classifierFuncs(p) {
		var nack []Edge
		for _, i := range allIfs(fn) {
			if x, eq, ok := nilCmp(i.Cond); ok && loadOfFieldNamed(x, "ErrorDetail") {
				idx := 0
				if eq {
					idx = 1
				}
				nack = append(nack, Edge{i.Block(), idx})
			}
		}
		c.Check(fn.Name()+": the NACK branch found", fn.Pos(), len(nack) >= 1, "no test of request.ErrorDetail")
		eachInstr(fn, func(ins ssa.Instruction) {
			if !underEdges(fn, ins.Block(), nack) {
				return
			}
			switch x := ins.(type) {
			case *ssa.MapUpdate:
				if f := fieldOfLoad(x.Map); f != nil && f.Name() == "WatchedResources" {
					n++
					c.Check(fn.Name()+": a rejection does not create the record", x.Pos(), false,
						"the NACK branch stores a record into WatchedResources: the type then counts as known on this stream although nothing was answered, and the re-sent subscription that follows is judged against a nonce this stream never sent")
				}
			case *ssa.MakeClosure:
				lit, ok := x.Fn.(*ssa.Function)
				if !ok || len(lit.Params) != 1 {
					return
				}
				par := lit.Params[0]
				for _, b := range lit.Blocks {
					r, ok := b.Instrs[len(b.Instrs)-1].(*ssa.Return)
					if !ok || len(r.Results) != 1 {
						continue
					}
					n++
					okAll := true
					seen := map[ssa.Value]bool{}
					var walk func(v ssa.Value)
					walk = func(v ssa.Value) {
						if seen[v] {
							return
						}
						seen[v] = true
						if v == ssa.Value(par) {
							return
						}
						if k, ok := v.(*ssa.Const); ok && k.IsNil() {
							return
						}
						if phi, ok := v.(*ssa.Phi); ok {
							for _, e := range phi.Edges {
								walk(e)
							}
							return
						}
						okAll = false
					}
					walk(retVal(r, 0))
					c.Check(fn.Name()+": a rejection does not create the record", r.Pos(), okAll,
						"the update callback of the NACK branch can return a record other than the one it was given: a first-request NACK then leaves a record behind, the type counts as known on this stream although nothing was answered, and the re-sent subscription that follows is compared with a nonce this stream never sent and dropped - the client stays warming")
				}
			}
		})
	}
	c.Check("NACK update callbacks found", token.NoPos, n >= 2, "fewer update callbacks under the NACK edge than confirmed by hand (one per classifier)")
	c.Floor(4)
}

// C05-R9 (also listed as C03-R3b): the forced EDS push after a delta CDS answer is unconditional. forceEDSPush exists
// because Envoy re-warms every cluster it receives and waits for endpoints; on a reconnect EDS and CDS requests arrive
// back to back, so "the last EDS answer was not acknowledged yet" is the normal case, not a reason to skip. In
// forceEDSPush every path to a return passes pushDeltaXds, except under the "EDS is not watched" edge.
func c05r9(c *Ctx) {
	p := c.P
	fn := p.Func(pkgXds, "DiscoveryServer", "forceEDSPush")
	push := p.FuncObj(pkgXds, "DiscoveryServer", "pushDeltaXds")
	var notWatched []Edge
	for _, i := range allIfs(fn) {
		if x, eq, ok := nilCmp(i.Cond); ok {
			if call, isCall := x.(*ssa.Call); isCall {
				if o := calleeObj(call); o != nil && o.Name() == "GetWatchedResource" {
					idx := 1
					if eq {
						idx = 0
					}
					notWatched = append(notWatched, Edge{i.Block(), idx})
				}
			}
		}
	}
	c.Check("forceEDSPush tests whether EDS is watched", fn.Pos(), len(notWatched) == 1, "expected one nil test of GetWatchedResource(EDS) in forceEDSPush")
	bad, found := pathAvoidingE(fn.Blocks[0], nil, deepMust(func(ins ssa.Instruction) bool { return isCallTo(ins, push) }, 1), isReturn, notWatched, nil)
	pos := fn.Pos()
	if bad != nil {
		pos = bad.Pos()
	}
	c.Check("forceEDSPush pushes EDS whenever EDS is watched", pos, !found,
		"forceEDSPush can return without pushing although the proxy watches EDS: after a delta CDS answer Envoy re-warms the clusters it received and waits for their endpoints; on a reconnect the EDS and CDS requests are pipelined, so a skip that depends on the state of the previous EDS answer (not yet acknowledged, nonce in flight) hits exactly the case the forced push exists for, and the changed clusters stay warming")
	c.Floor(2)
}

// C05-R10: "ready" always includes "the caches were synced". Stream / StreamDeltas admit a connection only under
// IsServerReady(); whatever else that predicate looks at (agentgateway collections), a positive answer is given only after
// the serverReady flag - set by CachesSynced - was read: every return of IsServerReady that is not the constant false
// lies on paths that all pass a read of DiscoveryServer.serverReady. A shortcut that answers from the collections alone
// lets a restarted instance answer a reconnecting proxy from its still-empty snapshot (delta: every retained cluster is
// removed).
func c05r10(c *Ctx) {
	p := c.P
	fn := p.Func(pkgXds, "DiscoveryServer", "IsServerReady")
	sr := p.Field(pkgXds, "DiscoveryServer", "serverReady")
	readsFlag := func(ins ssa.Instruction) bool {
		fa, ok := ins.(*ssa.FieldAddr)
		return ok && fieldVar(fa.X.Type(), fa.Field) == sr
	}
	n := 0
	for _, b := range fn.Blocks {
		r, ok := b.Instrs[len(b.Instrs)-1].(*ssa.Return)
		if !ok || len(r.Results) != 1 {
			continue
		}
		if k, isC := constBool(retVal(r, 0)); isC && !k {
			continue
		}
		n++
		hit := pathAvoiding(fn, nil, readsFlag, func(ins ssa.Instruction) bool { return ins == ssa.Instruction(r) })
		c.Check("IsServerReady answers positively only after reading the caches-synced flag", r.Pos(), hit == nil,
			"IsServerReady can return a value other than false on a path that never reads serverReady (set by CachesSynced): connections are then admitted before the registries and the config store are synced, and a proxy that reconnects to a just-restarted instance is answered from an empty snapshot - for a delta client every cluster it retained is removed")
	}
	c.Check("IsServerReady has a positive answer", fn.Pos(), n >= 1, "no return other than the constant false")
	c.Floor(2)
}

// C05-R11: the context a connection starts from is read while it is being registered. StartPush fans a committed push
// out over the registered connections; a connection becomes visible to it in addCon, under adsClientsMutex. For no push to
// fall between "the context the proxy is initialised from" and "the first push that is enqueued for it", that context is
// read under the same lock: addCon stores the result of globalPushContext() into the proxy's LastPushContext between
// Lock and Unlock of adsClientsMutex, in the critical section that inserts the connection into adsClients. (Reading it
// before - e.g. ahead of authorize - loses a push that is committed and fanned out in between: the proxy is answered from
// the older context and nothing is queued for it.)
func c05r11(c *Ctx) {
	p := c.P
	fn := p.Func(pkgXds, "DiscoveryServer", "addCon")
	lpc := p.Field(pkgModel, "Proxy", "LastPushContext")
	gpc := p.FuncObj(pkgXds, "DiscoveryServer", "globalPushContext")
	mu := p.Field(pkgXds, "DiscoveryServer", "adsClientsMutex")
	clients := p.Field(pkgXds, "DiscoveryServer", "adsClients")
	var lock, insert, store ssa.Instruction
	deferredUnlock := false
	var unlock ssa.Instruction
	eachInstr(fn, func(ins ssa.Instruction) {
		switch x := ins.(type) {
		case *ssa.Call:
			if o := calleeObj(x); o != nil && len(x.Call.Args) > 0 {
				if fa, ok := x.Call.Args[0].(*ssa.FieldAddr); ok && fieldVar(fa.X.Type(), fa.Field) == mu {
					if o.Name() == "Lock" {
						lock = ins
					}
					if o.Name() == "Unlock" {
						unlock = ins
					}
				}
			}
		case *ssa.Defer:
			if o := calleeObj(x); o != nil && o.Name() == "Unlock" && len(x.Call.Args) > 0 {
				if fa, ok := x.Call.Args[0].(*ssa.FieldAddr); ok && fieldVar(fa.X.Type(), fa.Field) == mu {
					deferredUnlock = true
				}
			}
		case *ssa.MapUpdate:
			if fieldOfLoad(x.Map) == clients {
				insert = ins
			}
		case *ssa.Store:
			if fa, ok := x.Addr.(*ssa.FieldAddr); ok && fieldVar(fa.X.Type(), fa.Field) == lpc {
				if call, ok := x.Val.(*ssa.Call); ok && isCallTo(call, gpc) {
					store = ins
				}
			}
		}
	})
	c.Check("addCon registers the connection under adsClientsMutex", fn.Pos(), lock != nil && insert != nil && (deferredUnlock || unlock != nil), "Lock / insert into adsClients / Unlock not found in addCon")
	okStore := false
	if store != nil && lock != nil {
		after := func(a, b ssa.Instruction) bool {
			return a.Block() == b.Block() && instrIndex(a) < instrIndex(b) || a.Block() != b.Block() && a.Block().Dominates(b.Block())
		}
		okStore = after(lock, store) && (deferredUnlock || unlock != nil && after(store, unlock))
	}
	pos := fn.Pos()
	if store != nil {
		pos = store.Pos()
	}
	c.Check("the push context a connection starts from is read under the lock that registers it", pos, okStore,
		"addCon does not store globalPushContext() into the proxy's LastPushContext inside the adsClientsMutex critical section that makes the connection visible to StartPush: a push that is committed and fanned out between an earlier read of the context and the registration is neither part of the context the proxy is initialised from nor enqueued for it - the (re)connecting proxy is answered from the older snapshot and stays stale until the next push")
	c.Floor(2)
}
