package main

import (
	"encoding/json"
	"fmt"
	"go/ast"
	"go/token"
	"go/types"
	"os"
	"os/exec"
	"path/filepath"
	"sort"
	"strings"
	"time"

	"golang.org/x/tools/go/packages"
	"golang.org/x/tools/go/ssa"
	"golang.org/x/tools/go/ssa/ssautil"
)

const istioMod = "istio.io/istio"

// Prog is the resolved program: type-checked packages of /repo plus SSA bodies for istio packages.
type Prog struct {
	Repo     string
	Fset     *token.FileSet
	Pkgs     []*packages.Package
	ByPath   map[string]*packages.Package
	SSA      *ssa.Program
	AllFuncs []*ssa.Function // every istio function with a body, incl. anonymous and instantiations
	declOf   map[*types.Func]*ast.FuncDecl
	fileOf   map[*ast.File]*packages.Package
	cg       *CG
	callersMemo map[*ssa.Function][]ssa.CallInstruction
	addrTakenMemo map[*ssa.Function]bool
	Patterns []string
	Tags     string
	LoadSecs float64
}

func isIstioPath(p string) bool { return p == istioMod || strings.HasPrefix(p, istioMod+"/") }

func loadProg(repo string, patterns []string, tags string) (*Prog, error) {
	t0 := time.Now()
	cfg := &packages.Config{
		Mode:  packages.LoadSyntax | packages.NeedModule,
		Dir:   repo,
		Tests: false,
		Env:   append(os.Environ(), "GOWORK=off", "GOFLAGS=-mod=mod", "GOPROXY=off", "GOSUMDB=off", "GOTOOLCHAIN=local"),
	}
	// the go command that lists the packages must be at least the version go.mod names; the pre-installed 1.26.8 is
	if _, err := os.Stat("/opt/veriftools/go1.26.8/bin/go"); err == nil {
		if !strings.HasPrefix(os.Getenv("PATH"), "/opt/veriftools/go1.26.8/bin:") {
			os.Setenv("PATH", "/opt/veriftools/go1.26.8/bin:"+os.Getenv("PATH")) // go/packages resolves "go" through this process's PATH
		}
		cfg.Env = append(cfg.Env, "PATH="+os.Getenv("PATH"))
	}
	// -trimpath makes export data cacheable across scratch copies of the tree (mutant runs, thorough tag sets)
	cfg.BuildFlags = []string{"-trimpath"}
	if tags != "" {
		cfg.BuildFlags = append(cfg.BuildFlags, "-tags="+tags)
	}
	// "deps:<main package>" patterns stand for the main-module packages in that binary's dependency closure under these tags
	var expanded []string
	for _, pat := range patterns {
		if !strings.HasPrefix(pat, "deps:") {
			expanded = append(expanded, pat)
			continue
		}
		args := append([]string{"list", "-deps"}, cfg.BuildFlags...)
		cmd := exec.Command("go", append(args, strings.TrimPrefix(pat, "deps:"))...)
		cmd.Dir, cmd.Env = repo, cfg.Env
		out, err := cmd.Output()
		if err != nil {
			msg := ""
			if ee, ok := err.(*exec.ExitError); ok {
				msg = string(ee.Stderr)
			}
			return nil, fmt.Errorf("go list -deps %s: %v %s", pat, err, msg)
		}
		for _, l := range strings.Split(string(out), "\n") {
			if strings.HasPrefix(l, "istio.io/istio/") {
				expanded = append(expanded, l)
			}
		}
	}
	sort.Strings(expanded)
	expanded = compactStrings(expanded)
	pkgs, err := packages.Load(cfg, expanded...)
	if err != nil {
		return nil, err
	}
	if len(pkgs) == 0 {
		return nil, fmt.Errorf("no packages loaded for %v", patterns)
	}
	p := &Prog{Repo: repo, ByPath: map[string]*packages.Package{}, declOf: map[*types.Func]*ast.FuncDecl{},
		fileOf: map[*ast.File]*packages.Package{}, Patterns: patterns, Tags: tags}
	var errs []string
	for _, pk := range pkgs {
		for _, e := range pk.Errors {
			errs = append(errs, pk.PkgPath+": "+e.Error())
		}
		if pk.IllTyped && len(pk.Errors) == 0 {
			errs = append(errs, pk.PkgPath+": ill-typed")
		}
	}
	if len(errs) > 0 {
		if len(errs) > 10 {
			errs = errs[:10]
		}
		return nil, fmt.Errorf("type-check/load errors:\n  %s", strings.Join(errs, "\n  "))
	}
	p.Pkgs = pkgs
	p.Fset = pkgs[0].Fset
	packages.Visit(pkgs, nil, func(pk *packages.Package) {
		if _, ok := p.ByPath[pk.PkgPath]; !ok {
			p.ByPath[pk.PkgPath] = pk
		}
	})
	for _, pk := range pkgs {
		p.ByPath[pk.PkgPath] = pk
		for _, f := range pk.Syntax {
			p.fileOf[f] = pk
			for _, d := range f.Decls {
				if fd, ok := d.(*ast.FuncDecl); ok {
					if o, ok := pk.TypesInfo.Defs[fd.Name].(*types.Func); ok {
						p.declOf[o] = fd
					}
				}
			}
		}
	}
	prog, _ := ssautil.Packages(pkgs, ssa.InstantiateGenerics)
	prog.Build()
	p.SSA = prog
	seenFn := map[*ssa.Function]bool{}
	for fn := range ssautil.AllFunctions(prog) {
		if fn.Blocks == nil {
			continue
		}
		if isIstioFunc(fn) {
			p.AllFuncs = append(p.AllFuncs, fn)
			seenFn[fn] = true
		}
	}
	// ssautil.AllFunctions misses methods of generic types that are only reached through instantiations made inside other
	// generic bodies (e.g. krt's joinIndexer[T].Lookup). Add the generic (uninstantiated) body of every declared function
	// and method of the loaded packages, with the function literals nested in them.
	var addFn func(fn *ssa.Function)
	addFn = func(fn *ssa.Function) {
		if fn == nil || fn.Blocks == nil || seenFn[fn] || !isIstioFunc(fn) {
			return
		}
		seenFn[fn] = true
		p.AllFuncs = append(p.AllFuncs, fn)
		for _, a := range fn.AnonFuncs {
			addFn(a)
		}
	}
	for _, pk := range pkgs {
		if pk.Types == nil {
			continue
		}
		sc := pk.Types.Scope()
		for _, name := range sc.Names() {
			switch o := sc.Lookup(name).(type) {
			case *types.Func:
				addFn(prog.FuncValue(o))
			case *types.TypeName:
				if nt, ok := o.Type().(*types.Named); ok {
					for i := 0; i < nt.NumMethods(); i++ {
						addFn(prog.FuncValue(nt.Method(i)))
					}
				}
			}
		}
	}
	sort.Slice(p.AllFuncs, func(i, j int) bool { return fnKey(p.AllFuncs[i]) < fnKey(p.AllFuncs[j]) })
	p.LoadSecs = time.Since(t0).Seconds()
	return p, nil
}

func compactStrings(a []string) []string {
	out := a[:0]
	for i, x := range a {
		if i == 0 || x != a[i-1] {
			out = append(out, x)
		}
	}
	return out
}

func fnKey(f *ssa.Function) string {
	return f.String() + "@" + fmt.Sprint(f.Pos())
}

// isIstioFunc decides "is istio code" for real functions and for go/ssa synthetic wrappers (Pkg == nil).
func isIstioFunc(f *ssa.Function) bool {
	for g := f; g != nil; g = g.Parent() {
		if g.Pkg != nil {
			return isIstioPath(g.Pkg.Pkg.Path())
		}
		if o := g.Origin(); o != nil && o != g {
			if o.Pkg != nil {
				return isIstioPath(o.Pkg.Pkg.Path())
			}
		}
		if obj := g.Object(); obj != nil && obj.Pkg() != nil {
			return isIstioPath(obj.Pkg().Path())
		}
	}
	return false
}

// ---------- anchors ----------

type anchorErr struct{ msg string }

func anchorFail(format string, a ...any) { panic(anchorErr{fmt.Sprintf(format, a...)}) }

func (p *Prog) Pkg(path string) *packages.Package {
	if _, ok := p.ByPath[path]; !ok && !strings.Contains(path, ".") {
		path = istioMod + "/" + path
	}
	pk := p.ByPath[path]
	if pk == nil {
		anchorFail("package %s not loaded", path)
	}
	return pk
}

func (p *Prog) Named(pkg, name string) *types.Named {
	o := p.Pkg(pkg).Types.Scope().Lookup(name)
	tn, ok := o.(*types.TypeName)
	if !ok {
		anchorFail("type %s.%s not found", pkg, name)
	}
	n, ok := tn.Type().(*types.Named)
	if !ok {
		anchorFail("type %s.%s is not a named type", pkg, name)
	}
	return n
}

func (p *Prog) Struct(pkg, name string) *types.Struct {
	s, ok := p.Named(pkg, name).Underlying().(*types.Struct)
	if !ok {
		anchorFail("type %s.%s is not a struct", pkg, name)
	}
	return s
}

func (p *Prog) Field(pkg, typ, field string) *types.Var {
	s := p.Struct(pkg, typ)
	for i := 0; i < s.NumFields(); i++ {
		if s.Field(i).Name() == field {
			return s.Field(i)
		}
	}
	anchorFail("field %s.%s.%s not found", pkg, typ, field)
	return nil
}

// FuncObj resolves a package-level function (recv=="") or a method (value or pointer receiver).
func (p *Prog) FuncObj(pkg, recv, name string) *types.Func {
	if recv == "" {
		o, ok := p.Pkg(pkg).Types.Scope().Lookup(name).(*types.Func)
		if !ok {
			anchorFail("func %s.%s not found", pkg, name)
		}
		return o
	}
	n := p.Named(pkg, recv)
	for i := 0; i < n.NumMethods(); i++ {
		if n.Method(i).Name() == name {
			return n.Method(i)
		}
	}
	// interface method?
	if it, ok := n.Underlying().(*types.Interface); ok {
		for i := 0; i < it.NumMethods(); i++ {
			if it.Method(i).Name() == name {
				return it.Method(i)
			}
		}
	}
	anchorFail("method %s.%s.%s not found", pkg, recv, name)
	return nil
}

func (p *Prog) Func(pkg, recv, name string) *ssa.Function {
	o := p.FuncObj(pkg, recv, name)
	f := p.SSA.FuncValue(o)
	if f == nil || f.Blocks == nil {
		anchorFail("no SSA body for %s.%s.%s", pkg, recv, name)
	}
	return f
}

func (p *Prog) Var(pkg, name string) *types.Var {
	o, ok := p.Pkg(pkg).Types.Scope().Lookup(name).(*types.Var)
	if !ok {
		anchorFail("var %s.%s not found", pkg, name)
	}
	return o
}

func (p *Prog) Const(pkg, name string) *types.Const {
	o, ok := p.Pkg(pkg).Types.Scope().Lookup(name).(*types.Const)
	if !ok {
		anchorFail("const %s.%s not found", pkg, name)
	}
	return o
}

func (p *Prog) Decl(o *types.Func) *ast.FuncDecl {
	d := p.declOf[o]
	if d == nil || d.Body == nil {
		anchorFail("no source declaration for %s", o.FullName())
	}
	return d
}

func (p *Prog) InfoFor(o types.Object) *types.Info {
	pk := p.ByPath[o.Pkg().Path()]
	if pk == nil {
		anchorFail("package of %s not loaded", o.Name())
	}
	return pk.TypesInfo
}

func (p *Prog) pos(pos token.Pos) string {
	if !pos.IsValid() {
		return "-"
	}
	ps := p.Fset.Position(pos)
	rel, err := filepath.Rel(p.Repo, ps.Filename)
	if err != nil {
		rel = ps.Filename
	}
	return fmt.Sprintf("%s:%d", rel, ps.Line)
}

// Anon returns the anonymous functions directly nested in fn, in source order.
func anonsOf(fn *ssa.Function) []*ssa.Function { return fn.AnonFuncs }

// ---------- obligations, evidence ----------

type Ob struct {
	Rule      string `json:"rule"`
	Construct string `json:"construct"`
	Pos       string `json:"pos"`
	Verdict   string `json:"verdict"` // ok | violation | known-finding
	Detail    string `json:"detail,omitempty"`
	Config    string `json:"config,omitempty"` // load configuration (patterns + build tags) the obligation was evaluated under
}

type KnownFinding struct {
	Property  string `json:"property"`
	Rule      string `json:"rule"`
	Construct string `json:"construct"`
	What      string `json:"what"`
}

type KnownFile struct {
	Findings []KnownFinding `json:"findings"`
	Fixed    []string       `json:"fixed"`
	// Pending: reports under triage (demonstration against the real code in progress). They are printed as
	// PENDING-TRIAGE information and are neither violations nor known findings; an entry must be resolved into a fix,
	// a known finding or a corrected rule.
	Pending []KnownFinding `json:"pending_triage"`
}

type Ctx struct {
	P        *Prog
	Prop     string
	Tier     string
	Obs      []Ob
	floors   map[string]int
	Info     []string
	Stats    map[string]any
	curRule  string
	known    []KnownFinding
	pending  []KnownFinding
	Clauses  []string
	NotDec   string
	Assume   []string
	ruleDocs map[string]string
	cfg      string           // current load configuration
	cfgs     []map[string]any // what was loaded per configuration
}

func (c *Ctx) Check(construct string, pos token.Pos, ok bool, detail string) {
	c.CheckAt(construct, c.P.pos(pos), ok, detail)
}

func (c *Ctx) CheckAt(construct, pos string, ok bool, detail string) {
	v := "ok"
	if !ok {
		v = "violation"
		for _, k := range c.pending {
			if k.Property == c.Prop && k.Rule == c.curRule && k.Construct == construct {
				c.Info = append(c.Info, "PENDING-TRIAGE "+c.curRule+" "+construct+" @"+pos+": "+detail)
				fmt.Printf("PENDING-TRIAGE: property=%s rule=%s construct=%s at %s\n", c.Prop, c.curRule, construct, pos)
				return
			}
		}
		for _, k := range c.known {
			if k.Property == c.Prop && k.Rule == c.curRule && k.Construct == construct {
				v = "known-finding"
				if detail == "" {
					detail = k.What
				}
				break
			}
		}
	}
	c.Obs = append(c.Obs, Ob{Rule: c.curRule, Construct: construct, Pos: pos, Verdict: v, Detail: detail, Config: c.cfg})
}

// Floor asserts that the current rule has evaluated at least n obligations (guards against vacuity).
func (c *Ctx) Floor(n int) {
	c.floors[c.curRule] = n
}

func (c *Ctx) Infof(format string, a ...any) { c.Info = append(c.Info, c.curRule+": "+fmt.Sprintf(format, a...)) }

func (c *Ctx) Stat(k string, v any) { c.Stats[c.curRule+"."+k] = v }

type Rule struct {
	ID  string
	Doc string
	Run func(c *Ctx)
}

func (c *Ctx) runRule(r Rule) {
	c.curRule = r.ID
	c.ruleDocs[r.ID] = r.Doc
	defer func() {
		if e := recover(); e != nil {
			if ae, ok := e.(anchorErr); ok {
				c.CheckAt("anchor", "-", false, "unresolved anchor: "+ae.msg)
				return
			}
			c.CheckAt("checker-panic", "-", false, fmt.Sprintf("checker panic: %v", e))
			if os.Getenv("VERIF_DEBUG") != "" {
				panic(e)
			}
		}
	}()
	r.Run(c)
}

type Evidence struct {
	PropertyID  string         `json:"property_id"`
	Tier        string         `json:"tier"`
	Seed        int            `json:"seed"`
	Level       string         `json:"level"`
	Coverage    map[string]any `json:"coverage"`
	Assumptions []string       `json:"assumptions"`
	WallS       float64        `json:"wall_s"`
	Violations  int            `json:"violations"`
}

// endConfig closes one load configuration: vacuity floors are checked per configuration.
func (c *Ctx) endConfig(pd PropDef) {
	counts := map[string]int{}
	for _, o := range c.Obs {
		if o.Config == c.cfg {
			counts[o.Rule]++
		}
	}
	rules := make([]string, 0, len(c.floors))
	for r := range c.floors {
		rules = append(rules, r)
	}
	sort.Strings(rules)
	for _, r := range rules {
		if counts[r] < c.floors[r] {
			c.curRule = r
			c.CheckAt("floor", "-", false, fmt.Sprintf("rule matched %d instances, below the floor of %d confirmed by hand (vacuous pass guard)", counts[r], c.floors[r]))
		}
	}
	for _, r := range pd.Rules {
		if counts[r.ID] == 0 {
			c.curRule = r.ID
			c.CheckAt("floor", "-", false, "rule produced no obligations")
		}
	}
	c.cfgs = append(c.cfgs, map[string]any{"config": c.cfg, "load_patterns": c.P.Patterns, "build_tags": c.P.Tags, "packages": len(c.P.Pkgs),
		"functions_analysed": len(c.P.AllFuncs), "load_s": c.P.LoadSecs})
}

func (c *Ctx) finish(verif string, seed int, wall float64, pd PropDef) int {
	counts := map[string]int{}
	for _, o := range c.Obs {
		counts[o.Rule]++
	}
	outDir := filepath.Join(verif, "out", c.Prop)
	os.RemoveAll(outDir)
	os.MkdirAll(outDir, 0o755)
	nviol, nknown, nok := 0, 0, 0
	var lines []string
	distinct := map[string]bool{}
	reported := map[string]bool{}
	for _, o := range c.Obs {
		distinct[o.Rule+"|"+o.Construct] = true
		if o.Verdict != "ok" {
			// the same construct failing under several load configurations is one report
			k := o.Rule + "|" + o.Construct + "|" + o.Pos
			if reported[k] {
				continue
			}
			reported[k] = true
		}
		switch o.Verdict {
		case "ok":
			nok++
		case "known-finding":
			nknown++
			lines = append(lines, fmt.Sprintf("KNOWN-FINDING: property=%s rule=%s construct=%s at %s: %s", c.Prop, o.Rule, o.Construct, o.Pos, o.Detail))
		default:
			nviol++
			path := filepath.Join(outDir, fmt.Sprintf("%d.json", nviol))
			rec := map[string]any{"property": c.Prop, "obligation": o, "rule_doc": c.ruleDocs[o.Rule],
				"how_to_replay": fmt.Sprintf("cd %s && ./run.sh %s %s   # static check: re-run against the current /repo tree; the report names the construct", verif, c.Prop, c.Tier)}
			b, _ := json.MarshalIndent(rec, "", " ")
			os.WriteFile(path, b, 0o644)
			lines = append(lines, fmt.Sprintf("  violation: rule=%s construct=%s at %s: %s [config %s]", o.Rule, o.Construct, o.Pos, o.Detail, o.Config))
			lines = append(lines, fmt.Sprintf("VIOLATION property=%s replay=%s", c.Prop, path))
		}
	}
	// samples: a few obligations per rule
	perRule := map[string]int{}
	var samples []Ob
	for _, o := range c.Obs {
		if o.Verdict != "ok" || perRule[o.Rule] < 3 {
			if o.Verdict == "ok" {
				perRule[o.Rule]++
			}
			samples = append(samples, o)
		}
	}
	ruleCounts := map[string]int{}
	for r, n := range counts {
		ruleCounts[r] = n
	}
	docs := map[string]string{}
	for _, r := range pd.Rules {
		docs[r.ID] = r.Doc
	}
	cov := map[string]any{
		"explanation": "STATIC ANALYSIS of /repo's current source (no code executed). Decides these structural clauses, each a necessary condition of " + c.Prop + ": " +
			strings.Join(pd.Clauses, " | ") + " -- NOT decided: " + pd.NotDecided,
		"obligations":         len(c.Obs),
		"discharged":          nok,
		"known_findings":      nknown,
		"evaluations":         len(c.Obs),
		"distinct_nontrivial": len(distinct),
		"rule":                "one obligation per (rule, construct) instance enumerated from the resolved program (types.Object / SSA value / CFG edge); distinct = distinct (rule, construct) keys, each has a concrete site in /repo",
		"samples":             samples,
		"per_rule_obligations": ruleCounts,
		"rule_docs":           docs,
		"instance_floor":      c.floors,
		"packages":            c.cfgs[0]["packages"],
		"functions_analysed":  c.cfgs[0]["functions_analysed"],
		"configurations":      c.cfgs,
		"stats":               c.Stats,
		"info":                c.Info,
		"checker_cmd":         fmt.Sprintf("./run.sh %s %s", c.Prop, c.Tier),
		"trusted_base":        []string{"go/types, go/ssa, go/packages (x/tools v0.29.0)", "module-bounded call graph assumptions (DESIGN.md 3.1)", "hand-confirmed tables in the rule sources"},
		"exhaustive":          false,
	}
	ev := Evidence{PropertyID: c.Prop, Tier: c.Tier, Seed: seed, Level: "other", Coverage: cov,
		Assumptions: append([]string{
			"module-bounded call graph: static callees, referenced function values/closures, interface invokes resolved over istio named types; traversal stops at non-istio callees",
			"no reflection/unsafe/linkname reaches the tracked fields",
			"a pass means every enumerated instance of every rule satisfies the rule on the current source; it does not mean the behavioural property holds",
		}, pd.Assumptions...),
		WallS: wall, Violations: nviol}
	b, _ := json.MarshalIndent(ev, "", " ")
	os.MkdirAll(filepath.Join(verif, "evidence"), 0o755)
	if err := os.WriteFile(filepath.Join(verif, "evidence", c.Prop+".json"), b, 0o644); err != nil {
		fmt.Println("cannot write evidence:", err)
		return 2
	}
	fmt.Printf("property=%s tier=%s packages=%v functions=%v obligations=%d ok=%d known=%d violations=%d wall=%.1fs\n",
		c.Prop, c.Tier, c.cfgs[0]["packages"], c.cfgs[0]["functions_analysed"], len(c.Obs), nok, nknown, nviol, wall)
	for _, cf := range c.cfgs {
		fmt.Printf("  config %v: patterns=%v tags=%q packages=%v functions=%v\n", cf["config"], cf["load_patterns"], cf["build_tags"], cf["packages"], cf["functions_analysed"])
	}
	rs := make([]string, 0, len(counts))
	for r := range counts {
		rs = append(rs, r)
	}
	sort.Strings(rs)
	for _, r := range rs {
		fmt.Printf("  %s: %d obligations (floor %d)\n", r, counts[r], c.floors[r])
	}
	if os.Getenv("VERIF_VERBOSE") != "" {
		for _, o := range c.Obs {
			fmt.Printf("    [%s] %s %s @%s\n", o.Verdict, o.Rule, o.Construct, o.Pos)
		}
	}
	for _, l := range lines {
		fmt.Println(l)
	}
	if nviol > 0 {
		return 1
	}
	return 0
}

type PropDef struct {
	ID          string
	Clauses     []string
	NotDecided  string
	Assumptions []string
	Rules       []Rule
}

var props = map[string]*PropDef{}

func register(pd *PropDef) { props[pd.ID] = pd }

func loadKnown(verif string) ([]KnownFinding, []KnownFinding) {
	b, err := os.ReadFile(filepath.Join(verif, "known_findings.json"))
	if err != nil {
		return nil, nil
	}
	var kf KnownFile
	if err := json.Unmarshal(b, &kf); err != nil {
		fmt.Println("known_findings.json unreadable:", err)
		os.Exit(2)
	}
	return kf.Findings, kf.Pending
}
