package main

import (
	"go/token"
	"go/types"
	"os"
	"fmt"
	"sort"
	"strings"

	"golang.org/x/tools/go/ssa"
)

// C02-R10: Forced before narrowing.
//
// Merging unions ConfigsUpdated and ORs Forced, so a merged request can be "forced, and the only keys it names are
// endpoints" (a mesh-wide change debounced together with an endpoint event). The keys then say what ELSE changed;
// they do not narrow the forced push. Every consumer in pilot/pkg that reads the keys of a request must therefore
// have established first that the request is not forced:
//
//	each read of PushRequest.ConfigsUpdated lies under an edge on which the request is known not to be forced.
//
// "Known not forced" edges of a function are
//   (a) the false edge of a test of the Forced field,
//   (b) the edge of a test of a helper's boolean result that the helper never returns for a forced request
//       (summary: the constant every return reachable with Forced==true carries in that result; xdsNeedsPush's
//       `definitive`, canSendPartialFullPushes, shouldUseDelta ...),
//   (c) the true edge of a bool parameter that every caller feeds from (b) for the same request (buildEndpoints'
//       partialPush),
// and a function whose every call site (all static, at least one) passes the request under such an edge is entered
// not-forced (filterRelevantUpdates, waypointNeedsPush, updateContext). A read whose only use is to be handed to a
// callee TOGETHER with the Forced flag of the same request is the callee's business (sdsNeedsPush); the callee's uses
// of the keys are then checked against its flag parameter.
// Readers that do not narrow anything are frozen below with the reason.
var c02r10NonNarrowing = map[string]string{
	"(*pilot/pkg/model.PushRequest).Merge":                     "the union itself",
	"(*pilot/pkg/model.PushRequest).CopyMerge":                 "the union itself",
	"(*pilot/pkg/xds.DiscoveryServer).ConfigUpdate":            "assertion, Address-key cache invalidation and debug logging on the way INTO the queue; nothing is skipped",
	"(*pilot/pkg/xds.DiscoveryServer).AdsPushAll":              "replaces a nil key set by an empty one",
	"pilot/pkg/xds.configsUpdated":                             "log text",
	"pilot/pkg/xds.debounce":                                   "chooses WHEN an endpoints-only event is pushed (un-debounced fast path) and what the log line says; the request itself is handed on whole",
	"(*pilot/pkg/xds.DiscoveryServer).computeProxyState":       "additive: the loop over the keys only ever SETS reset flags, and the forced case set them before the loop (C01-R5 checks the flags)",
	"(pilot/pkg/xds.CollectionGenerator).GenerateDeltas":       "krt-backed collections (agentgateway) change only through their own per-key events; a forced push carries no information about them and a (re)connecting client is served in full through IsRequest",
}

type forcedAn struct {
	p            *Prog
	cu, forced   *types.Var
	callers      map[*ssa.Function][]*ssa.Call
	addrTaken    map[*ssa.Function]bool
	ifaceMethods map[string]bool
	summary      map[*ssa.Function]map[int]bool // result index -> constant returned whenever the request is forced
	summarised   map[*ssa.Function]bool
	entryNF      map[*ssa.Function]bool
	boolNF       map[*ssa.Function]map[int]bool // bool parameter index whose truth implies not-forced
}

func isPushRequestPtr(t types.Type) bool {
	pt, ok := t.(*types.Pointer)
	if !ok {
		return false
	}
	n, ok := pt.Elem().(*types.Named)
	return ok && n.Obj().Name() == "PushRequest" && n.Obj().Pkg() != nil && strings.HasSuffix(n.Obj().Pkg().Path(), "pilot/pkg/model")
}

func reqParams(fn *ssa.Function) []int {
	var out []int
	for i, p := range fn.Params {
		if isPushRequestPtr(p.Type()) {
			out = append(out, i)
		}
	}
	return out
}

func newForcedAn(p *Prog) *forcedAn {
	a := &forcedAn{p: p, cu: p.Field(pkgModel, "PushRequest", "ConfigsUpdated"), forced: p.Field(pkgModel, "PushRequest", "Forced"),
		callers: map[*ssa.Function][]*ssa.Call{}, addrTaken: map[*ssa.Function]bool{}, ifaceMethods: map[string]bool{},
		summary: map[*ssa.Function]map[int]bool{}, summarised: map[*ssa.Function]bool{}, entryNF: map[*ssa.Function]bool{}, boolNF: map[*ssa.Function]map[int]bool{}}
	for _, pk := range p.Pkgs {
		if !isIstioPath(pk.PkgPath) {
			continue
		}
		sc := pk.Types.Scope()
		for _, n := range sc.Names() {
			if tn, ok := sc.Lookup(n).(*types.TypeName); ok {
				if it, ok := tn.Type().Underlying().(*types.Interface); ok {
					for i := 0; i < it.NumMethods(); i++ {
						a.ifaceMethods[it.Method(i).Name()] = true
					}
				}
			}
		}
	}
	for _, fn := range p.AllFuncs {
		if !isIstioFunc(fn) {
			continue
		}
		eachInstr(fn, func(ins ssa.Instruction) {
			var callee ssa.Value
			if ci, ok := ins.(ssa.CallInstruction); ok {
				callee = ci.Common().Value
				if call, ok := ins.(*ssa.Call); ok {
					if sc := call.Call.StaticCallee(); sc != nil {
						a.callers[sc] = append(a.callers[sc], call)
					}
				} else if sc := ci.Common().StaticCallee(); sc != nil {
					a.addrTaken[sc] = true // go / defer: no value, treat as unknown
				}
			}
			for _, op := range ins.Operands(nil) {
				if op == nil || *op == nil {
					continue
				}
				if f, ok := (*op).(*ssa.Function); ok && *op != callee {
					a.addrTaken[f] = true
				}
			}
		})
	}
	return a
}

// boolOrigin resolves a branch condition to (call, result index) of a static call, or to a bool parameter.
func boolOrigin(v ssa.Value) (call *ssa.Call, idx int, param *ssa.Parameter) {
	switch x := v.(type) {
	case *ssa.Call:
		return x, 0, nil
	case *ssa.Extract:
		if c, ok := x.Tuple.(*ssa.Call); ok {
			return c, x.Index, nil
		}
	case *ssa.Parameter:
		return nil, 0, x
	}
	return nil, 0, nil
}

func paramIndex(fn *ssa.Function, p *ssa.Parameter) int {
	for i, q := range fn.Params {
		if q == p {
			return i
		}
	}
	return -1
}

// notForcedEdges: the edges of fn on which (one of) its request value(s) is known not to be forced.
func (a *forcedAn) notForcedEdges(fn *ssa.Function, depth int) []Edge {
	out := edgesWhere(fn, func(v ssa.Value) bool { _, ok := fieldLoadOf(v, a.forced); return ok }, false)
	for _, i := range allIfs(fn) {
		v, neg := stripNot(i.Cond)
		call, k, par := boolOrigin(v)
		want, have := false, false // value of v that implies not-forced
		if call != nil && depth > 0 {
			if sc := call.Call.StaticCallee(); sc != nil && isIstioFunc(sc) && len(reqParams(sc)) == 1 {
				if a.isForcedAccessor(sc) {
					want, have = false, true
				} else if c, ok := a.summaryOf(sc, depth-1)[k]; ok {
					want, have = !c, true
				}
			}
		}
		if par != nil {
			if a.boolNF[fn][paramIndex(fn, par)] {
				want, have = true, true
			}
		}
		if !have {
			continue
		}
		idx := 0
		if want == neg {
			idx = 1
		}
		out = append(out, Edge{i.Block(), idx})
	}
	return out
}

// isForcedAccessor: a function whose only result is the Forced field of its request parameter.
func (a *forcedAn) isForcedAccessor(fn *ssa.Function) bool {
	if len(fn.Blocks) != 1 {
		return false
	}
	r, ok := fn.Blocks[0].Instrs[len(fn.Blocks[0].Instrs)-1].(*ssa.Return)
	if !ok || len(r.Results) != 1 {
		return false
	}
	_, ok = fieldLoadOf(r.Results[0], a.forced)
	return ok
}

// summaryOf: for each boolean result, the constant that every return reachable with a forced request carries.
func (a *forcedAn) summaryOf(fn *ssa.Function, depth int) map[int]bool {
	if a.summarised[fn] {
		return a.summary[fn]
	}
	a.summarised[fn] = true
	res := map[int]bool{}
	a.summary[fn] = res
	if len(fn.Blocks) == 0 {
		return res
	}
	rp := reqParams(fn)
	if len(rp) != 1 {
		return res
	}
	q := fn.Params[rp[0]]
	cut := a.notForcedEdges(fn, depth)
	// a forced request is not nil
	for _, i := range allIfs(fn) {
		if x, eq, ok := nilCmp(i.Cond); ok && x == ssa.Value(q) {
			idx := 1
			if eq {
				idx = 0
			}
			cut = append(cut, Edge{i.Block(), idx})
		}
	}
	cutm := map[Edge]bool{}
	for _, e := range cut {
		cutm[e] = true
	}
	reach := reachableWithout(fn, cut, nil)
	type acc struct{ seen, ok, val bool }
	accs := map[int]*acc{}
	note := func(k int, v ssa.Value) {
		ac := accs[k]
		if ac == nil {
			ac = &acc{ok: true}
			accs[k] = ac
		}
		b, isConst := constBool(v)
		if !isConst {
			ac.ok = false
			return
		}
		if ac.seen && ac.val != b {
			ac.ok = false
		}
		ac.seen, ac.val = true, b
	}
	for _, b := range fn.Blocks {
		if !reach[b] {
			continue
		}
		r, ok := b.Instrs[len(b.Instrs)-1].(*ssa.Return)
		if !ok {
			continue
		}
		for k := range r.Results {
			v := retVal(r, k)
			if bt, ok := v.Type().Underlying().(*types.Basic); !ok || bt.Kind() != types.Bool {
				continue
			}
			if phi, ok := v.(*ssa.Phi); ok && phi.Block() == b {
				for j, pred := range b.Preds {
					if !reach[pred] {
						continue
					}
					feasible := false
					for si, s := range pred.Succs {
						if s == b && !cutm[Edge{pred, si}] {
							feasible = true
						}
					}
					if feasible {
						note(k, phi.Edges[j])
					}
				}
				continue
			}
			note(k, v)
		}
	}
	for k, ac := range accs {
		if ac.ok && ac.seen {
			res[k] = ac.val
		}
	}
	return res
}

func (a *forcedAn) solve(cands []*ssa.Function) {
	// least fixpoint from "nothing known"
	for round := 0; round < 4; round++ {
		changed := false
		for _, fn := range cands {
			rp := reqParams(fn)
			if len(rp) != 1 || a.addrTaken[fn] || len(a.callers[fn]) == 0 {
				continue
			}
			if fn.Signature.Recv() != nil && a.ifaceMethods[fn.Name()] {
				continue
			}
			sites := a.callers[fn]
			// (1) entered not-forced
			if !a.entryNF[fn] {
				all := true
				for _, cs := range sites {
					g := cs.Parent()
					if !underEdges(g, cs.Block(), a.notForcedEdges(g, 2)) {
						all = false
						break
					}
				}
				if all {
					a.entryNF[fn] = true
					changed = true
				}
			}
			// (2) bool parameters that imply not-forced
			recvOff := 0
			for bi, bp := range fn.Params {
				if bt, ok := bp.Type().Underlying().(*types.Basic); !ok || bt.Kind() != types.Bool || a.boolNF[fn][bi] {
					continue
				}
				all := true
				for _, cs := range sites {
					args := cs.Call.Args
					if bi+recvOff >= len(args) {
						all = false
						break
					}
					arg := args[bi]
					call, k, par := boolOrigin(arg)
					ok := false
					if call != nil {
						if sc := call.Call.StaticCallee(); sc != nil && isIstioFunc(sc) && len(reqParams(sc)) == 1 {
							if c, has := a.summaryOf(sc, 2)[k]; has && !c && sameValue(call.Call.Args[reqParams(sc)[0]], args[rp[0]]) {
								ok = true
							}
						}
					}
					if par != nil && a.boolNF[cs.Parent()][paramIndex(cs.Parent(), par)] {
						ok = true
					}
					if b, isC := constBool(arg); isC && !b {
						ok = true
					}
					if !ok {
						all = false
						break
					}
				}
				if all {
					if a.boolNF[fn] == nil {
						a.boolNF[fn] = map[int]bool{}
					}
					a.boolNF[fn][bi] = true
					changed = true
				}
			}
		}
		if !changed {
			break
		}
	}
}

func rootFuncName(fn *ssa.Function) string {
	for fn.Parent() != nil {
		fn = fn.Parent()
	}
	return stableFnName(fn)
}

func c02r10(c *Ctx) {
	p := c.P
	a := newForcedAn(p)
	debug := os.Getenv("VERIF_DEBUG_C02R10") != ""
	type site struct {
		fn *ssa.Function
		fa *ssa.FieldAddr
	}
	var sites []site
	fnSet := map[*ssa.Function]bool{}
	var cands []*ssa.Function
	for _, fn := range p.AllFuncs {
		if !isIstioFunc(fn) || fn.Synthetic != "" || strings.HasSuffix(p.Fset.Position(fn.Pos()).Filename, "_test.go") {
			continue
		}
		pp := funcPkgPath(fn)
		if !strings.HasPrefix(pp, istioMod+"/pilot/pkg/") || strings.Contains(pp, "/test") || strings.Contains(pp, "/simulation") || strings.Contains(pp, "/xdsfake") {
			continue
		}
		eachInstr(fn, func(ins ssa.Instruction) {
			fa, ok := ins.(*ssa.FieldAddr)
			if !ok || fieldVar(fa.X.Type(), fa.Field) != a.cu {
				return
			}
			for _, r := range *fa.Referrers() {
				if u, ok := r.(*ssa.UnOp); ok && u.Op == token.MUL {
					sites = append(sites, site{fn, fa})
					if !fnSet[fn] {
						fnSet[fn] = true
						cands = append(cands, fn)
					}
					return
				}
			}
		})
	}
	sort.Slice(cands, func(i, j int) bool { return stableFnName(cands[i]) < stableFnName(cands[j]) })
	a.solve(cands)
	usedExc := map[string]bool{}
	nGuarded := 0
	for _, s := range sites {
		fn, fa := s.fn, s.fa
		how := ""
		switch {
		case a.entryNF[fn]:
			how = "every call site passes a request known not to be forced"
		case underEdges(fn, fa.Block(), a.notForcedEdges(fn, 2)):
			how = "under a not-forced edge"
		case a.handedOnWithForced(fa):
			how = "handed to a callee together with the Forced flag"
		case afterSend(fn, fa):
			how = "after the response was sent (log level of the push line): nothing is left to narrow"
		}
		name := "keys of a request are read only once it is known not to be forced: " + stableFnName(fn)
		if how != "" {
			nGuarded++
			if debug {
				fmt.Fprintf(os.Stderr, "C02R10 ok   %s @%s (%s)\n", stableFnName(fn), p.Fset.Position(fa.Pos()), how)
			}
			c.Check(name, fa.Pos(), true, "")
			continue
		}
		root := rootFuncName(fn)
		if _, ok := c02r10NonNarrowing[root]; !ok {
			if owner := p.extractedFrom(fn, func(f *ssa.Function) bool { _, in := c02r10NonNarrowing[stableFnName(f)]; return in }, 2); owner != nil {
				root = stableFnName(owner)
			}
		}
		if why, ok := c02r10NonNarrowing[root]; ok {
			usedExc[root] = true
			if debug {
				fmt.Fprintf(os.Stderr, "C02R10 exc  %s @%s (%s)\n", stableFnName(fn), p.Fset.Position(fa.Pos()), why)
			}
			continue
		}
		if debug {
			fmt.Fprintf(os.Stderr, "C02R10 BAD  %s @%s\n", stableFnName(fn), p.Fset.Position(fa.Pos()))
		}
		c.Check(name, fa.Pos(), false,
			"this function decides from the keys in ConfigsUpdated on a path that has not established that the request is not forced. Merging ORs Forced and unions the keys, so a forced (mesh-wide) request debounced or queued together with, say, an endpoint or Secret event arrives here as `Forced, keys = {that event}`; narrowing by the keys then weakens the forced push (work the forced request alone would have done is skipped)")
	}
	for k := range c02r10NonNarrowing {
		if !usedExc[k] {
			c.Infof("non-narrowing reader table: %s no longer reads the keys unguarded", k)
		}
	}
	c.Check("readers of ConfigsUpdated found", token.NoPos, len(sites) >= 30 && nGuarded >= 15, fmt.Sprintf("%d reads of PushRequest.ConfigsUpdated in pilot/pkg, %d guarded; fewer than confirmed by hand", len(sites), nGuarded))
	c.Floor(16)
}

// handedOnWithForced: the loaded key set is used only as an argument of calls that also receive the Forced flag of the
// same request; in the callee every use of the keys is then under the flag==false edge.
func (a *forcedAn) handedOnWithForced(fa *ssa.FieldAddr) bool {
	ok := false
	for _, r := range *fa.Referrers() {
		u, isLoad := r.(*ssa.UnOp)
		if !isLoad {
			return false
		}
		for _, use := range *u.Referrers() {
			call, isCall := use.(*ssa.Call)
			if !isCall {
				return false
			}
			sc := call.Call.StaticCallee()
			if sc == nil || len(sc.Blocks) == 0 {
				return false
			}
			ki, fi := -1, -1
			for i, arg := range call.Call.Args {
				if arg == ssa.Value(u) {
					ki = i
				}
				if b, isF := fieldLoadOf(arg, a.forced); isF && sameValue(b, fa.X) {
					fi = i
				}
			}
			if ki < 0 || fi < 0 || ki >= len(sc.Params) || fi >= len(sc.Params) {
				return false
			}
			// callee: uses of the keys under flag == false
			flag, keys := sc.Params[fi], sc.Params[ki]
			nf := edgesWhere(sc, func(v ssa.Value) bool { return v == ssa.Value(flag) }, false)
			for _, kr := range *keys.Referrers() {
				if _, dbg := kr.(*ssa.DebugRef); dbg {
					continue
				}
				if !underEdges(sc, kr.Block(), nf) {
					return false
				}
			}
			ok = true
		}
	}
	return ok
}


// afterSend: the read is dominated by the call that puts the response on the wire (xds.Send / Connection.sendDelta).
func afterSend(fn *ssa.Function, fa *ssa.FieldAddr) bool {
	ok := false
	eachInstr(fn, func(ins ssa.Instruction) {
		call, isCall := ins.(*ssa.Call)
		if !isCall {
			return
		}
		o := calleeObj(call)
		if o == nil || (o.Name() != "Send" && o.Name() != "sendDelta") || o.Pkg() == nil || !strings.HasSuffix(o.Pkg().Path(), "pkg/xds") {
			return
		}
		if call.Block() == fa.Block() && instrIndex(call) < instrIndex(fa) || call.Block() != fa.Block() && call.Block().Dominates(fa.Block()) {
			ok = true
		}
	})
	return ok
}

// C02-R11: the snapshot of a merged request is chosen by age, not by position. Merge / CopyMerge presume that the second
// operand is the later request. That holds for the requests of the push fan-out (one goroutine commits and enqueues), but a
// request is built - reading the global snapshot - and enqueued in two steps by the out-of-band producers (ProxyUpdate on the
// informer goroutines, the debug push): a snapshot committed and fanned out in between is enqueued FIRST, the older one
// second, and the merge keeps the older one together with the keys of the newer push; the consumer
// (computeProxyState) installs whatever the request carries. Structural condition decided here: the value stored into the
// merged request's Push - or a test that guards the store - contains a comparison that sees the snapshots of BOTH operands
// (one call or one binary operation whose operands reach pr.Push and other.Push; nil tests see one side only), in Merge and
// in CopyMerge.
func snapshotComparedByAge(fn *ssa.Function, st *ssa.Store, pushF *types.Var) bool {
	recv, other := ssa.Value(fn.Params[0]), ssa.Value(fn.Params[1])
	memo := map[ssa.Value]map[ssa.Value]bool{}
	found := false
	var roots func(v ssa.Value, d int) map[ssa.Value]bool
	roots = func(v ssa.Value, d int) map[ssa.Value]bool {
		out := map[ssa.Value]bool{}
		if v == nil || d > 8 {
			return out
		}
		if r, ok := memo[v]; ok {
			return r
		}
		memo[v] = out
		if fieldOfLoad(v) == pushF {
			if u, ok := v.(*ssa.UnOp); ok {
				if fa2, ok := u.X.(*ssa.FieldAddr); ok {
					out[fa2.X] = true
				}
			}
			return out
		}
		add := func(m map[ssa.Value]bool) {
			for k := range m {
				out[k] = true
			}
		}
		switch x := v.(type) {
		case *ssa.Call:
			for _, a := range x.Call.Args {
				add(roots(a, d+1))
			}
			if out[recv] && out[other] {
				found = true
			}
		case *ssa.BinOp:
			add(roots(x.X, d+1))
			add(roots(x.Y, d+1))
			if out[recv] && out[other] {
				found = true
			}
		case *ssa.Phi:
			for _, e := range x.Edges {
				add(roots(e, d+1))
			}
			for _, pr := range x.Block().Preds {
				for b := pr; b != nil; b = b.Idom() {
					if iff := ifOf(b); iff != nil {
						roots(iff.Cond, d+1)
					}
				}
			}
		case *ssa.UnOp:
			add(roots(x.X, d+1))
		case *ssa.FieldAddr:
			add(roots(x.X, d+1))
		case *ssa.ChangeType:
			add(roots(x.X, d+1))
		}
		return out
	}
	roots(st.Val, 0)
	for b := st.Block().Idom(); b != nil; b = b.Idom() {
		if iff := ifOf(b); iff != nil {
			roots(iff.Cond, 0)
		}
	}
	return found
}

func c02r11(c *Ctx) {
	p := c.P
	pushF := p.Field(pkgModel, "PushRequest", "Push")
	for _, name := range []string{"Merge", "CopyMerge"} {
		fn := p.Func(pkgModel, "PushRequest", name)
		if len(fn.Params) < 2 {
			c.Check(name+": operands found", fn.Pos(), false, "expected receiver and one parameter")
			continue
		}
		found := false
		eachInstr(fn, func(ins ssa.Instruction) {
			st, ok := ins.(*ssa.Store)
			if !ok {
				return
			}
			fa, ok := st.Addr.(*ssa.FieldAddr)
			if !ok || fieldVar(fa.X.Type(), fa.Field) != pushF {
				return
			}
			found = true
			c.Check(name+": the merged snapshot is chosen by comparing both operands' snapshots", st.Pos(), snapshotComparedByAge(fn, st, pushF),
				"the Push of the merged request is taken from the second operand without comparing it with the first one's: a request built from an older snapshot but enqueued later (ProxyUpdate and the debug push read the global snapshot and enqueue in two unlocked steps, concurrently with the push fan-out) replaces the newer snapshot, the proxy is pushed the keys of the newer push from the OLD snapshot, its LastPushContext goes back, and it stays stale until the next push")
		})
		if !found {
			c.Check(name+": store to Push found", fn.Pos(), false, "no store to PushRequest.Push in "+name)
		}
	}
	// ... the consumer does not go back either: a request that was enqueued alone (nothing to merge with) after a newer
	// snapshot was already pushed to the connection would take it back. In pushConnection / pushConnectionDelta the
	// request handed to computeProxyState is the result of a function of the package that reads the proxy's
	// LastPushContext (the guard that serves the request on the proxy's own snapshot when that is newer), not the raw
	// request of the push event.
	lpc := p.Field(pkgModel, "Proxy", "LastPushContext")
	cps := p.FuncObj(pkgXds, "DiscoveryServer", "computeProxyState")
	for _, name := range []string{"pushConnection", "pushConnectionDelta"} {
		fn := p.Func(pkgXds, "DiscoveryServer", name)
		n := 0
		eachInstr(fn, func(ins ssa.Instruction) {
			call, ok := ins.(*ssa.Call)
			if !ok || !isCallTo(call, cps) {
				return
			}
			n++
			args := call.Call.Args
			req := args[len(args)-1]
			guarded := false
			var leaves []ssa.Value
			phiLeaves(req, map[ssa.Value]bool{}, &leaves)
			okAll := len(leaves) > 0
			for _, l := range leaves {
				gc, isCall := l.(*ssa.Call)
				if !isCall {
					okAll = false
					continue
				}
				sc := gc.Call.StaticCallee()
				if sc == nil || funcPkgPath(sc) != funcPkgPath(fn) || len(sc.Blocks) == 0 {
					okAll = false
					continue
				}
				if _, reads := effectsOfFuncs([]*ssa.Function{sc}).Reads[lpc]; !reads {
					okAll = false
				}
			}
			guarded = okAll
			c.Check(name+": the request is served on a snapshot not older than the proxy's last one", call.Pos(), guarded,
				"the push event's request reaches computeProxyState without passing the guard that compares its snapshot with the proxy's LastPushContext: a request built from an older snapshot and enqueued after the newer one was already pushed (nothing left to merge with) installs the older snapshot again and the proxy stays on it until the next push")
		})
		if n == 0 {
			c.Check(name+": computeProxyState call found", fn.Pos(), false, "no call of computeProxyState in "+name)
		}
	}
	// ... and age is never decided by ordering the version labels: PushVersion is "<RFC3339 second>/<decimal counter>", so
	// the lexicographic order of two labels is not the order of the pushes (".../9" sorts after ".../10")
	pv := p.Field(pkgModel, "PushContext", "PushVersion")
	nOrd, nReads := 0, 0
	for _, fn := range p.AllFuncs {
		if !strings.HasPrefix(funcPkgPath(fn), istioMod+"/") || strings.HasSuffix(p.Fset.Position(fn.Pos()).Filename, "_test.go") || len(fn.Blocks) == 0 || isWrapperFn(fn) {
			continue
		}
		eachInstr(fn, func(ins ssa.Instruction) {
			if u, ok := ins.(*ssa.UnOp); ok && fieldOfLoad(u) == pv {
				nReads++
			}
			b, ok := ins.(*ssa.BinOp)
			if !ok {
				return
			}
			switch b.Op {
			case token.LSS, token.GTR, token.LEQ, token.GEQ:
			default:
				return
			}
			if fieldOfLoad(b.X) != pv && fieldOfLoad(b.Y) != pv {
				return
			}
			nOrd++
			c.Check("push version labels are not ordered: "+stableFnName(fn), b.Pos(), false,
				"PushContext.PushVersion values are compared with an ordering operator: the label is a second-resolution time stamp, a slash and a decimal counter, so within one second push 10 sorts before push 9 - whatever is decided from this order (which of two snapshots is newer) is wrong for those pushes")
		})
	}
	c.Check("reads of PushContext.PushVersion examined (positive control)", token.NoPos, nReads >= 5, fmt.Sprintf("%d reads of PushVersion examined, %d ordering comparisons", nReads, nOrd))
	c.Floor(5)
}
