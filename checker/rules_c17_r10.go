package main

import (
	"os"
	"fmt"
	"go/token"
	"go/types"
	"sort"
	"strings"

	"golang.org/x/tools/go/ssa"
)

// C17-R10: a sort of the keys of a map separates distinct keys. The keys of a map (maps.Keys, a set's UnsortedList) are
// pairwise distinct as whole values and arrive in map iteration order. When the key is a struct and the comparator handed
// to the sort reads only some of its fields, two keys that differ in an unread field compare equal and keep their map
// order: the "sorted" list - and whatever is generated from walking it - differs between generations. Decided in the
// generation graph: for every sort (direct, or through a module function that sorts its parameter) applied to such a key
// list, the comparator reads every field of the key struct through its operands. A comparator that hands an operand to
// another function (a Compare / String method) is taken to read all of it.
var c17r10Exceptions = map[string]string{}

// sortComparator: for a sort call, the function value used as comparator (nil when the sort needs none).
func sortComparator(call *ssa.Call) *ssa.Function {
	for _, a := range call.Call.Args {
		switch x := a.(type) {
		case *ssa.MakeClosure:
			if f, ok := x.Fn.(*ssa.Function); ok {
				return f
			}
		case *ssa.Function:
			return x
		}
	}
	return nil
}

// fieldsReadOf: fields of struct type st that fn reads through values of type st / *st; all=true when an operand of that
// type escapes into a call (its use is unknown: taken as reading everything).
func fieldsReadOf(fn *ssa.Function, st *types.Named) (read map[string]bool, all bool) {
	read = map[string]bool{}
	isSt := func(t types.Type) bool {
		if pt, ok := t.Underlying().(*types.Pointer); ok {
			t = pt.Elem()
		}
		n, ok := t.(*types.Named)
		return ok && n.Obj() == st.Obj()
	}
	eachInstr(fn, func(ins ssa.Instruction) {
		switch x := ins.(type) {
		case *ssa.FieldAddr:
			if isSt(x.X.Type()) {
				read[fieldVar(x.X.Type(), x.Field).Name()] = true
			}
		case *ssa.Field:
			if isSt(x.X.Type()) {
				read[fieldVar(x.X.Type(), x.Field).Name()] = true
			}
		case *ssa.BinOp:
			if (x.Op == token.EQL || x.Op == token.NEQ) && isSt(x.X.Type()) {
				all = true
			}
		case ssa.CallInstruction:
			for _, a := range x.Common().Args {
				if isSt(a.Type()) {
					all = true
				}
				if mi, ok := a.(*ssa.MakeInterface); ok && isSt(mi.X.Type()) {
					all = true
				}
			}
		}
	})
	return read, all
}

func c17r10(c *Ctx) {
	p := c.P
	entries := []*ssa.Function{
		p.Func(pkgCore, "ConfigGeneratorImpl", "BuildClusters"), p.Func(pkgCore, "ConfigGeneratorImpl", "BuildDeltaClusters"),
		p.Func(pkgCore, "ConfigGeneratorImpl", "BuildListeners"), p.Func(pkgCore, "ConfigGeneratorImpl", "BuildHTTPRoutes"),
		p.Func(pkgCore, "ConfigGeneratorImpl", "BuildNameTable"), p.Func(pkgXds, "EdsGenerator", "buildEndpoints"),
		p.Func(pkgXds, "DiscoveryServer", "pushXds"), p.Func(pkgXds, "DiscoveryServer", "pushDeltaXds"),
		p.Func(pkgModel, "PushContext", "createNewContext"), p.Func(pkgModel, "PushContext", "updateContext"),
		p.Func(pkgXds, "DiscoveryServer", "computeProxyState"),
	}
	reach := p.CG().Reach(entries, nil)
	var fns []*ssa.Function
	for fn := range reach {
		fns = append(fns, fn)
	}
	sort.Slice(fns, func(i, j int) bool { return stableFnName(fns[i]) < stableFnName(fns[j]) })
	nLists, nSorts := 0, 0
	for _, fn := range fns {
		if !strings.HasPrefix(funcPkgPath(fn), istioMod+"/") || strings.HasSuffix(p.Fset.Position(fn.Pos()).Filename, "_test.go") || len(fn.Blocks) == 0 || isWrapperFn(fn) || isGenericOrigin(fn) {
			continue
		}
		eachInstr(fn, func(ins ssa.Instruction) {
			prod := unorderedProducer(ins)
			if prod != "maps.Keys" && prod != "UnsortedList" {
				return
			}
			root := ins.(ssa.Value)
			sl, ok := root.Type().Underlying().(*types.Slice)
			if !ok {
				return
			}
			st, ok := sl.Elem().(*types.Named)
			if !ok {
				return
			}
			str, ok := st.Underlying().(*types.Struct)
			if !ok || str.NumFields() < 2 {
				return
			}
			nLists++
			// values derived from the list
			derived := map[ssa.Value]bool{root: true}
			work := []ssa.Value{root}
			for len(work) > 0 {
				d := work[len(work)-1]
				work = work[:len(work)-1]
				if d.Referrers() == nil {
					continue
				}
				for _, r := range *d.Referrers() {
					switch x := r.(type) {
					case *ssa.Phi, *ssa.ChangeType, *ssa.Slice:
						if v := x.(ssa.Value); !derived[v] {
							derived[v] = true
							work = append(work, v)
						}
					case *ssa.Call:
						argIdx := -1
						for i, a := range x.Call.Args {
							if a == d {
								argIdx = i
							}
						}
						if argIdx < 0 {
							continue
						}
						var cmp *ssa.Function
						var sortPos token.Pos
						isLibSort := func(call *ssa.Call) bool {
							o := calleeObj(call)
							if o == nil || o.Pkg() == nil || !isSortCall(call) {
								return false
							}
							pp := o.Pkg().Path()
							return pp == "sort" || pp == "slices" || strings.HasSuffix(pp, "istio/pkg/slices") || strings.HasSuffix(pp, "istio/pkg/util/sets") || strings.HasSuffix(pp, "istio/pkg/maps")
						}
						if isLibSort(x) {
							cmp, sortPos = sortComparator(x), x.Pos()
							if cmp == nil {
								continue // natural order of a basic type - not a struct list
							}
						} else if sc := x.Call.StaticCallee(); sc != nil && isIstioFunc(sc) && len(sc.Blocks) > 0 && argIdx < len(sc.Params) {
							// a module function that sorts its parameter
							prm := sc.Params[argIdx]
							eachInstr(sc, func(i2 ssa.Instruction) {
								c2, ok := i2.(*ssa.Call)
								if !ok || !isSortCall(c2) {
									return
								}
								for _, a2 := range c2.Call.Args {
									if a2 == prm {
										cmp, sortPos = sortComparator(c2), c2.Pos()
									}
								}
							})
							if cmp == nil {
								continue
							}
							// the sorted list is the call's result
							if !derived[x] {
								derived[x] = true
								work = append(work, x)
							}
						} else {
							continue
						}
						nSorts++
						read, all := fieldsReadOf(cmp, st)
						var missing []string
						if !all {
							for i := 0; i < str.NumFields(); i++ {
								if !read[str.Field(i).Name()] {
									missing = append(missing, str.Field(i).Name())
								}
							}
						}
						key := stableFnName(fn) + "|" + st.Obj().Name()
						if why, ok := c17r10Exceptions[key]; ok && len(missing) > 0 {
							c.Infof("exception %s: %s", key, why)
							continue
						}
						c.Check("a sort of map keys separates distinct keys: "+key, sortPos, len(missing) == 0,
							fmt.Sprintf("the keys of a map (%s of %s) are sorted with a comparator that never reads %s.%s: two keys that differ only there compare equal and keep their map iteration order, so the order of what is generated from the sorted list differs between generations and istiod instances for the same state",
								prod, st.Obj().Name(), st.Obj().Name(), strings.Join(missing, ", ")))
					}
				}
			}
		})
	}
	c.Infof("lists of struct-typed map keys in the generation graph: %d, sorts of them examined: %d", nLists, nSorts)
	c.Check("struct-keyed map key lists found (positive control)", token.NoPos, nLists >= 1, fmt.Sprintf("%d lists of struct-typed map keys found in the generation graph", nLists))
}

// C17-R11: no "one entry per computed key" while walking something in map order. Inside a range over a map, or over a list
// that is in map order (a producer's result - maps.Values, UnsortedList, a krt List - or the result of a module function
// that returns one unsorted: ServicesForWaypoint), a map write `index[f(elem)] = g(elem)` whose key is computed from the
// element (it is not the ranged map's own key) keeps ONE element per key: when two elements share the key, which one stays -
// the last with a plain write, the first under a "not yet present" guard - is decided by map iteration order. Decided in
// the generation packages; a write whose value is a collection being extended (append, set insert) is not a selection.
var c17r11Exceptions = map[string]string{}

func c17r11(c *Ctx) {
	p := c.P
	entries := []*ssa.Function{
		p.Func(pkgCore, "ConfigGeneratorImpl", "BuildClusters"), p.Func(pkgCore, "ConfigGeneratorImpl", "BuildDeltaClusters"),
		p.Func(pkgCore, "ConfigGeneratorImpl", "BuildListeners"), p.Func(pkgCore, "ConfigGeneratorImpl", "BuildHTTPRoutes"),
		p.Func(pkgCore, "ConfigGeneratorImpl", "BuildNameTable"), p.Func(pkgXds, "EdsGenerator", "buildEndpoints"),
		p.Func(pkgXds, "DiscoveryServer", "pushXds"), p.Func(pkgXds, "DiscoveryServer", "pushDeltaXds"),
		p.Func(pkgModel, "PushContext", "createNewContext"), p.Func(pkgModel, "PushContext", "updateContext"),
		p.Func(pkgXds, "DiscoveryServer", "computeProxyState"),
	}
	reach := p.CG().Reach(entries, nil)
	var fns []*ssa.Function
	for fn := range reach {
		fns = append(fns, fn)
	}
	sort.Slice(fns, func(i, j int) bool { return stableFnName(fns[i]) < stableFnName(fns[j]) })
	d := deriveProducers(p, fns)
	defer func() { c17Derived = nil }()
	var dn []string
	for n := range d {
		dn = append(dn, n)
	}
	sort.Strings(dn)
	c.Infof("functions returning a list in map order (derived producers): %v", dn)
	c.Check("derived producers found (positive control)", token.NoPos, d["(*istio.io/istio/pilot/pkg/serviceregistry/ambient.index).ServicesForWaypoint"], "ambient index.ServicesForWaypoint (returns maps.Values unsorted) not recognised")
	armed := map[string]bool{}
	for _, pk := range []string{pkgEndpoints, pkgRoute, pkgXds, pkgCore, "pilot/pkg/networking/grpcgen", "pilot/pkg/networking/plugin/authn", "pilot/pkg/security/authz/builder", "pkg/dns/server", "pilot/pkg/networking/util", "pilot/pkg/networking/core/envoyfilter", "pilot/pkg/networking/core/extension", "pilot/pkg/networking/core/loadbalancer", "pilot/pkg/security/authn", "pilot/pkg/security/authz/model"} {
		armed[istioMod+"/"+pk] = true
	}
	if os.Getenv("VERIF_C17R11_MODEL") != "" {
		armed[istioMod+"/"+pkgModel] = true
	}
	mapsToo := os.Getenv("VERIF_C17R11_MAPS") != ""
	nLoops := 0
	for _, fn := range fns {
		if !armed[funcPkgPath(fn)] || strings.HasSuffix(p.Fset.Position(fn.Pos()).Filename, "_test.go") || len(fn.Blocks) == 0 || isWrapperFn(fn) || isGenericOrigin(fn) {
			continue
		}
		_, derivedOf, _ := unorderedListUses(fn)
		for _, l := range rangeLoops(fn) {
			if l.Over == nil || l.Body == nil || l.Header == nil {
				continue
			}
			_, isMap := l.Over.Type().Underlying().(*types.Map)
			if isMap && !mapsToo {
				continue
			}
			if !isMap && !derivedOf(l.Over) {
				continue
			}
			nLoops++
			iter := map[ssa.Value]bool{}
			var ownKey ssa.Value
			if isMap {
				for _, hi := range l.Header.Instrs {
					if nx, ok := hi.(*ssa.Next); ok && nx.Referrers() != nil {
						for _, r := range *nx.Referrers() {
							if ex, ok := r.(*ssa.Extract); ok && ex.Index >= 1 {
								iter[ex] = true
								if ex.Index == 1 {
									ownKey = ex
								}
							}
						}
					}
				}
			} else {
				for _, b := range fn.Blocks {
					if !l.Body.Dominates(b) {
						continue
					}
					for _, ins := range b.Instrs {
						if ia, ok := ins.(*ssa.IndexAddr); ok && ia.X == l.Over {
							iter[ia] = true
						}
						if ix, ok := ins.(*ssa.Index); ok && ix.X == l.Over {
							iter[ix] = true
						}
					}
				}
			}
			derives := func(v ssa.Value) bool {
				seen := map[ssa.Value]bool{}
				var walk func(v ssa.Value, d int) bool
				walk = func(v ssa.Value, d int) bool {
					if v == nil || seen[v] || d > 10 {
						return false
					}
					seen[v] = true
					if iter[v] {
						return true
					}
					switch x := v.(type) {
					case *ssa.UnOp:
						return walk(x.X, d+1)
					case *ssa.FieldAddr:
						return walk(x.X, d+1)
					case *ssa.Field:
						return walk(x.X, d+1)
					case *ssa.Convert:
						return walk(x.X, d+1)
					case *ssa.ChangeType:
						return walk(x.X, d+1)
					case *ssa.MakeInterface:
						return walk(x.X, d+1)
					case *ssa.Extract:
						return walk(x.Tuple, d+1)
					case *ssa.Lookup:
						return walk(x.Index, d+1) || walk(x.X, d+1)
					case *ssa.Alloc:
						// a local the element was copied into
						if x.Referrers() != nil && l.Body.Dominates(x.Block()) {
							for _, r := range *x.Referrers() {
								if st, ok := r.(*ssa.Store); ok && st.Addr == ssa.Value(x) && walk(st.Val, d+1) {
									return true
								}
							}
						}
						return false
					case *ssa.Phi:
						if !l.Body.Dominates(x.Block()) {
							return false
						}
						for _, e := range x.Edges {
							if walk(e, d+1) {
								return true
							}
						}
					case *ssa.Call:
						for _, a := range x.Call.Args {
							if walk(a, d+1) {
								return true
							}
						}
					}
					return false
				}
				return walk(v, 0)
			}
			for _, b := range fn.Blocks {
				if !l.Body.Dominates(b) {
					continue
				}
				for _, ins := range b.Instrs {
					mu, ok := ins.(*ssa.MapUpdate)
					if !ok {
						continue
					}
					if ownKey != nil && (mu.Key == ownKey) {
						continue
					}
					if !derives(mu.Key) || !derives(mu.Value) {
						continue
					}
					// a collection being extended is not a selection
					if call, ok := mu.Value.(*ssa.Call); ok {
						if isAppendCall(call) {
							continue
						}
						if o := calleeObj(call); o != nil && o.Pkg() != nil && strings.HasSuffix(o.Pkg().Path(), "istio/pkg/util/sets") {
							continue
						}
					}
					// the map was made inside the body: a per-iteration temporary
					if mm, ok := mu.Map.(*ssa.MakeMap); ok && l.Body.Dominates(mm.Block()) {
						continue
					}
					key := stableFnName(fn) + "|" + describeRanged(l.Over)
					if why, ok := c17r11Exceptions[key]; ok {
						c.Infof("exception %s: %s", key, why)
						continue
					}
					c.Check("no one-entry-per-computed-key while walking in map order: "+key, mu.Pos(), false,
						"while walking "+describeRanged(l.Over)+" - which is in map iteration order - a map entry whose key is computed from the element receives a value taken from the element: when two elements share the key, which one the entry ends up with is decided by map iteration order, so what is generated from the map differs between generations and istiod instances for the same state")
				}
			}
		}
	}
	c.Infof("loops over maps / map-ordered lists examined: %d", nLoops)
}
