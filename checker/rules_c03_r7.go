package main

import (
	"go/constant"
	"fmt"
	"go/token"
	"go/types"
	"sort"
	"strings"

	"golang.org/x/tools/go/ssa"
)

// C03-R7: an index over the watched names keeps every name. The delta generators learn what the client holds from the
// names it watches, and decide removals from indexes built over those names. Inside a range over the watched names
// (a load of WatchedResource.ResourceNames) a map write `index[f(name)] = name` - the stored value is the name itself, the
// key is computed from it - keeps one name per key: when two watched names share a key (`outbound|81||h` and
// `outbound|81|v1|h` share host and port) the later one replaces the earlier, and a removal decided through the index
// names only the survivor - the delta client keeps the other resource for good. A collection per key (append / set
// insert) is what the rule asks for. Decided in pilot/pkg/networking/core and pilot/pkg/xds.
var c03r7Exceptions = map[string]string{}

func c03r7(c *Ctx) {
	p := c.P
	rn := p.Field(pkgXdsLib, "WatchedResource", "ResourceNames")
	nLoops := 0
	var fns []*ssa.Function
	for _, fn := range p.AllFuncs {
		pp := funcPkgPath(fn)
		if (pp != istioMod+"/"+pkgCore && pp != istioMod+"/"+pkgXds) || strings.HasSuffix(p.Fset.Position(fn.Pos()).Filename, "_test.go") || len(fn.Blocks) == 0 || isWrapperFn(fn) || isGenericOrigin(fn) {
			continue
		}
		fns = append(fns, fn)
	}
	sort.Slice(fns, func(i, j int) bool { return stableFnName(fns[i]) < stableFnName(fns[j]) })
	for _, fn := range fns {
		for _, l := range rangeLoops(fn) {
			if l.Over == nil || l.Body == nil || l.Header == nil || fieldOfLoad(l.Over) != rn {
				continue
			}
			if _, isMap := l.Over.Type().Underlying().(*types.Map); !isMap {
				continue
			}
			nLoops++
			// the iteration's key (the watched name)
			iter := map[ssa.Value]bool{}
			for _, hi := range l.Header.Instrs {
				if nx, ok := hi.(*ssa.Next); ok && nx.Referrers() != nil {
					for _, r := range *nx.Referrers() {
						if ex, ok := r.(*ssa.Extract); ok && ex.Index == 1 {
							iter[ex] = true
						}
					}
				}
			}
			isName := func(v ssa.Value) bool {
				for i := 0; i < 4; i++ {
					if iter[v] {
						return true
					}
					switch x := v.(type) {
					case *ssa.ChangeType:
						v = x.X
					case *ssa.Convert:
						v = x.X
					default:
						return false
					}
				}
				return false
			}
			bad := 0
			for _, b := range fn.Blocks {
				if !l.Body.Dominates(b) {
					continue
				}
				for _, ins := range b.Instrs {
					mu, ok := ins.(*ssa.MapUpdate)
					if !ok || !isName(mu.Value) || isName(mu.Key) {
						continue
					}
					key := stableFnName(fn)
					if why, ok := c03r7Exceptions[key]; ok {
						c.Infof("exception %s: %s", key, why)
						continue
					}
					bad++
					c.Check("an index over the watched names keeps every name: "+key, mu.Pos(), false,
						"inside the loop over the names the client watches, a map entry keyed by something computed from the name is assigned the name itself: two watched names with the same key (a service port's default cluster and its subset clusters share host and port) overwrite each other, so a removal decided through this index names only one of them and the delta client keeps the others although a state-of-the-world client drops them")
				}
			}
			if bad == 0 {
				c.Check("an index over the watched names keeps every name: "+stableFnName(fn), l.Body.Instrs[0].Pos(), true, "")
			}
		}
	}
	c.Check("loops over the watched names found (positive control)", token.NoPos, nLoops >= 1, fmt.Sprintf("%d range loops over WatchedResource.ResourceNames in core / xds", nLoops))
	c.Floor(2)
}

// C03-R8: the scope diff of delta CDS looks at the ports of the services that stay in scope. deltaFromServiceDiff
// handles pushes that change which services a proxy imports (Sidecar, VirtualService): a Sidecar egress listener port or a
// VirtualService destination port trims the imported copy of a service to other ports while the host stays in scope. A
// diff that compares host names only neither builds the cluster of the new port nor removes the one of the old port for
// the delta client. Necessary condition decided here: the function (with the module functions it calls in its package)
// reads model.Service.Ports.
func c03r8(c *Ctx) {
	p := c.P
	fn := p.Func(pkgCore, "ConfigGeneratorImpl", "deltaFromServiceDiff")
	ports := p.Field(pkgModel, "Service", "Ports")
	fs := []*ssa.Function{fn}
	fs = append(fs, fn.AnonFuncs...)
	for _, g := range p.CG().Callees(fn) {
		if funcPkgPath(g) == funcPkgPath(fn) {
			fs = append(fs, g)
		}
	}
	_, reads := effectsOfFuncs(fs).Reads[ports]
	c.Check("deltaFromServiceDiff compares the imported ports of the services that stay in scope", fn.Pos(), reads,
		"deltaFromServiceDiff never reads Service.Ports: a Sidecar / VirtualService change that keeps a host in scope but imports it with other ports (egress listener port 80 -> 81) is invisible to the diff, the delta client keeps outbound|80||host and never receives outbound|81||host, while a state-of-the-world client gets exactly the new set")
	c.Floor(1)
}

// C03-R9: the scope's DestinationRule index covers every rule the scope depends on. A sidecar scope registers a config
// dependency for every DestinationRule that contributed to a merged rule (`dr.from`): a change of any of them is pushed
// to the proxy. Delta CDS then looks the changed rule up by name (DestinationRuleByName -> destinationRulesByNames) to
// find the clusters to rebuild and the subsets to remove; a rule that is a dependency but not a key of the index yields
// an empty - yet delta-flagged - answer: nothing is rebuilt and nothing removed, while a state-of-the-world client gets
// the regenerated set. Decided in SidecarScope.selectDestinationRules: every ConfigKey{Kind: DestinationRule} built from
// a name k and handed to AddConfigDependencies is followed, on every path to the end of the iteration, by a write of
// destinationRulesByNames[k].
func c03r9(c *Ctx) {
	p := c.P
	fn := p.Func(pkgModel, "SidecarScope", "selectDestinationRules")
	idx := p.Field(pkgModel, "SidecarScope", "destinationRulesByNames")
	var drKind int64 = -1
	if k, ok := p.Pkg("pkg/config/schema/kind").Types.Scope().Lookup("DestinationRule").(*types.Const); ok {
		if v, ok := constantInt(k); ok {
			drKind = v
		}
	}
	c.Check("kind.DestinationRule resolved", fn.Pos(), drKind >= 0, "constant kind.DestinationRule not found")
	n := 0
	// the bookkeeping may live in a helper of the package that selectDestinationRules calls
	scan := []*ssa.Function{fn}
	for _, g := range p.CG().Callees(fn) {
		if funcPkgPath(g) == funcPkgPath(fn) && len(g.Blocks) > 0 && g != fn {
			scan = append(scan, g)
		}
	}
	for _, fn := range scan {
	eachInstr(fn, func(ins ssa.Instruction) {
		al, ok := ins.(*ssa.Alloc)
		if !ok || al.Referrers() == nil {
			return
		}
		pt, ok := al.Type().Underlying().(*types.Pointer)
		if !ok {
			return
		}
		nt, ok := pt.Elem().(*types.Named)
		if !ok || nt.Obj().Name() != "ConfigKey" {
			return
		}
		isDR := false
		var nameSrc ssa.Value
		var last ssa.Instruction
		for _, r := range *al.Referrers() {
			fa, ok := r.(*ssa.FieldAddr)
			if !ok || fa.Referrers() == nil {
				if ri, ok := r.(ssa.Instruction); ok {
					last = ri
				}
				continue
			}
			for _, rr := range *fa.Referrers() {
				st, ok := rr.(*ssa.Store)
				if !ok || st.Addr != fa {
					continue
				}
				switch fieldVar(fa.X.Type(), fa.Field).Name() {
				case "Kind":
					if k, ok := st.Val.(*ssa.Const); ok && k.Value != nil && k.Int64() == drKind {
						isDR = true
					}
				case "Name":
					switch x := st.Val.(type) {
					case *ssa.Field:
						nameSrc = x.X
					case *ssa.UnOp:
						if fa2, ok := x.X.(*ssa.FieldAddr); ok {
							nameSrc = fa2.X
						}
					}
				}
			}
		}
		if !isDR {
			return
		}
		n++
		if nameSrc == nil || last == nil {
			c.Check("the DestinationRule dependency's name is taken from a key value", al.Pos(), false, "cannot identify the value the dependency's name comes from")
			return
		}
		isIdxWrite := func(i ssa.Instruction) bool {
			mu, ok := i.(*ssa.MapUpdate)
			if !ok || fieldOfLoad(mu.Map) != idx {
				return false
			}
			k := mu.Key
			if k == nameSrc || sameValue(k, nameSrc) {
				return true
			}
			// the key is the struct the name was taken from, loaded from the same address
			if u, ok := k.(*ssa.UnOp); ok && u.X == nameSrc {
				return true
			}
			return false
		}
		// end of the iteration: the loop header's Next/index increment block - approximated by any block that is not
		// dominated by the block holding the dependency (control has left the iteration), or a return
		home := al.Block()
		goal := func(i ssa.Instruction) bool {
			if _, ok := i.(*ssa.Return); ok {
				return true
			}
			return i == i.Block().Instrs[0] && !home.Dominates(i.Block())
		}
		bad, found := pathAvoidingE(home, al, isIdxWrite, goal, nil, nil)
		pos := al.Pos()
		_ = bad
		c.Check("every DestinationRule the scope depends on is a key of its rule index", pos, !found,
			"selectDestinationRules registers a dependency on a DestinationRule name (so a change of that rule is pushed to the proxy) without recording the merged rule under that name in destinationRulesByNames: delta CDS looks the changed rule up by name, finds neither the current nor the previous rule, rebuilds nothing and removes nothing - the delta client keeps clusters of subsets that no longer exist and never gets the new ones, unlike a state-of-the-world client")
	})
	}
	c.Check("DestinationRule dependencies in selectDestinationRules found (positive control)", fn.Pos(), n >= 1, fmt.Sprintf("%d ConfigKey{Kind: DestinationRule} literals found", n))
	c.Floor(3)
}

func constantInt(k *types.Const) (int64, bool) {
	return constant.Int64Val(constant.ToInt(k.Val()))
}
