package main

import (
	"fmt"
	"go/ast"
	"go/parser"
	"os"
	"go/token"
	"go/types"
	"sort"
	"strings"

	"golang.org/x/tools/go/ssa"
	"golang.org/x/tools/go/ssa/ssautil"
)

// Memoisation-key completeness.
//
// A memo site is, inside one function: a lookup m[k] whose miss path computes a value, stores it with m[k] = v, and
// whose hit path uses the stored value instead. The rule: everything that varies between two executions of the site
// and that the computed value depends on (data dependence) must also flow into the key. "What varies" is
//   - for a map created in the function (a per-call memo): the loops that enclose the site but not the map's creation;
//   - for a map that outlives the call (a field, a global): in addition, every parameter of the function.
// Otherwise the value computed for one (server, namespace, proxy, ...) is handed out for another.

type memoSite struct {
	fn      *ssa.Function
	lookup  *ssa.Lookup
	update  *ssa.MapUpdate
	local   bool
	missing []string // varying roots the value depends on but the key does not
	keyDeps []string
	valDeps []string
}

type depRoots struct {
	params map[*ssa.Parameter]bool
	loops  map[*ssa.BasicBlock]bool // loop headers
	frees  map[*ssa.FreeVar]bool
}

func newRoots() *depRoots {
	return &depRoots{map[*ssa.Parameter]bool{}, map[*ssa.BasicBlock]bool{}, map[*ssa.FreeVar]bool{}}
}

// loopOfValue: the loop header if v is the induction value of a range loop (index phi of a rangeindex loop, or the
// Next of a rangeiter loop).
func loopOfValue(v ssa.Value) *ssa.BasicBlock {
	switch x := v.(type) {
	case *ssa.Phi:
		if x.Block().Comment == "rangeindex.loop" || x.Block().Comment == "for.loop" {
			return x.Block()
		}
	case *ssa.Next:
		return x.Block()
	case *ssa.BinOp:
		// go/ssa rotates range-over-slice loops: the element index is `phi + 1`
		if x.Op == token.ADD {
			if ph, ok := x.X.(*ssa.Phi); ok && ph.Block().Comment == "rangeindex.loop" {
				return ph.Block()
			}
		}
	}
	return nil
}

// slice collects the roots v depends on (data dependence). With elementsOnly (used for keys) the container of a ranged
// element is not followed: an element of the list that an inner loop ranges over identifies the inner iteration, not
// the outer iteration that chose the list (equal elements can occur in the lists of two outer iterations).
func slice(v ssa.Value, r *depRoots, seen map[ssa.Value]bool, budget *int) { sliceX(v, r, seen, budget, false) }

func sliceX(v ssa.Value, r *depRoots, seen map[ssa.Value]bool, budget *int, elementsOnly bool) {
	if v == nil || seen[v] || *budget <= 0 {
		return
	}
	seen[v] = true
	*budget--
	if elementsOnly {
		if ia, ok := v.(*ssa.IndexAddr); ok {
			if h := loopOfValue(ia.Index); h != nil {
				r.loops[h] = true
				return
			}
		}
		if ix, ok := v.(*ssa.Index); ok {
			if h := loopOfValue(ix.Index); h != nil {
				r.loops[h] = true
				return
			}
		}
	}
	slice := func(v ssa.Value, r *depRoots, seen map[ssa.Value]bool, budget *int) { sliceX(v, r, seen, budget, elementsOnly) }
	if h := loopOfValue(v); h != nil {
		r.loops[h] = true
		if _, isNext := v.(*ssa.Next); isNext {
			return
		}
	}
	switch x := v.(type) {
	case *ssa.Parameter:
		r.params[x] = true
	case *ssa.FreeVar:
		r.frees[x] = true
	case *ssa.Const, *ssa.Global, *ssa.Function, *ssa.Builtin:
	case *ssa.Alloc:
		// everything stored into the cell / its fields / its elements
		var walkAddr func(a ssa.Value)
		walkAddr = func(a ssa.Value) {
			if a.Referrers() == nil {
				return
			}
			for _, ref := range *a.Referrers() {
				switch y := ref.(type) {
				case *ssa.Store:
					if y.Addr == a {
						slice(y.Val, r, seen, budget)
					}
				case *ssa.FieldAddr:
					if y.X == a {
						walkAddr(y)
					}
				case *ssa.IndexAddr:
					if y.X == a {
						slice(y.Index, r, seen, budget)
						walkAddr(y)
					}
				}
			}
		}
		walkAddr(x)
	case *ssa.MakeClosure:
		for _, b := range x.Bindings {
			slice(b, r, seen, budget)
		}
	case *ssa.Call:
		if x.Call.IsInvoke() {
			slice(x.Call.Value, r, seen, budget)
		} else if _, isFn := x.Call.Value.(*ssa.Function); !isFn {
			slice(x.Call.Value, r, seen, budget)
		}
		for _, a := range x.Call.Args {
			slice(a, r, seen, budget)
		}
	default:
		if ins, ok := v.(ssa.Instruction); ok {
			var ops []*ssa.Value
			for _, op := range ins.Operands(ops) {
				if op != nil && *op != nil {
					slice(*op, r, seen, budget)
				}
			}
		}
	}
}

// mapIdentity: a printable identity for the map a lookup/update works on ("field X", "local #n", nested lookups).
func mapIdentity(v ssa.Value, depth int) (id string, local bool, creation ssa.Instruction, keys []ssa.Value) {
	if depth > 4 {
		return "", false, nil, nil
	}
	switch x := v.(type) {
	case *ssa.MakeMap:
		return "local:" + x.Name(), true, x, nil
	case *ssa.Phi:
		// `m = existing or make(...)`: take the first resolvable edge
		for _, e := range x.Edges {
			if id, l, c, k := mapIdentity(e, depth+1); id != "" {
				return id, l, c, k
			}
		}
	case *ssa.Lookup:
		// nested map: m[a][b]
		id, l, c, k := mapIdentity(x.X, depth+1)
		if id == "" {
			return "", false, nil, nil
		}
		return id + "[]", l, c, append(k, x.Index)
	case *ssa.Extract:
		if lk, ok := x.Tuple.(*ssa.Lookup); ok && x.Index == 0 {
			return mapIdentity(lk, depth+1)
		}
	case *ssa.UnOp:
		if x.Op == token.MUL {
			switch a := x.X.(type) {
			case *ssa.FieldAddr:
				return "field:" + fieldVar(a.X.Type(), a.Field).Name(), false, nil, nil
			case *ssa.Global:
				return "global:" + a.Name(), false, nil, nil
			case *ssa.Alloc:
				// a local variable holding the map: find the make stored into it
				for _, ref := range *a.Referrers() {
					if st, ok := ref.(*ssa.Store); ok && st.Addr == ssa.Value(a) {
						if mk, ok := st.Val.(*ssa.MakeMap); ok {
							return "local:" + a.Comment, true, mk, nil
						}
					}
				}
				return "cell:" + a.Comment, true, a, nil
			case *ssa.FreeVar:
				return "captured:" + a.Name(), false, nil, nil
			}
		}
	}
	return "", false, nil, nil
}

func enclosingLoops(fn *ssa.Function, b *ssa.BasicBlock) map[*ssa.BasicBlock]bool {
	out := map[*ssa.BasicBlock]bool{}
	for _, h := range fn.Blocks {
		if h.Comment != "rangeindex.loop" && h.Comment != "rangeiter.loop" && h.Comment != "for.loop" {
			continue
		}
		if loopMembers(fn, h)[b] {
			out[h] = true
		}
	}
	return out
}

func memoSites(p *Prog, fn *ssa.Function) []memoSite {
	var out []memoSite
	var updates []*ssa.MapUpdate
	eachInstr(fn, func(ins ssa.Instruction) {
		if mu, ok := ins.(*ssa.MapUpdate); ok {
			updates = append(updates, mu)
		}
	})
	if len(updates) == 0 {
		return nil
	}
	eachInstr(fn, func(ins ssa.Instruction) {
		lk, ok := ins.(*ssa.Lookup)
		if !ok || !lk.CommaOk {
			return
		}
		if _, isMap := lk.X.Type().Underlying().(*types.Map); !isMap {
			return
		}
		id, local, creation, outerKeys := mapIdentity(lk.X, 0)
		if id == "" {
			return
		}
		// the found flag and its miss edges
		var miss []Edge
		for _, ref := range *lk.Referrers() {
			ex, ok := ref.(*ssa.Extract)
			if !ok || ex.Index != 1 {
				continue
			}
			for _, i := range allIfs(fn) {
				v, neg := stripNot(i.Cond)
				if v == ssa.Value(ex) {
					idx := 1
					if neg {
						idx = 0
					}
					miss = append(miss, Edge{i.Block(), idx})
				}
			}
		}
		if len(miss) == 0 {
			return
		}
		// the hit value must be used (otherwise it is a presence test, not a memo)
		hitUsed := false
		for _, ref := range *lk.Referrers() {
			if ex, ok := ref.(*ssa.Extract); ok && ex.Index == 0 && hasRealReferrers(ex) {
				hitUsed = true
			}
		}
		if !hitUsed {
			return
		}
		for _, mu := range updates {
			id2, _, _, outer2 := mapIdentity(mu.Map, 0)
			if id2 != id {
				continue
			}
			if !(mu.Key == lk.Index || sameValue(mu.Key, lk.Index)) {
				continue
			}
			if !underEdges(fn, mu.Block(), miss) {
				continue
			}
			// memo signature: the hit value and the value stored on a miss are interchangeable results - they meet in
			// a phi, or are both returned. (Get-or-create accumulators, whose hit value is merged into, and first-wins
			// registries, whose hit value is only compared, are not memos.)
			if !meetAsResult(fn, lk, mu.Value) {
				continue
			}
			_ = outer2
			// dependencies
			budget := 4000
			kr := newRoots()
			seenK := map[ssa.Value]bool{}
			sliceX(lk.Index, kr, seenK, &budget, true)
			for _, k := range outerKeys {
				sliceX(k, kr, seenK, &budget, true)
			}
			vr := newRoots()
			slice(mu.Value, vr, map[ssa.Value]bool{}, &budget)
			if budget <= 0 {
				continue // too large to decide; not reported
			}
			// what varies
			varyingLoops := enclosingLoops(fn, lk.Block())
			if local && creation != nil {
				for h := range enclosingLoops(fn, creation.Block()) {
					delete(varyingLoops, h)
				}
			}
			site := memoSite{fn: fn, lookup: lk, update: mu, local: local}
			for h := range vr.loops {
				if varyingLoops[h] && !kr.loops[h] {
					site.missing = append(site.missing, "the loop at "+p.pos(loopPos(h)))
				}
			}
			if !local {
				for prm := range vr.params {
					if kr.params[prm] {
						continue
					}
					// the object that owns the map is context, not input
					if id0, _, _, _ := mapIdentity(lk.X, 0); strings.HasPrefix(id0, "field:") && len(fn.Params) > 0 && prm == fn.Params[0] && fn.Signature.Recv() != nil {
						continue
					}
					site.missing = append(site.missing, "parameter "+prm.Name())
				}
				for fv := range vr.frees {
					if !kr.frees[fv] {
						site.missing = append(site.missing, "captured variable "+fv.Name())
					}
				}
			}
			sort.Strings(site.missing)
			if os.Getenv("VERIF_MEMO_DEBUG") != "" {
				var ks, vs, vl []string
				for h := range kr.loops {
					ks = append(ks, p.pos(loopPos(h)))
				}
				for h := range vr.loops {
					vs = append(vs, p.pos(loopPos(h)))
				}
				for h := range varyingLoops {
					vl = append(vl, p.pos(loopPos(h)))
				}
				fmt.Printf("MEMO %s @%s local=%v keyLoops=%v valLoops=%v varying=%v budget=%d\n", fn.Name(), p.pos(lk.Pos()), local, ks, vs, vl, budget)
			}
			out = append(out, site)
			break
		}
	})
	return out
}

func loopPos(h *ssa.BasicBlock) token.Pos {
	for _, ins := range h.Instrs {
		if ins.Pos().IsValid() {
			return ins.Pos()
		}
	}
	for _, s := range h.Succs {
		for _, ins := range s.Instrs {
			if ins.Pos().IsValid() {
				return ins.Pos()
			}
		}
	}
	return token.NoPos
}


func derivedFrom(v, src ssa.Value, depth int, seen map[ssa.Value]bool) bool {
	if v == src {
		return true
	}
	if depth > 8 || seen[v] {
		return false
	}
	seen[v] = true
	switch x := v.(type) {
	case *ssa.Phi:
		for _, e := range x.Edges {
			if derivedFrom(e, src, depth+1, seen) {
				return true
			}
		}
	case *ssa.ChangeType:
		return derivedFrom(x.X, src, depth+1, seen)
	case *ssa.MakeInterface:
		return derivedFrom(x.X, src, depth+1, seen)
	}
	return false
}

func meetAsResult(fn *ssa.Function, lk *ssa.Lookup, stored ssa.Value) bool {
	var hit ssa.Value
	for _, ref := range *lk.Referrers() {
		if ex, ok := ref.(*ssa.Extract); ok && ex.Index == 0 {
			hit = ex
		}
	}
	if hit == nil {
		return false
	}
	meet := false
	hitRet, storedRet := map[int]bool{}, map[int]bool{}
	eachInstr(fn, func(ins ssa.Instruction) {
		switch x := ins.(type) {
		case *ssa.Phi:
			h, s := false, false
			for _, e := range x.Edges {
				if derivedFrom(e, hit, 0, map[ssa.Value]bool{}) {
					h = true
				}
				if derivedFrom(e, stored, 0, map[ssa.Value]bool{}) {
					s = true
				}
			}
			if h && s {
				meet = true
			}
		case *ssa.Return:
			for i, r := range x.Results {
				if derivedFrom(r, hit, 0, map[ssa.Value]bool{}) {
					hitRet[i] = true
				}
				if derivedFrom(r, stored, 0, map[ssa.Value]bool{}) {
					storedRet[i] = true
				}
			}
		}
	})
	for i := range hitRet {
		if storedRet[i] {
			meet = true
		}
	}
	return meet
}

// memoSelfTest runs the detector on a built-in fixture (no istio code involved): two memos whose key omits an input
// must be reported, two complete ones must not. Returns "" when the detector behaves.
func memoSelfTest() string {
	const src = `package fixture
type ctx struct{ cache map[string]bool }
func lookup(kind, name, from string) bool { return len(kind)+len(name) > len(from) }
// non-local memo, key omits "from"
func (c *ctx) badAllowed(kind, name, from string) bool {
	key := kind + "/" + name
	if v, ok := c.cache[key]; ok {
		return v
	}
	v := lookup(kind, name, from)
	c.cache[key] = v
	return v
}
func (c *ctx) goodAllowed(kind, name, from string) bool {
	key := kind + "/" + name + "/" + from
	if v, ok := c.cache[key]; ok {
		return v
	}
	v := lookup(kind, name, from)
	c.cache[key] = v
	return v
}
type server struct{ name string; tls bool }
type vs struct{ name string }
func translate(s server, v vs) []string { if s.tls { return []string{s.name, v.name} }; return []string{v.name} }
// per-call memo inside nested loops, key omits the outer loop
func badRoutes(servers []server, lists map[string][]vs) [][]string {
	memo := map[string][]string{}
	var out [][]string
	for _, s := range servers {
		for _, v := range lists[s.name] {
			var r []string
			var ok bool
			if r, ok = memo[v.name]; !ok {
				r = translate(s, v)
				memo[v.name] = r
			}
			out = append(out, r)
		}
	}
	return out
}
func goodRoutes(servers []server, lists map[string][]vs) [][]string {
	memo := map[string][]string{}
	var out [][]string
	for _, s := range servers {
		for _, v := range lists[s.name] {
			var r []string
			var ok bool
			key := s.name + "/" + v.name
			if r, ok = memo[key]; !ok {
				r = translate(s, v)
				memo[key] = r
			}
			out = append(out, r)
		}
	}
	return out
}
`
	fset := token.NewFileSet()
	f, err := parser.ParseFile(fset, "fixture.go", src, 0)
	if err != nil {
		return "fixture does not parse: " + err.Error()
	}
	pkg := types.NewPackage("fixture", "fixture")
	spkg, _, err := ssautil.BuildPackage(&types.Config{}, fset, pkg, []*ast.File{f}, ssa.InstantiateGenerics)
	if err != nil {
		return "fixture does not build: " + err.Error()
	}
	fp := &Prog{Fset: fset, Repo: ""}
	want := map[string]bool{"badAllowed": true, "goodAllowed": false, "badRoutes": true, "goodRoutes": false}
	got := map[string]int{}
	var fns []*ssa.Function
	for _, m := range spkg.Members {
		if fn, ok := m.(*ssa.Function); ok {
			fns = append(fns, fn)
		}
	}
	if t, ok := spkg.Members["ctx"].(*ssa.Type); ok {
		ms := spkg.Prog.MethodSets.MethodSet(types.NewPointer(t.Type()))
		for i := 0; i < ms.Len(); i++ {
			fns = append(fns, spkg.Prog.MethodValue(ms.At(i)))
		}
	}
	for _, fn := range fns {
		if _, tracked := want[fn.Name()]; !tracked {
			continue
		}
		sites := memoSites(fp, fn)
		if len(sites) != 1 {
			return fmt.Sprintf("fixture %s: %d memo sites recognised, want 1", fn.Name(), len(sites))
		}
		got[fn.Name()] = len(sites[0].missing)
	}
	for name, bad := range want {
		n, seen := got[name]
		if !seen {
			return "fixture function " + name + " not analysed"
		}
		if bad && n == 0 {
			return "fixture " + name + ": incomplete key not reported"
		}
		if !bad && n != 0 {
			return "fixture " + name + ": complete key reported"
		}
	}
	return ""
}
