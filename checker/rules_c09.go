package main

import (
	"go/token"
	"go/types"
	"sort"
	"strings"

	"golang.org/x/tools/go/ssa"
)

const pkgCAServer = "security/pkg/server/ca"
const pkgPkiCA = "security/pkg/pki/ca"
const pkgPkiRA = "security/pkg/pki/ra"
const pkgPkiUtil = "security/pkg/pki/util"
const pkgPkiErr = "security/pkg/pki/error"
const pkgSecurity = "pkg/security"

func init() {
	register(&PropDef{
		ID: "C09",
		Clauses: []string{
			"R1 every signing call in CreateCertificate lies under caller!=nil and err==nil of Authenticate",
			"R2 CertOpts.SubjectIDs is the authenticated caller's Identities, or the impersonated identity on the path where authenticateImpersonation returned nil",
			"R3 signing reads from the parsed CSR only PublicKey and Subject (CommonName emptiness): no CSR extension, SAN or attribute reaches the certificate template",
			"R4 ForCA is the constant false at the request handler and the lifetime check is on (constant true) on the served signing path",
			"R5 every CertificateAuthority implementation returns only nil or *caerror.Error as error (the handler asserts the type unchecked)",
			"R6 certificate generation is dominated by the maxCertTTL comparison, and the template's NotAfter is clamped to the signing certificate's NotAfter",
			"R7 the XFCC identity is built only after isTrustedAddress returned true",
			"R8 registration-authority path: kubernetesSign only after preSign succeeded; preSign rejects forCA and validates the CSR's identities against the caller's",
		},
		NotDecided: "JWT/OIDC parsing of arbitrary tokens, SAN encoding and splitting on ',', x509.CreateCertificate's own behaviour, key binding beyond passing csr.PublicKey",
		Rules: []Rule{
			{"C09-R1", "sign only after successful authentication", c09r1},
			{"C09-R2", "subject identities come from authentication", c09r2},
			{"C09-R3", "CSR content does not shape the certificate", c09r3},
			{"C09-R4", "never a CA certificate; lifetime checked", c09r4},
			{"C09-R5", "CA errors are typed", c09r5},
			{"C09-R6", "TTL policy and signer-expiry clamp", c09r6},
			{"C09-R7", "XFCC only from trusted peers", c09r7},
			{"C09-R8", "RA path validates before signing", c09r8},
			{"C09-R9", "identities are classified, never rewritten, on their way into the SAN", c09r9},
		},
	})
}

func signCallsIn(fn *ssa.Function) []ssa.CallInstruction {
	var out []ssa.CallInstruction
	eachInstr(fn, func(ins ssa.Instruction) {
		ci, ok := ins.(ssa.CallInstruction)
		if !ok || !ci.Common().IsInvoke() {
			return
		}
		switch ci.Common().Method.Name() {
		case "Sign", "SignWithCertChain":
			out = append(out, ci)
		}
	})
	return out
}

func c09r1(c *Ctx) {
	p := c.P
	fn := p.Func(pkgCAServer, "Server", "CreateCertificate")
	auth := p.FuncObj(pkgSecurity, "", "Authenticate")
	acalls := callsIn(fn, auth)
	c.Check("CreateCertificate authenticates", fn.Pos(), len(acalls) == 1, "expected one security.Authenticate call")
	if len(acalls) != 1 {
		return
	}
	var caller, aerr ssa.Value
	for _, r := range *acalls[0].Value().Referrers() {
		if ex, ok := r.(*ssa.Extract); ok {
			if ex.Index == 0 {
				caller = ex
			} else {
				aerr = ex
			}
		}
	}
	var callerOK, errOK []Edge
	for _, i := range allIfs(fn) {
		if x, eq, ok := nilCmp(i.Cond); ok {
			idxNonNil, idxNil := 0, 1
			if eq {
				idxNonNil, idxNil = 1, 0
			}
			if x == caller {
				callerOK = append(callerOK, Edge{i.Block(), idxNonNil})
			}
			if x == aerr {
				errOK = append(errOK, Edge{i.Block(), idxNil})
			}
		}
	}
	// signing calls in the handler itself, or in a helper of the package it calls (second half of the handler extracted
	// into a method): then the helper's call site must lie under the edges, and nobody else may call the helper
	type signSite struct {
		call ssa.CallInstruction
		at   *ssa.BasicBlock // block in fn that decides it
	}
	var signs []signSite
	for _, s := range signCallsIn(fn) {
		signs = append(signs, signSite{s, s.Block()})
	}
	for _, h := range helperCalls(fn) {
		inner := signCallsIn(h.callee)
		if len(inner) == 0 {
			continue
		}
		for _, s := range inner {
			signs = append(signs, signSite{s, h.site.Block()})
		}
		others := 0
		for _, g := range p.AllFuncs {
			if g == fn || strings.HasSuffix(p.Fset.Position(g.Pos()).Filename, "_test.go") {
				continue
			}
			eachInstr(g, func(ins ssa.Instruction) {
				if ci, ok := ins.(ssa.CallInstruction); ok && ci.Common().StaticCallee() == h.callee {
					others++
				}
			})
		}
		c.Check("signing helper "+h.callee.Name()+" is called only by the authenticated handler", h.callee.Pos(), others == 0, "a function that signs certificates is reachable from a caller that did not authenticate")
	}
	c.Check("CreateCertificate signs", fn.Pos(), len(signs) >= 2, "expected Sign and SignWithCertChain calls")
	for _, s := range signs {
		c.Check("signing call under caller != nil: "+s.call.Common().Method.Name(), s.call.Pos(), underEdges(fn, s.at, callerOK), "a certificate can be signed on a path where Authenticate returned no caller")
		c.Check("signing call under authenticate err == nil: "+s.call.Common().Method.Name(), s.call.Pos(), underEdges(fn, s.at, errOK), "a certificate can be signed on a path where Authenticate returned an error")
	}
	c.Floor(6)
}

func c09r2(c *Ctx) {
	p := c.P
	fn := p.Func(pkgCAServer, "Server", "CreateCertificate")
	subj := p.Field(pkgPkiCA, "CertOpts", "SubjectIDs")
	ids := p.Field(pkgSecurity, "Caller", "Identities")
	imp := p.FuncObj(pkgCAServer, "MulticlusterNodeAuthorizor", "authenticateImpersonation")
	var impOK []Edge
	for _, call := range callsIn(fn, imp) {
		for _, i := range allIfs(fn) {
			if x, eq, ok := nilCmp(i.Cond); ok && x == call.Value() {
				idx := 1
				if eq {
					idx = 0
				}
				impOK = append(impOK, Edge{i.Block(), idx})
			}
		}
	}
	c.Check("impersonation gate present", fn.Pos(), len(impOK) == 1, "expected one nil test of authenticateImpersonation's error")
	n := 0
	// values stored into SubjectIDs: in the handler, or in a helper it calls with the value as an argument
	var stored []ssa.Value
	for _, st := range storesTo(fn, subj) {
		stored = append(stored, st.Val)
	}
	for _, h := range helperCalls(fn) {
		for _, st := range storesTo(h.callee, subj) {
			var ls []ssa.Value
			phiLeaves(st.Val, map[ssa.Value]bool{}, &ls)
			for _, l := range ls {
				prm, ok := l.(*ssa.Parameter)
				if !ok {
					n++
					c.Check("SubjectIDs source in helper "+h.callee.Name()+" is a parameter", st.Pos(), false, "a helper of the signing handler stores something other than what the handler passed in into CertOpts.SubjectIDs")
					continue
				}
				for k, fp := range h.callee.Params {
					if fp == prm && k < len(h.site.Common().Args) {
						stored = append(stored, h.site.Common().Args[k])
					}
				}
			}
		}
	}
	for _, sv := range stored {
		var ls []ssa.Value
		phiLeaves(sv, map[ssa.Value]bool{}, &ls)
		for _, l := range ls {
			n++
			if fieldOfLoad(l) == ids {
				c.Check("SubjectIDs source: caller.Identities", l.Pos(), true, "")
				continue
			}
			// a fresh slice built on the impersonation-success path
			okl := false
			if b := blockOf(l); b != nil {
				switch l.(type) {
				case *ssa.Slice, *ssa.Alloc, *ssa.MakeSlice:
					okl = underEdges(fn, b, impOK)
				}
			}
			c.Check("SubjectIDs source: impersonated identity only after the gate", l.Pos(), okl, "CertOpts.SubjectIDs can receive a value that is neither the authenticated caller's identities nor built under authenticateImpersonation()==nil: request content decides the certificate's identity")
		}
	}
	c.Check("SubjectIDs is set", fn.Pos(), n >= 2, "store to CertOpts.SubjectIDs not found")
	// the gate authorises the identity string that is used: same value passed to the gate and stored
	c.Floor(4)
}

func c09r3(c *Ctx) {
	p := c.P
	entries := []*ssa.Function{p.Func(pkgPkiCA, "IstioCA", "sign")}
	reach := p.CG().Reach(entries, nil)
	eff := effectsOf(reach)
	csr := p.Struct("crypto/x509", "CertificateRequest")
	allowed := map[string]string{"PublicKey": "binds the CSR's key", "Subject": "only CommonName emptiness selects dual-use CN (value comes from the identities)", "Raw": "signature check"}
	n := 0
	for _, f := range fieldsOf(csr) {
		acc, read := eff.Reads[f]
		if _, ok := allowed[f.Name()]; ok {
			continue
		}
		n++
		det := ""
		if read {
			det = "signing reads CertificateRequest." + f.Name() + " (" + pathTo(reach, acc.Fn) + "): content of the CSR other than its public key can shape the issued certificate (extra SANs, CA basic constraints, key usage)"
		}
		c.Check("CSR field "+f.Name()+" is not read when signing", acc.Pos, !read, det)
	}
	// the allowed fields are allowed for what the table says only. Subject: inspected (emptiness), never copied - every
	// value loaded from below csr.Subject is used by len() or a comparison and nothing else (through phis).
	subjF := p.Field("crypto/x509", "CertificateRequest", "Subject")
	nSubj := 0
	for fn := range reach {
		if len(fn.Blocks) == 0 {
			continue
		}
		eachInstr(fn, func(ins ssa.Instruction) {
			fa, ok := ins.(*ssa.FieldAddr)
			if !ok || fieldVar(fa.X.Type(), fa.Field) != subjF {
				return
			}
			nSubj++
			var bad ssa.Instruction
			seen := map[ssa.Value]bool{}
			var walk func(v ssa.Value)
			walk = func(v ssa.Value) {
				if seen[v] || bad != nil {
					return
				}
				seen[v] = true
				for _, r := range *v.Referrers() {
					switch x := r.(type) {
					case *ssa.DebugRef:
					case *ssa.FieldAddr:
						walk(x)
					case *ssa.Field:
						walk(x)
					case *ssa.UnOp:
						if x.Op == token.MUL {
							walk(x)
						} else {
							bad = r
						}
					case *ssa.Phi:
						walk(x)
					case *ssa.BinOp:
						if x.Op != token.EQL && x.Op != token.NEQ {
							bad = r
						}
					case *ssa.Call:
						if bi, ok := x.Call.Value.(*ssa.Builtin); !ok || bi.Name() != "len" {
							bad = r
						}
					default:
						bad = r
					}
				}
			}
			walk(fa)
			pos := fa.Pos()
			if bad != nil {
				pos = bad.Pos()
			}
			c.Check("CSR Subject is inspected, never copied: "+stableFnName(fn), pos, bad == nil,
				"a value read from the CSR's Subject flows on (it is stored, passed or returned) instead of only being tested: content of the CSR chosen by the caller - e.g. its CommonName - can end up in the issued certificate, where peers that authenticate by CN (XFCC, dual-use) take it for an identity the caller never authenticated as")
		})
	}
	c.Check("CSR Subject inspection found", entries[0].Pos(), nSubj >= 1, "the dual-use CommonName test on csr.Subject was not found in the signing graph")
	// the template's ExtraExtensions holds exactly the built SAN extension
	tf := p.Func(pkgPkiUtil, "", "genCertTemplateFromCSR")
	build := p.FuncObj(pkgPkiUtil, "", "BuildSubjectAltNameExtension")
	c.Check("template builds the SAN from the given identities", tf.Pos(), len(callsIn(tf, build)) == 1, "genCertTemplateFromCSR no longer builds the SAN extension from subjectIDs")
	// public key passed to GenCertFromCSR is the CSR's
	sfn := entries[0]
	gen := p.FuncObj(pkgPkiUtil, "", "GenCertFromCSR")
	pk := p.Field("crypto/x509", "CertificateRequest", "PublicKey")
	for _, call := range callsIn(sfn, gen) {
		a := call.Common().Args
		okk := len(a) >= 3 && fieldOfLoad(unwrap(a[2])) == pk
		c.Check("certificate binds the CSR's public key", call.Pos(), okk, "GenCertFromCSR is not given csr.PublicKey")
	}
	c.Floor(14)
	_ = n
}

func c09r4(c *Ctx) {
	p := c.P
	fn := p.Func(pkgCAServer, "Server", "CreateCertificate")
	forCA := p.Field(pkgPkiCA, "CertOpts", "ForCA")
	sts := storesTo(fn, forCA)
	// a composite literal that leaves ForCA out is also fine (zero value) as long as nothing else stores it
	for _, st := range sts {
		b, ok := constBool(st.Val)
		c.Check("CreateCertificate: ForCA is constant false", st.Pos(), ok && !b, "the workload signing handler can request a CA certificate")
	}
	c.Check("CreateCertificate: ForCA stores examined", fn.Pos(), true, "")
	// who else stores ForCA = true anywhere on served paths: any store of non-false in package server/ca
	for _, f := range c.P.AllFuncs {
		if funcPkgPath(f) != istioMod+"/"+pkgCAServer || strings.HasSuffix(p.Fset.Position(f.Pos()).Filename, "_test.go") {
			continue
		}
		for _, st := range storesTo(f, forCA) {
			b, ok := constBool(st.Val)
			c.Check("server/ca: ForCA never set true:"+shortFn(f), st.Pos(), ok && !b, "ForCA is set to a non-false value in the CA server package")
		}
	}
	// lifetime check on: IstioCA.Sign / SignWithCertChain pass constant true
	signObj := p.FuncObj(pkgPkiCA, "IstioCA", "sign")
	swcObj := p.FuncObj(pkgPkiCA, "IstioCA", "signWithCertChain")
	for _, m := range []string{"Sign", "SignWithCertChain"} {
		f := p.Func(pkgPkiCA, "IstioCA", m)
		for _, call := range callsIn(f, signObj, swcObj) {
			a := call.Common().Args // recv, csr, ids, ttl, checkLifetime, forCA
			okc := false
			if len(a) >= 5 {
				if b, isC := constBool(a[4]); isC && b {
					okc = true
				}
			}
			c.Check("IstioCA."+m+" checks the requested lifetime", call.Pos(), okc, "the served signing entry point passes checkLifetime != true: a TTL above maxCertTTL is no longer rejected")
			// forCA argument comes from certOpts.ForCA
			okf := len(a) >= 6 && fieldOfLoad(a[5]) == forCA
			c.Check("IstioCA."+m+" forwards ForCA from the options", call.Pos(), okf, "forCA is not taken from CertOpts.ForCA")
		}
	}
	c.Floor(6)
}

func c09r5(c *Ctx) {
	p := c.P
	iface := p.Named(pkgCAServer, "CertificateAuthority").Underlying().(*types.Interface)
	newErr := p.FuncObj(pkgPkiErr, "", "NewError")
	errT := types.Universe.Lookup("error").Type()
	// candidate functions: everything in pki/ca and pki/ra returning error as last result
	inScope := func(f *ssa.Function) bool {
		pp := funcPkgPath(f)
		return pp == istioMod+"/"+pkgPkiCA || pp == istioMod+"/"+pkgPkiRA
	}
	typed := map[*ssa.Function]bool{}
	var cands []*ssa.Function
	for _, f := range p.AllFuncs {
		if !inScope(f) || strings.HasSuffix(p.Fset.Position(f.Pos()).Filename, "_test.go") {
			continue
		}
		res := f.Signature.Results()
		if res.Len() == 0 || !types.Identical(res.At(res.Len()-1).Type(), errT) {
			continue
		}
		cands = append(cands, f)
		typed[f] = true // optimistic
	}
	bad := map[*ssa.Function]token.Pos{}
	changed := true
	for changed {
		changed = false
		for _, f := range cands {
			if !typed[f] {
				continue
			}
			okf := true
			eachInstr(f, func(ins ssa.Instruction) {
				r, ok := ins.(*ssa.Return)
				if !ok {
					return
				}
				var ls []ssa.Value
				phiLeaves(retVal(r, len(r.Results)-1), map[ssa.Value]bool{}, &ls)
				for _, l := range ls {
					if k, ok := l.(*ssa.Const); ok && k.IsNil() {
						continue
					}
					// `if err != nil { return typed }; return x, err`: err is nil on this path
					nilOnPath := false
					for _, i := range allIfs(f) {
						if x, eq, ok := nilCmp(i.Cond); ok && x == l {
							idx := 1
							if eq {
								idx = 0
							}
							if underEdges(f, r.Block(), []Edge{{i.Block(), idx}}) {
								nilOnPath = true
							}
						}
					}
					if nilOnPath {
						continue
					}
					l2 := unwrap(l)
					if call, ok := l2.(*ssa.Call); ok && isCallTo(call, newErr) {
						continue
					}
					if ex, ok := l2.(*ssa.Extract); ok {
						l2 = ex.Tuple
					}
					if call, ok := l2.(*ssa.Call); ok {
						if g := call.Call.StaticCallee(); g != nil && typed[g] {
							continue
						}
					}
					okf = false
					bad[f] = r.Pos()
				}
			})
			if !okf {
				typed[f] = false
				changed = true
			}
		}
	}
	n := 0
	var impls []*ssa.Function
	for _, nt := range p.CG().named {
		for _, t := range []types.Type{nt, types.NewPointer(nt)} {
			if !types.Implements(t, iface) {
				continue
			}
			if strings.HasSuffix(p.Fset.Position(nt.Obj().Pos()).Filename, "_test.go") || strings.Contains(pkgPathOf(nt.Obj()), "/mock") || strings.Contains(pkgPathOf(nt.Obj()), "/test") {
				break
			}
			for _, m := range []string{"Sign", "SignWithCertChain"} {
				if sel := p.SSA.MethodSets.MethodSet(t).Lookup(nt.Obj().Pkg(), m); sel != nil {
					if f := p.SSA.MethodValue(sel); f != nil && f.Blocks != nil {
						impls = append(impls, f)
					}
				}
			}
			break
		}
	}
	sort.Slice(impls, func(i, j int) bool { return fnKey(impls[i]) < fnKey(impls[j]) })
	for _, f := range impls {
		n++
		pos := f.Pos()
		if bp, ok := bad[f]; ok {
			pos = bp
		}
		c.Check("typed errors:"+shortFn(f), pos, typed[f], "this CertificateAuthority method can return an error that is not a *caerror.Error; CreateCertificate does signErr.(*caerror.Error) unchecked, so such an error panics the CA handler instead of yielding an error response")
	}
	c.Check("CertificateAuthority implementations found", token.NoPos, n >= 4, "fewer implementations than confirmed by hand")
	c.Floor(5)
}

func c09r6(c *Ctx) {
	p := c.P
	fn := p.Func(pkgPkiCA, "IstioCA", "sign")
	gen := p.FuncObj(pkgPkiUtil, "", "GenCertFromCSR")
	maxTTL := p.Field(pkgPkiCA, "IstioCA", "maxCertTTL")
	chk := paramNamed(fn, "checkLifetime")
	// edges on which the lifetime is acceptable: checkLifetime false, or (requested > max) false
	var okEdges []Edge
	okEdges = append(okEdges, edgesWhere(fn, func(v ssa.Value) bool { return v == ssa.Value(chk) }, false)...)
	nCmp := 0
	for _, i := range allIfs(fn) {
		b, ok := i.Cond.(*ssa.BinOp)
		if !ok {
			continue
		}
		usesMax := func(v ssa.Value) bool {
			found := false
			var walk func(v ssa.Value, d int)
			walk = func(v ssa.Value, d int) {
				if d > 5 || v == nil {
					return
				}
				if fieldOfLoad(v) == maxTTL {
					found = true
				}
				if call, ok := v.(*ssa.Call); ok {
					for _, a := range call.Call.Args {
						walk(a, d+1)
					}
				}
				if cv, ok := v.(*ssa.Convert); ok {
					walk(cv.X, d+1)
				}
			}
			walk(v, 0)
			return found
		}
		switch {
		case usesMax(b.Y) && (b.Op == token.GTR || b.Op == token.GEQ): // requested > max -> reject ; ok on false
			okEdges = append(okEdges, Edge{i.Block(), 1})
			nCmp++
		case usesMax(b.X) && (b.Op == token.LSS || b.Op == token.LEQ): // max < requested
			okEdges = append(okEdges, Edge{i.Block(), 1})
			nCmp++
		case usesMax(b.Y) && (b.Op == token.LEQ || b.Op == token.LSS): // requested <= max -> ok on true
			okEdges = append(okEdges, Edge{i.Block(), 0})
			nCmp++
		}
	}
	c.Check("IstioCA.sign compares with maxCertTTL", fn.Pos(), nCmp == 1, "no comparison of the requested lifetime with maxCertTTL")
	for _, call := range callsIn(fn, gen) {
		c.Check("certificate generated only after the TTL check", call.Pos(), underEdges(fn, call.Block(), okEdges), "GenCertFromCSR is reachable without passing the maxCertTTL comparison (or checkLifetime==false)")
	}
	// template NotAfter clamp
	tf := p.Func(pkgPkiUtil, "", "genCertTemplateFromCSR")
	na := p.Field("crypto/x509", "Certificate", "NotAfter")
	okClamp := false
	for _, st := range storesTo(tf, na) {
		var ls []ssa.Value
		phiLeaves(st.Val, map[ssa.Value]bool{}, &ls)
		// a value computed by a same-package helper: the leaves of what the helper returns
		for k := 0; k < len(ls) && k < 16; k++ {
			var call *ssa.Call
			idx := 0
			switch x := ls[k].(type) {
			case *ssa.Call:
				call = x
			case *ssa.Extract:
				if cc, ok := x.Tuple.(*ssa.Call); ok {
					call, idx = cc, x.Index
				}
			}
			if call == nil {
				continue
			}
			sc := call.Call.StaticCallee()
			if sc == nil || len(sc.Blocks) == 0 || funcPkgPath(sc) != funcPkgPath(tf) {
				continue
			}
			for _, b := range sc.Blocks {
				if r, ok := b.Instrs[len(b.Instrs)-1].(*ssa.Return); ok && idx < len(r.Results) {
					phiLeaves(retVal(r, idx), map[ssa.Value]bool{}, &ls)
				}
			}
		}
		sawSigner, sawOther := false, false
		for _, l := range ls {
			if fieldOfLoad(l) == na {
				sawSigner = true
			} else {
				sawOther = true
			}
		}
		if sawSigner && sawOther {
			okClamp = true
		}
	}
	c.Check("template NotAfter is clamped to the signing certificate", tf.Pos(), okClamp, "the issued certificate's NotAfter is no longer min(now+ttl, signingCert.NotAfter): a leaf can outlive its issuer")
	c.Floor(3)
}

func c09r7(c *Ctx) {
	p := c.P
	fn := p.Func("security/pkg/server/ca/authenticate", "XfccAuthenticator", "Authenticate")
	trusted := p.FuncObj("security/pkg/server/ca/authenticate", "", "isTrustedAddress")
	build := p.FuncObj("security/pkg/server/ca/authenticate", "", "buildSecurityCaller")
	edges := edgesWhere(fn, func(v ssa.Value) bool { call, ok := v.(*ssa.Call); return ok && isCallTo(call, trusted) }, true)
	c.Check("XFCC authenticator tests the peer address", fn.Pos(), len(edges) == 1, "no isTrustedAddress test")
	calls := callsIn(fn, build)
	c.Check("XFCC authenticator builds the caller", fn.Pos(), len(calls) >= 1, "buildSecurityCaller not called")
	for _, call := range calls {
		c.Check("XFCC identity only from a trusted peer", call.Pos(), underEdges(fn, call.Block(), edges), "identities are taken from the X-Forwarded-Client-Cert header of a peer that did not pass isTrustedAddress: any client can claim any identity")
	}
	// who else calls buildSecurityCaller
	for _, f := range p.AllFuncs {
		if f == fn || strings.HasSuffix(p.Fset.Position(f.Pos()).Filename, "_test.go") {
			continue
		}
		for _, call := range callsIn(f, build) {
			c.Check("buildSecurityCaller caller:"+shortFn(f), call.Pos(), false, "buildSecurityCaller is called outside the trusted-address gate")
		}
	}
	c.Floor(3)
}

func c09r8(c *Ctx) {
	p := c.P
	fn := p.Func(pkgPkiRA, "KubernetesRA", "Sign")
	pre := p.FuncObj(pkgPkiRA, "", "preSign")
	ks := p.FuncObj(pkgPkiRA, "KubernetesRA", "kubernetesSign")
	pcalls := callsIn(fn, pre)
	c.Check("KubernetesRA.Sign validates first", fn.Pos(), len(pcalls) == 1, "no preSign call")
	if len(pcalls) == 1 {
		ev := errOf(pcalls[0])
		var okE []Edge
		for _, i := range allIfs(fn) {
			if x, eq, ok := nilCmp(i.Cond); ok && x == ev {
				idx := 1
				if eq {
					idx = 0
				}
				okE = append(okE, Edge{i.Block(), idx})
			}
		}
		for _, call := range callsIn(fn, ks) {
			c.Check("kubernetesSign only after preSign succeeded", call.Pos(), underEdges(fn, call.Block(), okE), "the RA forwards the CSR to the Kubernetes signer on a path where preSign failed or was skipped")
		}
	}
	pf := p.SSA.FuncValue(pre)
	val := p.FuncObj(pkgPkiRA, "", "ValidateCSR")
	vcalls := callsIn(pf, val)
	c.Check("preSign validates the CSR's identities against the caller's", pf.Pos(), len(vcalls) == 1, "preSign no longer calls ValidateCSR(csr, subjectIDs): the Kubernetes signer copies SANs from the CSR, so a caller could obtain a certificate for identities it did not authenticate as")
	// forCA rejected: a return with non-nil error under forCA == true
	forCA := paramNamed(pf, "forCA")
	fe := edgesWhere(pf, func(v ssa.Value) bool { return v == ssa.Value(forCA) }, true)
	okF := len(fe) == 1
	if okF {
		_, found := pathAvoidingE(fe[0].To(), nil, nil, func(ins ssa.Instruction) bool {
			r, ok := ins.(*ssa.Return)
			if !ok {
				return false
			}
			k, isK := retVal(r, len(r.Results)-1).(*ssa.Const)
			return isK && k.IsNil()
		}, nil, nil)
		okF = !found
	}
	c.Check("preSign rejects forCA", pf.Pos(), okF, "preSign can succeed with forCA set")
	// a ValidateCSR failure is an error
	for _, v := range vcalls {
		edges := edgesWhere(pf, func(x ssa.Value) bool { return x == v.Value() }, false)
		okv := len(edges) == 1
		if okv {
			_, found := pathAvoidingE(edges[0].To(), nil, nil, func(ins ssa.Instruction) bool {
				r, ok := ins.(*ssa.Return)
				if !ok {
					return false
				}
				k, isK := retVal(r, len(r.Results)-1).(*ssa.Const)
				return isK && k.IsNil()
			}, nil, nil)
			okv = !found
		}
		c.Check("preSign fails when ValidateCSR fails", v.Pos(), okv, "a CSR whose identities do not match the caller's is accepted")
	}
	c.Floor(5)
}


type helperCall struct {
	site   ssa.CallInstruction
	callee *ssa.Function
}

// helperCalls: static calls from fn to functions of the same package (one level).
func helperCalls(fn *ssa.Function) []helperCall {
	var out []helperCall
	eachInstr(fn, func(ins ssa.Instruction) {
		ci, ok := ins.(ssa.CallInstruction)
		if !ok {
			return
		}
		callee := ci.Common().StaticCallee()
		if callee == nil || callee.Blocks == nil || callee == fn || funcPkgPath(callee) != funcPkgPath(fn) {
			return
		}
		out = append(out, helperCall{ci, callee})
	})
	return out
}

// C09-R9: identities are classified, never rewritten. BuildSubjectAltNameExtension turns the authenticated identities
// into SAN entries; it may look at an identity (is it an IP, does it start with the SPIFFE prefix) but what it encodes is
// the identity string itself. Every string converted into an Identity.Value is an element of the split identity list,
// unchanged: no call (ToLower, TrimSpace, Replace, ...) lies between the element and the conversion. The path of a
// SPIFFE ID is case-sensitive; a "normalised" SAN is an identity the caller never authenticated as.
func c09r9(c *Ctx) {
	p := c.P
	fn := p.Func(pkgPkiUtil, "", "BuildSubjectAltNameExtension")
	val := p.Field(pkgPkiUtil, "Identity", "Value")
	n := 0
	// the classification may live in a helper that is handed the element: its parameter then stands for the element
	type scope struct {
		f    *ssa.Function
		elem map[ssa.Value]bool
	}
	scopes := []scope{{fn, nil}}
	for _, h := range helperCalls(fn) {
		el := map[ssa.Value]bool{}
		for k, a := range h.site.Common().Args {
			isElem := false
			if u, ok := a.(*ssa.UnOp); ok && u.Op == token.MUL {
				_, isElem = u.X.(*ssa.IndexAddr)
			}
			if _, ok := a.(*ssa.Index); ok {
				isElem = true
			}
			if isElem && k < len(h.callee.Params) {
				el[h.callee.Params[k]] = true
			}
		}
		if len(el) > 0 {
			scopes = append(scopes, scope{h.callee, el})
		}
	}
	for _, sc := range scopes {
	fn := sc.f
	for _, st := range storesTo(fn, val) {
		cv, ok := st.Val.(*ssa.Convert)
		if !ok {
			continue // the IP form: bytes computed from the parsed address
		}
		if bt, isB := cv.X.Type().Underlying().(*types.Basic); !isB || bt.Info()&types.IsString == 0 {
			continue
		}
		n++
		var leaves []ssa.Value
		phiLeaves(cv.X, map[ssa.Value]bool{}, &leaves)
		ok2 := len(leaves) > 0
		what := ""
		for _, l := range leaves {
			if sc.elem[l] {
				continue // the helper's parameter that stands for the element
			}
			// an element of a slice: *(&slice[i]) or a range element
			u, isLoad := l.(*ssa.UnOp)
			if isLoad && u.Op == token.MUL {
				if _, isIdx := u.X.(*ssa.IndexAddr); isIdx {
					continue
				}
			}
			if _, isIdx := l.(*ssa.Index); isIdx {
				continue
			}
			ok2 = false
			if call, isCall := l.(*ssa.Call); isCall {
				if o := calleeObj(call); o != nil {
					what = o.Name()
				}
			}
		}
		det := "the string encoded as a SAN is not the identity element itself"
		if what != "" {
			det += " but the result of " + what
		}
		det += ": the certificate then carries an identity that differs from the one authentication established (a SPIFFE ID's path is case-sensitive; trimming or replacing characters likewise yields another workload's identity)"
		c.Check("the encoded SAN is the authenticated identity string itself", st.Pos(), ok2, det)
	}
	}
	c.Check("BuildSubjectAltNameExtension encodes string identities", fn.Pos(), n >= 2, "fewer string-to-bytes conversions into Identity.Value than confirmed by hand (URI and DNS forms)")
	c.Floor(3)
}
