package main

import (
	"fmt"
	"go/token"
	"go/types"
	"sort"
	"strings"

	"golang.org/x/tools/go/ssa"
)

const pkgInject = "pkg/kube/inject"

func init() {
	register(&PropDef{
		ID: "C19",
		Clauses: []string{
			"R1 the injection decision reads only the documented inputs: PodSpec.HostNetwork, ObjectMeta.{Namespace,Labels,Annotations,Name,GenerateName}, Config.{Policy,NeverInjectSelector,AlwaysInjectSelector}, and a frozen set of package-level values (no clock, random source, environment or mutable state)",
			"R2 the `never` cases cannot be overridden: the host-network test and the ignored-namespace test dominate every read of labels, annotations and config, and return false directly",
			"R3 label before annotation: the selector value is the label's on the label-present edge",
			"R4 the never/always selectors are consulted for every value that falls back to the default (absent AND unrecognised), before the namespace policy",
		},
		NotDecided: "the decision table itself beyond these structural clauses, idempotency of re-injection, preservation of user containers/volumes (value-level, template-dependent)",
		Rules: []Rule{
			{"C19-R1", "decision depends only on the documented inputs", c19r1},
			{"C19-R2", "never-cases dominate", c19r2},
			{"C19-R3", "label before annotation", c19r3},
			{"C19-R4", "selectors precede the namespace policy for every fallback", c19r4},
			{"C19-R5", "stripping does not remove what re-insertion reads", c19r5},
			{"C19-R6", "recorded user overrides are consulted for every template container", c19r6},
			{"C19-R7", "container lists are never sorted unstably", c19r7},
			{"C19-R8", "the decision is taken on the pod with its namespace defaulted from the request", c19r8},
			{"C19-R9", "global inputs of the injection decision are never edited", c19r9},
		},
	})
}

func injectGraph(p *Prog) (*ssa.Function, map[*ssa.Function]*ssa.Function) {
	fn := p.Func(pkgInject, "", "injectRequired")
	reach := p.CG().Reach([]*ssa.Function{fn}, func(f *ssa.Function) bool { return funcPkgPath(f) != istioMod+"/"+pkgInject })
	return fn, reach
}

func c19r1(c *Ctx) {
	p := c.P
	_, reach := injectGraph(p)
	eff := effectsOf(reach)
	c.Stat("functions", len(reach))
	allowed := map[string]map[string]string{
		"PodSpec":    {"HostNetwork": "never inject on host network"},
		"ObjectMeta": {"Namespace": "ignored namespaces / logging", "Labels": "inject label, selectors", "Annotations": "inject annotation", "Name": "logging", "GenerateName": "logging"},
		"Config":     {"Policy": "namespace policy", "NeverInjectSelector": "", "AlwaysInjectSelector": ""},
	}
	structs := map[string]*types.Struct{
		"PodSpec":    p.Struct("k8s.io/api/core/v1", "PodSpec"),
		"ObjectMeta": p.Struct("k8s.io/apimachinery/pkg/apis/meta/v1", "ObjectMeta"),
		"Config":     p.Struct(pkgInject, "Config"),
	}
	n := 0
	for name, st := range structs {
		for _, f := range fieldsOf(st) {
			acc, read := eff.Reads[f]
			if !read {
				continue
			}
			n++
			_, ok := allowed[name][f.Name()]
			c.Check("decision reads "+name+"."+f.Name(), acc.Pos, ok, "the injection decision reads "+name+"."+f.Name()+", which is not one of the documented inputs: whether a pod is injected now depends on something the documented precedence does not mention")
		}
		for f := range allowed[name] {
			fv := (*types.Var)(nil)
			for _, x := range fieldsOf(st) {
				if x.Name() == f {
					fv = x
				}
			}
			if f == "Name" || f == "GenerateName" {
				continue
			}
			_, read := eff.Reads[fv]
			c.Check("documented input "+name+"."+f+" is consulted", token.NoPos, read, "the documented input "+name+"."+f+" is no longer read by the decision")
		}
	}
	// package-level variables and non-istio calls
	allowedGlobals := map[string]string{
		"log": "logging", "SidecarInject": "annotation/label descriptor (constant data)", "AnnotationValidation": "debug log of annotation names",
		"init$guard": "", "NeverInjectSelector": "", "AlwaysInjectSelector": "",
	}
	var gl []string
	for fn := range reach {
		eachInstr(fn, func(ins ssa.Instruction) {
			var ops []*ssa.Value
			for _, op := range ins.Operands(ops) {
				g, ok := (*op).(*ssa.Global)
				if !ok {
					continue
				}
				if _, ok := allowedGlobals[g.Name()]; ok {
					continue
				}
				gl = append(gl, g.String())
				c.Check("decision reads package-level state "+g.String(), ins.Pos(), false, "the injection decision reads package-level variable "+g.String()+": the same inputs may no longer give the same decision")
			}
			if ci, ok := ins.(ssa.CallInstruction); ok {
				if f := ci.Common().StaticCallee(); f != nil && f.Pkg != nil {
					switch f.Pkg.Pkg.Path() {
					case "time", "math/rand", "math/rand/v2", "os", "crypto/rand":
						c.Check("decision calls "+f.String(), ins.Pos(), false, "the injection decision consults the clock / randomness / environment")
					}
				}
			}
		})
	}
	sort.Strings(gl)
	c.Floor(10)
	_ = n
}

func c19r2(c *Ctx) {
	p := c.P
	fn, _ := injectGraph(p)
	host := p.Field("k8s.io/api/core/v1", "PodSpec", "HostNetwork")
	// edges
	hostFalse := edgesWhere(fn, func(v ssa.Value) bool { return fieldOfLoad(v) == host }, false)
	var nsFalse []Edge
	ignored := paramNamed(fn, "ignored")
	for _, i := range allIfs(fn) {
		call, ok := i.Cond.(*ssa.Call)
		if !ok {
			continue
		}
		if o := calleeObj(call); o != nil && o.Name() == "Contains" && len(call.Call.Args) == 2 && call.Call.Args[0] == ssa.Value(ignored) {
			nsFalse = append(nsFalse, Edge{i.Block(), 1})
			// true edge returns false directly
			_, bad := pathAvoidingE(i.Block().Succs[0], nil, nil, func(ins ssa.Instruction) bool {
				r, ok := ins.(*ssa.Return)
				if !ok {
					return false
				}
				b, isC := constBool(retVal(r, 0))
				return !(isC && !b)
			}, nil, nil)
			c.Check("ignored namespace returns false directly", i.Pos(), !bad, "a pod in an ignored (system) namespace can reach a decision other than `not injected`")
		}
	}
	c.Check("host-network test present", fn.Pos(), len(hostFalse) == 1, "no PodSpec.HostNetwork test")
	c.Check("ignored-namespace test present", fn.Pos(), len(nsFalse) == 1, "no ignored-namespace test")
	if len(hostFalse) == 1 {
		i := hostFalse[0].From
		_, bad := pathAvoidingE(i.Succs[0], nil, nil, func(ins ssa.Instruction) bool {
			r, ok := ins.(*ssa.Return)
			if !ok {
				return false
			}
			b, isC := constBool(retVal(r, 0))
			return !(isC && !b)
		}, nil, nil)
		c.Check("host networking returns false directly", fn.Pos(), !bad, "a host-network pod can reach a decision other than `not injected`")
	}
	// every read of labels / annotations / config is under both false edges
	cfg := paramNamed(fn, "config")
	n := 0
	eachInstr(fn, func(ins ssa.Instruction) {
		what := ""
		switch x := ins.(type) {
		case *ssa.FieldAddr:
			if x.X == ssa.Value(cfg) {
				what = "Config." + fieldVar(x.X.Type(), x.Field).Name()
			}
		case ssa.CallInstruction:
			if o := calleeObj(ins); o != nil && (o.Name() == "GetLabels" || o.Name() == "GetAnnotations") {
				what = o.Name()
			}
		}
		if what == "" {
			return
		}
		n++
		c.Check("read of "+what+" only after the never-cases", ins.Pos(), underEdges(fn, ins.Block(), hostFalse) && underEdges(fn, ins.Block(), nsFalse),
			"labels/annotations/config are consulted on a path that has not passed the host-network and ignored-namespace tests: a label or selector could override a `never inject` case")
	})
	c.Check("label/annotation/config reads found", fn.Pos(), n >= 4, "fewer reads than confirmed by hand")
	c.Floor(9)
}

func c19r3(c *Ctx) {
	p := c.P
	fn, _ := injectGraph(p)
	// the switched value: a phi with one operand from the labels lookup (on its present edge) and one from the annotations lookup
	ok := false
	var pos token.Pos = fn.Pos()
	eachInstr(fn, func(ins ssa.Instruction) {
		ph, isPhi := ins.(*ssa.Phi)
		if !isPhi || len(ph.Edges) != 2 {
			return
		}
		if b, isB := ph.Type().Underlying().(*types.Basic); !isB || b.Kind() != types.String {
			return
		}
		var labelIdx, annoIdx = -1, -1
		for i, e := range ph.Edges {
			src := lookupSource(e)
			switch src {
			case "GetLabels":
				labelIdx = i
			case "GetAnnotations":
				annoIdx = i
			}
		}
		if labelIdx < 0 || annoIdx < 0 {
			return
		}
		pos = ph.Pos()
		// the label operand arrives from a block under the lookup's present (comma-ok true) edge
		lab := ph.Edges[labelIdx]
		ex, _ := lab.(*ssa.Extract)
		if ex == nil {
			return
		}
		var present []Edge
		for _, i := range allIfs(fn) {
			if e2, isE := i.Cond.(*ssa.Extract); isE && e2.Tuple == ex.Tuple && e2.Index == 1 {
				present = append(present, Edge{i.Block(), 0})
			}
		}
		pred := ph.Block().Preds[labelIdx]
		if len(present) == 1 && (underEdges(fn, pred, present) || present[0].To() == pred || (present[0].From == pred && present[0].To() == ph.Block())) {
			ok = true
		}
	})
	c.Check("the inject label overrides the annotation when present", pos, ok, "the value the decision switches on is not `label if present else annotation`: the documented precedence (label first) is not what the code computes")
	c.Floor(1)
}

// lookupSource: "GetLabels"/"GetAnnotations" if v is (Extract #0 of) a map lookup on the result of that getter.
func lookupSource(v ssa.Value) string {
	if ex, ok := v.(*ssa.Extract); ok {
		v = ex.Tuple
	}
	lk, ok := v.(*ssa.Lookup)
	if !ok {
		return ""
	}
	if call, ok := lk.X.(*ssa.Call); ok {
		if o := calleeObj(call); o != nil {
			return o.Name()
		}
	}
	return ""
}

func c19r4(c *Ctx) {
	p := c.P
	fn, reach := injectGraph(p)
	never := p.Field(pkgInject, "Config", "NeverInjectSelector")
	always := p.Field(pkgInject, "Config", "AlwaysInjectSelector")
	policy := p.Field(pkgInject, "Config", "Policy")
	// blocks of injectRequired that (directly or through a callee in the package) read a selector list
	readsIn := func(f *types.Var) []*ssa.BasicBlock {
		var out []*ssa.BasicBlock
		for _, b := range fn.Blocks {
			for _, ins := range b.Instrs {
				if fa, ok := ins.(*ssa.FieldAddr); ok && fieldVar(fa.X.Type(), fa.Field) == f {
					out = append(out, b)
				}
				if ci, ok := ins.(ssa.CallInstruction); ok {
					if g := ci.Common().StaticCallee(); g != nil && g != fn {
						if _, in := reach[g]; in {
							sub := p.CG().Reach([]*ssa.Function{g}, func(h *ssa.Function) bool { return funcPkgPath(h) != istioMod+"/"+pkgInject })
							if _, r := effectsOf(sub).Reads[f]; r {
								out = append(out, b)
							}
						}
					}
				}
			}
		}
		return out
	}
	nb, ab := readsIn(never), readsIn(always)
	c.Check("never-inject selectors are consulted", fn.Pos(), len(nb) >= 1, "NeverInjectSelector is never read")
	c.Check("always-inject selectors are consulted", fn.Pos(), len(ab) >= 1, "AlwaysInjectSelector is never read")
	// the fallback flag: bool phi with >= 2 constant-true incomings (absent value, unrecognised value)
	var flag *ssa.Phi
	eachInstr(fn, func(ins ssa.Instruction) {
		ph, ok := ins.(*ssa.Phi)
		if !ok {
			return
		}
		nt := 0
		for _, e := range ph.Edges {
			if b, isC := constBool(e); isC && b {
				nt++
			}
		}
		if nt >= 2 && (flag == nil || ph.Pos() < flag.Pos()) {
			flag = ph
		}
	})
	c.Check("fallback-to-default flag found", fn.Pos(), flag != nil, "cannot identify the `use default` flag set by the absent-value and unrecognised-value arms")
	if flag == nil {
		return
	}
	reachable := func(from *ssa.BasicBlock, targets []*ssa.BasicBlock) bool {
		t := map[*ssa.BasicBlock]bool{}
		for _, b := range targets {
			t[b] = true
		}
		seen := map[*ssa.BasicBlock]bool{}
		st := []*ssa.BasicBlock{from}
		for len(st) > 0 {
			b := st[len(st)-1]
			st = st[:len(st)-1]
			if t[b] {
				return true
			}
			if seen[b] {
				continue
			}
			seen[b] = true
			st = append(st, b.Succs...)
		}
		return false
	}
	n := 0
	for i, e := range flag.Edges {
		if b, isC := constBool(e); !isC || !b {
			continue
		}
		n++
		pred := flag.Block().Preds[i]
		c.Check("fallback arm reaches the never-inject selectors", pred.Instrs[len(pred.Instrs)-1].Pos(), reachable(pred, nb), "an arm that falls back to the default policy (absent or unrecognised inject value) cannot reach the NeverInjectSelector check: for such pods a matching never-selector is ignored and the namespace policy decides")
		c.Check("fallback arm reaches the always-inject selectors", pred.Instrs[len(pred.Instrs)-1].Pos(), reachable(pred, ab), "an arm that falls back to the default policy cannot reach the AlwaysInjectSelector check")
	}
	// the selector checks are conditioned only on the never-cases and on the fallback flag (a phi of boolean constants),
	// never on the raw label/annotation value
	host := p.Field("k8s.io/api/core/v1", "PodSpec", "HostNetwork")
	for _, sb := range append(append([]*ssa.BasicBlock{}, nb...), ab...) {
		for _, i := range allIfs(fn) {
			under := underEdges(fn, sb, []Edge{{i.Block(), 0}}) || underEdges(fn, sb, []Edge{{i.Block(), 1}})
			if !under || strings.HasSuffix(i.Block().Comment, ".loop") {
				continue
			}
			okc := false
			switch x := i.Cond.(type) {
			case *ssa.Phi:
				var ls []ssa.Value
				phiLeaves(x, map[ssa.Value]bool{}, &ls)
				okc = true
				for _, l := range ls {
					if _, isC := constBool(l); !isC {
						okc = false
					}
				}
			case *ssa.Call:
				if o := calleeObj(x); o != nil && o.Name() == "Contains" {
					okc = true
				}
			default:
				if fieldOfLoad(i.Cond) == host {
					okc = true
				}
			}
			if sb == i.Block() {
				okc = true
			}
			c.Check("selector check is conditioned only on the fallback flag", i.Pos(), okc, "whether the never/always selectors are consulted depends on a condition other than the `use default` flag and the never-cases (e.g. on the raw label value): pods with an unrecognised inject value skip the selectors")
		}
	}
	// selectors before policy: no path from a policy read back to a selector read
	var pb []*ssa.BasicBlock
	for _, b := range fn.Blocks {
		for _, ins := range b.Instrs {
			if fa, ok := ins.(*ssa.FieldAddr); ok && fieldVar(fa.X.Type(), fa.Field) == policy {
				pb = append(pb, b)
			}
		}
	}
	okOrder := len(pb) >= 1
	for _, b := range pb {
		for _, s := range b.Succs {
			if reachable(s, append(append([]*ssa.BasicBlock{}, nb...), ab...)) {
				okOrder = false
			}
		}
	}
	c.Check("namespace policy is evaluated after the selectors", fn.Pos(), okOrder, "the namespace policy is read before the selectors were evaluated")
	c.Check("fallback arms found", fn.Pos(), n >= 2, "expected the absent-value and the unrecognised-value arms")
	_ = strings.TrimSpace
	c.Floor(8)
}


// C19-R5: re-injection runs reinsertOverrides(stripPod(pod)): stripPod removes what a previous injection added,
// reinsertOverrides then restores the user's original containers from an annotation of the stripped pod. The annotation
// keys stripPod deletes and the keys reinsertOverrides reads are disjoint; otherwise the second injection silently loses
// the user's containers / settings and injection is no longer idempotent.
func c19r5(c *Ctx) {
	p := c.P
	strip := p.Func(pkgInject, "", "stripPod")
	reins := p.Func(pkgInject, "", "reinsertOverrides")
	// the pipeline itself
	rt := p.Func(pkgInject, "", "RunTemplate")
	piped := false
	for _, call := range callsIn(rt, p.FuncObj(pkgInject, "", "reinsertOverrides")) {
		for _, a := range call.Common().Args {
			if inner, ok := a.(*ssa.Call); ok && isCallTo(inner, p.FuncObj(pkgInject, "", "stripPod")) {
				piped = true
			}
		}
	}
	c.Check("RunTemplate feeds stripPod's result to reinsertOverrides", rt.Pos(), piped, "the strip/re-insert pipeline is no longer recognisable in RunTemplate")
	// an annotation key: <annotation.X>.Name where X is a package-level variable
	keyOf := func(v ssa.Value) string {
		u, ok := v.(*ssa.UnOp)
		if !ok {
			return ""
		}
		fa, ok := u.X.(*ssa.FieldAddr)
		if !ok || fieldVar(fa.X.Type(), fa.Field).Name() != "Name" {
			return ""
		}
		if g, ok := fa.X.(*ssa.Global); ok {
			return g.Name()
		}
		return ""
	}
	isAnnotations := func(v ssa.Value) bool {
		fv := fieldOfLoad(v)
		return fv != nil && fv.Name() == "Annotations"
	}
	local := func(f *ssa.Function) bool { return funcPkgPath(f) != istioMod+"/"+pkgInject }
	deleted := map[string]token.Pos{}
	for f := range p.CG().Reach([]*ssa.Function{strip}, local) {
		eachInstr(f, func(ins ssa.Instruction) {
			call, ok := ins.(*ssa.Call)
			if !ok {
				return
			}
			if bi, ok := call.Call.Value.(*ssa.Builtin); ok && bi.Name() == "delete" && isAnnotations(call.Call.Args[0]) {
				if k := keyOf(call.Call.Args[1]); k != "" {
					deleted[k] = call.Pos()
				}
			}
		})
	}
	read := map[string]token.Pos{}
	for f := range p.CG().Reach([]*ssa.Function{reins}, local) {
		eachInstr(f, func(ins ssa.Instruction) {
			if lk, ok := ins.(*ssa.Lookup); ok && isAnnotations(lk.X) {
				if k := keyOf(lk.Index); k != "" {
					read[k] = lk.Pos()
				}
			}
		})
	}
	c.Check("stripPod deletes annotations", strip.Pos(), len(deleted) >= 1, "no annotation deletion found in stripPod")
	c.Check("reinsertOverrides reads an annotation", reins.Pos(), len(read) >= 1, "no annotation lookup found in reinsertOverrides")
	keys := sortedKeys(read)
	for _, k := range keys {
		pos, bad := deleted[k]
		if !bad {
			pos = read[k]
		}
		c.Check("annotation read by reinsertOverrides survives stripPod: "+k, pos, !bad,
			"stripPod deletes the annotation "+k+" from the pod it hands to reinsertOverrides, which reads exactly that annotation to restore the user's original containers: on a second injection nothing is restored (user containers patched by a template are lost or reset) and inject(inject(pod)) != inject(pod)")
	}
	c.Floor(4)
}


// C19-R6: reapplyOverwrittenContainers restores, after the templates ran, what the user had specified for containers the
// templates also define. On a re-injected pod the user's original is no longer in the pod spec: it is recorded in the
// ProxyOverrides annotation (existingOverrides). For every template container (both loops) every pass therefore looks the
// container up in existingOverrides; a pass that can skip the container BEFORE that lookup (e.g. because the status
// annotation lists it as injected) resets the user's proxy image / resources / security context on the second injection.
func c19r6(c *Ctx) {
	p := c.P
	fn := p.Func(pkgInject, "", "reapplyOverwrittenContainers")
	find := p.FuncObj(pkgInject, "", "FindContainer")
	// lookups in the recorded overrides: FindContainer(name, existingOverrides.<X>)
	isOverrideLookup := func(ins ssa.Instruction) bool {
		call, ok := ins.(*ssa.Call)
		if !ok || !isCallTo(call, find) || len(call.Call.Args) < 2 {
			return false
		}
		fv := fieldOfLoad(call.Call.Args[1])
		if fv == nil {
			return false
		}
		// the field belongs to the local holding the parsed ProxyOverrides annotation
		if u, ok := call.Call.Args[1].(*ssa.UnOp); ok {
			if fa, ok := u.X.(*ssa.FieldAddr); ok {
				if a, ok := fa.X.(*ssa.Alloc); ok {
					return a.Comment == "existingOverrides"
				}
			}
		}
		return false
	}
	n := 0
	for _, l := range rangeLoops(fn) {
		if l.Header == nil || l.Body == nil {
			continue
		}
		has := false
		for b := range loopMembers(fn, l.Header) {
			for _, ins := range b.Instrs {
				if isOverrideLookup(ins) {
					has = true
				}
			}
		}
		if !has {
			continue
		}
		n++
		bad, found := pathAvoidingE(l.Body, nil, isOverrideLookup, nil, nil, l.Header)
		pos := fn.Pos()
		if bad != nil {
			pos = bad.Pos()
		}
		c.Check(fmt.Sprintf("every pass over a template container consults the recorded overrides (loop #%d)", n), pos, !found,
			"a pass of this loop can move on to the next template container without looking it up in the ProxyOverrides annotation: on a pod that was injected before, the container is listed in the status annotation, is skipped, and the user's overrides (proxy image, resources, runAsUser, args) are replaced by the template defaults - inject(inject(pod)) != inject(pod)")
	}
	c.Check("loops consulting the recorded overrides found", fn.Pos(), n >= 2, "expected the container and the init-container loop")
	c.Floor(3)
}

// C19-R7: user containers keep their relative order. The injector moves its own containers by name
// (modifyContainers: remove + re-insert, which leaves everything else in place); it never hands a container list to a
// sorting routine that is not stable - all user containers compare equal under any ranking of the injected ones, and
// Go's sort.Slice / slices.SortFunc (pdqsort) permute equal elements once the list is longer than 12. Counted: every
// call of a sorting routine in the package (positive control: at least one, on something else); decided: none of them
// takes a []Container unless it is a *Stable variant.
func c19r7(c *Ctx) {
	p := c.P
	nSort, nCont := 0, 0
	isContainerSlice := func(t types.Type) bool {
		sl, ok := t.Underlying().(*types.Slice)
		if !ok {
			return false
		}
		e := sl.Elem()
		if pt, ok := e.(*types.Pointer); ok {
			e = pt.Elem()
		}
		n, ok := e.(*types.Named)
		return ok && (n.Obj().Name() == "Container" || n.Obj().Name() == "EphemeralContainer") && n.Obj().Pkg() != nil && strings.HasSuffix(n.Obj().Pkg().Path(), "k8s.io/api/core/v1")
	}
	for _, fn := range p.AllFuncs {
		if funcPkgPath(fn) != istioMod+"/"+pkgInject || strings.HasSuffix(p.Fset.Position(fn.Pos()).Filename, "_test.go") || isWrapperFn(fn) {
			continue
		}
		eachInstr(fn, func(ins ssa.Instruction) {
			call, ok := ins.(*ssa.Call)
			if !ok {
				return
			}
			sc := call.Call.StaticCallee()
			if sc == nil || sc.Pkg == nil && sc.Origin() == nil {
				return
			}
			o := sc
			if sc.Origin() != nil {
				o = sc.Origin()
			}
			if o.Pkg == nil {
				return
			}
			pp := o.Pkg.Pkg.Path()
			if pp != "sort" && pp != "slices" && pp != istioMod+"/pkg/slices" {
				return
			}
			name := o.Name()
			if !(strings.HasPrefix(name, "Sort") || strings.HasPrefix(name, "Slice") || name == "Stable" || name == "Strings" || name == "Ints") {
				return
			}
			nSort++
			onContainers := false
			for _, a := range call.Call.Args {
				if isContainerSlice(unwrap(a).Type()) {
					onContainers = true
				}
			}
			if !onContainers {
				return
			}
			nCont++
			c.Check("a container list is only ever sorted stably: "+stableFnName(fn), call.Pos(), strings.Contains(name, "Stable"),
				"the injector sorts a container list with "+pp+"."+name+", which is not stable: user containers all compare equal under a ranking of the injected ones, and an unstable sort permutes them (Go's pdqsort does as soon as the list has more than 12 elements) - the pod's own init containers run in a different order than the user wrote")
		})
	}
	c.Check("sorting calls in the injector are recognised (positive control)", token.NoPos, nSort >= 1, "no call of a sorting routine found in pkg/kube/inject; the matcher no longer recognises them")
	c.Infof("sorting calls: %d, on container lists: %d", nSort, nCont)
	c.Floor(1)
}

// C19-R8: the decision is taken on the normalised pod. Pods created by controllers arrive without metadata.namespace; the
// webhook fills it in from the admission request, and injectRequired reads the namespace from the pod's own metadata
// (ignored namespaces, namespace policy). In Webhook.inject every path to the injectRequired call passes the
// "pod namespace is empty" test that guards the defaulting store (and the store takes the request's namespace).
func c19r8(c *Ctx) {
	p := c.P
	fn := p.Func(pkgInject, "Webhook", "inject")
	ir := p.FuncObj(pkgInject, "", "injectRequired")
	isNsTest := func(ins ssa.Instruction) bool {
		b, ok := ins.(*ssa.BinOp)
		if !ok || (b.Op != token.EQL && b.Op != token.NEQ) {
			return false
		}
		for _, pr := range [][2]ssa.Value{{b.X, b.Y}, {b.Y, b.X}} {
			if f := fieldOfLoad(pr[0]); f != nil && f.Name() == "Namespace" {
				if s, ok := constString(pr[1]); ok && s == "" {
					return true
				}
			}
		}
		return false
	}
	calls := callsIn(fn, ir)
	c.Check("Webhook.inject calls injectRequired", fn.Pos(), len(calls) >= 1, "no call of injectRequired in Webhook.inject")
	for _, call := range calls {
		hit := pathAvoiding(fn, nil, deepMust(isNsTest, 1), func(ins ssa.Instruction) bool { return ins == call.(ssa.Instruction) })
		c.Check("the injection decision is taken after the pod's namespace was defaulted from the request", call.Pos(), hit == nil,
			"injectRequired can be reached before the pod's empty metadata.namespace was filled in from the admission request: for controller-created pods the ignored-namespace and namespace-policy checks then compare against \"\", so a pod in kube-system is injected (and the same pod with its namespace spelled out is not - same inputs, different decision)")
	}
	// the defaulting store takes the request's namespace
	n := 0
	countStores := func(f *ssa.Function, fromParam func(*ssa.Parameter) bool) {
		eachInstr(f, func(ins ssa.Instruction) {
			st, ok := ins.(*ssa.Store)
			if !ok {
				return
			}
			fa, ok := st.Addr.(*ssa.FieldAddr)
			if !ok || fieldVar(fa.X.Type(), fa.Field).Name() != "Namespace" {
				return
			}
			if f := fieldOfLoad(st.Val); f != nil && f.Name() == "Namespace" {
				n++
			}
			if par, ok := st.Val.(*ssa.Parameter); ok && fromParam != nil && fromParam(par) {
				n++
			}
		})
	}
	countStores(fn, nil)
	for _, h := range helperCalls(fn) {
		h := h
		countStores(h.callee, func(par *ssa.Parameter) bool {
			pi := paramIndex(h.callee, par)
			args := h.site.Common().Args
			if pi < 0 || pi >= len(args) {
				return false
			}
			f := fieldOfLoad(args[pi])
			return f != nil && f.Name() == "Namespace"
		})
	}
	c.Check("the pod's namespace is defaulted from the request", fn.Pos(), n >= 1, "no store pod.Namespace = req.Namespace in Webhook.inject")
	c.Floor(3)
}

// C19-R9: the injection decision's global inputs are never edited. injectRequired reads package-level sets
// (IgnoredNamespaces ...); Insert / Delete / Merge / *InPlace on a sets.Set edit the receiver, so a caller that wants a
// variant must copy first. Nowhere in the module is a mutating set method called with a package-level variable of
// pkg/kube/inject as its receiver (and no map update / delete stores into one). Positive control: the globals are read.
func c19r9(c *Ctx) {
	p := c.P
	isInjectGlobal := func(v ssa.Value) *ssa.Global {
		u, ok := v.(*ssa.UnOp)
		if !ok || u.Op != token.MUL {
			return nil
		}
		g, ok := u.X.(*ssa.Global)
		if !ok || g.Pkg == nil || g.Pkg.Pkg.Path() != istioMod+"/"+pkgInject {
			return nil
		}
		if _, isMap := g.Type().(*types.Pointer).Elem().Underlying().(*types.Map); !isMap {
			return nil
		}
		return g
	}
	mut := func(n string) bool {
		return strings.HasPrefix(n, "Insert") || strings.HasPrefix(n, "Delete") || n == "Merge" || strings.HasSuffix(n, "InPlace")
	}
	nReads := 0
	for _, fn := range p.AllFuncs {
		if !isIstioFunc(fn) || isWrapperFn(fn) || len(fn.Blocks) == 0 || strings.HasSuffix(p.Fset.Position(fn.Pos()).Filename, "_test.go") {
			continue
		}
		if fn.Name() == "init" && funcPkgPath(fn) == istioMod+"/"+pkgInject {
			continue // the initialiser builds them
		}
		eachInstr(fn, func(ins ssa.Instruction) {
			switch x := ins.(type) {
			case *ssa.UnOp:
				if isInjectGlobal(x) != nil {
					nReads++
				}
			case *ssa.Call:
				if len(x.Call.Args) == 0 {
					return
				}
				g := isInjectGlobal(x.Call.Args[0])
				if g == nil {
					return
				}
				o := calleeObj(x)
				if o == nil || !mut(o.Name()) {
					return
				}
				c.Check("global inputs of the injection decision are not edited: "+g.Name()+" in "+stableFnName(fn), x.Pos(), false,
					"the package-level set inject."+g.Name()+" is the receiver of "+o.Name()+", which edits it in place: the set is an input of injectRequired (never-inject namespaces), so after this code ran the same pod gets a different injection decision - which pods in kube-system are injected depends on which controllers this replica has started")
			case *ssa.MapUpdate:
				if g := isInjectGlobal(x.Map); g != nil {
					c.Check("global inputs of the injection decision are not edited: "+g.Name()+" in "+stableFnName(fn), x.Pos(), false,
						"a map update stores into the package-level set inject."+g.Name()+", an input of the injection decision")
				}
			}
		})
	}
	c.Check("package-level sets of pkg/kube/inject are read (positive control)", token.NoPos, nReads >= 2, fmt.Sprintf("%d reads of package-level maps of pkg/kube/inject found", nReads))
	c.Floor(1)
}
