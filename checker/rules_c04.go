package main

import (
	"os"
	"go/token"
	"go/types"
	"strings"

	"golang.org/x/tools/go/ssa"
)

const pkgDiscovery = "github.com/envoyproxy/go-control-plane/envoy/service/discovery/v3"

func init() {
	register(&PropDef{
		ID: "C04",
		Clauses: []string{
			"R1 WatchedResource.NonceSent is written only in xds.Send / Connection.sendDelta, and only on the err==nil edge of the stream Send",
			"R2 in both ACK/NACK classifiers every non-false return is outside the error_detail branch and lies under {no previous record, empty nonce, nonce matches}: NACK and stale nonce stay silent",
			"R3 every reader of WatchedResource.AlwaysRespond resets it to false on every path (no response loop)",
			"R4a every update callback handed to UpdateWatchedResource either nil-checks its parameter before dereferencing it or runs only after a non-nil GetWatchedResource for the same type (no crash on a request for a never-watched type)",
			"R5 deltaWatchedResources' change flag is not derived from set cardinality alone (a same-size swap of names is a change)",
			"R4b on the request-handling layer no (pointer, error) call has its error discarded and its pointer dereferenced without a nil test",
		},
		NotDecided: "request sequences (NACK then subscribe, ACK racing a push), liveness, equality of the recorded subscription with the client's; crash-freedom of generators on arbitrary config",
		Rules: []Rule{
			{"C04-R1", "nonce recorded only after a successful send", c04r1},
			{"C04-R2", "silent on NACK and stale nonce", c04r2},
			{"C04-R3", "AlwaysRespond reset by every reader", c04r3},
			{"C04-R5", "subscription-change detection is membership-based", c04r5},
			{"C04-R4a", "UpdateWatchedResource callbacks tolerate a nil record", c04r4a},
			{"C04-R4b", "discarded error then dereference on the request layer", c04r4b},
			{"C04-R4c", "a watch record that may be absent is dereferenced only after a nil test", c04r4c},
			{"C04-R6", "every request of a real type reaches the classifier", c04r6},
			{"C04-R7", "a state-of-the-world unsubscribe is honoured whatever its nonce", c04r7},
			{"C04-R8", "the recorded subscription is replaced, never edited in place", c04r8},
		},
	})
}

// sameValue: structural equality of two SSA values (go/ssa performs no CSE).
func sameValue(a, b ssa.Value) bool {
	if a == b {
		return true
	}
	switch x := a.(type) {
	case *ssa.UnOp:
		y, ok := b.(*ssa.UnOp)
		return ok && x.Op == y.Op && sameValue(x.X, y.X)
	case *ssa.FieldAddr:
		y, ok := b.(*ssa.FieldAddr)
		return ok && x.Field == y.Field && sameValue(x.X, y.X)
	case *ssa.Field:
		y, ok := b.(*ssa.Field)
		return ok && x.Field == y.Field && sameValue(x.X, y.X)
	case *ssa.Const:
		y, ok := b.(*ssa.Const)
		return ok && x.Value == y.Value && types.Identical(x.Type(), y.Type())
	}
	return false
}

func classifierFuncs(p *Prog) []*ssa.Function {
	return []*ssa.Function{p.Func(pkgXdsLib, "", "ShouldRespond"), p.Func(pkgXds, "", "shouldRespondDelta")}
}

// namedField finds a field by name on a (pointer to) struct type of value v.
func loadOfFieldNamed(v ssa.Value, name string) bool {
	fv := fieldOfLoad(v)
	return fv != nil && fv.Name() == name
}

func c04r1(c *Ctx) {
	p := c.P
	nonceSent := p.Field(pkgXdsLib, "WatchedResource", "NonceSent")
	allowedOuter := map[string]bool{
		"istio.io/istio/pkg/xds.Send":                                   true,
		"(*istio.io/istio/pilot/pkg/xds.Connection).sendDelta":          true,
	}
	n := 0
	for _, fn := range p.AllFuncs {
		for _, st := range storesTo(fn, nonceSent) {
			n++
			outer := fn
			for outer.Parent() != nil {
				outer = outer.Parent()
			}
			ok := allowedOuter[outer.String()]
			c.Check("NonceSent writer:"+shortFn(fn), st.Pos(), ok, "WatchedResource.NonceSent is written outside xds.Send/sendDelta: a nonce can be recorded for a response that was never sent, after which the client's requests look stale forever")
			if !ok || fn.Parent() == nil {
				if ok {
					c.Check("NonceSent store in callback:"+shortFn(fn), st.Pos(), false, "expected the store inside the UpdateWatchedResource callback")
				}
				continue
			}
			// the closure is created under the err == nil edge, where err is the result of the stream send
			var mk *ssa.MakeClosure
			eachInstr(outer, func(ins ssa.Instruction) {
				if m, ok := ins.(*ssa.MakeClosure); ok && m.Fn == ssa.Value(fn) {
					mk = m
				}
			})
			if mk == nil {
				c.Check("NonceSent guard:"+shortFn(outer), st.Pos(), false, "callback creation site not found in "+shortFn(outer))
				continue
			}
			guarded := false
			for _, i := range allIfs(outer) {
				x, eq, ok := nilCmp(i.Cond)
				if !ok {
					continue
				}
				if !isSendError(x) {
					continue
				}
				idx := 1
				if eq {
					idx = 0
				}
				if underEdges(outer, mk.Block(), []Edge{{i.Block(), idx}}) {
					guarded = true
				}
			}
			c.Check("NonceSent guard:"+shortFn(outer), mk.Pos(), guarded, "the nonce is recorded on a path that is not dominated by `err == nil` of the stream Send")
		}
	}
	c.Floor(4)
}

// isSendError: v is the error result of a call that performs the stream Send (directly or through a local closure).
func isSendError(v ssa.Value) bool {
	call, ok := v.(*ssa.Call)
	if !ok {
		return false
	}
	if call.Call.IsInvoke() && call.Call.Method.Name() == "Send" {
		return true
	}
	var f *ssa.Function
	switch x := call.Call.Value.(type) {
	case *ssa.MakeClosure:
		f, _ = x.Fn.(*ssa.Function)
	case *ssa.Function:
		f = x
	}
	if f == nil {
		return false
	}
	found := false
	eachInstr(f, func(ins ssa.Instruction) {
		if ci, ok := ins.(ssa.CallInstruction); ok && ci.Common().IsInvoke() && ci.Common().Method.Name() == "Send" {
			found = true
		}
	})
	return found
}

func c04r2(c *Ctx) {
	p := c.P
	for _, fn := range classifierFuncs(p) {
		name := fn.Name()
		// locate predicates
		var errEdgesNonNil, errEdgesNil []Edge
		var allowed []Edge // edges under which a positive answer is legitimate
		var mismatchTrue []Edge
		var errIf *ssa.If
		for _, i := range allIfs(fn) {
			if x, eq, ok := nilCmp(i.Cond); ok {
				if loadOfFieldNamed(x, "ErrorDetail") {
					errIf = i
					if eq {
						errEdgesNil = append(errEdgesNil, Edge{i.Block(), 0})
						errEdgesNonNil = append(errEdgesNonNil, Edge{i.Block(), 1})
					} else {
						errEdgesNonNil = append(errEdgesNonNil, Edge{i.Block(), 0})
						errEdgesNil = append(errEdgesNil, Edge{i.Block(), 1})
					}
					continue
				}
				if call, isCall := x.(*ssa.Call); isCall {
					if o := calleeObj(call); o != nil && o.Name() == "GetWatchedResource" {
						idx := 1
						if eq {
							idx = 0
						}
						allowed = append(allowed, Edge{i.Block(), idx})
					}
				}
				continue
			}
			v, neg := stripNot(i.Cond)
			// "first request" spelled as a helper of the package: every non-false answer of the helper lies under its own
			// empty-nonce / no-record edge, or is such a comparison itself
			if hc, isCall := v.(*ssa.Call); isCall {
				if sc := hc.Call.StaticCallee(); sc != nil && len(sc.Blocks) > 0 && funcPkgPath(sc) == funcPkgPath(fn) && impliesFirstRequest(sc) {
					idx := 0
					if neg {
						idx = 1
					}
					allowed = append(allowed, Edge{i.Block(), idx})
				}
				continue
			}
			b, ok := v.(*ssa.BinOp)
			if !ok || (b.Op != token.EQL && b.Op != token.NEQ) {
				continue
			}
			isNonce := func(v ssa.Value) bool { return loadOfFieldNamed(v, "ResponseNonce") }
			isSent := func(v ssa.Value) bool { return loadOfFieldNamed(v, "NonceSent") }
			isEmpty := func(v ssa.Value) bool { s, ok := constString(v); return ok && s == "" }
			eqOnTrue := (b.Op == token.EQL) != neg
			switch {
			case (isNonce(b.X) && isEmpty(b.Y)) || (isNonce(b.Y) && isEmpty(b.X)):
				idx := 1
				if eqOnTrue {
					idx = 0
				}
				allowed = append(allowed, Edge{i.Block(), idx})
			case (isNonce(b.X) && isSent(b.Y)) || (isNonce(b.Y) && isSent(b.X)):
				idxEq := 1
				if eqOnTrue {
					idxEq = 0
				}
				allowed = append(allowed, Edge{i.Block(), idxEq})
				mismatchTrue = append(mismatchTrue, Edge{i.Block(), 1 - idxEq})
			}
		}
		c.Check(name+":error_detail test present", fn.Pos(), errIf != nil, "no test of request.ErrorDetail found")
		c.Check(name+":nonce comparison present", fn.Pos(), len(mismatchTrue) >= 1, "no comparison of the request nonce with NonceSent in the classifier")
		if errIf == nil {
			continue
		}
		// every return
		eachInstr(fn, func(ins ssa.Instruction) {
			r, ok := ins.(*ssa.Return)
			if !ok || len(r.Results) == 0 {
				return
			}
			if b, isC := constBool(retVal(r, 0)); isC && !b {
				return
			}
			// a positive (or computed) answer
			ok1 := underEdges(fn, r.Block(), errEdgesNil)
			c.Check(name+":positive answer only without error_detail", r.Pos(), ok1, "a response can be triggered on a path that does not pass the `ErrorDetail == nil` edge: a NACK is answered (request/response loop)")
			ok2 := underEdges(fn, r.Block(), allowed)
			c.Check(name+":positive answer only on init/empty-nonce/matching-nonce", r.Pos(), ok2, "a response can be triggered although a previous record exists and the request nonce differs from the nonce sent: stale requests are answered")
		})
		// the recorded subscription is only rewritten for a current request: every store to the record's ResourceNames
		// (in the classifier or in a function literal it creates) lies under an init / empty-nonce / matching-nonce edge
		{
			var sites []ssa.Instruction
			collect := func(f *ssa.Function, at ssa.Instruction) {
				eachInstr(f, func(ins ssa.Instruction) {
					st, ok := ins.(*ssa.Store)
					if !ok {
						return
					}
					if fa, ok := st.Addr.(*ssa.FieldAddr); ok && fieldVar(fa.X.Type(), fa.Field).Name() == "ResourceNames" {
						if at != nil {
							sites = append(sites, at)
						} else {
							sites = append(sites, ins)
						}
					}
				})
			}
			collect(fn, nil)
			eachInstr(fn, func(ins ssa.Instruction) {
				if mk, ok := ins.(*ssa.MakeClosure); ok {
					if lit, ok := mk.Fn.(*ssa.Function); ok {
						// a literal that compares the nonce itself is judged on its own edges
						hasOwn := false
						for _, i := range allIfs(lit) {
							v, _ := stripNot(i.Cond)
							if b, ok := v.(*ssa.BinOp); ok && (loadOfFieldNamed(b.X, "NonceSent") || loadOfFieldNamed(b.Y, "NonceSent")) {
								hasOwn = true
							}
						}
						if !hasOwn {
							collect(lit, ins)
						} else {
							own := nonceMatchEdges(lit)
							eachInstr(lit, func(j ssa.Instruction) {
								st, ok := j.(*ssa.Store)
								if !ok {
									return
								}
								if fa, ok := st.Addr.(*ssa.FieldAddr); ok && fieldVar(fa.X.Type(), fa.Field).Name() == "ResourceNames" {
									c.Check(name+":a rejection does not rewrite the recorded subscription", j.Pos(), !underEdges(fn, ins.Block(), errEdgesNonNil),
										"the recorded ResourceNames is rewritten on the NACK path: a NACK rejects what was sent, it is not a subscription change. Names first seen on a NACK become the baseline for `added = requested - recorded`, so the following request that really asks for them finds nothing added and is not answered")
									c.Check(name+":subscription record rewritten only for a current request", j.Pos(), underEdges(lit, j.Block(), own),
										"the recorded ResourceNames is overwritten inside the update callback before the request nonce was compared with the nonce last sent: a stale request (raced by a push) replaces the record, the following ACK then shows no added names, and the added resource is never sent")
								}
							})
						}
					}
				}
			})
			for _, site := range sites {
				c.Check(name+":a rejection does not rewrite the recorded subscription", site.Pos(), !underEdges(fn, site.Block(), errEdgesNonNil),
					"the recorded ResourceNames is rewritten on the NACK path: a NACK rejects what was sent, it is not a subscription change. Names first seen on a NACK become the baseline for `added = requested - recorded`, so the following request that really asks for them finds nothing added and is not answered")
				c.Check(name+":subscription record rewritten only for a current request", site.Pos(), underEdges(fn, site.Block(), allowed),
					"the recorded ResourceNames can be overwritten on a path that has not established that the request is a first request or carries the nonce last sent: a stale request (raced by a push) replaces the record, the following ACK then shows no added names, and the added resource is never sent")
			}
		}
		// under the NACK edge / the mismatch edge nothing but `false` is returned
		var matchEdges []Edge // match edges of the nonce==NonceSent comparisons
		for _, e := range mismatchTrue {
			matchEdges = append(matchEdges, Edge{e.From, 1 - e.Idx})
		}
		for what, edges := range map[string][]Edge{"NACK": errEdgesNonNil, "stale nonce": mismatchTrue} {
			if len(edges) == 0 {
				continue
			}
			seen := map[*ssa.BasicBlock]bool{}
			var st []*ssa.BasicBlock
			for _, e := range edges {
				st = append(st, e.To())
			}
			okAll := true
			var pos token.Pos = fn.Pos()
			for len(st) > 0 {
				b := st[len(st)-1]
				st = st[:len(st)-1]
				if seen[b] {
					continue
				}
				seen[b] = true
				for _, ins := range b.Instrs {
					if r, ok := ins.(*ssa.Return); ok && len(r.Results) > 0 {
						if bv, isC := constBool(retVal(r, 0)); !isC || bv {
							okAll = false
							pos = r.Pos()
						}
					}
				}
				for k, sx := range b.Succs {
					skip := false
					if what == "stale nonce" {
						// a later comparison of the same two values cannot take its match edge on this path
						for _, m := range matchEdges {
							if m.From == b && m.Idx == k {
								skip = true
							}
						}
					}
					if !skip {
						st = append(st, sx)
					}
				}
			}
			c.Check(name+":"+what+" branch returns false only", pos, okAll, "the "+what+" branch can reach a positive answer")
		}
	}
	c.Floor(12)
}

func c04r3(c *Ctx) {
	p := c.P
	ar := p.Field(pkgXdsLib, "WatchedResource", "AlwaysRespond")
	n := 0
	for _, fn := range p.AllFuncs {
		eachInstr(fn, func(ins ssa.Instruction) {
			u, ok := ins.(*ssa.UnOp)
			if !ok || u.Op != token.MUL {
				return
			}
			fa, ok := u.X.(*ssa.FieldAddr)
			if !ok || fieldVar(fa.X.Type(), fa.Field) != ar {
				return
			}
			n++
			bad := pathAvoiding(fn, u, func(i ssa.Instruction) bool {
				s, ok := i.(*ssa.Store)
				if !ok {
					return false
				}
				fa2, ok := s.Addr.(*ssa.FieldAddr)
				if !ok || fieldVar(fa2.X.Type(), fa2.Field) != ar || !sameValue(fa2.X, fa.X) {
					return false
				}
				b, isC := constBool(s.Val)
				return isC && !b
			}, isReturn)
			c.Check("AlwaysRespond reader:"+shortFn(fn), u.Pos(), bad == nil, "AlwaysRespond is read but not reset to false on every path: the forced response repeats on every ACK (request/response loop)")
		})
	}
	alwaysRespondForces(c)
	c.Floor(6)
}

// nonNilAt: is value v known non-nil in block b (structurally)?
func nonNilAt(fn *ssa.Function, v ssa.Value, b *ssa.BasicBlock, depth int) bool {
	if depth > 4 {
		return false
	}
	switch x := v.(type) {
	case *ssa.Alloc, *ssa.MakeMap, *ssa.MakeSlice, *ssa.MakeClosure, *ssa.MakeInterface, *ssa.FieldAddr, *ssa.IndexAddr:
		return true
	case *ssa.Phi:
		for i, e := range x.Edges {
			pred := x.Block().Preds[i]
			if nonNilAt(fn, e, pred, depth+1) {
				continue
			}
			// the edge pred -> phi block is itself the non-nil edge of a test on e
			if iff := ifOf(pred); iff != nil {
				if y, eq, ok := nilCmp(iff.Cond); ok && y == e {
					idx := 1
					if !eq {
						idx = 0
					}
					if pred.Succs[idx] == x.Block() {
						continue
					}
				}
			}
			return false
		}
		return true
	}
	var edges []Edge
	for _, i := range allIfs(fn) {
		if y, eq, ok := nilCmp(i.Cond); ok && (y == v || sameValue(y, v)) {
			idx := 1
			if !eq {
				idx = 0
			}
			edges = append(edges, Edge{i.Block(), idx})
		}
	}
	return underEdges(fn, b, edges)
}

func c04r4a(c *Ctx) {
	p := c.P
	n := 0
	for _, fn := range p.AllFuncs {
		if strings.HasSuffix(p.pos(fn.Pos()), "_test.go") {
			continue
		}
		eachInstr(fn, func(ins ssa.Instruction) {
			ci, ok := ins.(ssa.CallInstruction)
			if !ok {
				return
			}
			o := calleeObj(ins)
			if o == nil || o.Name() != "UpdateWatchedResource" {
				return
			}
			cc := ci.Common()
			args := cc.Args
			var typeArg, fnArg ssa.Value
			if cc.IsInvoke() {
				if len(args) != 2 {
					return
				}
				typeArg, fnArg = args[0], args[1]
			} else {
				if len(args) != 3 {
					return
				}
				typeArg, fnArg = args[1], args[2]
			}
			lit := litOfFuncValue(fnArg)
			if lit == nil {
				if fn.Name() == "UpdateWatchedResource" {
					return // delegation wrapper passing its own parameter through
				}
				n++
				c.Check("callback resolvable:"+shortFn(fn), ins.Pos(), false, "UpdateWatchedResource callback is not a function literal; cannot decide nil-safety")
				return
			}
			n++
			// (1) call site dominated by a non-nil GetWatchedResource(typeArg) result
			siteSafe := false
			for _, nt := range nilTests(fn) {
				call, isCall := nt.X.(*ssa.Call)
				if !isCall {
					continue
				}
				if o2 := calleeObj(call); o2 == nil || o2.Name() != "GetWatchedResource" {
					continue
				}
				ga := call.Call.Args
				if len(ga) == 0 || !sameValue(ga[len(ga)-1], typeArg) {
					continue
				}
				if underEdges(fn, ins.Block(), []Edge{{nt.If.Block(), nt.NonNilIdx}}) {
					siteSafe = true
				}
			}
			// (2) every dereference of the parameter inside the literal is nil-guarded
			prm := lit.Params[0]
			var badPos token.Pos
			bad := false
			eachInstr(lit, func(i2 ssa.Instruction) {
				var base ssa.Value
				switch x := i2.(type) {
				case *ssa.FieldAddr:
					base = x.X
				case *ssa.Field:
					base = x.X
				case *ssa.UnOp:
					if x.Op == token.MUL {
						base = x.X
					}
				default:
					return
				}
				if !derivesFromParam(base, prm, 0) {
					return
				}
				if _, isFA := base.(*ssa.FieldAddr); isFA {
					return
				}
				if !nonNilAt(lit, base, i2.Block(), 0) {
					bad = true
					badPos = i2.Pos()
				}
			})
			ok2 := siteSafe || !bad
			pos := ins.Pos()
			det := ""
			if !ok2 {
				pos = badPos
				det = "the callback dereferences its *WatchedResource parameter without a nil test, and the call is not preceded by a non-nil GetWatchedResource for the same type: Proxy.UpdateWatchedResource passes nil for a type that was never subscribed (e.g. first request is a NACK) -> nil dereference, the stream handler has no recovery"
			}
			c.Check("callback nil-safe:"+shortFn(fn), pos, ok2, det)
		})
	}
	c.Floor(4)
}

func derivesFromParam(v ssa.Value, prm *ssa.Parameter, depth int) bool {
	if v == ssa.Value(prm) {
		return true
	}
	if depth > 4 {
		return false
	}
	if ph, ok := v.(*ssa.Phi); ok {
		for _, e := range ph.Edges {
			if derivesFromParam(e, prm, depth+1) {
				return true
			}
		}
	}
	return false
}

// c04r4b: `p, _ := f()` where f returns (*T, error), then p is dereferenced with no nil test.
func c04r4b(c *Ctx) {
	p := c.P
	scope := map[string]bool{istioMod + "/" + pkgXds: true, istioMod + "/" + pkgXdsLib: true}
	errT := types.Universe.Lookup("error").Type()
	n, sites := 0, 0
	for _, fn := range p.AllFuncs {
		root := fn
		for root.Parent() != nil {
			root = root.Parent()
		}
		if root.Pkg == nil || (!scope[root.Pkg.Pkg.Path()] && os.Getenv("VERIF_R4B_WIDE") == "") {
			continue
		}
		if strings.HasSuffix(p.Fset.Position(fn.Pos()).Filename, "_test.go") || strings.Contains(root.Pkg.Pkg.Path(), "/test") {
			continue
		}
		n++
		eachInstr(fn, func(ins ssa.Instruction) {
			call, ok := ins.(*ssa.Call)
			if !ok {
				return
			}
			tup, ok := call.Type().(*types.Tuple)
			if !ok || tup.Len() != 2 || !types.Identical(tup.At(1).Type(), errT) {
				return
			}
			if _, isPtr := tup.At(0).Type().Underlying().(*types.Pointer); !isPtr {
				return
			}
			var val *ssa.Extract
			errUsed := false
			for _, r := range *call.Referrers() {
				if ex, ok := r.(*ssa.Extract); ok {
					if ex.Index == 1 {
						if hasRealReferrers(ex) {
							errUsed = true
						}
					} else {
						val = ex
					}
				}
			}
			if errUsed || val == nil {
				return
			}
			sites++
			// dereference without nil test
			var badPos token.Pos
			bad := false
			for _, r := range *val.Referrers() {
				switch x := r.(type) {
				case *ssa.FieldAddr:
					if x.X == ssa.Value(val) && !nonNilAt(fn, val, x.Block(), 0) {
						bad, badPos = true, x.Pos()
					}
				case *ssa.UnOp:
					if x.Op == token.MUL && !nonNilAt(fn, val, x.Block(), 0) {
						bad, badPos = true, x.Pos()
					}
				case ssa.CallInstruction:
					// passed on: a callee outside istio that takes the pointer (e.g. (*ServeMux).Handler(req)) will dereference it
					cc := x.Common()
					if f := cc.StaticCallee(); f != nil && !isIstioFunc(f) && !nonNilAt(fn, val, r.Block(), 0) {
						bad, badPos = true, r.Pos()
					}
				}
			}
			callee := "?"
			if o := calleeObj(call); o != nil {
				callee = o.FullName()
			}
			pos := call.Pos()
			det := ""
			if bad {
				pos = badPos
				det = "the error of " + callee + " is discarded and its pointer result is used without a nil test; on the request path the argument is client-chosen, so a malformed value crashes the handler"
			}
			c.Check("discarded error:"+shortFn(fn)+":"+callee, pos, !bad, det)
		})
	}
	c.Stat("functions_in_scope", n)
	c.Stat("discarded_error_sites", sites)
	// the rule's expected count of *violations* is zero; the instance count is the number of discarded-error pointer sites
	c.Check("scope:functions analysed", token.NoPos, n > 300, "request-layer packages resolved to too few functions")
}

// c04r5: the `changed` result of deltaWatchedResources decides whether a delta request is treated as a subscription
// change (answered) or as an ACK (silent). Cardinality is not membership: a request that subscribes N and unsubscribes N
// names keeps len() equal. The value must not be computed from len() results alone.
func c04r5(c *Ctx) {
	p := c.P
	fn := p.Func(pkgXds, "", "deltaWatchedResources")
	n := 0
	eachInstr(fn, func(ins ssa.Instruction) {
		r, ok := ins.(*ssa.Return)
		if !ok || len(r.Results) < 3 {
			return
		}
		n++
		lenLeaf, memberLeaf := false, false
		seen := map[ssa.Value]bool{}
		var walk func(v ssa.Value, d int)
		walk = func(v ssa.Value, d int) {
			if v == nil || seen[v] || d > 12 {
				return
			}
			seen[v] = true
			switch x := v.(type) {
			case *ssa.Phi:
				for _, e := range x.Edges {
					walk(e, d+1)
				}
			case *ssa.BinOp:
				walk(x.X, d+1)
				walk(x.Y, d+1)
			case *ssa.UnOp:
				walk(x.X, d+1)
			case *ssa.Extract:
				walk(x.Tuple, d+1)
			case *ssa.Call:
				if bi, ok := x.Call.Value.(*ssa.Builtin); ok && bi.Name() == "len" {
					lenLeaf = true
					return
				}
				memberLeaf = true
			}
		}
		walk(retVal(r, 2), 0)
		c.Check("deltaWatchedResources:changed is not cardinality-only", r.Pos(), !(lenLeaf && !memberLeaf),
			"the subscription-changed flag is computed from len() of the name set only: a request that swaps names (subscribe N, unsubscribe N) is classified as a plain ACK and never answered")
	})
	c.Check("deltaWatchedResources:returns found", fn.Pos(), n >= 1, "no 3-result return found")
}

// alwaysRespondForces (shared by C04-R3 and C05-R6).
func alwaysRespondForces(c *Ctx) {
	p := c.P
	ar := p.Field(pkgXdsLib, "WatchedResource", "AlwaysRespond")
	// R3b: once AlwaysRespond was read as true (copied into a local by the update callback), the classifier must answer
	// positively and un-narrowed: every negative or narrowed return after the update lies under the `local == false` edge.
	for _, fn := range classifierFuncs(p) {
		var cell *ssa.Alloc
		var mkc *ssa.MakeClosure
		eachInstr(fn, func(ins ssa.Instruction) {
			mk, ok := ins.(*ssa.MakeClosure)
			if !ok {
				return
			}
			lit, _ := mk.Fn.(*ssa.Function)
			if lit == nil {
				return
			}
			eachInstr(lit, func(i2 ssa.Instruction) {
				st, ok := i2.(*ssa.Store)
				if !ok {
					return
				}
				fv, ok := st.Addr.(*ssa.FreeVar)
				if !ok {
					return
				}
				if f := fieldOfLoad(st.Val); f != ar && !helperReturnsField(st.Val, lit, ar) {
					return
				}
				for k, x := range lit.FreeVars {
					if x == fv && k < len(mk.Bindings) {
						if a, ok := mk.Bindings[k].(*ssa.Alloc); ok {
							cell, mkc = a, mk
						}
					}
				}
			})
		})
		if cell == nil {
			c.Check(fn.Name()+":AlwaysRespond copied to a local", fn.Pos(), false, "the classifier no longer reads AlwaysRespond into a local through its update callback")
			continue
		}
		falseEdges := edgesWhere(fn, func(v ssa.Value) bool {
			u, ok := v.(*ssa.UnOp)
			return ok && u.Op == token.MUL && u.X == ssa.Value(cell)
		}, false)
		c.Check(fn.Name()+":AlwaysRespond local is tested", fn.Pos(), len(falseEdges) >= 1, "the copied AlwaysRespond flag is never tested")
		// returns reachable after the update
		seen := map[*ssa.BasicBlock]bool{}
		st := []*ssa.BasicBlock{mkc.Block()}
		for len(st) > 0 {
			b := st[len(st)-1]
			st = st[:len(st)-1]
			if seen[b] {
				continue
			}
			seen[b] = true
			for _, ins := range b.Instrs {
				r, ok := ins.(*ssa.Return)
				if !ok {
					continue
				}
				positive := false
				if bv, isC := constBool(retVal(r, 0)); isC && bv {
					positive = true
				}
				narrowed := false
				if len(r.Results) > 1 {
					rv := retVal(r, 1)
					if globalOf(rv) != "emptyResourceDelta" {
						narrowed = true
					}
				}
				if positive && !narrowed {
					continue
				}
				ok2 := underEdges(fn, r.Block(), falseEdges)
				c.Check(fn.Name()+":negative/narrowed answer only when AlwaysRespond was false", r.Pos(), ok2, "after AlwaysRespond was read (and cleared) a negative or narrowed answer is reachable without passing the `alwaysRespond == false` edge: the forced response that lets the client finish warming is lost for good")
			}
			st = append(st, b.Succs...)
		}
	}
}


// C04-R4c: GetWatchedResource returns nil for a type the stream never subscribed to (a first request, a NACK queued by
// Envoy for a new stream, a non-conformant client). Every dereference of its result - in the calling function, or in a
// callee that receives it as an argument (one level) - lies under the non-nil edge of a test of that value.
func c04r4c(c *Ctx) {
	p := c.P
	pkgs := map[string]bool{istioMod + "/" + pkgXds: true, istioMod + "/" + pkgXdsLib: true}
	n := 0
	derefsGuarded := func(fn *ssa.Function, r ssa.Value) (bool, token.Pos) {
		var nonNil []Edge
		for _, nt := range nilTests(fn) {
			if nt.X != r {
				continue
			}
			nonNil = append(nonNil, Edge{nt.If.Block(), nt.NonNilIdx})
		}
		okAll, bad := true, token.NoPos
		if r.Referrers() == nil {
			return true, bad
		}
		for _, ref := range *r.Referrers() {
			var base ssa.Value
			switch x := ref.(type) {
			case *ssa.FieldAddr:
				base = x.X
			case *ssa.UnOp:
				if x.Op == token.MUL {
					base = x.X
				}
			}
			if base != r {
				continue
			}
			if !underEdges(fn, ref.Block(), nonNil) {
				okAll, bad = false, ref.Pos()
			}
		}
		return okAll, bad
	}
	for _, fn := range p.AllFuncs {
		if !pkgs[funcPkgPath(fn)] || strings.HasSuffix(p.Fset.Position(fn.Pos()).Filename, "_test.go") {
			continue
		}
		eachInstr(fn, func(ins ssa.Instruction) {
			call, ok := ins.(*ssa.Call)
			if !ok {
				return
			}
			name := ""
			if call.Call.IsInvoke() {
				name = call.Call.Method.Name()
			} else if o := calleeObj(ins); o != nil {
				name = o.Name()
			}
			if name != "GetWatchedResource" {
				return
			}
			n++
			ok1, pos := derefsGuarded(fn, call)
			if !pos.IsValid() {
				pos = call.Pos()
			}
			c.Check("absent watch record not dereferenced:"+stableFnName(fn), pos, ok1, "the result of GetWatchedResource is dereferenced on a path that has not established it is non-nil: a request (e.g. a NACK) for a type without a watch on this stream panics, and the stream goroutines do not recover, so istiod goes down")
			// handed to a callee: its parameter must be guarded the same way
			for _, ref := range *call.Referrers() {
				ci, ok := ref.(ssa.CallInstruction)
				if !ok {
					continue
				}
				callee := ci.Common().StaticCallee()
				if callee == nil || callee.Blocks == nil || !isIstioFunc(callee) {
					continue
				}
				if pos := ref.Block(); pos != nil {
					// already under a non-nil edge in the caller?
					var nonNil []Edge
					for _, i := range allIfs(fn) {
						if x, eq, ok := nilCmp(i.Cond); ok && x == ssa.Value(call) {
							idx := 0
							if eq {
								idx = 1
							}
							nonNil = append(nonNil, Edge{i.Block(), idx})
						}
					}
					if underEdges(fn, ref.Block(), nonNil) {
						continue
					}
				}
				for k, a := range ci.Common().Args {
					if a != ssa.Value(call) || k >= len(callee.Params) {
						continue
					}
					n++
					ok2, pos2 := derefsGuarded(callee, callee.Params[k])
					if !pos2.IsValid() {
						pos2 = ref.Pos()
					}
					c.Check("absent watch record not dereferenced:"+stableFnName(fn)+"->"+callee.Name(), pos2, ok2, "a possibly-nil watch record is passed to "+callee.Name()+", which dereferences the parameter on a path without a nil test")
				}
			}
		})
	}
	c.Check("GetWatchedResource call sites found", token.NoPos, n >= 5, "fewer call sites than confirmed by hand")
	c.Floor(6)
}


// nonceMatchEdges: edges of f under which the request nonce equals the recorded NonceSent, or is empty.
func nonceMatchEdges(f *ssa.Function) []Edge {
	var out []Edge
	for _, i := range allIfs(f) {
		v, neg := stripNot(i.Cond)
		b, ok := v.(*ssa.BinOp)
		if !ok || (b.Op != token.EQL && b.Op != token.NEQ) {
			continue
		}
		isNonce := func(v ssa.Value) bool { return loadOfFieldNamed(v, "ResponseNonce") }
		isSent := func(v ssa.Value) bool { return loadOfFieldNamed(v, "NonceSent") }
		isEmpty := func(v ssa.Value) bool { s, ok := constString(v); return ok && s == "" }
		if !((isNonce(b.X) && (isSent(b.Y) || isEmpty(b.Y))) || (isNonce(b.Y) && (isSent(b.X) || isEmpty(b.X)))) {
			continue
		}
		idx := 1
		if (b.Op == token.EQL) != neg {
			idx = 0
		}
		out = append(out, Edge{i.Block(), idx})
	}
	return out
}


// C04-R6: the classifiers (ShouldRespond / shouldRespondDelta) are the only place a request is applied to the recorded
// subscription. In processRequest / processDeltaRequest every path to a return passes the classifier call, except the
// early exits decided by the TYPE of the request alone (health check, debug types: tests of req.TypeUrl). An early
// return decided by other request content (e.g. "this delta request only unsubscribes, nothing to answer") drops the
// request's effect on the record: later pushes still send the dropped names and a re-subscription is never answered.
func c04r6(c *Ctx) {
	p := c.P
	for _, spec := range []struct{ fn, classifier string }{{"processRequest", "ShouldRespond"}, {"processDeltaRequest", "shouldRespondDelta"}} {
		fn := p.Func(pkgXds, "DiscoveryServer", spec.fn)
		isClassifier := func(ins ssa.Instruction) bool {
			o := calleeObj(ins)
			return o != nil && o.Name() == spec.classifier
		}
		n := 0
		eachInstr(fn, func(ins ssa.Instruction) {
			if isClassifier(ins) {
				n++
			}
		})
		c.Check(spec.fn+" calls the classifier", fn.Pos(), n == 1, "expected one call of "+spec.classifier)
		// edges decided by the type URL alone
		var typeEdges []Edge
		isTypeURL := func(v ssa.Value) bool {
			fv := fieldOfLoad(v)
			if fv != nil && fv.Name() == "TypeUrl" {
				return true
			}
			if call, ok := v.(*ssa.Call); ok && len(call.Call.Args) > 0 {
				if o := calleeObj(call); o != nil && o.Name() == "GetTypeUrl" {
					return true
				}
			}
			return false
		}
		for _, i := range allIfs(fn) {
			v, neg := stripNot(i.Cond)
			tIdx := 0
			if neg {
				tIdx = 1
			}
			switch x := v.(type) {
			case *ssa.BinOp:
				if (x.Op == token.EQL || x.Op == token.NEQ) && (isTypeURL(x.X) || isTypeURL(x.Y)) {
					idx := tIdx
					if x.Op == token.NEQ {
						idx = 1 - tIdx
					}
					typeEdges = append(typeEdges, Edge{i.Block(), idx})
				}
			case *ssa.Call:
				if o := calleeObj(x); o != nil && o.Pkg() != nil && o.Pkg().Path() == "strings" && len(x.Call.Args) > 0 && isTypeURL(x.Call.Args[0]) {
					typeEdges = append(typeEdges, Edge{i.Block(), tIdx})
				}
			}
		}
		bad, found := pathAvoidingE(fn.Blocks[0], nil, isClassifier, isReturn, typeEdges, nil)
		pos := fn.Pos()
		if bad != nil {
			pos = bad.Pos()
		}
		c.Check(spec.fn+": every request of a real type reaches "+spec.classifier, pos, !found,
			spec.fn+" can return before the request was classified on a path that is not decided by the request's type URL alone: the request is never applied to the recorded subscription (e.g. an unsubscribe is lost: the dropped names keep being pushed and a later re-subscription is treated as already known and not answered)")
	}
	c.Floor(4)
}


// litOfFuncValue resolves a function-typed argument to the function body it denotes: a literal, a named function, or
// the literal that a same-module factory returns on every path (`recordNackError(msg)`).
func litOfFuncValue(v ssa.Value) *ssa.Function {
	switch x := v.(type) {
	case *ssa.MakeClosure:
		f, _ := x.Fn.(*ssa.Function)
		return f
	case *ssa.Function:
		return x
	case *ssa.Call:
		sc := x.Call.StaticCallee()
		if sc == nil || !isIstioFunc(sc) || len(sc.Blocks) == 0 {
			return nil
		}
		var lit *ssa.Function
		for _, b := range sc.Blocks {
			r, ok := b.Instrs[len(b.Instrs)-1].(*ssa.Return)
			if !ok || len(r.Results) != 1 {
				continue
			}
			l := litOfFuncValue(retVal(r, 0))
			if l == nil || (lit != nil && lit != l) {
				return nil
			}
			lit = l
		}
		return lit
	}
	return nil
}

// helperReturnsField: v is (a result of) a call to a same-package helper whose corresponding result is a load of field f.
func helperReturnsField(v ssa.Value, from *ssa.Function, f *types.Var) bool {
	var call *ssa.Call
	idx := 0
	switch x := v.(type) {
	case *ssa.Call:
		call = x
	case *ssa.Extract:
		if cc, ok := x.Tuple.(*ssa.Call); ok {
			call, idx = cc, x.Index
		}
	}
	if call == nil {
		return false
	}
	sc := call.Call.StaticCallee()
	if sc == nil || len(sc.Blocks) == 0 || funcPkgPath(sc) != funcPkgPath(from) {
		return false
	}
	n := 0
	for _, b := range sc.Blocks {
		r, ok := b.Instrs[len(b.Instrs)-1].(*ssa.Return)
		if !ok || idx >= len(r.Results) {
			continue
		}
		n++
		if fieldOfLoad(retVal(r, idx)) != f {
			return false
		}
	}
	return n > 0
}

// C04-R7: an unsubscribe is honoured whatever its nonce. In state-of-the-world xDS "no resource names" for a non-wildcard
// type is the client's last word about that type - it sends nothing more for it - so it cannot be discarded as a stale
// request (a push in flight makes its nonce the old one exactly then). In ShouldRespond every path to a return on the
// stale-nonce edge has passed the shouldUnsubscribe test.
func c04r7(c *Ctx) {
	p := c.P
	fn := p.Func(pkgXdsLib, "", "ShouldRespond")
	unsub := p.FuncObj(pkgXdsLib, "", "shouldUnsubscribe")
	var stale []Edge
	for _, i := range allIfs(fn) {
		v, neg := stripNot(i.Cond)
		// the comparison may be the last operand of a conjunction: look through the phi-free BinOp only
		b, ok := v.(*ssa.BinOp)
		if !ok || (b.Op != token.EQL && b.Op != token.NEQ) {
			continue
		}
		isNonce := func(v ssa.Value) bool { return loadOfFieldNamed(v, "ResponseNonce") }
		isSent := func(v ssa.Value) bool { return loadOfFieldNamed(v, "NonceSent") }
		if !((isNonce(b.X) && isSent(b.Y)) || (isNonce(b.Y) && isSent(b.X))) {
			continue
		}
		idx := 0 // edge on which they differ
		if (b.Op == token.EQL) != neg {
			idx = 1
		}
		stale = append(stale, Edge{i.Block(), idx})
	}
	c.Check("ShouldRespond compares the nonce with the one sent", fn.Pos(), len(stale) >= 1, "no comparison of ResponseNonce with NonceSent")
	isUnsub := func(ins ssa.Instruction) bool { return isCallTo(ins, unsub) }
	n := 0
	for _, e := range stale {
		// returns reachable from the stale edge before anything else decides
		seen := map[*ssa.BasicBlock]bool{}
		st := []*ssa.BasicBlock{e.To()}
		for len(st) > 0 {
			b := st[len(st)-1]
			st = st[:len(st)-1]
			if seen[b] {
				continue
			}
			seen[b] = true
			if r, ok := b.Instrs[len(b.Instrs)-1].(*ssa.Return); ok {
				n++
				hit := pathAvoiding(fn, nil, isUnsub, func(ins ssa.Instruction) bool { return ins == ssa.Instruction(r) })
				// only paths THROUGH the stale edge matter: the return must be dominated by the edge's target
				if e.To().Dominates(b) || e.To() == b {
					c.Check("a stale-nonce request is dismissed only after the unsubscribe test", r.Pos(), hit == nil,
						"ShouldRespond can dismiss a request as stale (nonce differs from the one last sent) before it looked whether the request is an unsubscribe: a client that drops its last watch of a type while a push is in flight sends exactly such a request and nothing more for that type, so the record keeps the old names and every later push keeps sending a type the client no longer watches")
				}
				continue
			}
			for _, s := range b.Succs {
				if e.To().Dominates(s) {
					st = append(st, s)
				}
			}
		}
	}
	c.Check("stale-nonce returns found", fn.Pos(), n >= 1, "no return on the stale-nonce edge")
	c.Floor(3)
}


// impliesFirstRequest: a bool helper that answers true only for "empty nonce" or "no record": every return that is not the
// constant false lies under an edge `nonce == ""` / `record == nil` of the helper, or returns such a comparison itself.
func impliesFirstRequest(h *ssa.Function) bool {
	isEmptyNonce := func(v ssa.Value) (bool, bool) { // matched, true-means-empty
		b, ok := v.(*ssa.BinOp)
		if !ok || (b.Op != token.EQL && b.Op != token.NEQ) {
			return false, false
		}
		for _, pr := range [][2]ssa.Value{{b.X, b.Y}, {b.Y, b.X}} {
			if loadOfFieldNamed(pr[0], "ResponseNonce") {
				if s, isC := constString(pr[1]); isC && s == "" {
					return true, b.Op == token.EQL
				}
			}
		}
		return false, false
	}
	isNilRecord := func(v ssa.Value) (bool, bool) {
		x, eq, ok := nilCmp(v)
		if !ok {
			return false, false
		}
		if _, isPar := x.(*ssa.Parameter); isPar {
			return true, eq
		}
		return false, false
	}
	var first []Edge
	for _, i := range allIfs(h) {
		v, neg := stripNot(i.Cond)
		if m, t := isEmptyNonce(v); m {
			idx := 0
			if t == neg {
				idx = 1
			}
			first = append(first, Edge{i.Block(), idx})
		}
		if m, t := isNilRecord(i.Cond); m {
			idx := 0
			if !t {
				idx = 1
			}
			first = append(first, Edge{i.Block(), idx})
		}
	}
	n := 0
	for _, b := range h.Blocks {
		r, ok := b.Instrs[len(b.Instrs)-1].(*ssa.Return)
		if !ok || len(r.Results) != 1 {
			continue
		}
		v := retVal(r, 0)
		if k, isC := constBool(v); isC && !k {
			continue
		}
		n++
		if underEdges(h, b, first) {
			continue
		}
		var leaves []ssa.Value
		phiLeaves(v, map[ssa.Value]bool{}, &leaves)
		for _, l := range leaves {
			if k, isC := constBool(l); isC && !k {
				continue
			}
			if m, t := isEmptyNonce(l); m && t {
				continue
			}
			if m, t := isNilRecord(l); m && t {
				continue
			}
			return false
		}
	}
	return n > 0
}
