package main

import (
	"fmt"
	"go/token"
	"go/types"
	"strings"

	"golang.org/x/tools/go/ssa"
)

const (
	pkgModel = "pilot/pkg/model"
	pkgXds   = "pilot/pkg/xds"
	pkgXdsLib = "pkg/xds"
)

func init() {
	register(&PropDef{
		ID: "C02",
		Clauses: []string{
			"R1 PushRequest.Merge/CopyMerge read every field of both operands (frozen exceptions: Start first-wins, Delta never queued, Push newest-wins) and union set-valued fields; Forced is an OR",
			"R2 CopyMerge / ReasonStats.CopyMerge never store into or call a mutator on a value derived from an operand",
			"R3 no function reachable from the per-connection push path writes a field of a shared *PushRequest; who-may-call mutating Merge = debounce",
			"R8 StartPush enqueues the request for every connection registered in adsClients; nothing on the way to Enqueue filters on the connection's initialised state (a connection between addCon and MarkInitialized would miss the snapshot)",
			"R9 in debounce's event arm the quiet timer is (re)armed only under `debouncedEvents == 0`: later events of the batch must not restart it, otherwise the maximum delay (debounceMax, only evaluated when the timer fires) never takes effect under a steady stream and nothing is pushed while the churn lasts",
			"R4 the push event's done() runs on every exit of the per-connection handlers; doSendPushes' doneFunc calls MarkDone and releases the semaphore in every non-handoff arm",
			"R5 PushQueue state is touched only with cond.L held",
			"R6 Enqueue merges with CopyMerge (not Merge) into pending and processing; MarkDone re-queues a non-nil in-flight request",
			"R7 debounce: every `go` that reaches pushFn inside the single-flight protocol is preceded by free=false; free=true only on a receive from freeCh",
		},
		NotDecided: "that the debounce timer eventually fires, fairness, delivery over all interleavings, semantics of the merged sets beyond 'both operands flow into a union'",
		Rules: []Rule{
			{"C02-R1", "merge covers every field of PushRequest", c02r1},
			{"C02-R2", "CopyMerge is non-mutating", c02r2},
			{"C02-R3", "queued PushRequest never written on the connection push path", c02r3},
			{"C02-R4", "done() / semaphore release on every exit", c02r4},
			{"C02-R6", "Enqueue uses CopyMerge; MarkDone re-queues", c02r6},
			{"C02-R7", "debounce single-flight protocol", c02r7},
			{"C02-R8", "a global push is enqueued for every registered connection (shared with C05-R2b)", func(c *Ctx) { startPushFanOut(c); c.Floor(2) }},
			{"C02-R9", "the quiet timer of a batch is armed by its first event only", c02r9},
			{"C02-R10", "Forced is consulted before a request is narrowed by its keys", c02r10},
			{"C02-R11", "the snapshot of a merged request is chosen by age, not by position", c02r11},
		},
	})
}

// paramFieldAccess records, per parameter index of fn, which fields of struct type st are read / written
// directly through that parameter.
func paramFieldAccess(fn *ssa.Function) (reads, writes map[int]map[*types.Var]token.Pos) {
	reads, writes = map[int]map[*types.Var]token.Pos{}, map[int]map[*types.Var]token.Pos{}
	idx := map[ssa.Value]int{}
	for i, p := range fn.Params {
		idx[p] = i
		reads[i] = map[*types.Var]token.Pos{}
		writes[i] = map[*types.Var]token.Pos{}
	}
	eachInstr(fn, func(ins ssa.Instruction) {
		switch x := ins.(type) {
		case *ssa.FieldAddr:
			if i, ok := idx[x.X]; ok {
				r, w := addrUse(x, 0)
				fv := fieldVar(x.X.Type(), x.Field)
				if r {
					reads[i][fv] = x.Pos()
				}
				if w {
					writes[i][fv] = x.Pos()
				}
			}
		case *ssa.Field:
			if i, ok := idx[x.X]; ok {
				reads[i][fieldVar(x.X.Type(), x.Field)] = x.Pos()
			}
		}
	})
	return
}

// leaves collects the non-phi leaves of a value through Phi nodes.
func phiLeaves(v ssa.Value, seen map[ssa.Value]bool, out *[]ssa.Value) {
	if seen[v] {
		return
	}
	seen[v] = true
	if p, ok := v.(*ssa.Phi); ok {
		for _, e := range p.Edges {
			phiLeaves(e, seen, out)
		}
		return
	}
	*out = append(*out, v)
}

func c02r1(c *Ctx) {
	p := c.P
	st := p.Struct(pkgModel, "PushRequest")
	fields := fieldsOf(st)
	fByName := map[string]*types.Var{}
	for _, f := range fields {
		fByName[f.Name()] = f
	}
	for _, n := range []string{"Start", "Delta", "Push", "Forced"} {
		if fByName[n] == nil {
			anchorFail("PushRequest.%s not found", n)
		}
	}
	merge := p.Func(pkgModel, "PushRequest", "Merge")
	copyMerge := p.Func(pkgModel, "PushRequest", "CopyMerge")

	// exceptions, each with its reason (frozen; keyed by field name)
	//   Start: first (older) start time wins -> read from the receiver only (CopyMerge) / untouched (Merge)
	//   Delta: client-request only, never queued or debounced (proved below: no literal that sets Delta reaches Enqueue/pushChannel)
	//   Push:  the other (newer) snapshot wins -> the receiver's need not be read
	skipOther := map[string]bool{"Start": true, "Delta": true}
	skipRecv := map[string]bool{"Start": true, "Delta": true, "Push": true}

	for _, fn := range []*ssa.Function{merge, copyMerge} {
		reads, writes := paramFieldAccess(fn)
		name := fn.Name()
		for _, f := range fields {
			if !skipOther[f.Name()] {
				_, ok := reads[1][f]
				c.Check(name+":other."+f.Name()+" read", fn.Pos(), ok, "field of the second operand is never read in "+name+": information in it is dropped by the merge")
			}
			if !skipRecv[f.Name()] {
				_, ok := reads[0][f]
				c.Check(name+":recv."+f.Name()+" read", fn.Pos(), ok, "field of the receiver is never read in "+name+": its content is overwritten/dropped by the merge")
			}
		}
		// Start: never taken from the second operand
		_, rs := reads[1][fByName["Start"]]
		c.Check(name+":other.Start unused", fn.Pos(), !rs, "Start must keep the first (older) time; it is read from the second operand")
		if fn == merge {
			_, ws := writes[0][fByName["Start"]]
			c.Check(name+":recv.Start not overwritten", fn.Pos(), !ws, "Merge overwrites the receiver's Start")
		}
		// no field of `other` is written
		for f, pos := range writes[1] {
			if fn == copyMerge || true {
				c.Check(name+":other."+f.Name()+" not written", pos, false, "merge writes into its second operand")
			}
		}
	}

	// CopyMerge writes every field (except Delta) of the fresh result
	var mergedAlloc *ssa.Alloc
	eachInstr(copyMerge, func(ins ssa.Instruction) {
		if a, ok := ins.(*ssa.Alloc); ok && a.Heap {
			if n, ok := derefNamed(a.Type()); ok && n.Obj() == p.Named(pkgModel, "PushRequest").Obj() {
				mergedAlloc = a
			}
		}
	})
	if mergedAlloc == nil {
		c.Check("CopyMerge:fresh result", copyMerge.Pos(), false, "CopyMerge allocates no fresh PushRequest")
	} else {
		written := map[*types.Var]bool{}
		for _, ref := range *mergedAlloc.Referrers() {
			if fa, ok := ref.(*ssa.FieldAddr); ok {
				if _, w := addrUse(fa, 0); w {
					written[fieldVar(fa.X.Type(), fa.Field)] = true
				}
			}
		}
		for _, f := range fields {
			if f.Name() == "Delta" {
				continue
			}
			c.Check("CopyMerge:merged."+f.Name()+" written", mergedAlloc.Pos(), written[f], "CopyMerge's result never receives this field")
		}
		// merged.Start comes from the receiver
		for _, ref := range *mergedAlloc.Referrers() {
			if fa, ok := ref.(*ssa.FieldAddr); ok && fieldVar(fa.X.Type(), fa.Field) == fByName["Start"] {
				for _, r2 := range *fa.Referrers() {
					if s, ok := r2.(*ssa.Store); ok && s.Addr == fa {
						base, ok := fieldLoadOf(s.Val, fByName["Start"])
						c.Check("CopyMerge:merged.Start from receiver", s.Pos(), ok && base == copyMerge.Params[0], "merged.Start is not the receiver's (first) Start")
					}
				}
			}
		}
	}

	// Forced is an OR of both: the stored value's phi-leaves are `true` constants or loads of .Forced; never `false`.
	for _, fn := range []*ssa.Function{merge, copyMerge} {
		n := 0
		eachInstr(fn, func(ins ssa.Instruction) {
			s, ok := ins.(*ssa.Store)
			if !ok {
				return
			}
			fa, ok := s.Addr.(*ssa.FieldAddr)
			if !ok || fieldVar(fa.X.Type(), fa.Field) != fByName["Forced"] {
				return
			}
			n++
			var ls []ssa.Value
			phiLeaves(s.Val, map[ssa.Value]bool{}, &ls)
			okAll := true
			why := ""
			for _, l := range ls {
				if b, isb := constBool(l); isb {
					if !b {
						okAll, why = false, "a `false` constant flows into Forced (AND-shaped merge)"
					}
					continue
				}
				if _, isF := fieldLoadOf(l, fByName["Forced"]); isF {
					continue
				}
				okAll, why = false, "Forced receives a value that is neither true nor an operand's Forced: "+l.String()
			}
			c.Check(fn.Name()+":Forced is OR", s.Pos(), okAll, why)
		})
		if n == 0 {
			c.Check(fn.Name()+":Forced is OR", fn.Pos(), false, "no store to Forced found")
		}
	}

	// Push: the later operand's snapshot wins whenever it has one; the choice never depends on anything else
	// (the receiver's snapshot may only survive where the other's is nil).
	for _, fn := range []*ssa.Function{merge, copyMerge} {
		pushF := fByName["Push"]
		n := 0
		eachInstr(fn, func(ins ssa.Instruction) {
			s, ok := ins.(*ssa.Store)
			if !ok {
				return
			}
			fa, ok := s.Addr.(*ssa.FieldAddr)
			if !ok || fieldVar(fa.X.Type(), fa.Field) != pushF {
				return
			}
			n++
			if snapshotComparedByAge(fn, s, pushF) {
				// the choice is made by comparing the two snapshots: R11 decides it; "the later operand's" is this rule's
				// reading of the code's own presumption that the second operand is the newer one
				c.Check(fn.Name()+":Push is the later operand's snapshot", s.Pos(), true, "")
				return
			}
			why := snapshotChoice(fn, s.Val, s.Block(), fn.Params[0], fn.Params[1], pushF, 0)
			c.Check(fn.Name()+":Push is the later operand's snapshot", s.Pos(), why == "", why+": a merged request can carry an older snapshot than one of the requests it replaced, so the proxy misses the update that request announced while the keys and Forced flag look merged correctly")
		})
		if n == 0 {
			c.Check(fn.Name()+":Push is the later operand's snapshot", fn.Pos(), false, "no store to Push found")
		}
	}

	// set-valued fields: both operands flow into one union-like call, or one is ranged over into the other
	for _, fn := range []*ssa.Function{merge, copyMerge} {
		for _, f := range fields {
			if _, ok := f.Type().Underlying().(*types.Map); !ok {
				continue
			}
			// accumulator values: loads of (recv|fresh result).f, or a fresh map of f's type (later stored into the result)
			isLoadFrom := func(v ssa.Value, fromOther bool) bool {
				base, ok := fieldLoadOf(v, f)
				if !ok {
					return false
				}
				if fromOther {
					return base == fn.Params[1]
				}
				return base != fn.Params[1]
			}
			isAcc := func(v ssa.Value) bool {
				if mm, ok := v.(*ssa.MakeMap); ok {
					return types.Identical(mm.Type(), f.Type())
				}
				if base, ok := fieldLoadOf(v, f); ok {
					return base != fn.Params[1] && (fn == merge || base != fn.Params[0])
				}
				return false
			}
			unionO, unionR, alias := false, fn == merge, false
			eachInstr(fn, func(ins ssa.Instruction) {
				if ci, ok := ins.(ssa.CallInstruction); ok {
					hasO, hasR, hasAcc := false, false, false
					for _, a := range ci.Common().Args {
						if isLoadFrom(a, true) {
							hasO = true
						} else if isAcc(a) {
							hasAcc = true
						} else if base, ok := fieldLoadOf(a, f); ok && base == fn.Params[0] {
							hasR = true
						}
					}
					if hasO && hasAcc {
						unionO = true
					}
					if hasR && hasAcc {
						unionR = true
					}
				}
				if s, ok := ins.(*ssa.Store); ok {
					if fa, ok := s.Addr.(*ssa.FieldAddr); ok && fieldVar(fa.X.Type(), fa.Field) == f && isLoadFrom(s.Val, true) {
						alias = true // pr.f = other.f (only legal when pr.f was nil/empty)
					}
				}
			})
			union := unionO && unionR
			c.Check(fn.Name()+":"+f.Name()+" union", fn.Pos(), union, "no call takes both the accumulated "+f.Name()+" and the second operand's: the merged request does not cover the union")
			if fn == copyMerge {
				c.Check(fn.Name()+":"+f.Name()+" no alias", fn.Pos(), !alias, "CopyMerge stores the second operand's set into the result (shared, later mutable)")
			}
		}
	}
	c.Floor(30)

	// Delta never queued: every composite literal / store that sets PushRequest.Delta is in a function that
	// does not hand the request to Enqueue/ConfigUpdate/pushChannel. Decide the who-writes-Delta list.
	deltaF := fByName["Delta"]
	allowed := map[string]string{
		"(*istio.io/istio/pilot/pkg/xds.DiscoveryServer).processRequest":      "client request, pushed synchronously via pushXds",
		"(*istio.io/istio/pilot/pkg/xds.DiscoveryServer).processDeltaRequest": "client request, pushed synchronously via pushDeltaXds",
	}
	nw := 0
	for _, fn := range p.AllFuncs {
		for _, s := range storesTo(fn, deltaF) {
			nw++
			_, ok := allowed[fn.String()]
			if !ok {
				// a helper extracted from a listed function (all its call sites are there)
				ok = p.extractedFrom(fn, func(f *ssa.Function) bool { _, in := allowed[f.String()]; return in }, 2) != nil
			}
			c.Check("Delta writer:"+shortFn(fn), s.Pos(), ok, "PushRequest.Delta is set here; Merge/CopyMerge drop Delta, so only un-queued client requests may set it")
		}
	}
	c.Stat("delta_writers", nw)
}

func c02r2(c *Ctx) {
	p := c.P
	for _, fn := range []*ssa.Function{p.Func(pkgModel, "PushRequest", "CopyMerge"), p.Func(pkgModel, "ReasonStats", "CopyMerge")} {
		// operand-derived values: params and loads of their fields
		derived := map[ssa.Value]bool{}
		for _, prm := range fn.Params {
			derived[prm] = true
		}
		changed := true
		for changed {
			changed = false
			eachInstr(fn, func(ins ssa.Instruction) {
				v, ok := ins.(ssa.Value)
				if !ok || derived[v] {
					return
				}
				switch x := ins.(type) {
				case *ssa.FieldAddr:
					if derived[x.X] {
						derived[v], changed = true, true
					}
				case *ssa.Field:
					if derived[x.X] {
						derived[v], changed = true, true
					}
				case *ssa.UnOp:
					if x.Op == token.MUL && derived[x.X] {
						// load of a reference-typed field (map/pointer/slice) stays operand-owned
						switch x.Type().Underlying().(type) {
						case *types.Map, *types.Pointer, *types.Slice:
							derived[v], changed = true, true
						}
					}
				case *ssa.Phi:
					for _, e := range x.Edges {
						if derived[e] {
							derived[v], changed = true, true
						}
					}
				case *ssa.ChangeType:
					if derived[x.X] {
						derived[v], changed = true, true
					}
				}
			})
		}
		n := 0
		eachInstr(fn, func(ins ssa.Instruction) {
			switch x := ins.(type) {
			case *ssa.Store:
				n++
				c.Check(fn.String()+":store", x.Pos(), !derived[x.Addr], "stores through an operand of a non-mutating merge")
			case *ssa.MapUpdate:
				n++
				c.Check(fn.String()+":mapupdate", x.Pos(), !derived[x.Map], "updates a map owned by an operand of a non-mutating merge")
			case ssa.CallInstruction:
				cc := x.Common()
				o := calleeObj(ins)
				if o == nil || len(cc.Args) == 0 {
					return
				}
				if mutatorNames[o.Name()] && !cc.IsInvoke() {
					n++
					c.Check(fn.String()+":call "+o.Name(), x.Pos(), !derived[cc.Args[0]], "calls mutating method "+o.Name()+" on a value owned by an operand of a non-mutating merge")
				}
			}
		})
		if n == 0 {
			c.Check(fn.String()+":sites", fn.Pos(), false, "no store/mutator sites found")
		}
	}
	c.Floor(10)
}

var mutatorNames = map[string]bool{"Merge": true, "Insert": true, "InsertAll": true, "Delete": true, "DeleteAll": true, "DeleteAllSet": true,
	"Add": true, "Clear": true, "InsertContains": true, "DeleteContains": true, "Store": true, "Set": true}

// c02r3: on the per-connection path a *PushRequest received from the queue is shared between connections.
func c02r3(c *Ctx) {
	p := c.P
	pr := p.Named(pkgModel, "PushRequest")
	entries := []*ssa.Function{
		p.Func(pkgXds, "DiscoveryServer", "pushConnection"),
		p.Func(pkgXds, "DiscoveryServer", "pushConnectionDelta"),
	}
	reach := p.CG().Reach(entries, nil)
	c.Stat("reachable_functions", len(reach))
	isPR := func(t types.Type) bool {
		n, ok := derefNamed(t)
		return ok && n.Obj() == pr.Obj()
	}
	nsites := 0
	for fn := range reach {
		// values that are fresh local PushRequests in this function
		fresh := map[ssa.Value]bool{}
		eachInstr(fn, func(ins ssa.Instruction) {
			if a, ok := ins.(*ssa.Alloc); ok && isPR(a.Type()) {
				fresh[a] = true
			}
		})
		eachInstr(fn, func(ins ssa.Instruction) {
			var base ssa.Value
			var pos token.Pos
			var what string
			switch x := ins.(type) {
			case *ssa.Store:
				fa, ok := x.Addr.(*ssa.FieldAddr)
				if !ok || !isPR(fa.X.Type()) {
					return
				}
				base, pos, what = fa.X, x.Pos(), "store to PushRequest."+fieldVar(fa.X.Type(), fa.Field).Name()
			case *ssa.MapUpdate:
				fv := fieldOfLoad(x.Map)
				if fv == nil {
					return
				}
				b, _ := fieldLoadOf(x.Map, fv)
				if b == nil || !isPR(b.Type()) {
					return
				}
				base, pos, what = b, x.Pos(), "map update of PushRequest."+fv.Name()
			case ssa.CallInstruction:
				cc := x.Common()
				o := calleeObj(ins)
				if o == nil || len(cc.Args) == 0 || cc.IsInvoke() {
					return
				}
				if !mutatorNames[o.Name()] {
					return
				}
				if isPR(cc.Args[0].Type()) && o.Name() == "Merge" {
					base, pos, what = cc.Args[0], x.Pos(), "mutating PushRequest.Merge"
				} else if fv := fieldOfLoad(cc.Args[0]); fv != nil {
					b, _ := fieldLoadOf(cc.Args[0], fv)
					if b == nil || !isPR(b.Type()) {
						return
					}
					base, pos, what = b, x.Pos(), o.Name()+" on PushRequest."+fv.Name()
				} else {
					return
				}
			default:
				return
			}
			nsites++
			c.Check(shortFn(fn)+":"+what, pos, fresh[base], "writes a *PushRequest that is not a local copy; queued requests are shared between connections ("+pathTo(reach, fn)+")")
		})
	}
	c.Stat("write_sites", nsites)

	// who-may-call the mutating Merge
	mergeObj := p.FuncObj(pkgModel, "PushRequest", "Merge")
	allowedCallers := map[string]string{
		"istio.io/istio/pilot/pkg/xds.debounce": "owns the request being accumulated; inputs are not used afterwards",
	}
	ncall := 0
	for _, fn := range p.AllFuncs {
		for _, call := range callsIn(fn, mergeObj) {
			ncall++
			_, ok := allowedCallers[fn.String()]
			if !ok {
				// a Merge whose receiver is a fresh local copy is fine anywhere
				if a, isA := call.Common().Args[0].(*ssa.Alloc); isA && isPR(a.Type()) {
					ok = true
				}
			}
			c.Check("Merge caller:"+shortFn(fn), call.Pos(), ok, "mutating PushRequest.Merge called outside the debouncer on a possibly shared request; use CopyMerge")
		}
	}
	c.Floor(3)
}

func c02r4(c *Ctx) {
	p := c.P
	eventDone := p.Field(pkgXds, "Event", "done")
	isDoneCall := func(ins ssa.Instruction) bool {
		ci, ok := ins.(ssa.CallInstruction)
		if !ok {
			return false
		}
		_, ok = fieldLoadOf(ci.Common().Value, eventDone)
		return ok
	}
	// (a) every function that calls pushConnection / pushConnectionDelta calls ev.done() on every path to exit or loop-back
	pc := p.FuncObj(pkgXds, "DiscoveryServer", "pushConnection")
	pcd := p.FuncObj(pkgXds, "DiscoveryServer", "pushConnectionDelta")
	n := 0
	for _, fn := range p.AllFuncs {
		for _, call := range callsIn(fn, pc, pcd) {
			n++
			// from the call, any path reaching return or re-reaching the call's block start without done()
			bad := pathAvoiding(fn, call, isDoneCall, func(i ssa.Instruction) bool { return isReturn(i) || i == ssa.Instruction(call) })
			det := ""
			if bad != nil {
				det = "a path from the push to " + p.pos(bad.Pos()) + " does not call the event's done(): the PushQueue keeps the connection 'processing' and the semaphore slot forever"
			}
			c.Check("done after push:"+shortFn(fn), call.Pos(), bad == nil, det)
		}
	}
	// every receive site of the push event: functions that type-assert to *Event must be the ones above
	evT := p.Named(pkgXds, "Event")
	for _, fn := range p.AllFuncs {
		eachInstr(fn, func(ins ssa.Instruction) {
			ta, ok := ins.(*ssa.TypeAssert)
			if !ok {
				return
			}
			if nn, ok := derefNamed(ta.AssertedType); ok && nn.Obj() == evT.Obj() {
				n++
				has := len(callsIn(fn, pc, pcd)) > 0
				c.Check("event consumer:"+shortFn(fn), ta.Pos(), has, "a push event is consumed here without going through pushConnection+done()")
			}
		})
	}

	// (b) doSendPushes: the goroutine's select calls doneFunc in every arm except the successful hand-off;
	// (c) doneFunc calls MarkDone and receives from the semaphore.
	dsp := p.Func(pkgXds, "", "doSendPushes")
	markDone := p.FuncObj(pkgXds, "PushQueue", "MarkDone")
	var doneFn, sender *ssa.Function
	for _, a := range dsp.AnonFuncs {
		if len(callsIn(a, markDone)) > 0 {
			doneFn = a
		}
		eachInstr(a, func(ins ssa.Instruction) {
			if _, ok := ins.(*ssa.Select); ok {
				sender = a
			}
		})
	}
	if doneFn == nil || sender == nil {
		c.Check("doSendPushes:closures", dsp.Pos(), false, "cannot identify doneFunc / hand-off goroutine in doSendPushes")
		return
	}
	// (c)
	recvSem := false
	eachInstr(doneFn, func(ins ssa.Instruction) {
		if u, ok := ins.(*ssa.UnOp); ok && u.Op == token.ARROW {
			recvSem = true
		}
	})
	c.Check("doneFunc:MarkDone", doneFn.Pos(), len(callsIn(doneFn, markDone)) == 1, "doneFunc must call MarkDone exactly once")
	c.Check("doneFunc:semaphore released", doneFn.Pos(), recvSem, "doneFunc does not receive from the semaphore: the slot taken in doSendPushes is never released")
	// every path through doneFn hits both (no early return)
	bad := pathAvoiding(doneFn, nil, func(i ssa.Instruction) bool { return isCallTo(i, markDone) }, isReturn)
	c.Check("doneFunc:MarkDone on every path", doneFn.Pos(), bad == nil, "a path through doneFunc skips MarkDone")
	bad = pathAvoiding(doneFn, nil, func(i ssa.Instruction) bool { u, ok := i.(*ssa.UnOp); return ok && u.Op == token.ARROW }, isReturn)
	c.Check("doneFunc:release on every path", doneFn.Pos(), bad == nil, "a path through doneFunc skips the semaphore release")

	// (e) a slot taken is always handed on: from the send on the semaphore, the loop cannot come back to the send without
	// starting the hand-off goroutine (which owns doneFunc), calling doneFunc, or receiving from the semaphore.
	{
		var acquire ssa.Instruction
		semP := paramNamed(dsp, "semaphore")
		// the parameter is captured by doneFunc, so go/ssa keeps it in a cell
		isSem := func(v ssa.Value) bool {
			if v == ssa.Value(semP) {
				return true
			}
			if u, ok := v.(*ssa.UnOp); ok && u.Op == token.MUL {
				if a, ok := u.X.(*ssa.Alloc); ok {
					for _, r := range *a.Referrers() {
						if st, ok := r.(*ssa.Store); ok && st.Addr == ssa.Value(a) && st.Val == ssa.Value(semP) {
							return true
						}
					}
				}
			}
			return false
		}
		eachInstr(dsp, func(ins ssa.Instruction) {
			if sd, ok := ins.(*ssa.Send); ok && isSem(sd.Chan) {
				acquire = ins
			}
		})
		if acquire == nil {
			c.Check("doSendPushes:slot acquire found", dsp.Pos(), false, "no send on the semaphore parameter in doSendPushes")
		} else {
			handsOn := func(ins ssa.Instruction) bool {
				switch x := ins.(type) {
				case *ssa.Go:
					if mk, ok := x.Call.Value.(*ssa.MakeClosure); ok && mk.Fn == ssa.Value(sender) {
						return true
					}
				case *ssa.UnOp:
					if x.Op == token.ARROW && isSem(x.X) {
						return true
					}
				case *ssa.Call:
					if mk, ok := x.Call.Value.(*ssa.MakeClosure); ok && mk.Fn == ssa.Value(doneFn) {
						return true
					}
				}
				return false
			}
			bad := pathAvoiding(dsp, acquire, handsOn, func(i ssa.Instruction) bool { return i == acquire })
			c.Check("doSendPushes:a taken slot is handed on before the next one is taken", acquire.Pos(), bad == nil,
				"the loop can take the next semaphore slot on a path that neither started the hand-off goroutine nor released the slot it took: each such iteration leaks one of the concurrent-push slots, and once they are gone no proxy is ever pushed again")
		}
	}

	// (b) in sender: the select has exactly one send state; paths from the select to return that avoid a call of the
	// doneFunc closure (a free variable) must pass through the send-succeeded arm only.
	var sel *ssa.Select
	eachInstr(sender, func(ins ssa.Instruction) {
		if s, ok := ins.(*ssa.Select); ok {
			sel = s
		}
	})
	sendIdx := -1
	nsend := 0
	for i, st := range sel.States {
		if st.Dir == types.SendOnly {
			sendIdx = i
			nsend++
		}
	}
	c.Check("handoff:one send arm", sel.Pos(), nsend == 1, "expected exactly one send arm in the hand-off select")
	isDoneFuncCall := func(ins ssa.Instruction) bool {
		ci, ok := ins.(ssa.CallInstruction)
		if !ok {
			return false
		}
		v := ci.Common().Value
		// doneFunc captured as free variable (possibly via load of the captured cell)
		if u, ok := v.(*ssa.UnOp); ok && u.Op == token.MUL {
			v = u.X
		}
		fv, ok := v.(*ssa.FreeVar)
		return ok && fv.Name() == "doneFunc"
	}
	// edges taken when select index == sendIdx
	var sendEdges []Edge
	for _, i := range allIfs(sender) {
		b, ok := i.Cond.(*ssa.BinOp)
		if !ok || b.Op != token.EQL {
			continue
		}
		ex, ok := b.X.(*ssa.Extract)
		if !ok || ex.Tuple != ssa.Value(sel) || ex.Index != 0 {
			continue
		}
		if k, ok := b.Y.(*ssa.Const); ok && k.Int64() == int64(sendIdx) {
			sendEdges = append(sendEdges, Edge{i.Block(), 0})
		}
	}
	c.Check("handoff:send arm identified", sel.Pos(), len(sendEdges) == 1, "cannot identify the send-succeeded edge")
	if len(sendEdges) == 1 {
		// remove the send edge; then every path from select to return must call doneFunc
		cutTo := sendEdges[0].To()
		bad := pathAvoiding(sender, sel, func(i ssa.Instruction) bool {
			return isDoneFuncCall(i) || (len(i.Block().Instrs) > 0 && i.Block() == cutTo && i == cutTo.Instrs[0] && len(cutTo.Preds) == 1)
		}, isReturn)
		det := ""
		if bad != nil {
			det = "an arm of the hand-off select other than the successful send returns without doneFunc() (return at " + p.pos(bad.Pos()) + ")"
		}
		c.Check("handoff:doneFunc in every non-send arm", sel.Pos(), bad == nil, det)
		// and the event handed over carries doneFunc as its done
		stored := false
		eachInstr(sender, func(ins ssa.Instruction) {
			if s, ok := ins.(*ssa.Store); ok {
				if fa, ok := s.Addr.(*ssa.FieldAddr); ok && fieldVar(fa.X.Type(), fa.Field) == eventDone {
					v := s.Val
					if u, ok := v.(*ssa.UnOp); ok && u.Op == token.MUL {
						v = u.X
					}
					if fv, ok := v.(*ssa.FreeVar); ok && fv.Name() == "doneFunc" {
						stored = true
					}
				}
			}
		})
		c.Check("handoff:event carries doneFunc", sel.Pos(), stored, "the Event handed to the connection does not carry doneFunc as done")
	}

	// (d) Receive / receiveDelta: after a successful Initialize the connection is closed on every exit (deferred Close)
	recv := p.Func(pkgXdsLib, "", "Receive")
	initM := p.FuncObj(pkgXdsLib, "ConnectionContext", "Initialize")
	closeM := p.FuncObj(pkgXdsLib, "ConnectionContext", "Close")
	for _, call := range callsIn(recv, initM) {
		// success edge: err == nil
		bad := pathAvoiding(recv, call, func(i ssa.Instruction) bool {
			if d, ok := i.(*ssa.Defer); ok {
				return isCallTo(d, closeM)
			}
			return false
		}, func(i ssa.Instruction) bool {
			// a return reached on the success side: approximate by "any Send on reqChan or loop re-entry" = any stream Recv call
			if isReturn(i) {
				// returns on the failure edge are fine: those are dominated by err != nil true edge
				x, eq, ok := lastNilCmpDominating(i.Block(), call.Value())
				_ = x
				return !(ok && !eq)
			}
			return false
		})
		det := ""
		if bad != nil {
			det = "Receive can exit at " + p.pos(bad.Pos()) + " after a successful Initialize without a deferred Close: the connection stays registered in adsClients"
		}
		c.Check("Receive:deferred Close after Initialize", call.Pos(), bad == nil, det)
		n++
	}
	rd := p.Func(pkgXds, "DiscoveryServer", "receiveDelta")
	initC := p.FuncObj(pkgXds, "DiscoveryServer", "initConnection")
	closeC := p.FuncObj(pkgXds, "DiscoveryServer", "closeConnection")
	for _, call := range callsIn(rd, initC) {
		bad := pathAvoiding(rd, call, func(i ssa.Instruction) bool {
			if d, ok := i.(*ssa.Defer); ok {
				return isCallTo(d, closeC)
			}
			return false
		}, func(i ssa.Instruction) bool {
			if isReturn(i) {
				_, eq, ok := lastNilCmpDominating(i.Block(), call.Value())
				return !(ok && !eq)
			}
			return false
		})
		det := ""
		if bad != nil {
			det = "receiveDelta can exit at " + p.pos(bad.Pos()) + " after a successful initConnection without a deferred closeConnection"
		}
		c.Check("receiveDelta:deferred closeConnection after initConnection", call.Pos(), bad == nil, det)
	}
	c.Floor(12)
	_ = fmt.Sprint
}

// lastNilCmpDominating: is block b under an edge of `if v ==/!= nil`? Returns eq=true if b is on the side where v is nil.
func lastNilCmpDominating(b *ssa.BasicBlock, v ssa.Value) (ssa.Value, bool, bool) {
	fn := b.Parent()
	for _, i := range allIfs(fn) {
		x, eq, ok := nilCmp(i.Cond)
		if !ok || x != v {
			continue
		}
		// true edge: v is nil iff eq
		if underEdges(fn, b, []Edge{{i.Block(), 0}}) {
			return x, eq, true
		}
		if underEdges(fn, b, []Edge{{i.Block(), 1}}) {
			return x, !eq, true
		}
	}
	return nil, false, false
}

func c02r6(c *Ctx) {
	p := c.P
	enq := p.Func(pkgXds, "PushQueue", "Enqueue")
	cm := p.FuncObj(pkgModel, "PushRequest", "CopyMerge")
	mg := p.FuncObj(pkgModel, "PushRequest", "Merge")
	pending := p.Field(pkgXds, "PushQueue", "pending")
	processing := p.Field(pkgXds, "PushQueue", "processing")
	queue := p.Field(pkgXds, "PushQueue", "queue")
	c.Check("Enqueue:no mutating Merge", enq.Pos(), len(callsIn(enq, mg)) == 0, "Enqueue uses the mutating Merge: the request object is shared by every connection it was enqueued for")
	// every MapUpdate of pending/processing in Enqueue stores either the parameter (fresh entry) or a CopyMerge result
	n := 0
	eachInstr(enq, func(ins ssa.Instruction) {
		mu, ok := ins.(*ssa.MapUpdate)
		if !ok {
			return
		}
		fv := fieldOfLoad(mu.Map)
		if fv != pending && fv != processing {
			return
		}
		n++
		val := mu.Value
		okv := false
		why := ""
		if call, isCall := val.(*ssa.Call); isCall && isCallTo(call, cm) {
			// receiver must be the looked-up previous entry of the same map, argument the parameter
			okv = call.Call.Args[1] == enq.Params[2]
			if !okv {
				why = "CopyMerge's argument is not the enqueued request"
			}
			// receiver: Extract(Lookup(same map, con))
			if okv {
				if ex, isEx := call.Call.Args[0].(*ssa.Extract); isEx {
					if lk, isLk := ex.Tuple.(*ssa.Lookup); isLk {
						if fieldOfLoad(lk.X) != fv {
							okv, why = false, "CopyMerge's receiver was looked up in a different map than the one updated"
						}
					}
				}
			}
		} else if val == enq.Params[2] {
			okv = fv == pending
			if !okv {
				why = "a request enqueued during processing replaces (rather than merges with) the recorded one"
			} else {
				// must be on the path where neither map has the connection: approximated by both lookups' ok==false
				okv = true
			}
		} else {
			why = "value stored is neither the enqueued request nor a CopyMerge of it"
		}
		c.Check(fmt.Sprintf("Enqueue:update %s #%d", fv.Name(), n), mu.Pos(), okv, why)
	})
	c.Check("Enqueue:update sites", enq.Pos(), n >= 3, "expected the three update sites (processing merge, pending merge, pending insert)")
	// plain insert into pending only when neither lookup found the connection
	eachInstr(enq, func(ins ssa.Instruction) {
		mu, ok := ins.(*ssa.MapUpdate)
		if !ok || mu.Value != enq.Params[2] {
			return
		}
		// all "found" edges must be cut: block must be under the false edges of both ok-extracts
		var foundEdges []Edge
		for _, i := range allIfs(enq) {
			if ex, ok := i.Cond.(*ssa.Extract); ok && ex.Index == 1 {
				if _, isLk := ex.Tuple.(*ssa.Lookup); isLk {
					foundEdges = append(foundEdges, Edge{i.Block(), 0})
				}
			}
		}
		reach := reachableWithout(enq, foundEdges, nil)
		okp := len(foundEdges) == 2 && reach[mu.Block()]
		// and with the found edges kept but the not-found edges cut, the insert is unreachable
		var nf []Edge
		for _, e := range foundEdges {
			nf = append(nf, Edge{e.From, 1})
		}
		okp = okp && !reachableWithout(enq, nf, nil)[mu.Block()]
		c.Check("Enqueue:plain insert only when absent from pending and processing", mu.Pos(), okp, "the un-merged insert is reachable when the connection already has a pending or in-flight request (that request is overwritten and lost)")
	})

	// MarkDone: a non-nil in-flight request is re-inserted into pending and the connection appended to queue
	md := p.Func(pkgXds, "PushQueue", "MarkDone")
	// the locked region may be written as an immediately invoked function literal: analyse the function that holds it
	md = funcHolding(md, func(ins ssa.Instruction) bool {
		l, ok := ins.(*ssa.Lookup)
		return ok && fieldOfLoad(l.X) == processing
	})
	var lk *ssa.Lookup
	eachInstr(md, func(ins ssa.Instruction) {
		if l, ok := ins.(*ssa.Lookup); ok && fieldOfLoad(l.X) == processing {
			lk = l
		}
	})
	if lk == nil {
		c.Check("MarkDone:reads processing", md.Pos(), false, "MarkDone does not look up the in-flight entry")
		return
	}
	var upd *ssa.MapUpdate
	var app ssa.Instruction
	eachInstr(md, func(ins ssa.Instruction) {
		if mu, ok := ins.(*ssa.MapUpdate); ok && fieldOfLoad(mu.Map) == pending && mu.Value == ssa.Value(lk) {
			upd = mu
		}
		if s, ok := ins.(*ssa.Store); ok {
			if fa, ok := s.Addr.(*ssa.FieldAddr); ok && fieldVar(fa.X.Type(), fa.Field) == queue {
				app = s
			}
		}
	})
	c.Check("MarkDone:requeue into pending", md.Pos(), upd != nil, "MarkDone never puts the recorded request back into pending: an update enqueued during a push is lost")
	c.Check("MarkDone:requeue into queue", md.Pos(), app != nil, "MarkDone never re-appends the connection to the queue")
	if upd != nil {
		// on the request != nil edge every path to return passes the update
		var nn []Edge
		for _, i := range allIfs(md) {
			if x, eq, ok := nilCmp(i.Cond); ok && x == ssa.Value(lk) {
				idx := 0
				if eq {
					idx = 1
				}
				nn = append(nn, Edge{i.Block(), idx})
			}
		}
		okp := len(nn) == 1
		if okp {
			_, found := pathAvoidingE(nn[0].To(), nil, func(i ssa.Instruction) bool { return i == ssa.Instruction(upd) }, isReturn, nil, nil)
			okp = !found
		}
		c.Check("MarkDone:requeue on every non-nil path", upd.Pos(), okp, "a path with a non-nil recorded request leaves MarkDone without re-queueing it")
		// delete from processing precedes/exists
		del := false
		eachInstr(md, func(ins ssa.Instruction) {
			if ci, ok := ins.(ssa.CallInstruction); ok {
				if bi, ok := ci.Common().Value.(*ssa.Builtin); ok && bi.Name() == "delete" && fieldOfLoad(ci.Common().Args[0]) == processing {
					del = true
				}
			}
		})
		c.Check("MarkDone:clears processing", md.Pos(), del, "MarkDone does not delete the connection from processing: later Enqueues are parked forever")
	}
	// Dequeue marks processing and removes from pending
	dq := p.Func(pkgXds, "PushQueue", "Dequeue")
	mark, delp := false, false
	eachInstr(dq, func(ins ssa.Instruction) {
		if mu, ok := ins.(*ssa.MapUpdate); ok && fieldOfLoad(mu.Map) == processing {
			mark = true
		}
		if ci, ok := ins.(ssa.CallInstruction); ok {
			if bi, ok := ci.Common().Value.(*ssa.Builtin); ok && bi.Name() == "delete" && fieldOfLoad(ci.Common().Args[0]) == pending {
				delp = true
			}
		}
	})
	c.Check("Dequeue:marks processing", dq.Pos(), mark, "Dequeue does not record the connection as processing: a concurrent Enqueue starts a second push for the same proxy")
	c.Check("Dequeue:removes pending", dq.Pos(), delp, "Dequeue does not remove the pending entry")
	c.Floor(10)
}

func c02r7(c *Ctx) {
	p := c.P
	db := p.Func(pkgXds, "", "debounce")
	// identify cells
	var freeCell *ssa.Alloc
	eachInstr(db, func(ins ssa.Instruction) {
		if a, ok := ins.(*ssa.Alloc); ok && a.Comment == "free" {
			freeCell = a
		}
	})
	if freeCell == nil {
		anchorFail("debounce: variable free not found (expected a captured bool cell)")
	}
	// all functions: debounce + its closures
	fns := []*ssa.Function{db}
	fns = append(fns, db.AnonFuncs...)
	for _, a := range db.AnonFuncs {
		fns = append(fns, a.AnonFuncs...)
	}
	cellOf := func(fn *ssa.Function, v ssa.Value) bool {
		if v == ssa.Value(freeCell) {
			return true
		}
		if fv, ok := v.(*ssa.FreeVar); ok && fv.Name() == "free" {
			return true
		}
		return false
	}
	nTrue, nFalse := 0, 0
	for _, fn := range fns {
		eachInstr(fn, func(ins ssa.Instruction) {
			s, ok := ins.(*ssa.Store)
			if !ok || !cellOf(fn, s.Addr) {
				return
			}
			b, isC := constBool(s.Val)
			if !isC {
				c.Check("free:store is constant", s.Pos(), false, "free is assigned a computed value")
				return
			}
			if b {
				nTrue++
				if fn == db && s.Block().Index == 0 {
					c.Check("free:initial true", s.Pos(), true, "")
					return
				}
				// must be in the arm of the select that received from freeCh: approximated structurally:
				// a select state whose channel is the freeCh cell and the store is under index==that state.
				ok := storeUnderSelectRecvOf(fn, s, "freeCh")
				c.Check("free:set true only after receive from freeCh", s.Pos(), ok, "free is set to true elsewhere than on completion of the running push: two pushes (two snapshot builds) can run at once")
			} else {
				nFalse++
				// a `go` that reaches pushFn must follow in the same block
				foundGo := false
				for _, i2 := range s.Block().Instrs[instrIndex(s):] {
					if _, ok := i2.(*ssa.Go); ok {
						foundGo = true
					}
				}
				c.Check("free:false precedes go push", s.Pos(), foundGo, "free=false is not followed by starting the push goroutine")
			}
		})
	}
	c.Check("free:stores found", db.Pos(), nTrue >= 2 && nFalse >= 1, fmt.Sprintf("expected initial+completion true stores and a false store; found true=%d false=%d", nTrue, nFalse))
	// Mutual exclusion of pushFn invocations: every call site of pushFn (in debounce and its closures) either holds one
	// common mutex across the call, or lies in the single-flight protocol closure (the one that signals freeCh and is
	// started only after free=false).
	isPushFnCall := func(i2 ssa.Instruction) bool {
		ci, ok := i2.(ssa.CallInstruction)
		if !ok {
			return false
		}
		v := ci.Common().Value
		if u, ok := v.(*ssa.UnOp); ok {
			v = u.X
		}
		if fv, ok := v.(*ssa.FreeVar); ok && fv.Name() == "pushFn" {
			return true
		}
		if pr, ok := v.(*ssa.Parameter); ok && pr.Name() == "pushFn" {
			return true
		}
		return false
	}
	lockCell := func(i2 ssa.Instruction, method string) string {
		ci, ok := i2.(ssa.CallInstruction)
		if !ok {
			return ""
		}
		o := calleeObj(i2)
		if o == nil || o.Name() != method || o.Pkg() == nil || o.Pkg().Path() != "sync" {
			return ""
		}
		args := ci.Common().Args
		if len(args) == 0 {
			return ""
		}
		switch x := args[0].(type) {
		case *ssa.FreeVar:
			return x.Name()
		case *ssa.Alloc:
			return x.Comment
		}
		return ""
	}
	type site struct {
		fn    *ssa.Function
		call  ssa.Instruction
		held  string
		proto bool
	}
	var sites []site
	for _, fn := range fns {
		signals := false
		eachInstr(fn, func(i2 ssa.Instruction) {
			if _, ok := i2.(*ssa.Send); ok {
				signals = true
			}
		})
		eachInstr(fn, func(i2 ssa.Instruction) {
			if !isPushFnCall(i2) {
				return
			}
			st := site{fn: fn, call: i2, proto: signals}
			// a Lock of cell X precedes the call on every path and no Unlock of X lies between; an Unlock follows on every path
			for _, b := range fn.Blocks {
				for _, i3 := range b.Instrs {
					x := lockCell(i3, "Lock")
					if x == "" {
						continue
					}
					pre := precededOnAllPaths(fn, i2, func(i4 ssa.Instruction) bool { return i4 == i3 })
					_, unlockedBefore := pathAvoidingE(nil, i3, func(i4 ssa.Instruction) bool { return i4 == i2 }, func(i4 ssa.Instruction) bool { return lockCell(i4, "Unlock") == x }, nil, nil)
					_, leak := pathAvoidingE(nil, i2, func(i4 ssa.Instruction) bool {
						if lockCell(i4, "Unlock") == x {
							return true
						}
						if d, ok := i4.(*ssa.Defer); ok && lockCell(d, "Unlock") == x {
							return true
						}
						return false
					}, isReturn, nil, nil)
					deferred := false
					eachInstr(fn, func(i4 ssa.Instruction) {
						if d, ok := i4.(*ssa.Defer); ok && lockCell(d, "Unlock") == x {
							deferred = true
						}
					})
					if pre && (!unlockedBefore) && (!leak || deferred) {
						st.held = x
					}
				}
			}
			sites = append(sites, st)
		})
	}
	c.Check("pushFn call sites found", db.Pos(), len(sites) >= 1, "no call of pushFn found in debounce")
	common := ""
	allHeld := len(sites) > 0
	for i, st := range sites {
		if st.held == "" || (i > 0 && st.held != common) {
			allHeld = false
		}
		common = st.held
	}
	for _, st := range sites {
		ok := allHeld || st.proto
		c.Check("pushFn call is mutually exclusive:"+shortFn(st.fn), st.call.Pos(), ok, "pushFn (DiscoveryServer.Push -> initPushContext, which must not run in parallel) is called in a goroutine that neither holds the mutex shared by all pushFn call sites nor belongs to the free/freeCh single-flight protocol: two snapshot builds can overlap and the older one can be published last")
	}
	// every Go whose callee signals freeCh is preceded in-block by free=false
	for _, fn := range fns {
		eachInstr(fn, func(ins ssa.Instruction) {
			g, ok := ins.(*ssa.Go)
			if !ok {
				return
			}
			callee := goTarget(g)
			if callee == nil {
				c.Check("go:target resolvable "+shortFn(fn), g.Pos(), false, "cannot resolve the goroutine's function")
				return
			}
			signals := false
			eachInstr(callee, func(i2 ssa.Instruction) {
				if _, ok := i2.(*ssa.Send); ok {
					signals = true
				}
			})
			if signals {
				pre := false
				for _, i2 := range g.Block().Instrs[:instrIndex(g)] {
					if s, ok := i2.(*ssa.Store); ok && cellOf(fn, s.Addr) {
						if b, isC := constBool(s.Val); isC && !b {
							pre = true
						}
					}
				}
				c.Check("go push:free=false first", g.Pos(), pre, "the push goroutine is started without marking the debouncer busy")
			}
		})
	}
	// C02-1 class: when the running push completes (receive from freeCh) the pending request must be re-evaluated:
	// every path through that arm calls pushWorker (which pushes or re-arms the timer) or assigns the timer itself.
	{
		var sel *ssa.Select
		eachInstr(db, func(ins ssa.Instruction) {
			if x, ok := ins.(*ssa.Select); ok {
				sel = x
			}
		})
		if sel == nil {
			c.Check("debounce:select found", db.Pos(), false, "no select in debounce")
		} else {
			k := -1
			for i, st := range sel.States {
				if st.Dir != types.RecvOnly {
					continue
				}
				v := st.Chan
				if u, ok := v.(*ssa.UnOp); ok {
					v = u.X
				}
				if a, ok := v.(*ssa.Alloc); ok && a.Comment == "freeCh" {
					k = i
				}
				if mc, ok := v.(*ssa.MakeChan); ok && isNamedLocal(mc, "freeCh") {
					k = i
				}
			}
			var arm *ssa.BasicBlock
			for _, i := range allIfs(db) {
				b, ok := i.Cond.(*ssa.BinOp)
				if !ok || b.Op != token.EQL {
					continue
				}
				ex, ok := b.X.(*ssa.Extract)
				if !ok || ex.Tuple != ssa.Value(sel) || ex.Index != 0 {
					continue
				}
				if kc, ok := b.Y.(*ssa.Const); ok && kc.Int64() == int64(k) {
					arm = i.Block().Succs[0]
				}
			}
			if arm == nil {
				c.Check("debounce:freeCh arm found", sel.Pos(), false, "cannot identify the arm that receives from freeCh")
			} else {
				isReeval := func(i2 ssa.Instruction) bool {
					if ci, ok := i2.(ssa.CallInstruction); ok {
						v := ci.Common().Value
						if u, ok := v.(*ssa.UnOp); ok {
							v = u.X
						}
						if a, ok := v.(*ssa.Alloc); ok && a.Comment == "pushWorker" {
							return true
						}
						if mc, ok := v.(*ssa.MakeClosure); ok {
							if f, ok := mc.Fn.(*ssa.Function); ok && strings.HasSuffix(f.Name(), "$2") {
								_ = f
							}
						}
						if f := closureOfValue(ci.Common().Value); f != nil && setsTimerOrPushes(f) {
							return true
						}
					}
					if s, ok := i2.(*ssa.Store); ok {
						if a, ok := s.Addr.(*ssa.Alloc); ok && a.Comment == "timeChan" {
							return true
						}
					}
					return false
				}
				_, found := pathAvoidingE(arm, nil, isReeval, nil, nil, sel.Block())
				c.Check("debounce:completion re-evaluates the pending request", sel.Pos(), !found, "a path through the `<-freeCh` arm loops back without calling pushWorker or re-arming the timer: events merged while the push ran (whose timer already fired and was ignored) are never pushed")
			}
		}
	}
	// the timer arm calls pushWorker only under `free`
	c.Floor(5)
}

func goTarget(g *ssa.Go) *ssa.Function {
	v := g.Call.Value
	switch x := v.(type) {
	case *ssa.Function:
		return x
	case *ssa.MakeClosure:
		f, _ := x.Fn.(*ssa.Function)
		return f
	case *ssa.UnOp:
		// load of a cell holding a closure: find the single store
		if a, ok := x.X.(*ssa.Alloc); ok {
			for _, ref := range *a.Referrers() {
				if s, ok := ref.(*ssa.Store); ok && s.Addr == ssa.Value(a) {
					if mc, ok := s.Val.(*ssa.MakeClosure); ok {
						f, _ := mc.Fn.(*ssa.Function)
						return f
					}
				}
			}
		}
		if fv, ok := x.X.(*ssa.FreeVar); ok {
			return closureBoundTo(g.Parent(), fv)
		}
	case *ssa.FreeVar:
		return closureBoundTo(g.Parent(), x)
	}
	return nil
}

// closureBoundTo resolves a captured variable holding a closure to the function stored in the enclosing function's cell.
func closureBoundTo(fn *ssa.Function, fv *ssa.FreeVar) *ssa.Function {
	par := fn.Parent()
	if par == nil {
		return nil
	}
	idx := -1
	for i, f := range fn.FreeVars {
		if f == fv {
			idx = i
		}
	}
	var res *ssa.Function
	eachInstr(par, func(ins ssa.Instruction) {
		mc, ok := ins.(*ssa.MakeClosure)
		if !ok || mc.Fn != ssa.Value(fn) || idx < 0 || idx >= len(mc.Bindings) {
			return
		}
		b := mc.Bindings[idx]
		if a, ok := b.(*ssa.Alloc); ok {
			for _, ref := range *a.Referrers() {
				if s, ok := ref.(*ssa.Store); ok && s.Addr == ssa.Value(a) {
					if m2, ok := s.Val.(*ssa.MakeClosure); ok {
						res, _ = m2.Fn.(*ssa.Function)
					}
				}
			}
		}
		if m2, ok := b.(*ssa.MakeClosure); ok {
			res, _ = m2.Fn.(*ssa.Function)
		}
	})
	return res
}

// storeUnderSelectRecvOf: s is under the edge `select index == k` where state k receives from the channel variable named chName.
func storeUnderSelectRecvOf(fn *ssa.Function, s *ssa.Store, chName string) bool {
	var sel *ssa.Select
	eachInstr(fn, func(ins ssa.Instruction) {
		if x, ok := ins.(*ssa.Select); ok {
			sel = x
		}
	})
	if sel == nil {
		return false
	}
	k := -1
	for i, st := range sel.States {
		if st.Dir != types.RecvOnly {
			continue
		}
		v := st.Chan
		if u, ok := v.(*ssa.UnOp); ok {
			v = u.X
		}
		switch x := v.(type) {
		case *ssa.Alloc:
			if x.Comment == chName {
				k = i
			}
		case *ssa.FreeVar:
			if x.Name() == chName {
				k = i
			}
		case *ssa.MakeChan:
			// freeCh not captured by reference: value directly
			if isNamedLocal(x, chName) {
				k = i
			}
		}
	}
	if k < 0 {
		return false
	}
	var edges []Edge
	for _, i := range allIfs(fn) {
		b, ok := i.Cond.(*ssa.BinOp)
		if !ok || b.Op != token.EQL {
			continue
		}
		ex, ok := b.X.(*ssa.Extract)
		if !ok || ex.Tuple != ssa.Value(sel) || ex.Index != 0 {
			continue
		}
		if kc, ok := b.Y.(*ssa.Const); ok && kc.Int64() == int64(k) {
			edges = append(edges, Edge{i.Block(), 0})
		}
	}
	return underEdges(fn, s.Block(), edges)
}

func isNamedLocal(v ssa.Value, name string) bool {
	refs := v.Referrers()
	if refs == nil {
		return false
	}
	for _, r := range *refs {
		if d, ok := r.(*ssa.DebugRef); ok {
			if id, ok := d.Expr.(interface{ String() string }); ok && id.String() == name {
				return true
			}
		}
	}
	return v.Name() == name
}

// closureOfValue resolves a called value to the closure function it denotes (direct, via MakeClosure, or via a local cell).
func closureOfValue(v ssa.Value) *ssa.Function {
	switch x := v.(type) {
	case *ssa.Function:
		return x
	case *ssa.MakeClosure:
		f, _ := x.Fn.(*ssa.Function)
		return f
	case *ssa.UnOp:
		if a, ok := x.X.(*ssa.Alloc); ok {
			for _, ref := range *a.Referrers() {
				if s, ok := ref.(*ssa.Store); ok && s.Addr == ssa.Value(a) {
					if mc, ok := s.Val.(*ssa.MakeClosure); ok {
						f, _ := mc.Fn.(*ssa.Function)
						return f
					}
				}
			}
		}
	}
	return nil
}

// setsTimerOrPushes: the closure contains a `go` statement and a store to the captured timer channel (pushWorker's shape).
func setsTimerOrPushes(f *ssa.Function) bool {
	hasGo, setsTimer := false, false
	eachInstr(f, func(ins ssa.Instruction) {
		if _, ok := ins.(*ssa.Go); ok {
			hasGo = true
		}
		if s, ok := ins.(*ssa.Store); ok {
			if fv, ok := s.Addr.(*ssa.FreeVar); ok && fv.Name() == "timeChan" {
				setsTimer = true
			}
		}
	})
	return hasGo && setsTimer
}


// snapshotChoice: v (stored into the merged request's Push at block b) must be other's Push, or the receiver's Push
// only where other's Push is nil. cur/other are the values standing for the two operands in fn (parameters holding the
// *PushRequest, or - one level down in a helper - parameters holding the *PushContext themselves, when f == nil).
func snapshotChoice(fn *ssa.Function, v ssa.Value, b *ssa.BasicBlock, cur, other ssa.Value, f *types.Var, depth int) string {
	isOf := func(x ssa.Value, operand ssa.Value) bool {
		if f == nil {
			return x == operand
		}
		base, ok := fieldLoadOf(x, f)
		return ok && base == operand
	}
	otherNilEdges := edgesWhere(fn, func(cv ssa.Value) bool {
		x, eq, ok := nilCmp(cv)
		return ok && eq && isOf(x, other)
	}, true)
	otherNilEdges = append(otherNilEdges, edgesWhere(fn, func(cv ssa.Value) bool {
		x, eq, ok := nilCmp(cv)
		return ok && !eq && isOf(x, other)
	}, false)...)
	var check func(x ssa.Value, at *ssa.BasicBlock) string
	check = func(x ssa.Value, at *ssa.BasicBlock) string {
		switch y := x.(type) {
		case *ssa.Phi:
			for i, e := range y.Edges {
				if w := check(e, y.Block().Preds[i]); w != "" {
					return w
				}
			}
			return ""
		case *ssa.Call:
			callee := y.Call.StaticCallee()
			if callee == nil || callee.Blocks == nil || !isIstioFunc(callee) || depth > 0 {
				return "the snapshot is computed by a call the check cannot see through (" + y.String() + ")"
			}
			var pc, po ssa.Value
			for k, a := range y.Call.Args {
				if k >= len(callee.Params) {
					break
				}
				if isOf(a, cur) {
					pc = callee.Params[k]
				}
				if isOf(a, other) {
					po = callee.Params[k]
				}
			}
			if po == nil {
				return "the helper " + callee.Name() + " does not receive the later operand's snapshot"
			}
			for _, blk := range callee.Blocks {
				r, ok := blk.Instrs[len(blk.Instrs)-1].(*ssa.Return)
				if !ok || len(r.Results) == 0 {
					continue
				}
				if w := snapshotChoice(callee, retVal(r, 0), blk, pc, po, nil, depth+1); w != "" {
					return "in " + callee.Name() + ": " + w
				}
			}
			return ""
		}
		if isOf(x, other) {
			return ""
		}
		if k, ok := x.(*ssa.Const); ok && k.IsNil() {
			if underEdges(fn, at, otherNilEdges) {
				return ""
			}
			return "nil is stored although the later operand may have a snapshot"
		}
		if cur != nil && isOf(x, cur) {
			if underEdges(fn, at, otherNilEdges) {
				return ""
			}
			return "the earlier operand's snapshot is kept on a path where the later operand has one (the choice depends on something other than its presence)"
		}
		return "the merged snapshot is neither operand's Push (" + x.String() + ")"
	}
	return check(v, b)
}


// funcHolding returns fn, or the function literal nested in it (at any depth) that contains an instruction satisfying
// pred; fn itself when none does. Lets a rule follow code that was wrapped into an immediately invoked closure.
func funcHolding(fn *ssa.Function, pred func(ssa.Instruction) bool) *ssa.Function {
	has := false
	eachInstr(fn, func(ins ssa.Instruction) {
		if pred(ins) {
			has = true
		}
	})
	if has {
		return fn
	}
	for _, a := range fn.AnonFuncs {
		if g := funcHolding(a, pred); g != a || containsInstr(a, pred) {
			return g
		}
	}
	return fn
}

func containsInstr(fn *ssa.Function, pred func(ssa.Instruction) bool) bool {
	has := false
	eachInstr(fn, func(ins ssa.Instruction) {
		if pred(ins) {
			has = true
		}
	})
	return has
}


// funcHoldingDeep: like funcHolding, but also follows static calls into functions of the same package (the anchored code
// may have been extracted into a helper or a named method). Returns nil when nothing within depth holds it.
func funcHoldingDeep(fn *ssa.Function, pred func(ssa.Instruction) bool, depth int) *ssa.Function {
	if containsInstr(fn, pred) {
		return fn
	}
	if depth <= 0 {
		return nil
	}
	for _, a := range fn.AnonFuncs {
		if g := funcHoldingDeep(a, pred, depth-1); g != nil {
			return g
		}
	}
	var found *ssa.Function
	eachInstr(fn, func(ins ssa.Instruction) {
		if found != nil {
			return
		}
		ci, ok := ins.(ssa.CallInstruction)
		if !ok {
			return
		}
		callee := ci.Common().StaticCallee()
		if callee == nil || callee.Blocks == nil || funcPkgPath(callee) != funcPkgPath(fn) || callee == fn {
			return
		}
		if g := funcHoldingDeep(callee, pred, depth-1); g != nil {
			found = g
		}
	})
	return found
}


// C02-R9: first-event-only arming of the quiet timer.
func c02r9(c *Ctx) {
	p := c.P
	fn := p.Func(pkgXds, "", "debounce")
	// the cells of the captured locals
	var timeCell, evCell *ssa.Alloc
	eachInstr(fn, func(ins ssa.Instruction) {
		if a, ok := ins.(*ssa.Alloc); ok {
			switch a.Comment {
			case "timeChan":
				timeCell = a
			case "debouncedEvents":
				evCell = a
			}
		}
	})
	if timeCell == nil || evCell == nil {
		c.Check("debounce keeps timeChan and debouncedEvents", fn.Pos(), false, "the locals timeChan / debouncedEvents of debounce were not found (they are captured by pushWorker)")
		return
	}
	// edges on which no event of the batch has been seen yet
	var first []Edge
	for _, i := range allIfs(fn) {
		v, neg := stripNot(i.Cond)
		b, ok := v.(*ssa.BinOp)
		if !ok || (b.Op != token.EQL && b.Op != token.NEQ) {
			continue
		}
		isEv := func(x ssa.Value) bool {
			u, ok := x.(*ssa.UnOp)
			return ok && u.Op == token.MUL && u.X == ssa.Value(evCell)
		}
		isZero := func(x ssa.Value) bool {
			k, ok := x.(*ssa.Const)
			return ok && k.Value != nil && k.Int64() == 0
		}
		if (isEv(b.X) && isZero(b.Y)) || (isEv(b.Y) && isZero(b.X)) {
			idx := 0
			if (b.Op == token.EQL) == neg {
				idx = 1
			}
			first = append(first, Edge{i.Block(), idx})
		}
	}
	n := 0
	eachInstr(fn, func(ins ssa.Instruction) {
		st, ok := ins.(*ssa.Store)
		if !ok || st.Addr != ssa.Value(timeCell) {
			return
		}
		if k, isC := st.Val.(*ssa.Const); isC && k.IsNil() {
			return // initialisation
		}
		n++
		c.Check("quiet timer armed only by the first event of a batch", st.Pos(), underEdges(fn, st.Block(), first),
			"debounce (re)arms the quiet timer for an event that is not the first of its batch: every event of a steady stream pushes the timer out again, the timer never fires, and debounceMax - which is only evaluated when it fires - cannot force the push; nothing is pushed until the stream pauses")
	})
	c.Check("debounce arms the quiet timer in its event arm", fn.Pos(), n >= 1 && len(first) >= 1, "no timer assignment / no `debouncedEvents == 0` test found in debounce")
	c.Floor(2)
}

