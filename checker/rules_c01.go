package main

import (
	"fmt"
	"go/ast"
	"go/token"
	"go/types"
	"sort"
	"strings"

	"golang.org/x/tools/go/ssa"
)

const pkgCore = "pilot/pkg/networking/core"
const pkgGvk = "pkg/config/schema/gvk"

func init() {
	register(&PropDef{
		ID: "C01",
		Clauses: []string{
			"R1 partial snapshot rebuild: every PushContext field an init* function writes is carried over from the old snapshot in the matching else-branch; createNewContext and updateContext call the same init* set",
			"R2 every config kind an init* function lists from the store sets a flag that guards that init* in updateContext",
			"R3 an init* function that reads an index written by another init* is re-run whenever that other one is (its flag is a plain disjunct of the guard; no narrowing conjunct)",
			"R4 per xDS type and proxy type: no function reachable from the generator reads snapshot state derived from a kind that the type's skip table lists (skip tables extracted from the source on every run)",
			"R5 kinds that make updateContext rebuild sidecar scopes also make computeProxyState reset the proxy's SidecarScope (frozen exceptions)",
		},
		NotDecided: "per-proxy dependency filtering by config key (DependsOnConfig, filterRelevantUpdates), incremental-EDS affected-cluster logic, debouncing, equality with a from-scratch build; kinds without snapshot state (Secret, WorkloadEntry, Endpoints, Address, DNSName) have no row in the state table",
		Rules: []Rule{
			{"C01-R1", "carry-over completeness in updateContext", c01r1},
			{"C01-R2", "kind -> flag agreement", c01r2},
			{"C01-R3", "derived-index guards", c01r3},
			{"C01-R4", "per-type frame rule against the skip tables", c01r4},
			{"C01-R5", "proxy-state refresh vs snapshot rebuild", c01r5},
			{"C01-R6", "reason markers narrow a push only when they are the only reason", c01r6},
			{"C01-R7", "a change marker rebuilds the snapshot index that holds what it marks", c01r7},
			{"C01-R8", "endpoint updates of services with inlined (DNS) endpoints request a cluster push", c01r8},
			{"C01-R9", "the cluster push for inlined endpoints looks at the old and the new object of an update", c01r9},
		},
	})
}

type ucBranch struct {
	init     string   // init method name
	flags    []string // identifiers in the guard
	plain    bool     // guard is a plain disjunction of identifiers
	carried  []string // fields assigned from oldPushContext in the else branch
	pos      token.Pos
	guarded  bool
}

type ucModel struct {
	branches  []ucBranch
	kindFlags map[string][]string // kind -> flags set
	flagKinds map[string][]string
	decl      *ast.FuncDecl
}

func buildUCModel(p *Prog) *ucModel {
	obj := p.FuncObj(pkgModel, "PushContext", "updateContext")
	decl := p.Decl(obj)
	info := p.InfoFor(obj)
	m := &ucModel{kindFlags: map[string][]string{}, flagKinds: map[string][]string{}, decl: decl}
	clauses, _ := switchClauses(info, decl.Body, istioMod+"/"+pkgKind, func(e ast.Expr) bool { return strings.HasSuffix(selectorName(e), ".Kind") })
	if clauses == nil {
		anchorFail("updateContext: switch over conf.Kind not found")
	}
	for k, cc := range clauses {
		for _, st := range cc.Body {
			as, ok := st.(*ast.AssignStmt)
			if !ok || len(as.Lhs) != 1 {
				continue
			}
			id, ok := as.Lhs[0].(*ast.Ident)
			rv, ok2 := as.Rhs[0].(*ast.Ident)
			if ok && ok2 && rv.Name == "true" {
				m.kindFlags[k] = append(m.kindFlags[k], id.Name)
				m.flagKinds[id.Name] = append(m.flagKinds[id.Name], k)
			}
		}
	}
	recvName := decl.Recv.List[0].Names[0].Name
	initCalls := func(n ast.Node) []string {
		var out []string
		ast.Inspect(n, func(x ast.Node) bool {
			ce, ok := x.(*ast.CallExpr)
			if !ok {
				return true
			}
			se, ok := ce.Fun.(*ast.SelectorExpr)
			if !ok {
				return true
			}
			if id, ok := se.X.(*ast.Ident); ok && id.Name == recvName && strings.HasPrefix(se.Sel.Name, "init") {
				out = append(out, se.Sel.Name)
			}
			return true
		})
		return out
	}
	for _, st := range decl.Body.List {
		switch x := st.(type) {
		case *ast.IfStmt:
			calls := initCalls(x.Body)
			if len(calls) == 0 {
				continue
			}
			flags, plain := disjuncts(x.Cond)
			var carried []string
			if x.Else != nil {
				ast.Inspect(x.Else, func(n ast.Node) bool {
					as, ok := n.(*ast.AssignStmt)
					if !ok || len(as.Lhs) != 1 {
						return true
					}
					l, ok1 := as.Lhs[0].(*ast.SelectorExpr)
					r, ok2 := as.Rhs[0].(*ast.SelectorExpr)
					if !ok1 || !ok2 {
						return true
					}
					li, ok1 := l.X.(*ast.Ident)
					ri, ok2 := r.X.(*ast.Ident)
					if ok1 && ok2 && li.Name == recvName && ri.Name != recvName && l.Sel.Name == r.Sel.Name {
						carried = append(carried, l.Sel.Name)
					}
					return true
				})
			}
			for _, c := range calls {
				m.branches = append(m.branches, ucBranch{init: c, flags: flags, plain: plain, carried: carried, pos: x.Pos(), guarded: true})
			}
		case *ast.ExprStmt:
			for _, c := range initCalls(x) {
				m.branches = append(m.branches, ucBranch{init: c, pos: x.Pos()})
			}
		}
	}
	return m
}

// pcFieldEffects: PushContext fields read / written in the bounded graph of a PushContext init method.
func pcFieldEffects(p *Prog, method string) (*Effects, map[*ssa.Function]*ssa.Function) {
	fn := p.Func(pkgModel, "PushContext", method)
	reach := p.CG().Reach([]*ssa.Function{fn}, nil)
	return effectsOf(reach), reach
}

func c01r1(c *Ctx) {
	p := c.P
	m := buildUCModel(p)
	pcs := p.Struct(pkgModel, "PushContext")
	pcField := map[*types.Var]bool{}
	for _, f := range fieldsOf(pcs) {
		pcField[f] = true
	}
	// fields that are not snapshot state: frozen, one reason each
	notState := map[string]string{
		"proxyStatusMutex": "metrics bookkeeping", "ProxyStatus": "metrics bookkeeping (AddMetric)", "initializeMutex": "init guard",
		"InitDone": "init guard",
	}
	n := 0
	for _, b := range m.branches {
		if !b.guarded {
			continue
		}
		eff, reach := pcFieldEffects(p, b.init)
		var written []string
		for f, acc := range eff.Writes {
			if !pcField[f] {
				continue
			}
			if _, skip := notState[f.Name()]; skip {
				continue
			}
			written = append(written, f.Name())
			n++
			ok := contains(b.carried, f.Name())
			det := ""
			if !ok {
				det = fmt.Sprintf("%s writes PushContext.%s (%s in %s) but the else-branch of its guard in updateContext does not copy that field from the old snapshot: after a push that does not touch its kinds the field is empty/stale (history-dependent snapshot)", b.init, f.Name(), p.pos(acc.Pos), pathTo(reach, acc.Fn))
			}
			c.Check(b.init+" writes "+f.Name()+" => carried over", b.pos, ok, det)
		}
		sort.Strings(written)
		c.Infof("%s guard=%v writes=%v carried=%v", b.init, b.flags, written, b.carried)
		// and the reverse: a carried field that the init does not write is suspicious only as information
	}
	// same init set in createNewContext
	cn := p.Decl(p.FuncObj(pkgModel, "PushContext", "createNewContext"))
	inNew := map[string]bool{}
	ast.Inspect(cn.Body, func(x ast.Node) bool {
		if ce, ok := x.(*ast.CallExpr); ok {
			if se, ok := ce.Fun.(*ast.SelectorExpr); ok && strings.HasPrefix(se.Sel.Name, "init") {
				inNew[se.Sel.Name] = true
			}
		}
		return true
	})
	inUpd := map[string]bool{}
	for _, b := range m.branches {
		inUpd[b.init] = true
	}
	for k := range inNew {
		c.Check("createNewContext."+k+" also in updateContext", cn.Pos(), inUpd[k], "an index initialised for a fresh snapshot is neither rebuilt nor carried over by the partial rebuild")
	}
	for k := range inUpd {
		c.Check("updateContext."+k+" also in createNewContext", m.decl.Pos(), inNew[k], "an index rebuilt by the partial path is never built for a fresh/forced snapshot")
	}
	c.Floor(25)
}

// gvkReads lists gvk.* package variables referenced in the bounded graph of fn.
func gvkReads(p *Prog, reach map[*ssa.Function]*ssa.Function) map[string]Access {
	out := map[string]Access{}
	gpath := istioMod + "/" + pkgGvk
	for fn := range reach {
		eachInstr(fn, func(ins ssa.Instruction) {
			var ops []*ssa.Value
			for _, op := range ins.Operands(ops) {
				if g, ok := (*op).(*ssa.Global); ok && g.Pkg != nil && g.Pkg.Pkg.Path() == gpath {
					if old, ok := out[g.Name()]; !ok || ins.Pos() < old.Pos {
						out[g.Name()] = Access{fn, ins.Pos()}
					}
				}
			}
		})
	}
	return out
}

func c01r2(c *Ctx) {
	p := c.P
	m := buildUCModel(p)
	// accessor table: calls that ingest a kind without naming its gvk
	accessors := []struct{ pkg, recv, name, kind string }{
		{pkgModel, "ServiceDiscovery", "Services", "ServiceEntry"},
		{pkgModel, "VirtualServiceController", "MergedVirtualServices", "VirtualService"},
	}
	// gvk names that are not config kinds handled by updateContext's switch: reading them in an init is not ingestion
	// of push-triggering state guarded here (frozen, with reason)
	ignore := map[string]string{
		"KubernetesGateway": "Gateway API objects are translated by their controller into Gateway/VirtualService events (comment in updateContext)",
		"GatewayClass":      "same", "HTTPRoute": "same", "GRPCRoute": "same", "TCPRoute": "same", "TLSRoute": "same", "ReferenceGrant": "same",
		"Service": "kind.Service is never set in ConfigsUpdated (asserted in ConfigUpdate); service changes arrive as ServiceEntry",
	}
	n := 0
	for _, b := range m.branches {
		if !b.guarded {
			continue
		}
		fn := p.Func(pkgModel, "PushContext", b.init)
		// the config store is a boundary: its List implementations are not entered (CHA would fan out to every
		// controller); the ingested kind is the gvk constant named at the call inside package model.
		reach := p.CG().Reach([]*ssa.Function{fn}, func(f *ssa.Function) bool { return funcPkgPath(f) != istioMod+"/"+pkgModel })
		kinds := map[string]Access{}
		for k, a := range gvkReads(p, reach) {
			kinds[k] = a
		}
		for _, ac := range accessors {
			o := p.FuncObj(ac.pkg, ac.recv, ac.name)
			for f := range reach {
				for _, call := range callsIn(f, o) {
					kinds[ac.kind] = Access{f, call.Pos()}
				}
			}
		}
		ks := sortedKeys(kinds)
		c.Infof("%s ingests %v", b.init, ks)
		for _, k := range ks {
			if _, ok := ignore[k]; ok {
				continue
			}
			flags := m.kindFlags[k]
			ok := false
			for _, f := range flags {
				if contains(b.flags, f) {
					ok = true
				}
			}
			n++
			det := ""
			if !ok {
				det = fmt.Sprintf("%s lists/reads kind %s (at %s via %s) but no flag set by `case kind.%s` guards it in updateContext (flags for that kind: %v, guard: %v): a change of that kind leaves the index built from the old objects", b.init, k, p.pos(kinds[k].Pos), pathTo(reach, kinds[k].Fn), k, flags, b.flags)
			}
			c.Check(b.init+" ingests "+k+" => guarded by its flag", b.pos, ok, det)
		}
	}
	c.Floor(11)
}

func c01r3(c *Ctx) {
	p := c.P
	m := buildUCModel(p)
	pcs := p.Struct(pkgModel, "PushContext")
	pcField := map[*types.Var]bool{}
	for _, f := range fieldsOf(pcs) {
		pcField[f] = true
	}
	// writer map: field -> init that writes it (guarded ones)
	type eff struct {
		e     *Effects
		reach map[*ssa.Function]*ssa.Function
	}
	effs := map[string]eff{}
	writerOf := map[string][]ucBranch{}
	for _, b := range m.branches {
		if _, ok := effs[b.init]; !ok {
			e, r := pcFieldEffects(p, b.init)
			effs[b.init] = eff{e, r}
		}
		if !b.guarded {
			continue
		}
		for f := range effs[b.init].e.Writes {
			if pcField[f] {
				writerOf[f.Name()] = append(writerOf[f.Name()], b)
			}
		}
	}
	// read-dependencies that are deliberately not guard-relevant (frozen, one reason each)
	exempt := map[string]string{
		"initSidecarScopes<-gatewayIndex": "",
	}
	_ = exempt
	n := 0
	for _, b := range m.branches {
		if !b.guarded {
			continue
		}
		c.Check(b.init+" guard is a plain disjunction of change flags", b.pos, b.plain,
			"the guard of "+b.init+" narrows a change flag with a further condition; whenever the flag is set the index may still be carried over from the old snapshot (the checker cannot prove such a narrowing complete)")
		n++
		e := effs[b.init]
		for f, acc := range e.e.Reads {
			if !pcField[f] {
				continue
			}
			for _, w := range writerOf[f.Name()] {
				if w.init == b.init {
					continue
				}
				// every flag of the writer's guard must be a disjunct of this guard
				for _, wf := range w.flags {
					n++
					ok := contains(b.flags, wf)
					det := ""
					if !ok {
						det = fmt.Sprintf("%s reads PushContext.%s (at %s via %s), which %s rebuilds under flag %s, but %s is not among the disjuncts of %s's guard %v: after such a change the derived index keeps data computed from the old %s", b.init, f.Name(), p.pos(acc.Pos), pathTo(e.reach, acc.Fn), w.init, wf, wf, b.init, b.flags, f.Name())
					}
					c.Check(b.init+" reads "+f.Name()+" => rebuilt on "+wf, b.pos, ok, det)
				}
			}
		}
	}
	// R3b: dependencies that are real but invisible to the effect analysis (lazy lookups, other packages): the guards
	// confirmed on the pinned tree are the reference; each with the code's own stated reason.
	required := []struct{ init, flag, why string }{
		{"initTelemetry", "servicesChanged", "updateContext comment: telemetry depends on services referenced in the provider (resolved lazily at generation time, cached in Telemetries)"},
		{"initTelemetry", "telemetryChanged", "own kind"},
		{"initKubernetesGateways", "servicesChanged", "updateContext comment: Gateway status depends on services"},
		{"initSidecarScopes", "sidecarsChanged", "own kind"},
	}
	for _, r := range required {
		var br *ucBranch
		for i := range m.branches {
			if m.branches[i].init == r.init {
				br = &m.branches[i]
			}
		}
		ok := br != nil && contains(br.flags, r.flag)
		pos := m.decl.Pos()
		if br != nil {
			pos = br.pos
		}
		c.Check(r.init+" guard includes "+r.flag+" (reference)", pos, ok, r.init+" is no longer rebuilt on "+r.flag+": "+r.why)
	}
	c.Floor(19)
}

// spec is a finite specialisation of the program: proxy type, east-west-gateway variant, and (for the needsPush
// functions) the kind of the single changed config. Tests on these quantities are resolved; everything else is unknown.
type spec struct {
	p        *Prog
	pval     string // value of model.NodeType
	pname    string // constant name (Router, SidecarProxy, Waypoint)
	ew       *bool  // Proxy.IsAmbientEastWestGateway(), nil = unknown
	kindName string // "" = unknown
	kindVal  int64
	memo     map[*ssa.Function]map[*ssa.BasicBlock]bool
	cuts     map[*ssa.Function][]Edge
	done     map[*ssa.Function]bool
	constMemo map[*ssa.Function]int
	typeField, kindField *types.Var
	ewObj    *types.Func
	sets     map[string][]string            // global set var -> kinds
	setsByP  map[string]map[string][]string // global map var -> proxy const -> kinds
}

func newSpec(p *Prog, pname string, ew *bool, kindName string) *spec {
	pval, _ := constStringOf(p.Const(pkgModel, pname))
	sp := &spec{p: p, pval: pval, pname: pname, ew: ew, kindName: kindName,
		memo: map[*ssa.Function]map[*ssa.BasicBlock]bool{}, cuts: map[*ssa.Function][]Edge{}, done: map[*ssa.Function]bool{}, constMemo: map[*ssa.Function]int{},
		typeField: p.Field(pkgModel, "Proxy", "Type"), kindField: p.Field(pkgModel, "ConfigKey", "Kind"),
		ewObj: p.FuncObj(pkgModel, "Proxy", "IsAmbientEastWestGateway"),
		sets: map[string][]string{}, setsByP: map[string]map[string][]string{}}
	if kindName != "" {
		k := p.Const(istioMod+"/"+pkgKind, kindName)
		if v, ok := constInt(k); ok {
			sp.kindVal = v
		} else {
			anchorFail("kind.%s is not an integer constant", kindName)
		}
	}
	return sp
}

func constInt(k *types.Const) (int64, bool) {
	var v int64
	_, err := fmt.Sscan(k.Val().ExactString(), &v)
	return v, err == nil
}

// globalOf: v is a load of package-level variable G of package pilot/pkg/xds -> name.
func globalOf(v ssa.Value) string {
	if u, ok := v.(*ssa.UnOp); ok && u.Op == token.MUL {
		if g, ok := u.X.(*ssa.Global); ok {
			return g.Name()
		}
	}
	return ""
}

func (sp *spec) kindsOfSet(v ssa.Value) ([]string, bool) {
	if g := globalOf(v); g != "" {
		if ks, ok := sp.sets[g]; ok {
			return ks, true
		}
		defer func() { recover() }()
		ks := sp.p.kindSet(pkgXds, g)
		sp.sets[g] = ks
		return ks, true
	}
	if lk, ok := v.(*ssa.Lookup); ok && !lk.CommaOk {
		if g := globalOf(lk.X); g != "" {
			if _, isT := fieldLoadOf(lk.Index, sp.typeField); isT {
				m, ok := sp.setsByP[g]
				if !ok {
					m = sp.p.kindSetByKey(pkgXds, g)
					sp.setsByP[g] = m
				}
				return m[sp.pname], true
			}
		}
	}
	return nil, false
}

// truth resolves a branch condition under the specialisation.
func (sp *spec) truth(cond ssa.Value) (val bool, known bool) {
	v, neg := stripNot(cond)
	defer func() {
		if known && neg {
			val = !val
		}
	}()
	switch x := v.(type) {
	case *ssa.Call:
		if o := calleeObj(x); o != nil {
			if o == sp.ewObj && sp.ew != nil {
				return *sp.ew, true
			}
			if o.Name() == "Contains" && sp.kindName != "" && len(x.Call.Args) == 2 {
				if _, isK := fieldLoadOf(x.Call.Args[1], sp.kindField); isK {
					if ks, ok := sp.kindsOfSet(x.Call.Args[0]); ok {
						return contains(ks, sp.kindName), true
					}
				}
			}
		}
		if r, ok := sp.constResult(x.Call.StaticCallee()); ok {
			return r, true
		}
	case *ssa.Extract:
		if lk, ok := x.Tuple.(*ssa.Lookup); ok && lk.CommaOk && x.Index == 1 && sp.kindName != "" {
			if _, isK := fieldLoadOf(lk.Index, sp.kindField); isK {
				if ks, ok := sp.kindsOfSet(lk.X); ok {
					return contains(ks, sp.kindName), true
				}
			}
		}
	case *ssa.BinOp:
		if x.Op != token.EQL && x.Op != token.NEQ {
			return false, false
		}
		var k *ssa.Const
		var other ssa.Value
		if c, ok := x.Y.(*ssa.Const); ok {
			k, other = c, x.X
		} else if c, ok := x.X.(*ssa.Const); ok {
			k, other = c, x.Y
		}
		if k == nil {
			return false, false
		}
		if _, ok := fieldLoadOf(other, sp.typeField); ok {
			if s, ok := constString(k); ok {
				return (s == sp.pval) == (x.Op == token.EQL), true
			}
		}
		if _, ok := fieldLoadOf(other, sp.kindField); ok && sp.kindName != "" && k.Value != nil {
			return (k.Int64() == sp.kindVal) == (x.Op == token.EQL), true
		}
	}
	return false, false
}

func (sp *spec) constResult(fn *ssa.Function) (bool, bool) {
	if fn == nil || fn.Blocks == nil || fn.Signature.Results().Len() != 1 {
		return false, false
	}
	if st, seen := sp.constMemo[fn]; seen {
		switch st {
		case 2:
			return false, true
		case 3:
			return true, true
		}
		return false, false
	}
	sp.constMemo[fn] = 0
	lb := sp.live(fn)
	seenT, seenF, other := false, false, false
	for _, b := range fn.Blocks {
		if lb != nil && !lb[b] {
			continue
		}
		for _, ins := range b.Instrs {
			if r, ok := ins.(*ssa.Return); ok {
				rv := retVal(r, 0)
				if v, isC := constBool(rv); isC {
					if v {
						seenT = true
					} else {
						seenF = true
					}
				} else if v, known := sp.truthValue(rv); known {
					if v {
						seenT = true
					} else {
						seenF = true
					}
				} else {
					other = true
				}
			}
		}
	}
	switch {
	case other || (seenT && seenF) || (!seenT && !seenF):
		sp.constMemo[fn] = 1
		return false, false
	case seenF:
		sp.constMemo[fn] = 2
		return false, true
	default:
		sp.constMemo[fn] = 3
		return true, true
	}
}

// truthValue resolves a returned boolean expression (e.g. `return node.IsAmbientEastWestGateway()`).
func (sp *spec) truthValue(v ssa.Value) (bool, bool) {
	switch v.(type) {
	case *ssa.Call, *ssa.BinOp, *ssa.UnOp:
		return sp.truth(v)
	}
	return false, false
}

// live returns the live blocks of fn under the specialisation, or nil when nothing in fn is resolved.
func (sp *spec) live(fn *ssa.Function) map[*ssa.BasicBlock]bool {
	if sp.done[fn] {
		return sp.memo[fn]
	}
	sp.done[fn] = true
	var cut []Edge
	for _, i := range allIfs(fn) {
		if t, known := sp.truth(i.Cond); known {
			if t {
				cut = append(cut, Edge{i.Block(), 1})
			} else {
				cut = append(cut, Edge{i.Block(), 0})
			}
		}
	}
	if len(cut) == 0 {
		return nil
	}
	sp.cuts[fn] = cut
	sp.memo[fn] = reachableWithout(fn, cut, nil)
	return sp.memo[fn]
}

// mustSkip decides, for one needsPush function, whether a change of kind K (alone) can never trigger a push for the
// specialised proxy: within one iteration of the loop over ConfigsUpdated no push marker (return true / Insert into the
// relevant set) is reachable. conditional=true when both outcomes are reachable (value-dependent: not decided).
func (sp *spec) skipVerdict(fn *ssa.Function) (must bool, conditional bool, ok bool) {
	live := sp.live(fn)
	cutm := map[Edge]bool{}
	for _, e := range sp.cuts[fn] {
		cutm[e] = true
	}
	var loop *rangeLoop
	for _, l := range rangeLoops(fn) {
		if l.Over == nil {
			continue
		}
		if fv := fieldOfLoad(l.Over); fv != nil && fv.Name() == "ConfigsUpdated" {
			ll := l
			loop = &ll
		}
	}
	if loop == nil {
		return false, false, false
	}
	if live != nil && !live[loop.Body] {
		// the loop is never reached for this proxy (e.g. an earlier unconditional return)
		return false, false, true
	}
	isMarker := func(ins ssa.Instruction) bool {
		if r, ok := ins.(*ssa.Return); ok && len(r.Results) > 0 {
			if b, isC := constBool(retVal(r, 0)); isC && b {
				return true
			}
		}
		if o := calleeObj(ins); o != nil && o.Name() == "Insert" {
			return true
		}
		return false
	}
	seen := map[*ssa.BasicBlock]bool{}
	st := []*ssa.BasicBlock{loop.Body}
	marker, loopsBack := false, false
	for len(st) > 0 {
		b := st[len(st)-1]
		st = st[:len(st)-1]
		if seen[b] {
			continue
		}
		seen[b] = true
		hit := false
		for _, ins := range b.Instrs {
			if isMarker(ins) {
				marker = true
				hit = true
				break
			}
		}
		if hit {
			continue
		}
		for k, s := range b.Succs {
			if cutm[Edge{b, k}] {
				continue
			}
			if s == loop.Header {
				loopsBack = true
				continue
			}
			st = append(st, s)
		}
	}
	return !marker, marker && loopsBack, true
}

// knownValueDependentSkips: (xDS type / proxy variant or * / kind) for which the needsPush function decides from the
// content of the change; each was read and the argument recorded. A new content-dependent skip is reported.
var knownValueDependentSkips = map[string]string{
	"LDS/*/PeerAuthentication": "skipped only when the policy's namespace is neither the proxy's config namespace nor the root namespace; PeerAuthentication is matched against exactly those (PolicyMatcherForProxy uses ConfigNamespace; root namespace = mesh-wide), also for waypoints (matched by the waypoint's own namespace)",
	"CDS/Waypoint/RequestAuthentication":                    "decided by the JWKS fetch-mode feature flag, not by content: only when Envoy fetches JWKS is there a JWKS cluster to rebuild (fix af6b501)",
	"CDS/Waypoint(east-west gateway)/RequestAuthentication": "same feature-flag condition as for waypoints",
	// the per-proxy relevance filter (proxyDependentOnConfig)
	"PROXY/SidecarProxy/*":      "SidecarScope.DependsOnConfig on the current and the previous scope: the scope records every config it imported (configDependencies), which is what the sidecar's resources are built from",
	"PROXY/Router/ServiceEntry": "dropped only when the service is visible to the gateway neither in its current nor in its previous (default) sidecar scope, or is not attached to the gateway under FilterGatewayClusterConfig",
	"PROXY/*/Address":           "decided by the ScopedAddressPushes flag and by whether the proxy subscribes to the Address type at all",
}

type stateRow struct{ pkg, typ, field string }

// kindState: config kind -> snapshot/proxy fields that hold state derived from objects of that kind.
// Hand-written; every row is resolved against the program on every run.
var kindState = map[string][]stateRow{
	"AuthorizationPolicy":   {{pkgModel, "PushContext", "AuthzPolicies"}},
	"RequestAuthentication": {{pkgModel, "AuthenticationPolicies", "requestAuthentications"}},
	"PeerAuthentication": {{pkgModel, "AuthenticationPolicies", "peerAuthentications"}, {pkgModel, "AuthenticationPolicies", "globalMutualTLSMode"},
		{pkgModel, "AuthenticationPolicies", "namespaceMutualTLSMode"}},
	"Telemetry":        {{pkgModel, "PushContext", "Telemetry"}},
	"WasmPlugin":       {{pkgModel, "PushContext", "trafficExtensionsByNamespace"}},
	"TrafficExtension": {{pkgModel, "PushContext", "trafficExtensionsByNamespace"}},
	"ProxyConfig":      {{pkgModel, "PushContext", "ProxyConfigs"}},
	"EnvoyFilter":      {{pkgModel, "PushContext", "envoyFiltersByNamespace"}},
	"Gateway":          {{pkgModel, "PushContext", "gatewayIndex"}, {pkgModel, "Proxy", "MergedGateway"}},
	"VirtualService": {{pkgModel, "PushContext", "virtualServiceIndex"}, {pkgModel, "IstioEgressListenerWrapper", "virtualServices"},
		{pkgModel, "IstioEgressListenerWrapper", "mostSpecificWildcardVsIndex"}},
	"DestinationRule": {{pkgModel, "PushContext", "destinationRuleIndex"}, {pkgModel, "SidecarScope", "destinationRules"},
		{pkgModel, "SidecarScope", "destinationRulesByNames"}},
	"Sidecar": {{pkgModel, "PushContext", "sidecarIndex"}},
}

func c01r4(c *Ctx) {
	p := c.P
	type ent struct {
		typ       string
		entries   []*ssa.Function
		needsPush *ssa.Function
	}
	ents := []ent{
		{"CDS", []*ssa.Function{p.Func(pkgCore, "ConfigGeneratorImpl", "BuildClusters"), p.Func(pkgCore, "ConfigGeneratorImpl", "BuildDeltaClusters")}, p.Func(pkgXds, "", "cdsNeedsPush")},
		{"LDS", []*ssa.Function{p.Func(pkgCore, "ConfigGeneratorImpl", "BuildListeners")}, p.Func(pkgXds, "", "ldsNeedsPush")},
		{"RDS", []*ssa.Function{p.Func(pkgCore, "ConfigGeneratorImpl", "BuildHTTPRoutes")}, p.Func(pkgXds, "", "rdsNeedsPush")},
		{"EDS", []*ssa.Function{p.Func(pkgXds, "EdsGenerator", "buildEndpoints")}, p.Func(pkgXds, "", "edsNeedsPush")},
		{"NDS", []*ssa.Function{p.Func(pkgCore, "ConfigGeneratorImpl", "BuildNameTable")}, p.Func(pkgXds, "", "ndsNeedsPush")},
	}
	unaff := p.kindSetByKey(pkgXds, "UnAffectedConfigKinds")
	// the skip tables must still be where the needsPush functions look them up (extraction sanity + evidence)
	for _, g := range []string{"skippedCdsConfigs", "skippedRdsConfigs", "skippedEdsConfigs", "skippedNdsConfigs"} {
		ks := p.kindSet(pkgXds, g)
		c.Infof("%s = %v", g, ks)
		c.Check("skip table "+g+" extracted", token.NoPos, len(ks) >= 3, "skip table came out (nearly) empty: extraction no longer matches the source")
	}
	ldsT := p.kindSetByKey(pkgXds, "skippedLdsConfigs")
	c.Infof("skippedLdsConfigs = %v; UnAffectedConfigKinds = %v", ldsT, unaff)
	c.Check("skip table skippedLdsConfigs extracted", token.NoPos, len(ldsT) >= 3, "per-proxy-type LDS skip table not extracted")
	// the response cache is a summarised boundary (DESIGN 3.1)
	cacheImpl := map[string]bool{"XdsCacheImpl": true, "DisabledCache": true}
	stop := func(f *ssa.Function) bool {
		if f.Signature.Recv() != nil {
			if n, ok := derefNamed(f.Signature.Recv().Type()); ok && cacheImpl[n.Obj().Name()] && pkgPathOf(n.Obj()) == istioMod+"/"+pkgModel {
				return true
			}
		}
		return false
	}
	kinds := sortedKeys(kindState)
	yes, no := true, false
	variants := []struct {
		name, pname string
		ew          *bool
	}{{"SidecarProxy", "SidecarProxy", &no}, {"Router", "Router", &no}, {"Waypoint", "Waypoint", &no}, {"Waypoint(east-west gateway)", "Waypoint", &yes}}
	nCond := 0
	for _, v := range variants {
		gen := newSpec(p, v.pname, v.ew, "")
		setup := p.CG().ReachLive([]*ssa.Function{p.Func(pkgXds, "DiscoveryServer", "computeProxyState"), p.Func(pkgXds, "DiscoveryServer", "initializeProxy")}, stop, gen.live)
		setupEff := effectsOfLive(setup, gen.live)
		for _, e := range ents {
			reach := p.CG().ReachLive(e.entries, stop, gen.live)
			eff := effectsOfLive(reach, gen.live)
			c.Stat("reachable_functions."+e.typ+"."+v.name, len(reach))
			for _, k := range kinds {
				sk := newSpec(p, v.pname, v.ew, k)
				must, cond, ok := sk.skipVerdict(e.needsPush)
				if !ok {
					c.Check(e.typ+":loop over ConfigsUpdated found in "+e.needsPush.Name(), e.needsPush.Pos(), false, "cannot locate the per-config loop of "+e.needsPush.Name())
					continue
				}
				if contains(unaff[v.pname], k) {
					must = true // filtered for the whole proxy by checkProxyDependencies
				}
				if !must {
					if cond {
						nCond++
						condKey := e.typ + "/" + v.name + "/" + k
						why, known := knownValueDependentSkips[condKey]
						if !known {
							why, known = knownValueDependentSkips[e.typ+"/*/"+k]
						}
						c.Check("content-dependent skip is a confirmed one: "+condKey, e.needsPush.Pos(), known,
							"for this proxy variant "+e.needsPush.Name()+" can both push and skip for a change of kind "+k+" alone, depending on the changed object or the proxy: the check cannot decide that the resources left unsent are unchanged, and this (type, proxy, kind) is not among the content-dependent skips that were confirmed by reading (a new one needs its argument recorded in knownValueDependentSkips)")
						_ = why
					}
					continue
				}
				for _, r := range kindState[k] {
					fv := p.Field(r.pkg, r.typ, r.field)
					if r.typ == "Proxy" {
						if _, w := setupEff.Writes[fv]; !w {
							continue // never written for this proxy variant (who-may-write under the same specialisation)
						}
					}
					acc, read := eff.Reads[fv]
					key := e.typ + "/" + v.name + " skips " + k + " => does not read " + r.typ + "." + r.field
					det := ""
					pos := token.NoPos
					if read {
						pos = acc.Pos
						det = fmt.Sprintf("%s generation for %s proxies reads %s.%s (state derived from %s) in %s, but %s never pushes for a change of kind %s alone on this proxy variant: the resources kept by the proxy can differ from a fresh generation", e.typ, v.name, r.typ, r.field, k, pathTo(reach, acc.Fn), e.needsPush.Name(), k)
					}
					c.Check(key, pos, !read, det)
				}
			}
		}
	}
	c.Stat("value_dependent_skips_not_decided", nCond)
	// the per-proxy relevance filter in front of all types: proxyDependentOnConfig under (proxy type, kind)
	pdc := p.Func(pkgXds, "", "proxyDependentOnConfig")
	allKinds := sortedKeys(kindState)
	for _, extra := range []string{"ServiceEntry", "Secret", "ConfigMap", "HTTPRoute", "KubernetesGateway", "Address", "DNSName", "Endpoints"} {
		if !contains(allKinds, extra) {
			allKinds = append(allKinds, extra)
		}
	}
	sort.Strings(allKinds)
	for _, v := range variants[:3] {
		for _, k := range allKinds {
			if _, err := func() (x int, err any) {
				defer func() { err = recover() }()
				p.Const(pkgKind, k)
				return 0, nil
			}(); err != nil {
				continue // not a kind of this tree
			}
			sk := newSpec(p, v.pname, v.ew, k)
			live := sk.live(pdc)
			t, f, comp := false, false, false
			for _, b := range pdc.Blocks {
				if live != nil && !live[b] {
					continue
				}
				r, ok := b.Instrs[len(b.Instrs)-1].(*ssa.Return)
				if !ok || len(r.Results) != 1 {
					continue
				}
				if bv, isC := constBool(retVal(r, 0)); isC {
					if bv {
						t = true
					} else {
						f = true
					}
				} else {
					comp = true
				}
			}
			if !(comp || (t && f)) {
				continue
			}
			condKey := "PROXY/" + v.name + "/" + k
			_, known := knownValueDependentSkips[condKey]
			if !known {
				_, known = knownValueDependentSkips["PROXY/"+v.name+"/*"]
			}
			if !known {
				_, known = knownValueDependentSkips["PROXY/*/"+k]
			}
			c.Check("content-dependent skip is a confirmed one: "+condKey, pdc.Pos(), known,
				"for this proxy type proxyDependentOnConfig can both keep and drop a change of kind "+k+" depending on the changed object or the proxy: the check cannot decide that what the proxy holds is unaffected by the dropped changes, and this (proxy, kind) is not among the content-dependent filters that were confirmed by reading (a new one needs its argument recorded in knownValueDependentSkips)")
		}
	}
	c.Floor(80)
}

func constStringOf(k *types.Const) (string, bool) {
	v := k.Val()
	if v == nil {
		return "", false
	}
	s := v.ExactString()
	if len(s) >= 2 && s[0] == '"' {
		return s[1 : len(s)-1], true
	}
	return s, false
}
// caseAssignsTrue: kind -> identifiers assigned `true` in the case clause of the first switch over <x>.Kind in fn.
func caseAssignsTrue(p *Prog, pkg, recv, name string) map[string][]string {
	obj := p.FuncObj(pkg, recv, name)
	decl := p.Decl(obj)
	info := p.InfoFor(obj)
	clauses, _ := switchClauses(info, decl.Body, istioMod+"/"+pkgKind, func(e ast.Expr) bool { return strings.HasSuffix(selectorName(e), ".Kind") })
	if clauses == nil {
		anchorFail("%s: switch over .Kind not found", name)
	}
	out := map[string][]string{}
	for k, cc := range clauses {
		for _, st := range cc.Body {
			as, ok := st.(*ast.AssignStmt)
			if !ok || len(as.Lhs) != 1 {
				continue
			}
			id, ok := as.Lhs[0].(*ast.Ident)
			rv, ok2 := as.Rhs[0].(*ast.Ident)
			if ok && ok2 && rv.Name == "true" {
				out[k] = append(out[k], id.Name)
			}
		}
	}
	return out
}

func c01r5(c *Ctx) {
	p := c.P
	m := buildUCModel(p)
	cps := caseAssignsTrue(p, pkgXds, "DiscoveryServer", "computeProxyState")
	// frozen exceptions, one reason each
	except := map[string]string{
		"initSidecarScopes/DNSName":               "DNSName marks an endpoint-only change of a pure-HTTP headless service; the service set a SidecarScope holds is unchanged (endpointslice.go)",
		"initSidecarScopes/RequestAuthentication": "shares the authn flag with PeerAuthentication; SidecarScope holds no RequestAuthentication-derived state",
	}
	for _, spec := range []struct{ init, resetVar string }{{"initSidecarScopes", "shouldResetSidecarScope"}, {"initGateways", "shouldResetGateway"}} {
		var br *ucBranch
		for i := range m.branches {
			if m.branches[i].init == spec.init {
				br = &m.branches[i]
			}
		}
		if br == nil {
			anchorFail("updateContext does not call %s", spec.init)
		}
		for _, flag := range br.flags {
			for _, k := range m.flagKinds[flag] {
				if _, ok := except[spec.init+"/"+k]; ok {
					c.Check(spec.init+" rebuilt on "+k+" => proxy state reset (frozen exception)", br.pos, true, "")
					continue
				}
				ok := contains(cps[k], spec.resetVar)
				det := ""
				if !ok {
					det = fmt.Sprintf("a change of kind %s makes updateContext rebuild %s, but computeProxyState does not set %s for that kind: the proxy keeps the per-proxy view computed from the previous snapshot while the snapshot moved on", k, spec.init, spec.resetVar)
				}
				c.Check(spec.init+" rebuilt on "+k+" => proxy state reset", br.pos, ok, det)
			}
		}
	}
	c.Floor(8)
	c01r5b(c)
}

// derived per-proxy state: when computeProxyState refreshes an input (frozen pairs, each confirmed through the effect
// sets: the dependent setter reads a Proxy field the input setter writes), the dependent is recomputed on every path,
// i.e. the flag that guards the dependent setter is true on every path from the input setter's call to the guard.
func c01r5b(c *Ctx) {
	p := c.P
	cps := p.Func(pkgXds, "DiscoveryServer", "computeProxyState")
	proxyT := p.Struct(pkgModel, "Proxy")
	isProxyField := map[*types.Var]bool{}
	for _, f := range fieldsOf(proxyT) {
		isProxyField[f] = true
	}
	pairs := []struct{ input, dependent, why string }{
		{"SetServiceTargets", "SetGatewaysForProxy", "the merged gateway resolves server ports to target ports through the proxy's service targets"},
	}
	for _, pr := range pairs {
		in := p.Func(pkgModel, "Proxy", pr.input)
		dep := p.Func(pkgModel, "Proxy", pr.dependent)
		w := effectsOf(p.CG().Reach([]*ssa.Function{in}, nil))
		r := effectsOf(p.CG().Reach([]*ssa.Function{dep}, nil))
		var shared []string
		for f := range w.Writes {
			if _, ok := r.Reads[f]; ok && isProxyField[f] {
				shared = append(shared, f.Name())
			}
		}
		sort.Strings(shared)
		c.Check("proxy-state dependency confirmed: "+pr.dependent+" reads what "+pr.input+" writes", dep.Pos(), len(shared) > 0, "the frozen dependency pair is no longer visible in the effect sets ("+pr.why+")")
		inCalls := callsIn(cps, p.FuncObj(pkgModel, "Proxy", pr.input))
		depCalls := callsIn(cps, p.FuncObj(pkgModel, "Proxy", pr.dependent))
		if len(inCalls) == 0 || len(depCalls) != 1 {
			c.Check("computeProxyState calls "+pr.input+" and "+pr.dependent, cps.Pos(), false, "call sites not found")
			continue
		}
		// the boolean flag guarding the dependent call: an If on a phi of constants that dominates it
		var guard *ssa.If
		for _, i := range allIfs(cps) {
			if ph, ok := i.Cond.(*ssa.Phi); ok && i.Block().Dominates(depCalls[0].Block()) && underEdges(cps, depCalls[0].Block(), []Edge{{i.Block(), 0}}) {
				_ = ph
				guard = i
			}
		}
		if guard == nil {
			c.Check(pr.dependent+" is guarded by a reset flag", depCalls[0].Pos(), false, "cannot identify the flag that guards "+pr.dependent)
			continue
		}
		for _, ic := range inCalls {
			ok := flagTrueOnAllPaths(cps, ic.Block(), guard)
			c.Check("refreshing "+pr.input+" forces "+pr.dependent, ic.Pos(), ok,
				"computeProxyState can refresh the proxy's "+strings.Join(shared, "/")+" ("+pr.input+") and reach the guard of "+pr.dependent+" with its reset flag false: "+pr.why+", so the proxy keeps state derived from the old value and the resources generated from it differ from a fresh control plane's")
		}
	}
}

// flagTrueOnAllPaths: on every CFG path from block `from` to the block of guard, the guard's condition (a phi over
// boolean constants and other such phis) evaluates to true. Path-sensitive over phi edges; unknown counts as not true.
func flagTrueOnAllPaths(fn *ssa.Function, from *ssa.BasicBlock, guard *ssa.If) bool {
	type st struct {
		b   *ssa.BasicBlock
		env string
	}
	seen := map[st]bool{}
	okAll := true
	var walk func(b *ssa.BasicBlock, env map[*ssa.Phi]int) // 1 true, 0 false, -1 unknown
	key := func(env map[*ssa.Phi]int) string {
		var ks []string
		for ph, v := range env {
			ks = append(ks, fmt.Sprintf("%s=%d", ph.Name(), v))
		}
		sort.Strings(ks)
		return strings.Join(ks, ",")
	}
	resolve := func(v ssa.Value, env map[*ssa.Phi]int) int {
		if b, ok := constBool(v); ok {
			if b {
				return 1
			}
			return 0
		}
		if ph, ok := v.(*ssa.Phi); ok {
			if r, ok := env[ph]; ok {
				return r
			}
		}
		return -1
	}
	walk = func(b *ssa.BasicBlock, env map[*ssa.Phi]int) {
		if !okAll {
			return
		}
		k := st{b, key(env)}
		if seen[k] {
			return
		}
		seen[k] = true
		if b == guard.Block() {
			if resolve(guard.Cond, env) != 1 {
				okAll = false
			}
			return
		}
		for _, s := range b.Succs {
			ne := map[*ssa.Phi]int{}
			for ph, v := range env {
				ne[ph] = v
			}
			pi := -1
			for i, pp := range s.Preds {
				if pp == b {
					pi = i
				}
			}
			// phis are evaluated in parallel on the old environment
			upd := map[*ssa.Phi]int{}
			for _, ins := range s.Instrs {
				ph, ok := ins.(*ssa.Phi)
				if !ok {
					break
				}
				if _, isBool := ph.Type().Underlying().(*types.Basic); !isBool {
					continue
				}
				if pi >= 0 {
					upd[ph] = resolve(ph.Edges[pi], env)
				}
			}
			for ph, v := range upd {
				ne[ph] = v
			}
			walk(s, ne)
		}
	}
	walk(from, map[*ssa.Phi]int{})
	return okAll
}

func funcPkgPath(f *ssa.Function) string {
	for g := f; g != nil; g = g.Parent() {
		if g.Pkg != nil {
			return g.Pkg.Pkg.Path()
		}
		if o := g.Origin(); o != nil && o != g && o.Pkg != nil {
			return o.Pkg.Pkg.Path()
		}
		if obj := g.Object(); obj != nil && obj.Pkg() != nil {
			return obj.Pkg().Path()
		}
	}
	return ""
}


// C01-R6: push requests are merged (debounce, per-proxy queue), and a merged request carries the UNION of the reasons of
// its parts. A needsPush function may therefore skip or narrow a push because of a reason marker ("this is only a
// headless endpoint update") only if that marker is the request's ONLY reason: every ReasonStats.Has test in the
// needsPush family lies under a `len(req.Reason) == 1` edge (the idiom PushRequest.IsRequest uses). A test that merely
// blacklists some other reason lets a different full-push trigger that shares the key kind (e.g. an EndpointUpdate full
// push for changed service accounts) be swallowed by a marker it was merged with.
func c01r6(c *Ctx) {
	p := c.P
	has := p.FuncObj(pkgModel, "ReasonStats", "Has")
	var fns []*ssa.Function
	seen := map[*ssa.Function]bool{}
	var add func(f *ssa.Function, depth int)
	add = func(f *ssa.Function, depth int) {
		if f == nil || seen[f] || f.Blocks == nil || funcPkgPath(f) != istioMod+"/"+pkgXds {
			return
		}
		seen[f] = true
		fns = append(fns, f)
		if depth <= 0 {
			return
		}
		eachInstr(f, func(ins ssa.Instruction) {
			if ci, ok := ins.(ssa.CallInstruction); ok {
				add(ci.Common().StaticCallee(), depth-1)
			}
		})
		for _, a := range f.AnonFuncs {
			add(a, depth-1)
		}
	}
	for _, name := range []string{"cdsNeedsPush", "ldsNeedsPush", "rdsNeedsPush", "edsNeedsPush", "ndsNeedsPush"} {
		add(p.Func(pkgXds, "", name), 2)
	}
	n := 0
	for _, fn := range fns {
		// edges under which the request has exactly one reason
		var one []Edge
		for _, i := range allIfs(fn) {
			v, neg := stripNot(i.Cond)
			b, ok := v.(*ssa.BinOp)
			if !ok || (b.Op != token.EQL && b.Op != token.NEQ) {
				continue
			}
			isLenReason := func(x ssa.Value) bool {
				call, ok := x.(*ssa.Call)
				if !ok {
					return false
				}
				bi, ok := call.Call.Value.(*ssa.Builtin)
				if !ok || bi.Name() != "len" {
					return false
				}
				fv := fieldOfLoad(call.Call.Args[0])
				return fv != nil && fv.Name() == "Reason"
			}
			isOne := func(x ssa.Value) bool {
				k, ok := x.(*ssa.Const)
				return ok && k.Value != nil && k.Int64() == 1
			}
			if (isLenReason(b.X) && isOne(b.Y)) || (isLenReason(b.Y) && isOne(b.X)) {
				idx := 0
				if (b.Op == token.EQL) == neg {
					idx = 1
				}
				one = append(one, Edge{i.Block(), idx})
			}
		}
		ord := 0
		for _, call := range callsIn(fn, has) {
			ord++
			n++
			c.Check(fmt.Sprintf("reason marker tested only as the sole reason: %s (#%d)", stableFnName(fn), ord), call.Pos(), underEdges(fn, call.Block(), one),
				"a needsPush decision looks for a reason marker in a request that may be the merge of several requests without establishing that it is the only reason (len(req.Reason) == 1): another trigger merged into the same batch - e.g. an EndpointUpdate full push for a service whose first endpoints or service accounts changed, which uses the same ServiceEntry key kind - is treated as part of the marker and its CDS/LDS/RDS push is skipped, so proxies keep clusters a fresh control plane would build differently")
		}
	}
	c.Check("reason-marker tests in the needsPush family found", token.NoPos, n >= 1, "no ReasonStats.Has test reachable from the needsPush functions (the headless-endpoint marker)")
	c.Floor(2)
}


// C01-R7: marker kinds. Some keys in ConfigsUpdated do not name a configuration object but mark a change of data the
// snapshot keeps a COPY of. Hand-written table marker -> snapshot field holding the copy; for each row the rule finds
// (through the write-effect sets of the init* methods) which guarded init* rebuilds that field in updateContext and
// requires the marker's case in the kind switch to set one of the flags of that guard. Otherwise the push for the marker
// is sent (generators that read the copy do push for it) but from a snapshot whose copy was carried over unchanged.
var markerState = map[string][]stateRow{
	// endpoints of a headless HTTP-only Service moved: the NDS name table reads the pod IPs from the per-port endpoint
	// copy the snapshot takes from the registries in initServiceRegistry
	"DNSName": {{pkgModel, "serviceIndex", "instancesByPort"}},
	// the same copy for every other service change
	"ServiceEntry": {{pkgModel, "serviceIndex", "instancesByPort"}, {pkgModel, "serviceIndex", "HostnameAndNamespace"}},
}

func c01r7(c *Ctx) {
	p := c.P
	m := buildUCModel(p)
	n := 0
	for _, k := range sortedKeys(markerState) {
		for _, row := range markerState[k] {
			fv := p.Field(row.pkg, row.typ, row.field)
			// the guarded init* whose graph (within package model) writes the field
			var br *ucBranch
			for i := range m.branches {
				b := &m.branches[i]
				fn := p.Func(pkgModel, "PushContext", b.init)
				eff := effectsOf(p.CG().Reach([]*ssa.Function{fn}, func(f *ssa.Function) bool { return funcPkgPath(f) != istioMod+"/"+pkgModel }))
				if _, w := eff.Writes[fv]; w && len(b.flags) > 0 {
					br = b
					break
				}
			}
			n++
			if br == nil {
				c.Check("marker "+k+": a guarded init rebuilds "+row.typ+"."+row.field, token.NoPos, false, "no guarded init* of updateContext writes this field: the table row no longer matches the code")
				continue
			}
			sets := false
			for _, fl := range br.flags {
				if contains(m.flagKinds[fl], k) {
					sets = true
				}
			}
			c.Check("marker "+k+" rebuilds "+row.typ+"."+row.field+" ("+br.init+")", br.pos, sets,
				"a "+k+" key in ConfigsUpdated marks a change of the data "+row.typ+"."+row.field+" is copied from, but its case in updateContext sets none of the flags ("+strings.Join(br.flags, ", ")+") that make "+br.init+" rebuild the copy: the push for the marker is generated from the carried-over copy (e.g. the NDS name table of a headless service keeps the old pod IPs) while a fresh control plane reads the current data")
		}
	}
	c.Floor(n)
}
