package main

import (
	"go/token"
	"go/types"
	"sort"
	"strings"

	"golang.org/x/tools/go/ssa"
)

func init() {
	register(&PropDef{
		ID: "C07",
		Clauses: []string{
			"R1 raw-index discipline: in the scope-building graph every *Service obtained from ServiceIndex.HostnameAndNamespace (which ignores exportTo) is used only under IsServiceVisible(svc, ns)==true, or was selected by a namespace picker each of whose non-empty results passed IsServiceVisible",
			"R1b the only writers of SidecarScope.services/servicesByHostname and IstioEgressListenerWrapper.services are the scope builders, and listener services come from selectServices over a visibility-filtered candidate list",
			"R2 ServiceAttributes.ExportTo / ConsolidatedDestRule.exportTo are read only by the frozen set of functions that implement visibility (callers must use serviceExportTo / IsServiceVisible)",
			"R3 DestinationRule selection appends a rule only under an exportTo membership test; host exclusion (~ns/host) is resolved with the same namespace normalisation as imports",
		},
		NotDecided: "host wildcard algebra, egress host matching semantics, the converse ('always delivered') direction, VirtualService exportTo index construction",
		Rules: []Rule{
			{"C07-R1", "raw service index is visibility-checked", c07r1},
			{"C07-R1b", "who may write scope service lists", c07r1b},
			{"C07-R2", "who may read exportTo", c07r2},
			{"C07-R3", "DR selection and exclusion normalisation", c07r3},
			{"C07-R4", "~ exclusions of both scopes precede every import", c07r4},
			{"C07-R5", "an unset exportTo is resolved through the mesh default when the export index is built", c07r5},
			{"C07-R6", "the effective service exportTo always passes the ServiceEntry visibility clamp", c07r6},
			{"C07-R7", "a DestinationRule is folded only into an entry that is exported no wider than the rule", c07r7},
			{"C07-R8", "the mesh-default Sidecar is the root namespace Sidecar without workload selector", c07r8},
		},
	})
}

// visibleEdges: edges on which IsServiceVisible(v, *) returned true.
func visibleEdges(fn *ssa.Function, isVis *types.Func, v ssa.Value) []Edge {
	return edgesWhere(fn, func(c ssa.Value) bool {
		call, ok := c.(*ssa.Call)
		if !ok || !isCallTo(call, isVis) {
			return false
		}
		args := call.Call.Args
		return len(args) >= 2 && (args[1] == v || sameLookup(args[1], v))
	}, true)
}

// sameLookup: two lookups of the same map with the same key (go/ssa performs no CSE: `m[k]` written twice).
func sameLookup(a, b ssa.Value) bool {
	la, ok1 := a.(*ssa.Lookup)
	lb, ok2 := b.(*ssa.Lookup)
	if !ok1 || !ok2 {
		// Extract #0 of comma-ok lookups
		ea, ok1 := a.(*ssa.Extract)
		eb, ok2 := b.(*ssa.Extract)
		if ok1 && ok2 && ea.Index == 0 && eb.Index == 0 {
			return sameLookup(ea.Tuple, eb.Tuple)
		}
		if ok1 && ea.Index == 0 {
			return sameLookup(ea.Tuple, b)
		}
		if ok2 && eb.Index == 0 {
			return sameLookup(a, eb.Tuple)
		}
		return false
	}
	return la.X == lb.X && (la.Index == lb.Index || sameValue(la.Index, lb.Index))
}

func c07r1(c *Ctx) {
	p := c.P
	raw := p.Field(pkgModel, "serviceIndex", "HostnameAndNamespace")
	isVis := p.FuncObj(pkgModel, "PushContext", "IsServiceVisible")
	pickers := []*types.Func{p.FuncObj(pkgModel, "", "pickFirstVisibleNamespace"), p.FuncObj(pkgModel, "", "pickBestVisibleNamespace")}
	entries := []*ssa.Function{p.Func(pkgModel, "", "initSidecarScopeInternalIndexes"), p.Func(pkgModel, "", "DefaultSidecarScopeForGateway")}
	reach := p.CG().Reach(entries, func(f *ssa.Function) bool { return funcPkgPath(f) != istioMod+"/"+pkgModel })
	c.Stat("scope_building_functions", len(reach))
	nLookups := 0
	var fns []*ssa.Function
	for fn := range reach {
		fns = append(fns, fn)
	}
	sort.Slice(fns, func(i, j int) bool { return fnKey(fns[i]) < fnKey(fns[j]) })
	for _, fn := range fns {
		// maps obtained from the raw index: Lookup whose X is a load of HostnameAndNamespace (value or Extract #0)
		rawMaps := map[ssa.Value]bool{}
		eachInstr(fn, func(ins ssa.Instruction) {
			lk, ok := ins.(*ssa.Lookup)
			if !ok || fieldOfLoad(lk.X) != raw {
				return
			}
			rawMaps[lk] = true
			if refs := lk.Referrers(); refs != nil {
				for _, r := range *refs {
					if ex, ok := r.(*ssa.Extract); ok && ex.Index == 0 {
						rawMaps[ex] = true
					}
				}
			}
		})
		if len(rawMaps) == 0 {
			continue
		}
		// services looked up / ranged from those maps
		eachInstr(fn, func(ins ssa.Instruction) {
			var svc ssa.Value
			var key ssa.Value
			var m ssa.Value
			switch x := ins.(type) {
			case *ssa.Lookup:
				if !rawMaps[x.X] {
					return
				}
				m, key = x.X, x.Index
				svc = x
				if x.CommaOk {
					svc = nil
					for _, r := range *x.Referrers() {
						if ex, ok := r.(*ssa.Extract); ok && ex.Index == 0 {
							svc = ex
						}
					}
					if svc == nil {
						return
					}
				}
			case *ssa.Range:
				if !rawMaps[x.X] {
					return
				}
				// range over the raw per-namespace map: the value extracted from Next
				for _, r := range *x.Referrers() {
					nx, ok := r.(*ssa.Next)
					if !ok {
						continue
					}
					for _, r2 := range *nx.Referrers() {
						if ex, ok := r2.(*ssa.Extract); ok && ex.Index == 2 {
							svc = ex
						}
					}
				}
				if svc == nil {
					return
				}
				m = x.X
			default:
				return
			}
			nLookups++
			// (b) key chosen by a verified picker applied to the same map
			if key != nil {
				if call, ok := key.(*ssa.Call); ok && len(call.Call.Args) >= 2 && call.Call.Args[1] == m {
					callees := possibleCallees(call)
					allPickers := len(callees) > 0
					for _, f := range callees {
						isP := false
						for _, pk := range pickers {
							if funcObjOf(f) == pk {
								isP = true
							}
						}
						if !isP {
							allPickers = false
						}
					}
					if allPickers {
						c.Check("raw lookup keyed by verified picker:"+shortFn(fn), ins.Pos(), true, "")
						return
					}
				}
			}
			// (a) every use of the service is a visibility test, a nil/ok test, or lies under a visible edge
			edges := visibleEdges(fn, isVis, svc)
			bad := token.NoPos
			refs := svc.Referrers()
			if refs != nil {
				for _, r := range *refs {
					switch u := r.(type) {
					case *ssa.DebugRef:
						continue
					case *ssa.BinOp:
						continue // nil comparison
					case *ssa.Call:
						if isCallTo(u, isVis) {
							continue
						}
					case *ssa.Phi:
						// flows on: treat the phi as a use
					}
					if !underEdges(fn, r.Block(), edges) {
						bad = r.Pos()
						if bad == token.NoPos {
							bad = ins.Pos()
						}
					}
				}
			}
			det := ""
			if bad != token.NoPos {
				det = "a *Service taken from ServiceIndex.HostnameAndNamespace (all services regardless of exportTo) is used at " + p.pos(bad) + " without passing IsServiceVisible(svc, ns)==true: a service not exported to the proxy's namespace can enter its scope"
			}
			c.Check("raw service lookup is visibility-checked:"+shortFn(fn), ins.Pos(), bad == token.NoPos, det)
		})
	}
	c.Check("raw index lookups found in the scope-building graph", token.NoPos, nLookups >= 3, "fewer raw-index lookups than confirmed by hand")
	// pickers: every non-empty return is the namespace of a service that passed IsServiceVisible
	for _, pk := range pickers {
		fn := p.SSA.FuncValue(pk)
		visEdgesAny := edgesWhere(fn, func(cv ssa.Value) bool { call, ok := cv.(*ssa.Call); return ok && isCallTo(call, isVis) }, true)
		c.Check(pk.Name()+" tests visibility", fn.Pos(), len(visEdgesAny) >= 1, "picker never calls IsServiceVisible")
		// every append (candidate accumulation), every store into the chosen-variable and every direct non-empty return
		// must lie under a visibility-true edge
		eachInstr(fn, func(ins ssa.Instruction) {
			switch x := ins.(type) {
			case *ssa.Return:
				rv := retVal(x, 0)
				if s, ok := constString(rv); ok && s == "" {
					return
				}
				// a computed return: either under a visible edge, or derived only from values accumulated under one
				if underEdges(fn, x.Block(), visEdgesAny) {
					c.Check(pk.Name()+":non-empty result is a visible namespace", x.Pos(), true, "")
					return
				}
				okv := derivedUnderEdges(fn, rv, visEdgesAny, 0)
				c.Check(pk.Name()+":non-empty result is a visible namespace", x.Pos(), okv, "the picker can return a namespace whose service did not pass IsServiceVisible: the caller imports byNamespace[ns] without a further check")
			}
		})
	}
	c.Floor(8)
}

// derivedUnderEdges: every non-constant source of v was produced (appended / assigned) under one of the edges.
var derivedSeen = map[ssa.Value]bool{}

func derivedUnderEdges(fn *ssa.Function, v ssa.Value, edges []Edge, depth int) bool {
	if depth == 0 {
		derivedSeen = map[ssa.Value]bool{}
	}
	if depth > 40 {
		return false
	}
	if derivedSeen[v] {
		return true // coinductive: a cycle through loop-carried phis adds no new source
	}
	derivedSeen[v] = true
	switch x := v.(type) {
	case *ssa.Const:
		return true
	case *ssa.Phi:
		for i, e := range x.Edges {
			if k, ok := e.(*ssa.Const); ok && (k.IsNil() || k.Value == nil) {
				continue
			}
			// value assigned on an edge: the assigning block must be under a visible edge
			pred := x.Block().Preds[i]
			if underEdges(fn, pred, edges) {
				continue
			}
			if !derivedUnderEdges(fn, e, edges, depth+1) {
				return false
			}
		}
		return true
	case *ssa.UnOp:
		return derivedUnderEdges(fn, x.X, edges, depth+1)
	case *ssa.IndexAddr:
		return derivedUnderEdges(fn, x.X, edges, depth+1)
	case *ssa.Index:
		return derivedUnderEdges(fn, x.X, edges, depth+1)
	case *ssa.FieldAddr:
		return derivedUnderEdges(fn, x.X, edges, depth+1)
	case *ssa.Field:
		return derivedUnderEdges(fn, x.X, edges, depth+1)
	case *ssa.Slice:
		return derivedUnderEdges(fn, x.X, edges, depth+1)
	case *ssa.Alloc:
		return true
	case *ssa.MakeSlice:
		return true
	case *ssa.Call:
		if bi, ok := x.Call.Value.(*ssa.Builtin); ok && bi.Name() == "append" {
			// appended elements must be appended under a visible edge; the accumulated slice recursively
			if !underEdges(fn, x.Block(), edges) {
				return false
			}
			return derivedUnderEdges(fn, x.Call.Args[0], edges, depth+1)
		}
		// method call on a derived value (svc.NamespacedName())
		if len(x.Call.Args) > 0 {
			return derivedUnderEdges(fn, x.Call.Args[0], edges, depth+1)
		}
	case *ssa.Extract:
		return underEdges(fn, x.Block(), edges)
	}
	return underEdges(fn, blockOf(v), edges)
}

func blockOf(v ssa.Value) *ssa.BasicBlock {
	if i, ok := v.(ssa.Instruction); ok {
		return i.Block()
	}
	return nil
}

// possibleCallees resolves a call through a local function-valued phi / closure.
func possibleCallees(call *ssa.Call) []*ssa.Function {
	var out []*ssa.Function
	var walk func(v ssa.Value, d int)
	walk = func(v ssa.Value, d int) {
		if d > 4 {
			return
		}
		switch x := v.(type) {
		case *ssa.Function:
			out = append(out, x)
		case *ssa.MakeClosure:
			if f, ok := x.Fn.(*ssa.Function); ok {
				out = append(out, f)
			}
		case *ssa.Phi:
			for _, e := range x.Edges {
				walk(e, d+1)
			}
		}
	}
	walk(call.Call.Value, 0)
	return out
}

func c07r1b(c *Ctx) {
	p := c.P
	allow := map[string]map[string]string{
		"SidecarScope.services": {
			"(*pilot/pkg/model.SidecarScope).appendSidecarServices": "the single sink of services entering a scope",
		},
		"SidecarScope.servicesByHostname": {
			"(*pilot/pkg/model.SidecarScope).appendSidecarServices": "same",
			"pilot/pkg/model.DefaultSidecarScopeForGateway":          "allocates the map",
			"pilot/pkg/model.convertToSidecarScope":                  "allocates the map",
		},
		"IstioEgressListenerWrapper.services": {
			"pilot/pkg/model.convertIstioListenerToWrapper": "selectServices over a filtered candidate list",
		},
	}
	for key, fns := range allow {
		parts := strings.Split(key, ".")
		fv := p.Field(pkgModel, parts[0], parts[1])
		n := 0
		for _, fn := range p.AllFuncs {
			if strings.HasSuffix(p.Fset.Position(fn.Pos()).Filename, "_test.go") {
				continue
			}
			e := effectsOfFuncs([]*ssa.Function{fn})
			acc, w := e.Writes[fv]
			if !w {
				continue
			}
			// only real stores / map updates count (not address escapes for reads)
			real := len(storesTo(fn, fv)) > 0
			eachInstr(fn, func(ins ssa.Instruction) {
				if mu, ok := ins.(*ssa.MapUpdate); ok && fieldOfLoad(mu.Map) == fv {
					real = true
				}
			})
			if !real {
				continue
			}
			n++
			_, ok := fns[shortFn(fn)]
			c.Check("writer of "+key+":"+shortFn(fn), acc.Pos, ok, key+" is written outside the scope builders: services can enter a proxy's view without passing the visibility/import filters")
		}
		c.Check("writers of "+key+" found", fv.Pos(), n >= 1, "no writer found")
	}
	// listener services = selectServices(candidates) with candidates from the two filtered sources
	fn := p.Func(pkgModel, "", "convertIstioListenerToWrapper")
	sel := p.FuncObj(pkgModel, "IstioEgressListenerWrapper", "selectServices")
	exp := p.FuncObj(pkgModel, "PushContext", "servicesExportedToNamespace")
	exact := p.FuncObj(pkgModel, "PushContext", "servicesForExactHosts")
	svcF := p.Field(pkgModel, "IstioEgressListenerWrapper", "services")
	for _, s := range storesTo(fn, svcF) {
		call, ok := s.Val.(*ssa.Call)
		okSel := ok && isCallTo(call, sel)
		c.Check("listener services come from selectServices", s.Pos(), okSel, "IstioEgressListenerWrapper.services is assigned something other than selectServices(...)")
		if !okSel {
			continue
		}
		var ls []ssa.Value
		phiLeaves(call.Call.Args[1], map[ssa.Value]bool{}, &ls)
		for _, l := range ls {
			cl, ok := l.(*ssa.Call)
			okc := ok && (isCallTo(cl, exp) || isCallTo(cl, exact))
			if k, isK := l.(*ssa.Const); isK && k.IsNil() {
				okc = true
			}
			c.Check("selectServices candidates are visibility-filtered", l.Pos(), okc, "the candidate list handed to selectServices does not come from servicesExportedToNamespace / servicesForExactHosts")
		}
		// namespace argument of the filtered source is the proxy's config namespace parameter
		for _, l := range ls {
			if cl, ok := l.(*ssa.Call); ok && len(cl.Call.Args) >= 2 {
				c.Check("candidate filter uses the proxy's namespace", cl.Pos(), cl.Call.Args[1] == ssa.Value(paramNamed(fn, "configNamespace")), "visibility is evaluated for a namespace other than the proxy's config namespace")
			}
		}
	}
	c.Floor(8)
}

func c07r2(c *Ctx) {
	p := c.P
	specs := []struct {
		typ, field string
		allow      map[string]string
	}{
		{"ServiceAttributes", "ExportTo", map[string]string{
			"(*pilot/pkg/model.PushContext).serviceExportTo":                                            "THE accessor (applies mesh defaults and the ServiceEntry clamp)",
			"pilot/pkg/model.canMergeServices":                                                          "equality of two services' raw exportTo when merging duplicates",
			"(*pilot/pkg/model.ServiceAttributes).DeepCopy":                                             "copy",
			"(*pilot/pkg/model.ServiceAttributes).Equals":                                               "equality",
			"pilot/pkg/serviceregistry/serviceentry.ServiceToServiceEntry":                              "conversion back to API object",
			"(*pilot/pkg/serviceregistry/kube/controller.Controller).addOrUpdateService":                "exportTo ~ (none) short-circuit in the registry",
			"pilot/pkg/serviceregistry/kube/controller.serviceUpdateNeedsPush":                          "exportTo ~ (none) short-circuit in the registry",
			"(*pilot/pkg/serviceregistry/kube/controller.Controller).deleteService":                     "exportTo ~ (none) short-circuit in the registry",
		}},
		{"ConsolidatedDestRule", "exportTo", map[string]string{
			"(*pilot/pkg/model.PushContext).getExportedDestinationRuleFromNamespace": "THE export check for DestinationRules",
			"(*pilot/pkg/model.ConsolidatedDestRule).Equals":                         "equality",
			"(*pilot/pkg/model.ConsolidatedDestRule).MarshalJSON":                    "debug",
			"(*pilot/pkg/model.PushContext).mergeDestinationRule":                    "index construction",
			"pilot/pkg/model.ConvertConsolidatedDestRule":                            "constructor",
			"(*pilot/pkg/model.PushContext).SetDestinationRulesForTesting":           "test helper",
		}},
	}
	for _, s := range specs {
		fv := p.Field(pkgModel, s.typ, s.field)
		n := 0
		for _, fn := range p.AllFuncs {
			if strings.HasSuffix(p.Fset.Position(fn.Pos()).Filename, "_test.go") || fn.Synthetic != "" && !strings.HasPrefix(fn.Synthetic, "instance of") {
				continue
			}
			e := effectsOfFuncs([]*ssa.Function{fn})
			acc, r := e.Reads[fv]
			if !r {
				continue
			}
			n++
			root := fn
			for root.Parent() != nil {
				root = root.Parent()
			}
			_, ok := s.allow[shortFn(root)]
			if !ok {
				if owner := p.extractedFrom(root, func(f *ssa.Function) bool { _, in := s.allow[shortFn(f)]; return in }, 2); owner != nil {
					ok = true
					root = owner
				}
			}
			c.Check("reader of "+s.typ+"."+s.field+":"+shortFn(root), acc.Pos, ok, s.typ+"."+s.field+" is read here for what may be a scoping decision; the code requires visibility to go through serviceExportTo/IsServiceVisible (mesh defaults, ServiceEntry clamp) resp. getExportedDestinationRuleFromNamespace")
		}
		c.Check("readers of "+s.typ+"."+s.field+" found", fv.Pos(), n >= 2, "fewer readers than confirmed by hand")
	}
	c.Floor(8)
}

func c07r3(c *Ctx) {
	p := c.P
	fn := p.Func(pkgModel, "PushContext", "getExportedDestinationRuleFromNamespace")
	expF := p.Field(pkgModel, "ConsolidatedDestRule", "exportTo")
	// appends of a rule to the result lie under a membership test on that rule's exportTo
	n := 0
	eachInstr(fn, func(ins ssa.Instruction) {
		if !isAppendCall(ins) {
			return
		}
		n++
		var edges []Edge
		for _, i := range allIfs(fn) {
			call, ok := i.Cond.(*ssa.Call)
			if !ok {
				continue
			}
			o := calleeObj(call)
			if o == nil || (o.Name() != "Contains" && o.Name() != "IsEmpty") {
				continue
			}
			if len(call.Call.Args) >= 1 && fieldOfLoad(call.Call.Args[0]) == expF {
				edges = append(edges, Edge{i.Block(), 0})
			}
		}
		c.Check("DestinationRule appended only under an exportTo test", ins.Pos(), len(edges) >= 2 && underEdges(fn, ins.Block(), edges),
			"a DestinationRule is selected for a client namespace without a membership test on its exportTo: a rule not exported to the proxy's namespace shapes its configuration")
		// one of the tests is Contains(clientNamespace)
		sawClient := false
		for _, i := range allIfs(fn) {
			call, ok := i.Cond.(*ssa.Call)
			if !ok || len(call.Call.Args) < 2 {
				continue
			}
			if conv, ok := call.Call.Args[1].(*ssa.ChangeType); ok && conv.X == ssa.Value(paramNamed(fn, "clientNamespace")) {
				sawClient = true
			}
			if conv, ok := call.Call.Args[1].(*ssa.Convert); ok && conv.X == ssa.Value(paramNamed(fn, "clientNamespace")) {
				sawClient = true
			}
		}
		c.Check("DestinationRule export test names the client namespace", ins.Pos(), sawClient, "no exportTo.Contains(clientNamespace) test")
	})
	c.Check("DestinationRule selection appends", fn.Pos(), n >= 1, "no append found")
	// C07-1 class: in convertIstioListenerToWrapper the '.' -> configNamespace normalisation applies to the namespace that
	// keys BOTH imports and exclusions: the store into hostsByNamespace for excluded hosts happens after (is dominated by)
	// the normalisation test, i.e. every MapUpdate of hostsByNamespace is preceded on all paths by the `ns == "."` test.
	cw := p.Func(pkgModel, "", "convertIstioListenerToWrapper")
	cur, _ := constStringOf(p.Const(pkgModel, "currentNamespace"))
	excl, _ := constStringOf(p.Const(pkgModel, "excludePrefix"))
	var normIf, exclTrim ssa.Instruction
	eachInstr(cw, func(ins ssa.Instruction) {
		if b, ok := ins.(*ssa.BinOp); ok && b.Op == token.EQL {
			if s, ok := constString(b.Y); ok && s == cur {
				normIf = ins
			}
		}
		if call, ok := ins.(*ssa.Call); ok {
			if o := calleeObj(call); o != nil && o.Name() == "TrimPrefix" && len(call.Call.Args) == 2 {
				if s, ok := constString(call.Call.Args[1]); ok && s == excl {
					exclTrim = ins
				}
			}
		}
	})
	c.Check("egress host parsing normalises '.'", cw.Pos(), normIf != nil, "no comparison of the host namespace with the current-namespace shorthand")
	c.Check("egress host parsing strips the exclusion prefix", cw.Pos(), exclTrim != nil, "no TrimPrefix of the exclusion prefix")
	if normIf != nil && exclTrim != nil {
		// the shorthand test must see the namespace AFTER the exclusion prefix was stripped: the compared value derives (phi)
		// from the TrimPrefix result
		b := normIf.(*ssa.BinOp)
		var ls []ssa.Value
		phiLeaves(b.X, map[ssa.Value]bool{}, &ls)
		derives := false
		for _, l := range ls {
			if l == exclTrim.(ssa.Value) {
				derives = true
			}
			if ph, ok := l.(*ssa.Phi); ok {
				_ = ph
			}
		}
		// deeper: one more level of phi
		if !derives {
			seen := map[ssa.Value]bool{}
			var walk func(v ssa.Value, d int)
			walk = func(v ssa.Value, d int) {
				if seen[v] || d > 6 {
					return
				}
				seen[v] = true
				if v == exclTrim.(ssa.Value) {
					derives = true
				}
				if ph, ok := v.(*ssa.Phi); ok {
					for _, e := range ph.Edges {
						walk(e, d+1)
					}
				}
			}
			walk(b.X, 0)
		}
		c.Check("'.' shorthand is resolved on the namespace after stripping '~'", normIf.Pos(), derives,
			"the current-namespace shorthand is resolved before the exclusion prefix is stripped: `~./host` is recorded under the literal namespace \".\" and excludes nothing")
	}
	c.Floor(5)
}


// C07-R4: a Sidecar egress host list can exclude hosts with a ~ prefix, scoped to a namespace or to the wildcard
// namespace. In every function that consults exclusions (hostClassification.Excluded), every import it performs inside
// the same loop lies behind the exclusions of BOTH scopes: for each scope, under the edge "no entry for that scope" or
// the edge "not excluded by that scope".
func c07r4(c *Ctx) {
	p := c.P
	excl := p.FuncObj(pkgModel, "hostClassification", "Excluded")
	// origin of a value: the comma-ok map lookup it was extracted from (through cells of captured variables)
	var origin func(v ssa.Value, depth int) (*ssa.Lookup, int)
	origin = func(v ssa.Value, depth int) (*ssa.Lookup, int) {
		if depth > 6 {
			return nil, -1
		}
		switch x := v.(type) {
		case *ssa.Parameter:
			// a helper that is handed the looked-up classification (and its found flag): follow its only call site
			callee := x.Parent()
			idx := -1
			for i, prm := range callee.Params {
				if prm == x {
					idx = i
				}
			}
			var sites []ssa.CallInstruction
			for _, g := range p.AllFuncs {
				if funcPkgPath(g) != funcPkgPath(callee) {
					continue
				}
				eachInstr(g, func(ins ssa.Instruction) {
					if ci, ok := ins.(ssa.CallInstruction); ok && ci.Common().StaticCallee() == callee {
						sites = append(sites, ci)
					}
				})
			}
			if len(sites) == 1 && idx >= 0 && idx < len(sites[0].Common().Args) {
				return origin(sites[0].Common().Args[idx], depth+1)
			}
			return nil, -1
		case *ssa.Extract:
			if lk, ok := x.Tuple.(*ssa.Lookup); ok {
				return lk, x.Index
			}
		case *ssa.UnOp:
			if x.Op != token.MUL {
				return nil, -1
			}
			var cell ssa.Value = x.X
			if fv, ok := cell.(*ssa.FreeVar); ok {
				fn := fv.Parent()
				idx := -1
				for i, f := range fn.FreeVars {
					if f == fv {
						idx = i
					}
				}
				parent := fn.Parent()
				cell = nil
				if parent != nil && idx >= 0 {
					eachInstr(parent, func(ins ssa.Instruction) {
						if mk, ok := ins.(*ssa.MakeClosure); ok && mk.Fn == ssa.Value(fn) && idx < len(mk.Bindings) {
							cell = mk.Bindings[idx]
						}
					})
				}
			}
			if a, ok := cell.(*ssa.Alloc); ok {
				for _, r := range *a.Referrers() {
					if st, ok := r.(*ssa.Store); ok && st.Addr == ssa.Value(a) {
						if lk, i := origin(st.Val, depth+1); lk != nil {
							return lk, i
						}
					}
				}
			}
		}
		return nil, -1
	}
	isWildcard := func(lk *ssa.Lookup) bool {
		s, ok := constString(lk.Index)
		return ok && s == "*"
	}
	nFns := 0
	for _, fn := range p.AllFuncs {
		if funcPkgPath(fn) != istioMod+"/"+pkgModel || strings.HasSuffix(p.Fset.Position(fn.Pos()).Filename, "_test.go") {
			continue
		}
		if fn.Synthetic != "" {
			continue // pointer-receiver wrappers
		}
		calls := callsIn(fn, excl)
		if len(calls) == 0 {
			continue
		}
		nFns++
		// cut sets per scope
		cut := map[bool][]Edge{} // wildcard? -> edges
		lookups := map[bool]*ssa.Lookup{}
		for _, call := range calls {
			cc := call.Common()
			recv := cc.Args[0]
			lk, idx := origin(recv, 0)
			if lk == nil || idx != 0 {
				c.Check("exclusion receiver resolved:"+stableFnName(fn), call.Pos(), false, "cannot tell which scope's exclusions are consulted here")
				continue
			}
			w := isWildcard(lk)
			lookups[w] = lk
			for _, i := range allIfs(fn) {
				cv, neg := stripNot(i.Cond)
				if cv == call.Value() {
					idx := 1
					if neg {
						idx = 0
					}
					cut[w] = append(cut[w], Edge{i.Block(), idx})
				}
			}
		}
		for w, lk := range lookups {
			for _, i := range allIfs(fn) {
				cv, neg := stripNot(i.Cond)
				if l2, idx := origin(cv, 0); l2 != nil && idx == 1 && (l2 == lk || (isWildcard(l2) == w && sameValue(l2.X, lk.X) && sameValue(l2.Index, lk.Index))) {
					e := 1
					if neg {
						e = 0
					}
					cut[w] = append(cut[w], Edge{i.Block(), e})
				}
			}
		}
		for _, w := range []bool{false, true} {
			name := "namespace"
			if w {
				name = "wildcard"
			}
			c.Check("exclusions of the "+name+" scope consulted:"+stableFnName(fn), fn.Pos(), lookups[w] != nil,
				"this function consults ~ exclusions, but not those of the "+name+" scope: a host excluded there is still imported")
		}
		// a helper that decides one candidate: its imports are its non-nil results
		inLoop := false
		for _, l := range rangeLoops(fn) {
			if l.Body == nil {
				continue
			}
			for _, call := range calls {
				if l.Body.Dominates(call.Block()) {
					inLoop = true
				}
			}
		}
		if !inLoop {
			eachInstr(fn, func(ins ssa.Instruction) {
				r, ok := ins.(*ssa.Return)
				if !ok || len(r.Results) == 0 {
					return
				}
				rv := retVal(r, 0)
				if k, ok := rv.(*ssa.Const); ok && k.IsNil() {
					return
				}
				if _, isPtr := rv.Type().Underlying().(*types.Pointer); !isPtr {
					return
				}
				for _, w := range []bool{false, true} {
					if lookups[w] == nil {
						continue
					}
					name := "namespace"
					if w {
						name = "wildcard"
					}
					// a phi result: every non-nil edge must come from a guarded block
					okr := underEdges(fn, r.Block(), cut[w])
					if ph, ok := rv.(*ssa.Phi); ok && !okr {
						okr = true
						for i, e := range ph.Edges {
							if k, ok := e.(*ssa.Const); ok && k.IsNil() {
								continue
							}
							if !underEdges(fn, ph.Block().Preds[i], cut[w]) {
								okr = false
							}
						}
					}
					c.Check("import behind the "+name+"-scope exclusions:"+stableFnName(fn), r.Pos(), okr,
						"a service / virtual service is imported (returned) on a path that has not consulted the ~ exclusions of the "+name+" scope: the proxy receives clusters, endpoints and routes for a host its Sidecar excludes")
				}
			})
		}
		// imports: appends inside a loop that contains an Excluded call
		for _, l := range rangeLoops(fn) {
			if l.Header == nil || l.Body == nil {
				continue
			}
			// the loop's body in the source sense: everything its first block dominates (includes blocks that leave the
			// function from inside the loop)
			has := false
			for _, call := range calls {
				if l.Body.Dominates(call.Block()) {
					has = true
				}
			}
			if !has {
				continue
			}
			for _, b := range fn.Blocks {
				if !l.Body.Dominates(b) {
					continue
				}
				for _, ins := range b.Instrs {
					if !isAppendCall(ins) {
						continue
					}
					for _, w := range []bool{false, true} {
						if lookups[w] == nil {
							continue
						}
						name := "namespace"
						if w {
							name = "wildcard"
						}
						c.Check("import behind the "+name+"-scope exclusions:"+stableFnName(fn), ins.Pos(), underEdges(fn, b, cut[w]),
							"a service / virtual service is imported on a path that has not consulted the ~ exclusions of the "+name+" scope (e.g. hosts [\"ns/*\", \"~/secret.example.com\"]): the proxy receives clusters, endpoints and routes for a host its Sidecar excludes")
					}
				}
			}
		}
	}
	c.Check("functions consulting exclusions found", token.NoPos, nFns >= 2, "expected selectServices and SelectVirtualServices' helper")
	c.Floor(8)
}


// C07-R5: for each kind, the code that builds the export index reads the mesh-wide default (exportToDefaults.<kind>):
// an object without exportTo follows the mesh default, which may be private. If the index builder never looks at the
// default, such objects are indexed as public whatever the mesh says.
func c07r5(c *Ctx) {
	p := c.P
	for _, row := range []struct{ field, entry string }{
		{"service", "initServiceRegistry"}, {"virtualService", "initVirtualServices"}, {"destinationRule", "setDestinationRules"},
	} {
		fv := p.Field(pkgModel, "exportToDefaults", row.field)
		entry := p.Func(pkgModel, "PushContext", row.entry)
		reach := p.CG().Reach([]*ssa.Function{entry}, func(f *ssa.Function) bool { return funcPkgPath(f) != istioMod+"/"+pkgModel })
		eff := effectsOf(reach)
		_, read := eff.Reads[fv]
		c.Check("mesh default exportTo consulted when indexing: "+row.field, entry.Pos(), read,
			row.entry+" (and what it calls in package model) never reads exportToDefaults."+row.field+": an object without exportTo is indexed without regard to the mesh default, so with a private default (\".\") it is handed to every namespace")
	}
	c.Floor(3)
}


// C07-R6: serviceExportTo is the one place the effective export set of a service is computed; the serviceEntryVisibility
// clamp (applyToSidecars) may only narrow it. Every path to a return passes the clamp decision (the GetApplyToSidecars
// test), except the path on which the set is exactly {None} (nothing to narrow). A short cut in front of it - e.g. "no
// exportTo declared: return the mesh default" - hands out an unclamped set, and a ServiceEntry that the policy confines
// to its namespace is visible to every namespace.
func c07r6(c *Ctx) {
	p := c.P
	fn := p.Func(pkgModel, "PushContext", "serviceExportTo")
	isClamp := func(ins ssa.Instruction) bool {
		o := calleeObj(ins)
		return o != nil && o.Name() == "GetApplyToSidecars"
	}
	n := 0
	eachInstr(fn, func(ins ssa.Instruction) {
		if isClamp(ins) {
			n++
		}
	})
	c.Check("serviceExportTo consults the visibility clamp", fn.Pos(), n >= 1 || funcHoldingDeep(fn, isClamp, 2) != nil, "no GetApplyToSidecars test in serviceExportTo")
	// the {None} edge
	var none []Edge
	for _, i := range allIfs(fn) {
		v, neg := stripNot(i.Cond)
		call, ok := v.(*ssa.Call)
		if !ok {
			continue
		}
		if o := calleeObj(call); o == nil || o.Name() != "Contains" {
			continue
		}
		isNone := false
		for _, a := range call.Call.Args {
			if sv, ok := constString(a); ok && sv == "~" {
				isNone = true
			}
		}
		if !isNone {
			continue
		}
		idx := 0
		if neg {
			idx = 1
		}
		none = append(none, Edge{i.Block(), idx})
	}
	bad, found := pathAvoidingE(fn.Blocks[0], nil, deepMust(isClamp, 2), isReturn, none, nil)
	pos := fn.Pos()
	if bad != nil {
		pos = bad.Pos()
	}
	c.Check("every effective exportTo passes the visibility clamp (or is exactly None)", pos, !found,
		"serviceExportTo can return an export set on a path that never reaches the serviceEntryVisibility clamp: with applyToSidecars a ServiceEntry whose visibility resolves to NAMESPACE or NONE (e.g. one that declares no exportTo and so follows the mesh default `*`) is handed to proxies of every namespace - clusters, endpoints and scope entries included")
	c.Floor(2)
}

// C07-R7: mergeDestinationRule folds an incoming rule into an existing entry for the same host only when that is safe
// for visibility: the entry's traffic policy and subsets then also reach everyone the ENTRY is exported to, so the
// incoming rule must be exported at least as widely as the entry (incoming exportTo is a superset of the entry's, or
// they are equal). Structurally: every merge into an existing entry is under an edge of a test whose receiver is the
// INCOMING export set and whose argument is the ENTRY's (SupersetOf / Equals) - never the other way round.
func c07r7(c *Ctx) {
	p := c.P
	fn := p.Func(pkgModel, "PushContext", "mergeDestinationRule")
	incoming := paramNamed(fn, "exportToSet")
	exF := p.Field(pkgModel, "ConsolidatedDestRule", "exportTo")
	n := 0
	var scan func(f *ssa.Function, isIn, isEn func(ssa.Value) bool, depth int)
	scan = func(f *ssa.Function, isIn, isEn func(ssa.Value) bool, depth int) {
		eachInstr(f, func(ins ssa.Instruction) {
			call, ok := ins.(*ssa.Call)
			if !ok {
				return
			}
			o := calleeObj(call)
			args := call.Call.Args
			if o != nil && (o.Name() == "SupersetOf" || o.Name() == "Equals") && len(args) == 2 {
				a0, a1 := args[0], args[1]
				if !(isIn(a0) || isIn(a1) || isEn(a0) || isEn(a1)) {
					return
				}
				n++
				ok2 := o.Name() == "Equals" || (isIn(a0) && isEn(a1))
				c.Check("export comparison that licenses a merge has the incoming rule on the wide side", call.Pos(), ok2,
					"mergeDestinationRule compares the export sets with the existing entry on the wide side ("+o.Name()+"): a rule exported to FEWER namespaces than the entry is then folded into it, and its subsets and traffic policy reach namespaces the rule is not exported to")
				return
			}
			// a same-package helper that receives the sets: follow with the parameters mapped
			callee := call.Call.StaticCallee()
			if callee == nil || !isIstioFunc(callee) || callee.Pkg != f.Pkg || len(callee.Blocks) == 0 || depth == 0 {
				return
			}
			inP, enP := map[ssa.Value]bool{}, map[ssa.Value]bool{}
			for k, a := range args {
				if k >= len(callee.Params) {
					break
				}
				if isIn(a) {
					inP[callee.Params[k]] = true
				}
				if isEn(a) {
					enP[callee.Params[k]] = true
				}
			}
			if len(inP) == 0 && len(enP) == 0 {
				return
			}
			scan(callee, func(v ssa.Value) bool { return inP[v] }, func(v ssa.Value) bool { return enP[v] }, depth-1)
		})
	}
	scan(fn, func(v ssa.Value) bool { return v == ssa.Value(incoming) }, func(v ssa.Value) bool { return fieldOfLoad(v) == exF }, 2)
	c.Check("export comparisons in mergeDestinationRule found", fn.Pos(), n >= 1, "no SupersetOf/Equals comparison of the incoming and the entry's exportTo")
	c.Floor(2)
}

// C07-R8: which Sidecar is the mesh-wide default. A proxy without an applicable Sidecar in its own namespace gets the
// root namespace's Sidecar - the one WITHOUT a workload selector. A root-namespace Sidecar that selects workloads is an
// ordinary Sidecar for those workloads; taken for the default it replaces every other namespace's view of the mesh
// (services exported to them disappear, others appear). The value stored as sidecarIndex.meshRootSidecarConfig is
// selected under both tests - namespace equals the mesh root namespace, workload selector is nil - whether the selection
// is a loop in the function or a predicate literal handed to a find helper.
func c07r8(c *Ctx) {
	p := c.P
	fn := p.Func(pkgModel, "PushContext", "initSidecarScopes")
	fld := p.Field(pkgModel, "sidecarIndex", "meshRootSidecarConfig")
	sts := storesTo(fn, fld)
	c.Check("initSidecarScopes stores the mesh root Sidecar", fn.Pos(), len(sts) >= 1, "no store to sidecarIndex.meshRootSidecarConfig")
	isNsTest := func(v ssa.Value) bool {
		b, ok := v.(*ssa.BinOp)
		if !ok || b.Op != token.EQL {
			return false
		}
		fx, fy := fieldOfLoad(b.X), fieldOfLoad(b.Y)
		if fx == nil || fy == nil {
			return false
		}
		return fx.Name() == "Namespace" && fy.Name() == "RootNamespace" || fy.Name() == "Namespace" && fx.Name() == "RootNamespace"
	}
	isSelNil := func(v ssa.Value) (ok bool, eq bool) {
		x, e, isNil := nilCmp(v)
		if !isNil {
			return false, false
		}
		if f := fieldOfLoad(x); f != nil && f.Name() == "WorkloadSelector" {
			return true, e
		}
		if call, isCall := x.(*ssa.Call); isCall {
			if o := calleeObj(call); o != nil && o.Name() == "GetWorkloadSelector" {
				return true, e
			}
		}
		return false, false
	}
	// edges of f on which the namespace test holds / the selector is nil
	edgesOf := func(f *ssa.Function) (ns, sel []Edge) {
		for _, i := range allIfs(f) {
			v, neg := stripNot(i.Cond)
			if isNsTest(v) {
				idx := 0
				if neg {
					idx = 1
				}
				ns = append(ns, Edge{i.Block(), idx})
			}
			if ok, eq := isSelNil(i.Cond); ok {
				idx := 1
				if eq {
					idx = 0
				}
				sel = append(sel, Edge{i.Block(), idx})
			}
		}
		return
	}
	// value depends on both tests (a predicate written as one boolean expression)
	dependsOnBoth := func(v ssa.Value) bool {
		sawNs, sawSel := false, false
		seen := map[ssa.Value]bool{}
		var walk func(v ssa.Value, d int)
		walk = func(v ssa.Value, d int) {
			if v == nil || seen[v] || d > 8 {
				return
			}
			seen[v] = true
			if isNsTest(v) {
				sawNs = true
			}
			if ok, _ := isSelNil(v); ok {
				sawSel = true
			}
			switch x := v.(type) {
			case *ssa.Phi:
				for _, e := range x.Edges {
					walk(e, d+1)
				}
			case *ssa.BinOp:
				walk(x.X, d+1)
				walk(x.Y, d+1)
			case *ssa.UnOp:
				walk(x.X, d+1)
			}
		}
		walk(v, 0)
		return sawNs && sawSel
	}
	msg := "the Sidecar stored as the mesh-wide default is not selected under both tests (namespace == mesh root namespace, no workload selector): a root-namespace Sidecar that selects workloads becomes the default scope of every namespace without a Sidecar of its own - those proxies lose the services exported to them and are given what that Sidecar imports instead"
	for _, st := range sts {
		var leaves []ssa.Value
		phiLeaves(st.Val, map[ssa.Value]bool{}, &leaves)
		n := 0
		for _, l := range leaves {
			if k, ok := l.(*ssa.Const); ok && k.IsNil() {
				continue
			}
			n++
			ok := false
			switch x := l.(type) {
			case *ssa.Call:
				// the selection extracted into a function of the package: every non-nil return lies under both tests there
				if sc := x.Call.StaticCallee(); sc != nil && len(sc.Blocks) > 0 && funcPkgPath(sc) == funcPkgPath(fn) {
					ns, sel := edgesOf(sc)
					good, any := true, false
					for _, b := range sc.Blocks {
						r, isR := b.Instrs[len(b.Instrs)-1].(*ssa.Return)
						if !isR || len(r.Results) != 1 {
							continue
						}
						if k, isC := retVal(r, 0).(*ssa.Const); isC && k.IsNil() {
							continue
						}
						any = true
						if !(underEdges(sc, b, ns) && underEdges(sc, b, sel)) {
							good = false
						}
					}
					if any && good {
						ok = true
					}
				}
				// a find helper with a predicate literal
				for _, a := range x.Call.Args {
					lit := litOfFuncValue(a)
					if lit == nil {
						continue
					}
					ns, sel := edgesOf(lit)
					good := true
					any := false
					for _, b := range lit.Blocks {
						r, isR := b.Instrs[len(b.Instrs)-1].(*ssa.Return)
						if !isR || len(r.Results) != 1 {
							continue
						}
						v := retVal(r, 0)
						if k, isC := constBool(v); isC && !k {
							continue
						}
						any = true
						nsOK := underEdges(lit, b, ns)
						selOK := underEdges(lit, b, sel)
						if !(nsOK && selOK) && !dependsOnBoth(v) && !(nsOK && func() bool { s, _ := isSelNil(v); return s }()) && !(selOK && isNsTest(v)) {
							good = false
						}
					}
					if any && good {
						ok = true
					}
				}
			default:
				if ins, isIns := l.(ssa.Instruction); isIns {
					ns, sel := edgesOf(fn)
					ok = underEdges(fn, ins.Block(), ns) && underEdges(fn, ins.Block(), sel)
				}
			}
			c.Check("the mesh-default Sidecar is the root namespace's Sidecar without workload selector", st.Pos(), ok, msg)
		}
		c.Check("the mesh-default Sidecar has a selected value", st.Pos(), n >= 1, "only nil is ever stored as the mesh root Sidecar")
	}
	c.Floor(3)
}
