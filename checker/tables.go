package main

import (
	"go/ast"
	"go/token"
	"go/types"
	"sort"
	"strings"
)

const pkgKind = "pkg/config/schema/kind"

// constsIn collects, in source order, the constants of package pkgPath referenced inside node n.
func constsIn(info *types.Info, n ast.Node, pkgPath string) []string {
	var out []string
	seen := map[string]bool{}
	ast.Inspect(n, func(x ast.Node) bool {
		id, ok := x.(*ast.Ident)
		if !ok {
			return true
		}
		if c, ok := info.Uses[id].(*types.Const); ok && c.Pkg() != nil && c.Pkg().Path() == pkgPath {
			if !seen[c.Name()] {
				seen[c.Name()] = true
				out = append(out, c.Name())
			}
		}
		return true
	})
	return out
}

// varInit returns the initializer expression of a package-level variable.
func (p *Prog) varInit(pkg, name string) (ast.Expr, *types.Info) {
	pk := p.Pkg(pkg)
	for _, f := range pk.Syntax {
		for _, d := range f.Decls {
			gd, ok := d.(*ast.GenDecl)
			if !ok || gd.Tok != token.VAR {
				continue
			}
			for _, s := range gd.Specs {
				vs := s.(*ast.ValueSpec)
				for i, n := range vs.Names {
					if n.Name == name && i < len(vs.Values) {
						return vs.Values[i], pk.TypesInfo
					}
				}
			}
		}
	}
	anchorFail("package-level var %s.%s with initializer not found", pkg, name)
	return nil, nil
}

// kindSet extracts the kind.* constants in the initializer of a package-level set variable (both arms of
// feature-conditional inserts are included: an over-approximation of what may be skipped).
func (p *Prog) kindSet(pkg, name string) []string {
	e, info := p.varInit(pkg, name)
	ks := constsIn(info, e, istioMod+"/"+pkgKind)
	sort.Strings(ks)
	return ks
}

// kindSetByKey extracts map[K]Set literals: key constant name -> kinds.
func (p *Prog) kindSetByKey(pkg, name string) map[string][]string {
	e, info := p.varInit(pkg, name)
	cl, ok := e.(*ast.CompositeLit)
	if !ok {
		anchorFail("%s.%s is not a composite literal", pkg, name)
	}
	out := map[string][]string{}
	for _, el := range cl.Elts {
		kv, ok := el.(*ast.KeyValueExpr)
		if !ok {
			continue
		}
		key := ""
		ast.Inspect(kv.Key, func(x ast.Node) bool {
			if id, ok := x.(*ast.Ident); ok {
				if c, ok := info.Uses[id].(*types.Const); ok {
					key = c.Name()
				}
			}
			return true
		})
		ks := constsIn(info, kv.Value, istioMod+"/"+pkgKind)
		sort.Strings(ks)
		out[key] = ks
	}
	return out
}

// switchCases: for the first `switch <tag>` in body whose tag matches tagMatch, returns case-constant -> clause.
func switchClauses(info *types.Info, body ast.Node, constPkg string, tagMatch func(ast.Expr) bool) (map[string]*ast.CaseClause, *ast.SwitchStmt) {
	var sw *ast.SwitchStmt
	ast.Inspect(body, func(x ast.Node) bool {
		if sw != nil {
			return false
		}
		if s, ok := x.(*ast.SwitchStmt); ok && s.Tag != nil && tagMatch(s.Tag) {
			sw = s
			return false
		}
		return true
	})
	if sw == nil {
		return nil, nil
	}
	out := map[string]*ast.CaseClause{}
	for _, st := range sw.Body.List {
		cc := st.(*ast.CaseClause)
		for _, e := range cc.List {
			for _, k := range constsIn(info, e, constPkg) {
				out[k] = cc
			}
		}
	}
	return out, sw
}

func selectorName(e ast.Expr) string {
	switch x := e.(type) {
	case *ast.SelectorExpr:
		return selectorName(x.X) + "." + x.Sel.Name
	case *ast.Ident:
		return x.Name
	case *ast.ParenExpr:
		return selectorName(x.X)
	}
	return "?"
}

// disjuncts flattens `a || b || c`; ok=false when some leaf is not a plain identifier.
func disjuncts(e ast.Expr) (ids []string, plain bool) {
	plain = true
	var walk func(e ast.Expr)
	walk = func(e ast.Expr) {
		switch x := e.(type) {
		case *ast.ParenExpr:
			walk(x.X)
		case *ast.BinaryExpr:
			if x.Op == token.LOR {
				walk(x.X)
				walk(x.Y)
				return
			}
			plain = false
			ast.Inspect(x, func(n ast.Node) bool {
				if id, ok := n.(*ast.Ident); ok {
					ids = append(ids, id.Name)
				}
				return true
			})
		case *ast.Ident:
			ids = append(ids, x.Name)
		default:
			plain = false
		}
	}
	walk(e)
	return
}

func sortedKeys[V any](m map[string]V) []string {
	out := make([]string, 0, len(m))
	for k := range m {
		out = append(out, k)
	}
	sort.Strings(out)
	return out
}

func contains(xs []string, s string) bool {
	for _, x := range xs {
		if x == s {
			return true
		}
	}
	return false
}

func joinSorted(m map[string]bool) string {
	var ks []string
	for k := range m {
		ks = append(ks, k)
	}
	sort.Strings(ks)
	return strings.Join(ks, ",")
}
