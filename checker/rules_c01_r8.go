package main

import (
	"fmt"
	"go/constant"
	"go/token"
	"go/types"
	"sort"
	"strings"

	"golang.org/x/tools/go/ssa"
)

// C01-R8: endpoint changes of services whose endpoints are inlined in the cluster trigger a cluster push. For the
// resolutions that convertResolution maps to STRICT_DNS / LOGICAL_DNS the endpoints are part of the CDS cluster, not of
// EDS: an endpoints-only push leaves such a cluster as it was, so the proxy keeps resolving the old backends although a
// fresh control plane generates the new ones. The ServiceEntry registry widens an endpoint update to a full push when
// InstancesByNamespaceHost.HasDNSServiceEndpoint is set. The two tables must agree: every Resolution constant under
// which convertResolution can answer STRICT_DNS or LOGICAL_DNS (extracted from its switch on every run) is one under
// which the flag can become true (extracted from the conditions that guard the `true` reaching the stored flag:
// comparisons of a Resolution field with a constant, directly or in a bool helper of the package).
func c01r8(c *Ctx) {
	p := c.P
	const pkgSE = "pilot/pkg/serviceregistry/serviceentry"
	// names of the Resolution constants
	resName := map[int64]string{}
	msc := p.Pkg(pkgModel).Types.Scope()
	for _, n := range msc.Names() {
		if k, ok := msc.Lookup(n).(*types.Const); ok {
			if nt, ok := k.Type().(*types.Named); ok && nt.Obj().Name() == "Resolution" {
				if v, ok := constant.Int64Val(k.Val()); ok {
					resName[v] = n
				}
			}
		}
	}
	c.Check("Resolution constants found", token.NoPos, len(resName) >= 4, fmt.Sprintf("%d constants of type model.Resolution", len(resName)))
	isRes := func(v ssa.Value) (int64, bool) { // v is `<x>.Resolution == K`
		b, ok := v.(*ssa.BinOp)
		if !ok || b.Op != token.EQL {
			return 0, false
		}
		for _, pr := range [][2]ssa.Value{{b.X, b.Y}, {b.Y, b.X}} {
			if !loadOfFieldNamed(pr[0], "Resolution") {
				continue
			}
			if k, ok := pr[1].(*ssa.Const); ok && k.Value != nil && k.Value.Kind() == constant.Int {
				return k.Int64(), true
			}
		}
		return 0, false
	}
	// 1. resolutions with inlined endpoints
	conv := p.Func(pkgCore, "", "convertResolution")
	inline := map[int64]bool{}
	for _, b := range conv.Blocks {
		r, ok := b.Instrs[len(b.Instrs)-1].(*ssa.Return)
		if !ok || len(r.Results) != 1 {
			continue
		}
		var leaves []ssa.Value
		phiLeaves(retVal(r, 0), map[ssa.Value]bool{}, &leaves)
		dns := false
		for _, l := range leaves {
			if k, ok := l.(*ssa.Const); ok && k.Value != nil && k.Value.Kind() == constant.Int {
				if nt, ok := k.Type().(*types.Named); ok && nt.Obj().Name() == "Cluster_DiscoveryType" {
					// STRICT_DNS = 1, LOGICAL_DNS = 2 in envoy's cluster.proto
					if k.Int64() == 1 || k.Int64() == 2 {
						dns = true
					}
				}
			}
		}
		if !dns {
			continue
		}
		for _, i := range allIfs(conv) {
			v, neg := stripNot(i.Cond)
			if k, ok := isRes(v); ok && !neg && underEdges(conv, b, []Edge{{i.Block(), 0}}) {
				inline[k] = true
			}
		}
	}
	c.Check("convertResolution maps at least two resolutions to DNS clusters (positive control)", conv.Pos(), len(inline) >= 2, fmt.Sprintf("%d resolutions with a STRICT_DNS / LOGICAL_DNS answer found", len(inline)))

	// 2. resolutions under which the flag can be set
	type rset struct {
		all bool
		m   map[int64]bool
	}
	union := func(a, b rset) rset {
		if a.all || b.all {
			return rset{all: true}
		}
		o := rset{m: map[int64]bool{}}
		for k := range a.m {
			o.m[k] = true
		}
		for k := range b.m {
			o.m[k] = true
		}
		return o
	}
	inter := func(a, b rset) rset {
		if a.all {
			return b
		}
		if b.all {
			return a
		}
		o := rset{m: map[int64]bool{}}
		for k := range a.m {
			if b.m[k] {
				o.m[k] = true
			}
		}
		return o
	}
	var valueSet func(v ssa.Value, at *ssa.BasicBlock, from *ssa.BasicBlock, fn *ssa.Function, depth int, seen map[ssa.Value]bool) rset
	// predSet: resolutions under which a bool helper answers true
	predSet := func(h *ssa.Function, depth int) rset {
		out := rset{m: map[int64]bool{}}
		for _, b := range h.Blocks {
			r, ok := b.Instrs[len(b.Instrs)-1].(*ssa.Return)
			if !ok || len(r.Results) != 1 {
				continue
			}
			out = union(out, valueSet(retVal(r, 0), b, nil, h, depth+1, map[ssa.Value]bool{}))
		}
		return out
	}
	// condSet: resolutions under which condition v is true
	condSet := func(v ssa.Value, fn *ssa.Function, depth int) (rset, bool) {
		if k, ok := isRes(v); ok {
			return rset{m: map[int64]bool{k: true}}, true
		}
		if call, ok := v.(*ssa.Call); ok && depth < 3 {
			if sc := call.Call.StaticCallee(); sc != nil && len(sc.Blocks) > 0 && funcPkgPath(sc) == funcPkgPath(fn) {
				if t, ok := sc.Signature.Results().At(0).Type().Underlying().(*types.Basic); ok && t.Kind() == types.Bool && sc.Signature.Results().Len() == 1 {
					s := predSet(sc, depth)
					if !s.all {
						return s, true
					}
				}
			}
		}
		return rset{}, false
	}
	// guardSet: what is known about the resolution in block b (intersection of the dominating true edges); from: the
	// block control comes from when b is entered over a specific edge (phi operand)
	guardSet := func(b *ssa.BasicBlock, fn *ssa.Function, depth int) rset {
		out := rset{all: true}
		for _, i := range allIfs(fn) {
			v, neg := stripNot(i.Cond)
			if neg {
				continue
			}
			s, ok := condSet(v, fn, depth)
			if !ok {
				continue
			}
			if underEdges(fn, b, []Edge{{i.Block(), 0}}) {
				out = inter(out, s)
			}
		}
		return out
	}
	valueSet = func(v ssa.Value, at *ssa.BasicBlock, from *ssa.BasicBlock, fn *ssa.Function, depth int, seen map[ssa.Value]bool) rset {
		if depth > 4 {
			return rset{all: true}
		}
		if k, isC := constBool(v); isC {
			if !k {
				return rset{m: map[int64]bool{}}
			}
			// `true` arriving from block `from` (a phi operand) or standing in block `at`
			b := at
			if from != nil {
				b = from
			}
			s := guardSet(b, fn, depth)
			if from != nil {
				if iff := ifOf(from); iff != nil && from.Succs[0] == at && from.Succs[1] != at {
					cv, neg := stripNot(iff.Cond)
					if cs, ok := condSet(cv, fn, depth); ok && !neg {
						s = inter(s, cs)
					}
				}
			}
			return s
		}
		if seen[v] {
			return rset{m: map[int64]bool{}}
		}
		seen[v] = true
		switch x := v.(type) {
		case *ssa.Phi:
			out := rset{m: map[int64]bool{}}
			for j, e := range x.Edges {
				out = union(out, valueSet(e, x.Block(), x.Block().Preds[j], fn, depth, seen))
			}
			return out
		case *ssa.UnOp:
			if al, ok := x.X.(*ssa.Alloc); ok && x.Op == token.MUL && al.Referrers() != nil {
				out := rset{m: map[int64]bool{}}
				for _, r := range *al.Referrers() {
					if st, ok := r.(*ssa.Store); ok && st.Addr == al {
						out = union(out, valueSet(st.Val, st.Block(), nil, fn, depth, seen))
					}
				}
				return out
			}
		}
		if s, ok := condSet(v, fn, depth); ok {
			return inter(s, guardSet(at, fn, depth))
		}
		return rset{all: true}
	}
	flag := p.Field(pkgSE, "InstancesByNamespaceHost", "HasDNSServiceEndpoint")
	flagSet := rset{m: map[int64]bool{}}
	nStores := 0
	var firstPos token.Pos
	for _, fn := range p.AllFuncs {
		if funcPkgPath(fn) != istioMod+"/"+pkgSE || strings.HasSuffix(p.Fset.Position(fn.Pos()).Filename, "_test.go") || isWrapperFn(fn) {
			continue
		}
		for _, st := range storesTo(fn, flag) {
			nStores++
			if !firstPos.IsValid() {
				firstPos = st.Pos()
			}
			flagSet = union(flagSet, valueSet(st.Val, st.Block(), nil, fn, 0, map[ssa.Value]bool{}))
		}
	}
	c.Check("stores of InstancesByNamespaceHost.HasDNSServiceEndpoint found (positive control)", token.NoPos, nStores >= 1, fmt.Sprintf("%d stores found", nStores))
	var ks []int64
	for k := range inline {
		ks = append(ks, k)
	}
	sort.Slice(ks, func(i, j int) bool { return ks[i] < ks[j] })
	for _, k := range ks {
		name := resName[k]
		if name == "" {
			name = fmt.Sprint(k)
		}
		c.Check("an endpoint update of a "+name+" service requests a cluster push", firstPos, flagSet.all || flagSet.m[k],
			"convertResolution builds a STRICT_DNS / LOGICAL_DNS cluster for model."+name+" services - their endpoints are inlined in the CDS cluster - but InstancesByNamespaceHost.HasDNSServiceEndpoint, which widens an endpoint update of a ServiceEntry to a full push, never becomes true under this resolution: an endpoints-only push skips CDS, the proxy keeps the cluster with the old backends while a fresh control plane generates the new ones")
	}
	var have []string
	for k := range flagSet.m {
		have = append(have, resName[k])
	}
	sort.Strings(have)
	c.Infof("resolutions with inlined endpoints: %v; HasDNSServiceEndpoint can be set under: all=%v %v", func() []string {
		var o []string
		for _, k := range ks {
			o = append(o, resName[k])
		}
		return o
	}(), flagSet.all, have)
	c.Floor(5)
}

// C01-R9: the widening of R8 looks at both sides of an update. HasDNSServiceEndpoint is computed from the instances an
// object holds, so an update that removes the last DNS member carries the flag only on its OLD object; the cluster that
// inlines the removed address still has to be rebuilt. Decided in the function of the ServiceEntry registry that turns
// InstancesByNamespaceHost events into pushes: the ConfigUpdate call that is guarded by the flag is reachable on a path
// on which the new object's flag is false, and some test of the flag reads it from the event's Old object.
func c01r9(c *Ctx) {
	p := c.P
	const pkgSE = "pilot/pkg/serviceregistry/serviceentry"
	flag := p.Field(pkgSE, "InstancesByNamespaceHost", "HasDNSServiceEndpoint")
	n := 0
	for _, fn := range p.AllFuncs {
		if funcPkgPath(fn) != istioMod+"/"+pkgSE || strings.HasSuffix(p.Fset.Position(fn.Pos()).Filename, "_test.go") || isWrapperFn(fn) || len(fn.Blocks) == 0 {
			continue
		}
		// tests of the flag: value loaded from the field; base derives from a field named Old or not
		derivesOld := func(v ssa.Value) bool {
			seen := map[ssa.Value]bool{}
			var walk func(v ssa.Value, d int) bool
			walk = func(v ssa.Value, d int) bool {
				if v == nil || seen[v] || d > 10 {
					return false
				}
				seen[v] = true
				switch x := v.(type) {
				case *ssa.FieldAddr:
					if fieldVar(x.X.Type(), x.Field).Name() == "Old" {
						return true
					}
					return walk(x.X, d+1)
				case *ssa.Field:
					if fieldVar(x.X.Type(), x.Field).Name() == "Old" {
						return true
					}
					return walk(x.X, d+1)
				case *ssa.UnOp:
					return walk(x.X, d+1)
				case *ssa.Phi:
					for _, e := range x.Edges {
						if walk(e, d+1) {
							return true
						}
					}
				case *ssa.Alloc:
					if x.Referrers() != nil {
						for _, r := range *x.Referrers() {
							if st, ok := r.(*ssa.Store); ok && st.Addr == x && walk(st.Val, d+1) {
								return true
							}
						}
					}
				}
				return false
			}
			return walk(v, 0)
		}
		var newTrue []Edge
		nOld, nNew := 0, 0
		for _, i := range allIfs(fn) {
			v, neg := stripNot(i.Cond)
			fv := fieldOfLoad(v)
			if fv != flag {
				continue
			}
			if derivesOld(v) {
				nOld++
				continue
			}
			nNew++
			idx := 0
			if neg {
				idx = 1
			}
			newTrue = append(newTrue, Edge{i.Block(), idx})
		}
		if nOld+nNew == 0 {
			continue
		}
		eachInstr(fn, func(ins ssa.Instruction) {
			o := calleeObj(ins)
			if o == nil || o.Name() != "ConfigUpdate" {
				return
			}
			n++
			onlyNew := underEdges(fn, ins.Block(), newTrue)
			c.Check("a DNS service's endpoint update requests a cluster push when the old object had inlined endpoints (HasDNSServiceEndpoint -> ConfigUpdate)", ins.Pos(), !onlyNew && nOld > 0,
				"in "+stableFnName(fn)+" the full push for an endpoint update of a DNS / DNS_ROUND_ROBIN ServiceEntry is requested only when the NEW object carries HasDNSServiceEndpoint, and that flag is computed from the instances present: when the last selected WorkloadEntry goes away the new object has no instances, the flag is false, only an endpoints-only push is sent, and the STRICT_DNS / LOGICAL_DNS cluster - which inlines the removed address - is not rebuilt; the proxy keeps the stale cluster while a fresh control plane generates none")
		})
	}
	c.Floor(1)
}
