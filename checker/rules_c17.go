package main

import (
	"go/token"
	"go/types"
	"sort"
	"strings"

	"golang.org/x/tools/go/ssa"
)

func init() {
	register(&PropDef{
		ID: "C17",
		Clauses: []string{
			"R1 in the generation-reachable functions of the EDS, route and xDS-generator packages, no iteration over a map / set decides the order of an output slice: every map-range whose body appends to a slice is followed by a sort of that slice in the same function, or is listed with a reason",
			"R2 the anchored sort comparators break ties on identity: each reads name AND namespace (resp. provider and cluster) of both operands besides the primary key",
			"R3 deterministic marshalling: protoconv marshals with Deterministic=true, and generation packages marshal protobuf messages only through protoconv (frozen exceptions)",
		},
		NotDecided: "byte equality across runs; order stability of inputs delivered by informers; map-range order sensitivity outside the three packages of R1 (the census of the whole generation graph is listed in evidence info, not armed)",
		Rules: []Rule{
			{"C17-R1", "unordered iteration does not decide output order", c17r1},
			{"C17-R2", "comparators are total on identity", c17r2},
			{"C17-R3", "deterministic marshalling", c17r3},
		},
	})
}

func isSortCall(ins ssa.Instruction) bool {
	o := calleeObj(ins)
	if o == nil || o.Pkg() == nil {
		return false
	}
	pp, n := o.Pkg().Path(), o.Name()
	switch {
	case pp == "sort":
		return true
	case pp == "slices" && (strings.HasPrefix(n, "Sort") || n == "Sorted" || n == "SortedFunc"):
		return true
	case strings.HasSuffix(pp, "istio/pkg/slices") && strings.HasPrefix(n, "Sort"):
		return true
	case strings.HasSuffix(pp, "istio/pkg/util/sets") && strings.HasPrefix(n, "Sorted"):
		return true
	case strings.HasSuffix(pp, "istio/pkg/maps") && strings.Contains(n, "Sorted"):
		return true
	}
	return strings.HasPrefix(n, "sort") || strings.HasPrefix(n, "Sort")
}

// mapRangeAppend describes a range over a map whose body appends to a slice that outlives the loop.
type mapRangeAppend struct {
	fn     *ssa.Function
	rng    *ssa.Range
	sorted bool
	ranged string
}

func mapRangesWithAppend(fn *ssa.Function) []mapRangeAppend {
	var out []mapRangeAppend
	for _, l := range rangeLoops(fn) {
		if l.Over == nil {
			continue
		}
		if _, isMap := l.Over.Type().Underlying().(*types.Map); !isMap {
			continue
		}
		var rng *ssa.Range
		for _, ins := range l.Header.Instrs {
			if n, ok := ins.(*ssa.Next); ok {
				rng, _ = n.Iter.(*ssa.Range)
			}
		}
		if rng == nil {
			continue
		}
		// natural loop members
		H := l.Header
		member := map[*ssa.BasicBlock]bool{H: true}
		changed := true
		for changed {
			changed = false
			for _, b := range fn.Blocks {
				if member[b] || !H.Dominates(b) {
					continue
				}
				for _, s := range b.Succs {
					if member[s] {
						member[b] = true
						changed = true
						break
					}
				}
			}
		}
		// appends inside the loop whose result flows into a phi at the header (loop-carried slice)
		carried := false
		for b := range member {
			for _, ins := range b.Instrs {
				if !isAppendCall(ins) {
					continue
				}
				v := ins.(ssa.Value)
				for _, hi := range H.Instrs {
					if ph, ok := hi.(*ssa.Phi); ok && phiContains(ph, v) {
						carried = true
					}
				}
				// or stored to an outer cell / field
				for _, r := range *v.Referrers() {
					if st, ok := r.(*ssa.Store); ok {
						if _, isAlloc := st.Addr.(*ssa.Alloc); isAlloc {
							carried = true
						}
						if _, isFA := st.Addr.(*ssa.FieldAddr); isFA {
							carried = true
						}
					}
				}
			}
		}
		if !carried {
			continue
		}
		// a sort call after the loop (reachable from the loop exit) in the same function
		sorted := false
		seen := map[*ssa.BasicBlock]bool{}
		st := []*ssa.BasicBlock{}
		for _, s := range H.Succs {
			if !member[s] {
				st = append(st, s)
			}
		}
		for len(st) > 0 {
			b := st[len(st)-1]
			st = st[:len(st)-1]
			if seen[b] {
				continue
			}
			seen[b] = true
			for _, ins := range b.Instrs {
				if isSortCall(ins) {
					sorted = true
				}
			}
			st = append(st, b.Succs...)
		}
		out = append(out, mapRangeAppend{fn: fn, rng: rng, sorted: sorted, ranged: describeRanged(l.Over)})
	}
	return out
}

func describeRanged(v ssa.Value) string {
	if fv := fieldOfLoad(v); fv != nil {
		return "field " + fv.Name()
	}
	switch x := v.(type) {
	case *ssa.Parameter:
		return "param " + x.Name()
	case *ssa.Call:
		if o := calleeObj(x); o != nil {
			return "result of " + o.Name()
		}
	case *ssa.Extract:
		if call, ok := x.Tuple.(*ssa.Call); ok {
			if o := calleeObj(call); o != nil {
				return "result of " + o.Name()
			}
		}
	}
	return "local map"
}

func c17r1(c *Ctx) {
	p := c.P
	entries := []*ssa.Function{
		p.Func(pkgCore, "ConfigGeneratorImpl", "BuildClusters"), p.Func(pkgCore, "ConfigGeneratorImpl", "BuildDeltaClusters"),
		p.Func(pkgCore, "ConfigGeneratorImpl", "BuildListeners"), p.Func(pkgCore, "ConfigGeneratorImpl", "BuildHTTPRoutes"),
		p.Func(pkgCore, "ConfigGeneratorImpl", "BuildNameTable"), p.Func(pkgXds, "EdsGenerator", "buildEndpoints"),
		p.Func(pkgXds, "DiscoveryServer", "pushXds"), p.Func(pkgXds, "DiscoveryServer", "pushDeltaXds"),
	}
	reach := p.CG().Reach(entries, nil)
	c.Stat("generation_reachable_functions", len(reach))
	armed := map[string]bool{istioMod + "/" + pkgEndpoints: true, istioMod + "/" + pkgRoute: true, istioMod + "/" + pkgXds: true}
	// frozen exceptions: function + ranged expression -> reason the order does not reach generated bytes
	except := map[string]string{
		"(*pilot/pkg/xds.DiscoveryServer).Clients|field adsClients": "list of connections for the push fan-out and debug pages; not part of any generated resource",
	}
	var fns []*ssa.Function
	for fn := range reach {
		fns = append(fns, fn)
	}
	sort.Slice(fns, func(i, j int) bool { return fnKey(fns[i]) < fnKey(fns[j]) })
	total, unsortedAll := 0, 0
	var census []string
	for _, fn := range fns {
		if strings.HasSuffix(p.Fset.Position(fn.Pos()).Filename, "_test.go") {
			continue
		}
		for _, m := range mapRangesWithAppend(fn) {
			total++
			key := stableFnName(fn) + "|" + m.ranged
			if !m.sorted {
				unsortedAll++
			}
			if !armed[funcPkgPath(fn)] {
				if !m.sorted {
					census = append(census, key+" @"+p.pos(m.rng.Pos()))
				}
				continue
			}
			if _, ok := except[key]; ok && !m.sorted {
				c.Check("map-range append (frozen exception): "+key, m.rng.Pos(), true, "")
				continue
			}
			c.Check("map-range append is sorted afterwards: "+key, m.rng.Pos(), m.sorted,
				"a slice is filled in the iteration order of a map/set and never sorted in this function: the order of the generated elements (and therefore the bytes) differs between runs and between istiod instances for the same state")
		}
	}
	sort.Strings(census)
	if len(census) > 60 {
		census = census[:60]
	}
	c.Infof("census over the whole generation graph: %d map-ranges with a loop-carried append, %d without a later sort in the same function; unarmed (outside endpoints/route/xds): %v", total, unsortedAll, census)
	c.Floor(6)
}

func c17r2(c *Ctx) {
	p := c.P
	type spec struct {
		pkg, recv, fn string
		fields        [][3]string // pkg, struct, field that must be read on both operands
	}
	specs := []spec{
		{pkgModel, "", "sortConfigByCreationTime", [][3]string{{"pkg/config", "Meta", "Name"}, {"pkg/config", "Meta", "Namespace"}, {"pkg/config", "Meta", "CreationTimestamp"}}},
		{pkgModel, "", "SortServicesByCreationTime", [][3]string{{pkgModel, "ServiceAttributes", "Name"}, {pkgModel, "ServiceAttributes", "Namespace"}, {pkgModel, "Service", "CreationTime"}}},
		{pkgModel, "", "sortConfigBySelectorAndCreationTime", [][3]string{{"pkg/config", "Meta", "Name"}, {"pkg/config", "Meta", "Namespace"}, {"pkg/config", "Meta", "CreationTimestamp"}}},
		{pkgModel, "EndpointShards", "Keys", [][3]string{{pkgModel, "ShardKey", "Provider"}, {pkgModel, "ShardKey", "Cluster"}}},
	}
	for _, s := range specs {
		fn := p.Func(s.pkg, s.recv, s.fn)
		// the comparator: an anonymous function of fn (or fn's callee in the same package) with a bool result
		cands := append([]*ssa.Function{}, fn.AnonFuncs...)
		for _, g := range p.CG().Callees(fn) {
			if funcPkgPath(g) == istioMod+"/"+s.pkg {
				cands = append(cands, g)
				cands = append(cands, g.AnonFuncs...)
			}
		}
		cands = append(cands, fn)
		for _, f := range s.fields {
			fv := p.Field(f[0], f[1], f[2])
			// count reads per distinct base value across the candidate comparator functions
			maxBases := 0
			for _, cf := range cands {
				bases := map[string]bool{}
				eachInstr(cf, func(ins ssa.Instruction) {
					var base ssa.Value
					switch x := ins.(type) {
					case *ssa.FieldAddr:
						if fieldVar(x.X.Type(), x.Field) == fv {
							base = x.X
						}
					case *ssa.Field:
						if fieldVar(x.X.Type(), x.Field) == fv {
							base = x.X
						}
					}
					if base != nil {
						bases[rootName(base)] = true
					}
				})
				if len(bases) > maxBases {
					maxBases = len(bases)
				}
			}
			c.Check(s.fn+": comparator reads "+f[1]+"."+f[2]+" of both operands", fn.Pos(), maxBases >= 2,
				"the comparator of "+s.fn+" does not compare "+f[1]+"."+f[2]+" of both elements: objects that tie on the remaining keys keep their input (listing / map) order, so the winner among them differs between runs and instances")
		}
	}
	c.Floor(11)
}

// rootName: a name for the root of an access path (distinguishes the two comparator operands).
func rootName(v ssa.Value) string {
	for i := 0; i < 12; i++ {
		switch x := v.(type) {
		case *ssa.FieldAddr:
			v = x.X
		case *ssa.Field:
			v = x.X
		case *ssa.UnOp:
			v = x.X
		case *ssa.IndexAddr:
			return "idx:" + x.Index.Name() + ":" + rootName(x.X)
		case *ssa.Index:
			return "idx:" + x.Index.Name() + ":" + rootName(x.X)
		default:
			return v.Name()
		}
	}
	return v.Name()
}

func c17r3(c *Ctx) {
	p := c.P
	pc := "pilot/pkg/util/protoconv"
	// Deterministic: true in protoconv
	det := false
	n := 0
	for _, fn := range p.AllFuncs {
		if funcPkgPath(fn) != istioMod+"/"+pc || strings.HasSuffix(p.Fset.Position(fn.Pos()).Filename, "_test.go") {
			continue
		}
		eachInstr(fn, func(ins ssa.Instruction) {
			st, ok := ins.(*ssa.Store)
			if !ok {
				return
			}
			fa, ok := st.Addr.(*ssa.FieldAddr)
			if !ok || fieldVar(fa.X.Type(), fa.Field).Name() != "Deterministic" {
				return
			}
			n++
			b, isC := constBool(st.Val)
			if isC && b {
				det = true
			}
			c.Check("protoconv marshal option Deterministic is true:"+shortFn(fn), st.Pos(), isC && b, "protoconv marshals without Deterministic=true: map fields are serialised in random order")
		})
	}
	c.Check("protoconv sets Deterministic", token.NoPos, det && n >= 1, "no MarshalOptions{Deterministic: true} found in protoconv")
	// who may marshal in generation packages
	genPkgs := []string{pkgCore, pkgRoute, pkgXds, pkgEndpoints, "pilot/pkg/networking/core/envoyfilter", "pilot/pkg/networking/core/extension", "pilot/pkg/networking/plugin/authn", "pilot/pkg/networking/plugin/authz", "pilot/pkg/security/authz/builder"}
	inGen := map[string]bool{}
	for _, g := range genPkgs {
		inGen[istioMod+"/"+g] = true
	}
	allowed := map[string]string{
		"pilot/pkg/xds.ResourceSize":                     "size accounting only",
		"(*pilot/pkg/xds.DiscoveryServer).Syncz":        "debug endpoint",
		"pilot/pkg/xds.handleHTTPError":                 "debug endpoint",
	}
	m := 0
	for _, fn := range p.AllFuncs {
		if !inGen[funcPkgPath(fn)] || strings.HasSuffix(p.Fset.Position(fn.Pos()).Filename, "_test.go") || fn.Synthetic != "" {
			continue
		}
		eachInstr(fn, func(ins ssa.Instruction) {
			o := calleeObj(ins)
			if o == nil || o.Pkg() == nil {
				return
			}
			pp := o.Pkg().Path()
			isMarshal := (pp == "google.golang.org/protobuf/types/known/anypb" && (o.Name() == "New" || o.Name() == "MarshalFrom")) ||
				(pp == "google.golang.org/protobuf/proto" && (o.Name() == "Marshal"))
			if !isMarshal {
				return
			}
			// a message type without map fields serialises identically with or without the Deterministic option
			if args := ins.(ssa.CallInstruction).Common().Args; len(args) > 0 {
				if !messageHasMapField(args[len(args)-1], 0) {
					return
				}
			}
			m++
			root := fn
			for root.Parent() != nil {
				root = root.Parent()
			}
			_, ok := allowed[shortFn(root)]
			if !ok && strings.Contains(p.Fset.Position(fn.Pos()).Filename, "debug") {
				ok = true
			}
			c.Check("non-deterministic marshal in generation code:"+shortFn(root)+":"+o.Name(), ins.Pos(), ok, "a generated protobuf message is marshalled with "+pp+"."+o.Name()+" (no Deterministic option) instead of protoconv.MessageToAny: messages with map fields serialise differently from run to run")
		})
	}
	c.Stat("direct_marshal_sites_in_generation_packages", m)
	c.Floor(2)
}

// messageHasMapField: does the (concrete) protobuf message behind v contain a map-typed field (up to 3 levels deep)?
// Unknown concrete types count as "may have".
func messageHasMapField(v ssa.Value, depth int) bool {
	v = unwrap(v)
	t := v.Type()
	return typeHasMapField(t, 0, map[types.Type]bool{})
}

func typeHasMapField(t types.Type, depth int, seen map[types.Type]bool) bool {
	if depth > 3 || seen[t] {
		return false
	}
	seen[t] = true
	st := structOf(t)
	if st == nil {
		if _, isIface := t.Underlying().(*types.Interface); isIface {
			return true // unknown concrete message
		}
		return false
	}
	for i := 0; i < st.NumFields(); i++ {
		f := st.Field(i)
		if !f.Exported() {
			continue
		}
		switch u := f.Type().Underlying().(type) {
		case *types.Map:
			return true
		case *types.Pointer:
			if typeHasMapField(u.Elem(), depth+1, seen) {
				return true
			}
		case *types.Slice:
			if p, ok := u.Elem().Underlying().(*types.Pointer); ok && typeHasMapField(p.Elem(), depth+1, seen) {
				return true
			}
		case *types.Interface:
			// oneof wrapper: cannot enumerate cheaply; treat as no map (wrappers hold messages checked when marshalled themselves)
		}
	}
	return false
}
