package main

import (
	"fmt"
	"os"
	"go/token"
	"go/types"
	"sort"
	"strings"

	"golang.org/x/tools/go/ssa"
)

func init() {
	register(&PropDef{
		ID: "C17",
		Clauses: []string{
			"R1 in the generation-reachable functions of the EDS, route and xDS-generator packages, no iteration over a map / set decides the order of an output slice: every map-range whose body appends to a slice is followed by a sort of that slice in the same function, or is listed with a reason",
			"R2 the anchored sort comparators break ties on identity: each reads name AND namespace (resp. provider and cluster) of both operands besides the primary key",
			"R4 in the snapshot-building and generation code no loop that receives from a channel (results of worker goroutines) appends what it receives to a list that outlives the loop unless the list is sorted afterwards: arrival order is goroutine completion order",
			"R3 deterministic marshalling: protoconv marshals with Deterministic=true, and generation packages marshal protobuf messages only through protoconv (frozen exceptions)",
		},
		NotDecided: "byte equality across runs; order stability of inputs delivered by informers; map-range order sensitivity outside the three packages of R1 (the census of the whole generation graph is listed in evidence info, not armed)",
		Rules: []Rule{
			{"C17-R1", "unordered iteration does not decide output order", c17r1},
			{"C17-R2", "comparators are total on identity", c17r2},
			{"C17-R3", "deterministic marshalling", c17r3},
			{"C17-R4", "results collected from worker goroutines are not ordered by arrival", c17r4},
			{"C17-R5", "stored EnvoyFilter patch values are neither aliased into generated objects nor edited", c17r5},
			{"C17-R6", "generation stores only into configuration objects it created", c17r6},
			{"C17-R7", "EDS locality groups are emitted in sorted order", c17r7},
			{"C17-R8", "endpoint lists are never built in map iteration order", c17r8},
			{"C17-R9", "no last-one-wins assignment under a map range", c17r9},
			{"C17-R10", "a sort of map keys separates distinct keys", c17r10},
			{"C17-R11", "no one-entry-per-computed-key while walking in map order", c17r11},
		},
	})
}

func isSortCall(ins ssa.Instruction) bool {
	o := calleeObj(ins)
	if o == nil || o.Pkg() == nil {
		return false
	}
	pp, n := o.Pkg().Path(), o.Name()
	switch {
	case pp == "sort":
		return true
	case pp == "slices" && (strings.HasPrefix(n, "Sort") || n == "Sorted" || n == "SortedFunc"):
		return true
	case strings.HasSuffix(pp, "istio/pkg/slices") && strings.HasPrefix(n, "Sort"):
		return true
	case strings.HasSuffix(pp, "istio/pkg/util/sets") && strings.HasPrefix(n, "Sorted"):
		return true
	case strings.HasSuffix(pp, "istio/pkg/maps") && strings.Contains(n, "Sorted"):
		return true
	}
	return strings.HasPrefix(n, "sort") || strings.HasPrefix(n, "Sort")
}

// mapRangeAppend describes a loop over an unordered source (a map, or a list in map order) whose body appends to a
// slice that outlives the loop.
type mapRangeAppend struct {
	fn       *ssa.Function
	pos      token.Pos
	sorted   bool     // every target the loop appends to is sorted after the loop
	ranged   string
	unsorted []string // targets that are not
}

// appendTarget identifies the slice variable an append feeds: a local (the header phi), a cell, or a struct field.
type appendTarget struct {
	desc  string
	phi   *ssa.Phi
	cell  *ssa.Alloc
	field *types.Var
	root  *ssa.Alloc // for a field target: the local object the field belongs to, if any
}

// derivesFromTarget: v is the target's current value (through phis, re-slicing, conversions, interface boxing).
func (t appendTarget) matches(v ssa.Value, depth int, seen map[ssa.Value]bool) bool {
	if depth > 12 || seen[v] {
		return false
	}
	seen[v] = true
	switch x := v.(type) {
	case *ssa.Phi:
		if t.phi != nil && x == t.phi {
			return true
		}
		for _, e := range x.Edges {
			if t.matches(e, depth+1, seen) {
				return true
			}
		}
	case *ssa.Call:
		if isAppendCall(x) && len(x.Call.Args) > 0 {
			return t.matches(x.Call.Args[0], depth+1, seen)
		}
	case *ssa.Slice:
		return t.matches(x.X, depth+1, seen)
	case *ssa.ChangeType:
		return t.matches(x.X, depth+1, seen)
	case *ssa.Convert:
		return t.matches(x.X, depth+1, seen)
	case *ssa.MakeInterface:
		return t.matches(x.X, depth+1, seen)
	case *ssa.UnOp:
		if x.Op == token.MUL {
			if a, ok := x.X.(*ssa.Alloc); ok && t.cell != nil && a == t.cell {
				return true
			}
			if fa, ok := x.X.(*ssa.FieldAddr); ok && t.field != nil && fieldVar(fa.X.Type(), fa.Field) == t.field {
				return true
			}
		}
	}
	return false
}

// appendTargets: where the result of an append instruction is kept (header phi of the loop, cell, field).
func appendTargets(a ssa.Value, H *ssa.BasicBlock) []appendTarget {
	var out []appendTarget
	if H != nil {
		for _, hi := range H.Instrs {
			if ph, ok := hi.(*ssa.Phi); ok && phiContains(ph, a) {
				out = append(out, appendTarget{desc: "local " + ph.Comment, phi: ph})
			}
		}
	}
	for _, r := range *a.Referrers() {
		if st, ok := r.(*ssa.Store); ok && st.Val == a {
			switch ad := st.Addr.(type) {
			case *ssa.Alloc:
				out = append(out, appendTarget{desc: "variable " + ad.Comment, cell: ad})
			case *ssa.FieldAddr:
				fv := fieldVar(ad.X.Type(), ad.Field)
				var root *ssa.Alloc
				var base ssa.Value = ad.X
				for {
					if b, ok := base.(*ssa.FieldAddr); ok {
						base = b.X
						continue
					}
					break
				}
				root, _ = base.(*ssa.Alloc)
				out = append(out, appendTarget{desc: "field " + fv.Name(), field: fv, root: root})
			}
		}
	}
	return out
}

// sortedFrom: some sort call reachable from the given blocks takes the target as an argument (or receiver).
func sortedFrom(starts []*ssa.BasicBlock, t appendTarget) bool {
	seen := map[*ssa.BasicBlock]bool{}
	st := append([]*ssa.BasicBlock{}, starts...)
	for len(st) > 0 {
		b := st[len(st)-1]
		st = st[:len(st)-1]
		if seen[b] {
			continue
		}
		seen[b] = true
		for _, ins := range b.Instrs {
			if !isSortCall(ins) {
				// a function of the module that sorts the parameter it receives the list in (the list is handed to a
				// helper that sorts it first)
				if call, ok := ins.(*ssa.Call); ok {
					if sc := call.Call.StaticCallee(); sc != nil && isIstioFunc(sc) && len(sc.Blocks) > 0 {
						for i, a := range call.Call.Args {
							if i < len(sc.Params) && t.matches(a, 0, map[ssa.Value]bool{}) && sortsParam(sc, i, 0) {
								return true
							}
						}
					}
				}
				continue
			}
			cc := ins.(ssa.CallInstruction).Common()
			args := append([]ssa.Value{}, cc.Args...)
			if cc.IsInvoke() {
				args = append(args, cc.Value)
			}
			for _, a := range args {
				if t.matches(a, 0, map[ssa.Value]bool{}) {
					return true
				}
			}
		}
		st = append(st, b.Succs...)
	}
	return false
}

// sortsParam: fn hands its idx-th parameter to a sort call (directly, or through another module function that does).
func sortsParam(fn *ssa.Function, idx int, depth int) bool {
	if depth > 2 || idx >= len(fn.Params) {
		return false
	}
	prm := ssa.Value(fn.Params[idx])
	is := func(v ssa.Value) bool {
		for i := 0; i < 3; i++ {
			if v == prm {
				return true
			}
			switch x := v.(type) {
			case *ssa.ChangeType:
				v = x.X
			case *ssa.Slice:
				v = x.X
			default:
				return false
			}
		}
		return false
	}
	found := false
	eachInstr(fn, func(ins ssa.Instruction) {
		call, ok := ins.(*ssa.Call)
		if !ok || found {
			return
		}
		for i, a := range call.Call.Args {
			if !is(a) {
				continue
			}
			if isSortCall(call) {
				found = true
				return
			}
			if sc := call.Call.StaticCallee(); sc != nil && isIstioFunc(sc) && len(sc.Blocks) > 0 && sortsParam(sc, i, depth+1) {
				found = true
				return
			}
		}
	})
	return found
}

func loopMembers(fn *ssa.Function, H *ssa.BasicBlock) map[*ssa.BasicBlock]bool {
	member := map[*ssa.BasicBlock]bool{H: true}
	changed := true
	for changed {
		changed = false
		for _, b := range fn.Blocks {
			if member[b] || !H.Dominates(b) {
				continue
			}
			for _, s := range b.Succs {
				if member[s] {
					member[b] = true
					changed = true
					break
				}
			}
		}
	}
	return member
}

// unorderedLoops: loops over a map, or over a slice for which unorderedList holds, that append to a loop-carried slice.
func unorderedLoops(fn *ssa.Function, unorderedList func(ssa.Value) bool) []mapRangeAppend {
	var out []mapRangeAppend
	for _, l := range rangeLoops(fn) {
		if l.Over == nil || l.Header == nil {
			continue
		}
		_, isMap := l.Over.Type().Underlying().(*types.Map)
		if !isMap && (unorderedList == nil || !unorderedList(l.Over)) {
			continue
		}
		H := l.Header
		member := loopMembers(fn, H)
		var targets []appendTarget
		seenT := map[string]bool{}
		for _, b := range fn.Blocks {
			if !member[b] {
				continue
			}
			for _, ins := range b.Instrs {
				if !isAppendCall(ins) {
					continue
				}
				for _, t := range appendTargets(ins.(ssa.Value), H) {
					if !seenT[t.desc] {
						seenT[t.desc] = true
						targets = append(targets, t)
					}
				}
			}
		}
		if len(targets) == 0 {
			continue
		}
		var exits []*ssa.BasicBlock
		for b := range member {
			for _, s := range b.Succs {
				if !member[s] {
					exits = append(exits, s)
				}
			}
		}
		m := mapRangeAppend{fn: fn, pos: l.Body.Instrs[0].Pos(), sorted: true, ranged: describeRanged(l.Over)}
		for _, ins := range H.Instrs {
			if n, ok := ins.(*ssa.Next); ok {
				m.pos = n.Iter.Pos()
			}
		}
		if !m.pos.IsValid() {
			for _, ins := range l.Body.Instrs {
				if ins.Pos().IsValid() {
					m.pos = ins.Pos()
					break
				}
			}
		}
		for _, t := range targets {
			// a cell created inside this loop's body is a per-iteration temporary of this loop: what order it ends up in is
			// decided by the inner loop that fills it (checked on its own), not by this loop
			if t.cell != nil && member[t.cell.Block()] {
				continue
			}
			if t.root != nil && member[t.root.Block()] {
				continue
			}
			if !sortedFrom(exits, t) {
				m.sorted = false
				m.unsorted = append(m.unsorted, t.desc)
			}
		}
		if os.Getenv("VERIF_DEBUG_C17") != "" && strings.Contains(fn.String(), os.Getenv("VERIF_DEBUG_C17")) {
			for _, t := range targets {
				fmt.Printf("C17DBG %s loop@%v target=%s sorted=%v exits=%d\n", fn.Name(), fn.Prog.Fset.Position(m.pos), t.desc, sortedFrom(exits, t), len(exits))
			}
		}
		sort.Strings(m.unsorted)
		out = append(out, m)
	}
	return out
}

func mapRangesWithAppend(fn *ssa.Function) []mapRangeAppend { return unorderedLoops(fn, nil) }

// ---- lists in map order ----

// c17Derived: module functions (and the interface methods they implement) whose result is a list in map order - they
// return the result of a producer, unsorted. Computed to a fixpoint over the analysed graph by deriveProducers.
var c17Derived map[string]bool

// deriveProducers: functions of the module in `fns` that return a map-ordered list (a producer's result, or the result of
// another such function, not sorted before the return). Interface methods are added when an implementation is one.
func deriveProducers(p *Prog, fns []*ssa.Function) map[string]bool {
	c17Derived = map[string]bool{}
	for round := 0; round < 4; round++ {
		changed := false
		for _, fn := range fns {
			if len(fn.Blocks) == 0 || isWrapperFn(fn) || strings.HasSuffix(p.Fset.Position(fn.Pos()).Filename, "_test.go") {
				continue
			}
			o, ok := fn.Object().(*types.Func)
			if !ok {
				if fn.Origin() != nil {
					o, ok = fn.Origin().Object().(*types.Func)
				}
				if !ok {
					continue
				}
			}
			o = o.Origin()
			if c17Derived[o.FullName()] {
				continue
			}
			if fn.Signature.Results().Len() == 0 {
				continue
			}
			if _, isSl := fn.Signature.Results().At(0).Type().Underlying().(*types.Slice); !isSl {
				continue
			}
			uses, _, _ := unorderedListUses(fn)
			ret := false
			for _, u := range uses {
				if u.use == "returned" {
					ret = true
				}
			}
			if !ret {
				continue
			}
			c17Derived[o.FullName()] = true
			changed = true
			// interface methods this method implements
			if recv := o.Type().(*types.Signature).Recv(); recv != nil {
				for _, pk := range p.Pkgs {
					if !strings.HasPrefix(pk.PkgPath, istioMod+"/pilot/pkg/model") {
						continue
					}
					sc := pk.Types.Scope()
					for _, nm := range sc.Names() {
						tn, ok := sc.Lookup(nm).(*types.TypeName)
						if !ok {
							continue
						}
						it, ok := tn.Type().Underlying().(*types.Interface)
						if !ok || !types.Implements(recv.Type(), it) {
							continue
						}
						for i := 0; i < it.NumMethods(); i++ {
							if it.Method(i).Name() == o.Name() {
								c17Derived[it.Method(i).FullName()] = true
							}
						}
					}
				}
			}
		}
		if !changed {
			break
		}
	}
	return c17Derived
}

// unorderedProducer: a call whose result is a slice in map-iteration order.
func unorderedProducer(ins ssa.Instruction) string {
	call, ok := ins.(*ssa.Call)
	if !ok {
		return ""
	}
	if call.Call.IsInvoke() {
		m := call.Call.Method
		if m.Name() == "List" && m.Pkg() != nil && strings.HasSuffix(m.Pkg().Path(), "istio/pkg/kube/krt") {
			return "krt List"
		}
		if c17Derived != nil && c17Derived[m.FullName()] {
			return "result of " + m.Name() + " (map order)"
		}
		return ""
	}
	o := calleeObj(ins)
	if o == nil || o.Pkg() == nil {
		return ""
	}
	if c17Derived != nil && c17Derived[o.FullName()] {
		return "result of " + o.Name() + " (map order)"
	}
	pp, n := o.Pkg().Path(), o.Name()
	switch {
	case strings.HasSuffix(pp, "istio/pkg/util/sets") && n == "UnsortedList":
		return "UnsortedList"
	case (strings.HasSuffix(pp, "istio/pkg/maps") || pp == "golang.org/x/exp/maps") && (n == "Keys" || n == "Values"):
		return "maps." + n
	}
	return ""
}

// order-preserving element-wise transforms: the result is as unordered as the first argument
func isOrderPassThrough(ins ssa.Instruction) bool {
	o := calleeObj(ins)
	if o == nil || o.Pkg() == nil {
		return false
	}
	pp, n := o.Pkg().Path(), o.Name()
	if strings.HasSuffix(pp, "istio/pkg/slices") || pp == "slices" {
		switch n {
		case "Map", "MapErr", "MapFilter", "Filter", "FilterInPlace", "Clone", "Reverse", "FilterDuplicates", "Flatten":
			return true
		}
	}
	return false
}

func isOrderInsensitiveSink(ins ssa.Instruction) bool {
	o := calleeObj(ins)
	if o == nil || o.Pkg() == nil {
		return false
	}
	pp, n := o.Pkg().Path(), o.Name()
	if strings.HasSuffix(pp, "istio/pkg/util/sets") {
		return true // building or querying a set
	}
	if strings.HasSuffix(pp, "istio/pkg/slices") || pp == "slices" {
		switch n {
		case "Contains", "ContainsFunc", "FindFunc", "Index", "IndexFunc": // membership (FindFunc/Index on unique predicates)
			return n == "Contains" || n == "ContainsFunc"
		case "EqualUnordered":
			return true
		}
	}
	return false
}

type listUse struct {
	pos      token.Pos
	producer string
	use      string
}

// unorderedListUses: for every producer call in fn, the order-sensitive uses of its (derived) value, unless the value
// is handed to a sort call somewhere in the function.
func unorderedListUses(fn *ssa.Function) (uses []listUse, derivedOf func(ssa.Value) bool, producers int) {
	derivedAll := map[ssa.Value]bool{}
	eachInstr(fn, func(ins ssa.Instruction) {
		prod := unorderedProducer(ins)
		if prod == "" {
			return
		}
		producers++
		root := ins.(ssa.Value)
		derived := map[ssa.Value]bool{root: true}
		work := []ssa.Value{root}
		sorted := false
		var found []listUse
		add := func(v ssa.Value) {
			if !derived[v] {
				derived[v] = true
				work = append(work, v)
			}
		}
		for len(work) > 0 {
			d := work[len(work)-1]
			work = work[:len(work)-1]
			if d.Referrers() == nil {
				continue
			}
			for _, r := range *d.Referrers() {
				switch x := r.(type) {
				case *ssa.Phi:
					add(x)
				case *ssa.Slice:
					add(x)
				case *ssa.ChangeType:
					add(x)
				case *ssa.Convert:
					add(x)
				case *ssa.MakeInterface:
					add(x) // only sort calls and returns matter below; logging is ignored
				case *ssa.Store:
					if x.Val != d {
						continue
					}
					switch ad := x.Addr.(type) {
					case *ssa.Alloc:
						for _, rr := range *ad.Referrers() {
							if ld, ok := rr.(*ssa.UnOp); ok && ld.Op == token.MUL {
								add(ld)
							}
						}
					case *ssa.FieldAddr:
						found = append(found, listUse{x.Pos(), prod, "stored into field " + fieldVar(ad.X.Type(), ad.Field).Name()})
					case *ssa.IndexAddr:
						// varargs packing (logging) is ignored
					}
				case *ssa.Return:
					if _, isIface := d.(*ssa.MakeInterface); !isIface {
						found = append(found, listUse{x.Pos(), prod, "returned"})
					}
				case *ssa.Index, *ssa.IndexAddr:
					var idx ssa.Value
					if ia, ok := x.(*ssa.IndexAddr); ok {
						idx = ia.Index
					} else {
						idx = x.(*ssa.Index).Index
					}
					if _, isConst := idx.(*ssa.Const); isConst {
						found = append(found, listUse{r.Pos(), prod, "element picked by position"})
					}
					// iteration: handled through unorderedLoops with derivedOf
				case ssa.CallInstruction:
					cc := x.Common()
					if bi, ok := cc.Value.(*ssa.Builtin); ok {
						switch bi.Name() {
						case "len", "cap":
						case "append":
							if len(cc.Args) > 1 && cc.Args[1] == d {
								// append(dst, list...): the destination must be sorted afterwards
								okAll := true
								a := x.(ssa.Value)
								ts := appendTargets(a, nil)
								if len(ts) == 0 {
									// plain local: the append result itself
									ts = []appendTarget{{desc: "local"}}
									add(a)
									continue
								}
								for _, t := range ts {
									if !sortedFrom([]*ssa.BasicBlock{x.Block()}, t) {
										okAll = false
									}
								}
								if !okAll {
									found = append(found, listUse{x.Pos(), prod, "appended to " + ts[0].desc})
								}
							}
						case "copy":
							found = append(found, listUse{x.Pos(), prod, "copied"})
						}
						continue
					}
					if isSortCall(r) {
						sorted = true
						continue
					}
					if isOrderPassThrough(r) {
						if v, ok := r.(ssa.Value); ok && len(cc.Args) > 0 && cc.Args[0] == d {
							add(v)
							continue
						}
					}
					if isOrderInsensitiveSink(r) {
						continue
					}
					if _, isIface := d.(*ssa.MakeInterface); isIface {
						continue // boxed for a variadic ...any parameter: logging / formatting
					}
					name := "a function value"
					if o := calleeObj(r); o != nil {
						name = o.Name()
					} else if cc.IsInvoke() {
						name = cc.Method.Name()
					}
					found = append(found, listUse{x.Pos(), prod, "passed to " + name})
				}
			}
		}
		if !sorted {
			uses = append(uses, found...)
			for v := range derived {
				derivedAll[v] = true
			}
		}
	})
	return uses, func(v ssa.Value) bool { return derivedAll[v] }, producers
}

func describeRanged(v ssa.Value) string {
	if fv := fieldOfLoad(v); fv != nil {
		return "field " + fv.Name()
	}
	switch x := v.(type) {
	case *ssa.Parameter:
		return "param " + x.Name()
	case *ssa.Call:
		if o := calleeObj(x); o != nil {
			return "result of " + o.Name()
		}
	case *ssa.Extract:
		if call, ok := x.Tuple.(*ssa.Call); ok {
			if o := calleeObj(call); o != nil {
				return "result of " + o.Name()
			}
		}
	}
	return "local map"
}

func c17r1(c *Ctx) {
	p := c.P
	entries := []*ssa.Function{
		p.Func(pkgCore, "ConfigGeneratorImpl", "BuildClusters"), p.Func(pkgCore, "ConfigGeneratorImpl", "BuildDeltaClusters"),
		p.Func(pkgCore, "ConfigGeneratorImpl", "BuildListeners"), p.Func(pkgCore, "ConfigGeneratorImpl", "BuildHTTPRoutes"),
		p.Func(pkgCore, "ConfigGeneratorImpl", "BuildNameTable"), p.Func(pkgXds, "EdsGenerator", "buildEndpoints"),
		p.Func(pkgXds, "DiscoveryServer", "pushXds"), p.Func(pkgXds, "DiscoveryServer", "pushDeltaXds"),
	}
	if os.Getenv("VERIF_C17_INIT") != "" { // development: also the snapshot-building graph
		entries = append(entries, p.Func(pkgModel, "PushContext", "createNewContext"), p.Func(pkgModel, "PushContext", "updateContext"))
	}
	reach := p.CG().Reach(entries, nil)
	c.Stat("generation_reachable_functions", len(reach))
	armed := map[string]bool{istioMod + "/" + pkgEndpoints: true, istioMod + "/" + pkgRoute: true, istioMod + "/" + pkgXds: true}
	_ = os.Getenv
	armed[istioMod+"/"+pkgCore] = true
	armed[istioMod+"/pilot/pkg/networking/grpcgen"] = true
	armed[istioMod+"/pilot/pkg/networking/plugin/authn"] = true
	armed[istioMod+"/pilot/pkg/security/authz/builder"] = true
	armed[istioMod+"/pkg/dns/server"] = true
	if extra := os.Getenv("VERIF_C17_ARM_EXTRA"); extra != "" { // development: list candidates in further packages
		for _, e := range strings.Split(extra, ",") {
			armed[istioMod+"/"+e] = true
		}
	}
	// frozen exceptions: function + ranged expression -> reason the order does not reach generated bytes
	except := map[string]string{
		"(*pilot/pkg/xds.DiscoveryServer).Clients|field adsClients": "list of connections for the push fan-out and debug pages; not part of any generated resource",
		"pilot/pkg/xds.referencedSecrets|local map": "the slice has two consumers, both order-insensitive: an any-match scan in EcdsGenerator.Generate and a map insert keyed by the unique resource name in GeneratePullSecrets; 300 generations byte-identical (findings/C17-map-order S5)",
		// pilot/pkg/networking/core and grpcgen: triaged against the real generators (findings/C17-core); 11 sites repaired
		"(*pilot/pkg/networking/core.ConfigGeneratorImpl).buildGatewayListeners|local map|field filterChainOpts": "TCP and QUIC listeners have different names (bind_port / udp_bind_port): the loop only decides the insertion order of two different map keys; the listener list is ordered by the ServerPorts slice and (since the repair) sorted by name",
		"(*pilot/pkg/networking/core.ConfigGeneratorImpl).deltaFromDestinationRules|UnsortedList|returned":      "the returned names are inserted into a set in BuildDeltaClusters and the response uses sets.SortedList of it (22 removed names, one order over 300 generations)",
		"(*pilot/pkg/networking/core.ConfigGeneratorImpl).deltaFromServiceDiff|UnsortedList|returned":           "same: set insert + SortedList in BuildDeltaClusters",
		"(*pilot/pkg/networking/core.ConfigGeneratorImpl).deltaFromServiceDiff|param serviceClusters|local deletedClusters": "same: set insert + SortedList in BuildDeltaClusters",
		"(*pilot/pkg/networking/core.ConfigGeneratorImpl).deltaFromServiceDiff|*|local deletedClusters": "same (removed names, whichever map of the function the loop walks): set insert + SortedList in BuildDeltaClusters",
		"(*pilot/pkg/networking/core.ConfigGeneratorImpl).deltaFromServices|*|local deletedClusters":    "same: set insert + SortedList in BuildDeltaClusters",
		"(*pilot/pkg/networking/core.ConfigGeneratorImpl).deltaFromServiceDiff|local map|local deletedClusters": "same (the clusters of a service whose imported ports changed): set insert + SortedList in BuildDeltaClusters; the services built from this loop are sorted by host name in the function",
		"(*pilot/pkg/networking/core.ConfigGeneratorImpl).deltaFromServices|UnsortedList|returned":              "same: set insert + SortedList in BuildDeltaClusters",
		"(*pilot/pkg/networking/core.ConfigGeneratorImpl).deltaFromServices|local map|local deletedClusters":    "same: set insert + SortedList in BuildDeltaClusters",
		"(*pilot/pkg/networking/grpcgen.GrpcConfigGenerator).Generate|UnsortedList|passed to BuildListeners":     "the names only fill a map (newListenerNameFilter); outbound listeners follow SidecarScope.Services() x sets.SortedList(RequestedNames)",
		"(*pilot/pkg/networking/grpcgen.GrpcConfigGenerator).Generate|UnsortedList|passed to BuildClusters":      "the names only fill a map (newClusterFilter); the cluster order is decided in BuildClusters (repaired)",
		"pilot/pkg/networking/core.mergeAllVirtualHosts|param vHostPortMap|local virtualHosts":                   "the only caller chain ends in util.SortVirtualHosts on unique names (httproute.go); the gRPC caller never passes port 0",
		"pilot/pkg/security/authz/builder.getExtAuthz|param resolved|local li": "the list only appears in an error message",
		"pilot/pkg/networking/core.selectVirtualServices|param servicesByName|local wcSvcHosts":                  "wcSvcHosts is only read by slices.ContainsFunc (any-match); the output follows the input slice order",
		"(*pilot/pkg/xds.StatusGen).handleInternalRequest|UnsortedList|element picked by position": "the request is rejected unless the set has exactly one element (len check two lines above)",
		"pilot/pkg/xds.parseAndValidateDebugRequest|UnsortedList|element picked by position":      "validateProxyAuthentication rejects the request unless the set has exactly one element",
	}
	var fns []*ssa.Function
	for fn := range reach {
		fns = append(fns, fn)
	}
	sort.Slice(fns, func(i, j int) bool { return fnKey(fns[i]) < fnKey(fns[j]) })
	// module functions that hand on a producer's result unsorted are producers themselves (ServicesForWaypoint, the
	// config stores' List): computed to a fixpoint over the analysed graph
	{
		d := deriveProducers(p, fns)
		var names []string
		for n := range d {
			names = append(names, n)
		}
		sort.Strings(names)
		c.Infof("derived producers (functions returning a list in map order): %v", names)
		c.Check("derived producers found (positive control)", token.NoPos, len(names) >= 10, fmt.Sprintf("%d module functions returning a list in map order", len(names)))
	}
	defer func() { c17Derived = nil }()
	total, unsortedAll, listFns := 0, 0, 0
	var census []string
	for _, fn := range fns {
		if strings.HasSuffix(p.Fset.Position(fn.Pos()).Filename, "_test.go") {
			continue
		}
		uses, derivedOf, producers := unorderedListUses(fn)
		if producers > 0 {
			listFns++
			if armed[funcPkgPath(fn)] && len(uses) == 0 {
				c.Check("lists in map order are sorted or used order-insensitively: "+stableFnName(fn), fn.Pos(), true, "")
			}
		}
		seenUse := map[string]bool{}
		sort.SliceStable(uses, func(i, j int) bool { return uses[j].pos == token.NoPos && uses[i].pos != token.NoPos })
		for _, u := range uses {
			key := stableFnName(fn) + "|" + u.producer + "|" + u.use
			if seenUse[key] {
				continue // one obligation per (function, producer, kind of use)
			}
			seenUse[key] = true
			if !armed[funcPkgPath(fn)] {
				census = append(census, key+" @"+p.pos(u.pos))
				continue
			}
			if _, ok := except[key]; ok {
				c.Check("list in map order (frozen exception): "+key, u.pos, true, "")
				continue
			}
			c.Check("list in map order is sorted before its order is used: "+key, u.pos, false,
				"the result of "+u.producer+" (elements in map iteration order) is "+u.use+" without being sorted in this function: the order of whatever is generated from it differs between runs and between istiod instances for the same state")
		}
		for _, m := range unorderedLoops(fn, derivedOf) {
			total++
			key := stableFnName(fn) + "|" + m.ranged
			if !m.sorted {
				unsortedAll++
			}
			if !armed[funcPkgPath(fn)] {
				if !m.sorted {
					census = append(census, key+" @"+p.pos(m.pos))
				}
				continue
			}
			exKey := key + "|" + strings.Join(m.unsorted, ",")
			_, ex1 := except[key]
			_, ex2 := except[exKey]
			if _, ex3 := except[stableFnName(fn)+"|*|"+strings.Join(m.unsorted, ",")]; ex3 {
				ex2 = true // the exception is about the function's target list, whatever the ranged map is called
			}
			if (ex1 || ex2) && !m.sorted {
				c.Check("map-range append (frozen exception): "+exKey, m.pos, true, "")
				continue
			}
			c.Check("map-range append is sorted afterwards: "+key, m.pos, m.sorted,
				"a slice ("+strings.Join(m.unsorted, ", ")+") is filled in the iteration order of a map/set and that slice is never sorted afterwards in this function: the order of the generated elements (and therefore the bytes) differs between runs and between istiod instances for the same state")
		}
	}
	sort.Strings(census)
	if len(census) > 60 {
		census = census[:60]
	}
	c.Infof("census over the whole generation graph: %d loops over a map / map-ordered list with a loop-carried append, %d of them with an append target that is not sorted afterwards in the same function; %d functions call a map-order list producer; unarmed (outside endpoints/route/xds): %v", total, unsortedAll, listFns, census)
	c.Floor(6)
}

func c17r2(c *Ctx) {
	p := c.P
	type spec struct {
		pkg, recv, fn string
		fields        [][3]string // pkg, struct, field that must be read on both operands
	}
	specs := []spec{
		{pkgModel, "", "sortConfigByCreationTime", [][3]string{{"pkg/config", "Meta", "Name"}, {"pkg/config", "Meta", "Namespace"}, {"pkg/config", "Meta", "CreationTimestamp"}}},
		{pkgModel, "", "SortServicesByCreationTime", [][3]string{{pkgModel, "ServiceAttributes", "Name"}, {pkgModel, "ServiceAttributes", "Namespace"}, {pkgModel, "Service", "CreationTime"}}},
		{pkgModel, "", "compareServicesByCreationTime", [][3]string{{pkgModel, "ServiceAttributes", "Name"}, {pkgModel, "ServiceAttributes", "Namespace"}, {pkgModel, "Service", "CreationTime"}}},
		{pkgModel, "", "sortConfigBySelectorAndCreationTime", [][3]string{{"pkg/config", "Meta", "Name"}, {"pkg/config", "Meta", "Namespace"}, {"pkg/config", "Meta", "CreationTimestamp"}}},
		{pkgModel, "EndpointShards", "Keys", [][3]string{{pkgModel, "ShardKey", "Provider"}, {pkgModel, "ShardKey", "Cluster"}}},
	}
	for _, s := range specs {
		fn := p.Func(s.pkg, s.recv, s.fn)
		// the comparator: an anonymous function of fn (or fn's callee in the same package) with a bool result
		cands := append([]*ssa.Function{}, fn.AnonFuncs...)
		for _, g := range p.CG().Callees(fn) {
			if funcPkgPath(g) == istioMod+"/"+s.pkg {
				cands = append(cands, g)
				cands = append(cands, g.AnonFuncs...)
			}
		}
		cands = append(cands, fn)
		for _, f := range s.fields {
			fv := p.Field(f[0], f[1], f[2])
			// count reads per distinct base value across the candidate comparator functions
			maxBases := 0
			for _, cf := range cands {
				bases := map[string]bool{}
				eachInstr(cf, func(ins ssa.Instruction) {
					var base ssa.Value
					switch x := ins.(type) {
					case *ssa.FieldAddr:
						if fieldVar(x.X.Type(), x.Field) == fv {
							base = x.X
						}
					case *ssa.Field:
						if fieldVar(x.X.Type(), x.Field) == fv {
							base = x.X
						}
					}
					if base != nil {
						bases[rootName(base)] = true
					}
				})
				if len(bases) > maxBases {
					maxBases = len(bases)
				}
			}
			c.Check(s.fn+": comparator reads "+f[1]+"."+f[2]+" of both operands", fn.Pos(), maxBases >= 2,
				"the comparator of "+s.fn+" does not compare "+f[1]+"."+f[2]+" of both elements: objects that tie on the remaining keys keep their input (listing / map) order, so the winner among them differs between runs and instances")
		}
	}
	c.Floor(14)
}

// rootName: a name for the root of an access path (distinguishes the two comparator operands).
func rootName(v ssa.Value) string {
	for i := 0; i < 12; i++ {
		switch x := v.(type) {
		case *ssa.FieldAddr:
			v = x.X
		case *ssa.Field:
			v = x.X
		case *ssa.UnOp:
			v = x.X
		case *ssa.IndexAddr:
			return "idx:" + x.Index.Name() + ":" + rootName(x.X)
		case *ssa.Index:
			return "idx:" + x.Index.Name() + ":" + rootName(x.X)
		default:
			return v.Name()
		}
	}
	return v.Name()
}

func c17r3(c *Ctx) {
	p := c.P
	pc := "pilot/pkg/util/protoconv"
	// Deterministic: true in protoconv
	det := false
	n := 0
	for _, fn := range p.AllFuncs {
		if funcPkgPath(fn) != istioMod+"/"+pc || strings.HasSuffix(p.Fset.Position(fn.Pos()).Filename, "_test.go") {
			continue
		}
		eachInstr(fn, func(ins ssa.Instruction) {
			st, ok := ins.(*ssa.Store)
			if !ok {
				return
			}
			fa, ok := st.Addr.(*ssa.FieldAddr)
			if !ok || fieldVar(fa.X.Type(), fa.Field).Name() != "Deterministic" {
				return
			}
			n++
			b, isC := constBool(st.Val)
			if isC && b {
				det = true
			}
			c.Check("protoconv marshal option Deterministic is true:"+shortFn(fn), st.Pos(), isC && b, "protoconv marshals without Deterministic=true: map fields are serialised in random order")
		})
	}
	c.Check("protoconv sets Deterministic", token.NoPos, det && n >= 1, "no MarshalOptions{Deterministic: true} found in protoconv")
	// who may marshal in generation packages
	genPkgs := []string{pkgCore, pkgRoute, pkgXds, pkgEndpoints, "pilot/pkg/networking/util", "pilot/pkg/networking/core/envoyfilter", "pilot/pkg/networking/core/extension", "pilot/pkg/networking/plugin/authn", "pilot/pkg/networking/plugin/authz", "pilot/pkg/security/authz/builder"}
	inGen := map[string]bool{}
	for _, g := range genPkgs {
		inGen[istioMod+"/"+g] = true
	}
	allowed := map[string]string{
		"pilot/pkg/xds.ResourceSize":                     "size accounting only",
		"(*pilot/pkg/xds.DiscoveryServer).Syncz":        "debug endpoint",
		"pilot/pkg/xds.handleHTTPError":                 "debug endpoint",
	}
	m := 0
	for _, fn := range p.AllFuncs {
		if !inGen[funcPkgPath(fn)] || strings.HasSuffix(p.Fset.Position(fn.Pos()).Filename, "_test.go") || fn.Synthetic != "" {
			continue
		}
		eachInstr(fn, func(ins ssa.Instruction) {
			o := calleeObj(ins)
			if o == nil || o.Pkg() == nil {
				return
			}
			pp := o.Pkg().Path()
			isMarshal := (pp == "google.golang.org/protobuf/types/known/anypb" && (o.Name() == "New" || o.Name() == "MarshalFrom")) ||
				(pp == "google.golang.org/protobuf/proto" && (o.Name() == "Marshal"))
			if !isMarshal {
				return
			}
			// a message type without map fields serialises identically with or without the Deterministic option
			if args := ins.(ssa.CallInstruction).Common().Args; len(args) > 0 {
				if !messageHasMapField(args[len(args)-1], 0) {
					return
				}
			}
			m++
			root := fn
			for root.Parent() != nil {
				root = root.Parent()
			}
			_, ok := allowed[shortFn(root)]
			if !ok && strings.Contains(p.Fset.Position(fn.Pos()).Filename, "debug") {
				ok = true
			}
			c.Check("non-deterministic marshal in generation code:"+shortFn(root)+":"+o.Name(), ins.Pos(), ok, "a generated protobuf message is marshalled with "+pp+"."+o.Name()+" (no Deterministic option) instead of protoconv.MessageToAny: messages with map fields serialise differently from run to run")
		})
	}
	c.Stat("direct_marshal_sites_in_generation_packages", m)
	c.Floor(2)
}

// messageHasMapField: does the (concrete) protobuf message behind v contain a map-typed field (up to 3 levels deep)?
// Unknown concrete types count as "may have".
func messageHasMapField(v ssa.Value, depth int) bool {
	v = unwrap(v)
	t := v.Type()
	return typeHasMapField(t, 0, map[types.Type]bool{})
}

func typeHasMapField(t types.Type, depth int, seen map[types.Type]bool) bool {
	if depth > 3 || seen[t] {
		return false
	}
	seen[t] = true
	st := structOf(t)
	if st == nil {
		if _, isIface := t.Underlying().(*types.Interface); isIface {
			return true // unknown concrete message
		}
		return false
	}
	for i := 0; i < st.NumFields(); i++ {
		f := st.Field(i)
		if !f.Exported() {
			continue
		}
		switch u := f.Type().Underlying().(type) {
		case *types.Map:
			return true
		case *types.Pointer:
			if typeHasMapField(u.Elem(), depth+1, seen) {
				return true
			}
		case *types.Slice:
			if p, ok := u.Elem().Underlying().(*types.Pointer); ok && typeHasMapField(p.Elem(), depth+1, seen) {
				return true
			}
		case *types.Interface:
			// oneof wrapper: cannot enumerate cheaply; treat as no map (wrappers hold messages checked when marshalled themselves)
		}
	}
	return false
}


// C17-R4: a loop that receives from a channel sees values in the order the sending goroutines finished. Appending them
// to a slice (or to a per-key slice in a map) makes that order part of the state; unless the slice is sorted afterwards
// (or the workers write into pre-assigned slots instead), precedence rules that rely on list order - e.g. "first matching
// Sidecar wins" - depend on scheduling.
func c17r4(c *Ctx) {
	p := c.P
	pkgs := map[string]bool{istioMod + "/" + pkgModel: true, istioMod + "/" + pkgCore: true, istioMod + "/" + pkgRoute: true, istioMod + "/" + pkgXds: true, istioMod + "/" + pkgEndpoints: true}
	nLoops, nFns := 0, 0
	for _, fn := range p.AllFuncs {
		if !pkgs[funcPkgPath(fn)] || strings.HasSuffix(p.Fset.Position(fn.Pos()).Filename, "_test.go") {
			continue
		}
		hasRecv := false
		eachInstr(fn, func(ins ssa.Instruction) {
			if u, ok := ins.(*ssa.UnOp); ok && u.Op == token.ARROW {
				hasRecv = true
			}
		})
		if !hasRecv {
			continue
		}
		nFns++
		for _, h := range fn.Blocks {
			// natural loop headers: a predecessor is dominated by the block
			isHeader := false
			for _, pr := range h.Preds {
				if h.Dominates(pr) {
					isHeader = true
				}
			}
			if !isHeader {
				continue
			}
			member := loopMembers(fn, h)
			var recv *ssa.UnOp
			for b := range member {
				for _, ins := range b.Instrs {
					if u, ok := ins.(*ssa.UnOp); ok && u.Op == token.ARROW {
						recv = u
					}
				}
			}
			if recv == nil {
				continue
			}
			nLoops++
			// appends in the loop that keep a received value
			bad := ""
			var pos token.Pos = recv.Pos()
			var exits []*ssa.BasicBlock
			for b := range member {
				for _, sx := range b.Succs {
					if !member[sx] {
						exits = append(exits, sx)
					}
				}
			}
			for b := range member {
				for _, ins := range b.Instrs {
					if !isAppendCall(ins) {
						continue
					}
					call := ins.(*ssa.Call)
					// does the appended element derive from the received value?
					fromRecv := false
					budget := 400
					var walk func(v ssa.Value)
					seen := map[ssa.Value]bool{}
					walk = func(v ssa.Value) {
						if v == nil || seen[v] || budget <= 0 {
							return
						}
						seen[v] = true
						budget--
						if v == ssa.Value(recv) {
							fromRecv = true
							return
						}
						if a, ok := v.(*ssa.Alloc); ok {
							for _, ref := range *a.Referrers() {
								switch y := ref.(type) {
								case *ssa.Store:
									walk(y.Val)
								case *ssa.IndexAddr:
									for _, r2 := range *y.Referrers() {
										if st, ok := r2.(*ssa.Store); ok {
											walk(st.Val)
										}
									}
								}
							}
							return
						}
						if i2, ok := v.(ssa.Instruction); ok {
							var ops []*ssa.Value
							for _, op := range i2.Operands(ops) {
								if op != nil && *op != nil {
									walk(*op)
								}
							}
						}
					}
					if len(call.Call.Args) > 1 {
						walk(call.Call.Args[1])
					}
					if !fromRecv {
						continue
					}
					ts := appendTargets(call, h)
					kept := len(ts) > 0
					sorted := kept
					for _, t := range ts {
						if !sortedFrom(exits, t) {
							sorted = false
						}
					}
					// m[k] = append(m[k], v)
					for _, ref := range *call.Referrers() {
						if mu, ok := ref.(*ssa.MapUpdate); ok && mu.Value == ssa.Value(call) {
							kept = true
							sorted = false
							for len(exits) > 0 {
								break
							}
							// any sort call after the loop counts (per-key lists are sorted in a later pass)
							seenB := map[*ssa.BasicBlock]bool{}
							st := append([]*ssa.BasicBlock{}, exits...)
							for len(st) > 0 {
								bb := st[len(st)-1]
								st = st[:len(st)-1]
								if seenB[bb] {
									continue
								}
								seenB[bb] = true
								for _, i3 := range bb.Instrs {
									if isSortCall(i3) {
										sorted = true
									}
								}
								st = append(st, bb.Succs...)
							}
						}
					}
					if kept && !sorted {
						bad = "values received from a channel are appended to a list that outlives the loop (" + p.pos(call.Pos()) + ") and the list is not sorted afterwards"
						pos = call.Pos()
					}
				}
			}
			c.Check("channel-receive loop does not fix an order by arrival: "+stableFnName(fn), pos, bad == "",
				bad+": the order of the list is the order in which the sending goroutines finished. Where list order is a precedence rule (e.g. the first matching Sidecar of a namespace wins) the configuration a proxy gets depends on scheduling and differs between instances")
		}
	}
	c.Stat("functions_receiving_from_channels", nFns)
	c.Check("channel-receive loops examined", token.NoPos, nLoops >= 1, "no loop receiving from a channel found in the snapshot/generation packages (concurrentConvertToSidecarScope's workers)")
	c.Floor(2)
}

// C17-R5: generation never aliases or edits a stored EnvoyFilter patch. The patch values (EnvoyFilterConfigPatchWrapper.
// Value) are part of the push context, shared by every generation. If a pointer into one is put into a generated object
// (or returned, or appended), any later merge INTO that object edits the stored patch, and the next generation - same
// proxy, same configuration - starts from a different patch (repeated fields grow with every push). Taint analysis over
// the functions that read Value: tainted = the loaded Value and every pointer/slice/map/interface reached from it by
// type assertion, field load or getter; a tainted value may be read, compared, cloned (proto.Clone), used as the
// SOURCE of a merge and handed to same-package helpers (followed); it may not be stored into another object, appended,
// returned, captured as a merge DESTINATION, and nothing may be stored through it.
var c17r5Exceptions = map[string]string{
	"pilot/pkg/networking/core/envoyfilter.mergeListenerFilter|store through the patch: Name": "writes the effective filter name back into the stored MERGE value (wrong target - the sibling network/HTTP filter code renames the generated filter - but harmless for determinism: the field is read only by this function and a value read after the write equals the one written, so no output depends on it)",
}

func isRefType(t types.Type) bool {
	switch t.Underlying().(type) {
	case *types.Pointer, *types.Slice, *types.Map, *types.Interface:
		return true
	}
	return false
}

func c17r5(c *Ctx) {
	p := c.P
	valF := p.Field(pkgModel, "EnvoyFilterConfigPatchWrapper", "Value")
	type job struct {
		fn   *ssa.Function
		seed ssa.Value
	}
	var work []job
	nSrc := 0
	for _, fn := range p.AllFuncs {
		if !isIstioFunc(fn) || isWrapperFn(fn) || strings.HasSuffix(p.Fset.Position(fn.Pos()).Filename, "_test.go") {
			continue
		}
		pp := funcPkgPath(fn)
		if strings.Contains(pp, "/test") || pp == istioMod+"/"+pkgModel {
			continue // the model package builds the wrappers
		}
		eachInstr(fn, func(ins ssa.Instruction) {
			if u, ok := ins.(*ssa.UnOp); ok && u.Op == token.MUL {
				if fa, ok := u.X.(*ssa.FieldAddr); ok && fieldVar(fa.X.Type(), fa.Field) == valF {
					work = append(work, job{fn, u})
					nSrc++
				}
			}
		})
	}
	reported := map[string]bool{}
	report := func(fn *ssa.Function, pos token.Pos, what, detail string) {
		key := stableFnName(fn) + "|" + what
		if why, ok := c17r5Exceptions[key]; ok {
			c.Infof("exception %s: %s", key, why)
			return
		}
		k2 := key + "|" + p.Fset.Position(pos).String()
		if reported[k2] {
			return
		}
		reported[k2] = true
		c.Check("stored EnvoyFilter patch values are neither aliased nor edited: "+key, pos, false, detail)
	}
	seen := map[ssa.Value]bool{}
	var taint func(fn *ssa.Function, v ssa.Value, depth int)
	taint = func(fn *ssa.Function, v ssa.Value, depth int) {
		if seen[v] || v.Referrers() == nil {
			return
		}
		seen[v] = true
		for _, r := range *v.Referrers() {
			switch x := r.(type) {
			case *ssa.DebugRef:
			case *ssa.TypeAssert:
				taint(fn, x, depth)
			case *ssa.Extract:
				taint(fn, x, depth)
			case *ssa.ChangeInterface:
				taint(fn, x, depth)
			case *ssa.ChangeType:
				taint(fn, x, depth)
			case *ssa.MakeInterface:
				taint(fn, x, depth)
			case *ssa.Phi:
				taint(fn, x, depth)
			case *ssa.FieldAddr:
				// address of a field of the stored message
				if x.X != v {
					break
				}
				for _, fr := range *x.Referrers() {
					switch y := fr.(type) {
					case *ssa.UnOp:
						if y.Op == token.MUL && isRefType(y.Type()) {
							taint(fn, y, depth)
						}
					case *ssa.Store:
						if y.Addr == ssa.Value(x) {
							report(fn, y.Pos(), "store through the patch: "+fieldVar(x.X.Type(), x.Field).Name(),
								"a field of the stored EnvoyFilter patch value is assigned during generation: the patch is shared push-context state, the next generation (and concurrent ones) start from the edited value")
						}
					}
				}
			case *ssa.Store:
				if x.Val != v {
					break
				}
				if a, ok := x.Addr.(*ssa.Alloc); ok {
					// a local cell: loads of it carry the taint
					for _, ar := range *a.Referrers() {
						if u, ok := ar.(*ssa.UnOp); ok && u.Op == token.MUL {
							taint(fn, u, depth)
						}
					}
					break
				}
				if ia, ok := x.Addr.(*ssa.IndexAddr); ok {
					if a, ok := ia.X.(*ssa.Alloc); ok && a.Comment == "varargs" {
						// packed for a variadic call (append / logging): judged at the call
						for _, ar := range *a.Referrers() {
							if sl, ok := ar.(*ssa.Slice); ok {
								taint(fn, sl, depth)
							}
						}
						break
					}
				}
				report(fn, x.Pos(), "aliased into another object",
					"a pointer into the stored EnvoyFilter patch value is stored into another object without proto.Clone: whatever later merges into that object edits the stored patch, and generating again from the same configuration yields different bytes (repeated fields grow with every generation)")
			case *ssa.Return:
				report(fn, x.Pos(), "returned",
					"a pointer into the stored EnvoyFilter patch value is returned without proto.Clone and ends up in generated configuration: a later merge into it edits the stored patch, so repeated generations differ")
			case *ssa.Call:
				cc := x.Call
				if bi, ok := cc.Value.(*ssa.Builtin); ok {
					if bi.Name() == "append" && len(cc.Args) == 2 && cc.Args[1] == v {
						report(fn, x.Pos(), "appended",
							"a pointer into the stored EnvoyFilter patch value is appended to generated configuration without proto.Clone: a later merge into the appended element edits the stored patch, so repeated generations differ")
					}
					break
				}
				sc := cc.StaticCallee()
				if sc == nil {
					// getter through an interface (proto.Message methods ...): results are not followed
					break
				}
				// destination of a merge
				if o := sc.Object(); o != nil && o.Pkg() != nil && (o.Name() == "Merge" || o.Name() == "MergeAnyWithAny" && false) && len(cc.Args) >= 1 && cc.Args[0] == v {
					report(fn, x.Pos(), "merge destination",
						"the stored EnvoyFilter patch value is the DESTINATION of a merge: generation edits shared push-context state")
					break
				}
				// getters on the tainted receiver: pointer results stay inside the stored message
				if sc.Signature.Recv() != nil && len(cc.Args) > 0 && cc.Args[0] == v && strings.HasPrefix(sc.Name(), "Get") && isRefType(x.Type()) {
					taint(fn, x, depth)
					break
				}
				// same-package helpers: follow into the parameter
				if sc.Pkg != nil && fn.Pkg != nil && sc.Pkg == fn.Pkg && len(sc.Blocks) > 0 && depth > 0 {
					for k, a := range cc.Args {
						if a == v && k < len(sc.Params) {
							taint(sc, sc.Params[k], depth-1)
						}
					}
				}
			}
		}
	}
	for _, j := range work {
		taint(j.fn, j.seed, 3)
	}
	c.Check("readers of stored patch values found", token.NoPos, nSrc >= 10, fmt.Sprintf("%d loads of EnvoyFilterConfigPatchWrapper.Value outside the model package; fewer than confirmed by hand", nSrc))
	c.Infof("loads of the stored patch value: %d, values followed: %d", nSrc, len(seen))
	c.Floor(1)
}

// C17-R6: generation never stores into a configuration object it did not create. DestinationRules, Gateways, Sidecars,
// mesh config ... reach the generators as pointers into the push context; they are shared by every generation of every
// proxy. A store through such a pointer makes what the NEXT generation produces depend on which proxies were served
// before (and races with concurrent generations). For every store (field store or map update) in the generation graph
// whose target is a field of an API message (istio.io/api, istio.io/client-go, k8s.io/api, gateway-api) the object written to must be
// FRESH: allocated here, the result of a copying constructor (DeepCopy / Clone / ShallowCopy* / proto.Clone), the result
// of a module function all of whose results are fresh (evaluated with THIS call's arguments), a phi of fresh values, a
// parameter that every feasible caller feeds a fresh value, or loaded from a cell / field whose every reaching store is
// fresh. A pointer loaded from a field that was never stored here is fresh only if its holder is DEEP-fresh (a deep copy
// or a zero-valued allocation - not a shallow copy, whose inner messages are still the shared ones).
// Feasible caller: when the store lies under one edge of a test `P(params...)` with P free of effects, a call site that
// lies under the opposite edge of `P(corresponding arguments...)` in its caller cannot reach the store and is skipped
// (the east-west gateway case: the caller passes no DestinationRule policy exactly when the callee's `terminate` holds).
var c17r6Exceptions = map[string]string{
	"(*pilot/pkg/model.PushContext).setDestinationRules|DestinationRule.Host": "resolves the rule's short host name to the FQDN in place, in the object the config store handed out. ResolveShortnameToFQDN is idempotent (a name with a dot, which every result has, is returned unchanged) and depends only on the rule's own namespace and domain: every snapshot reads the same host before and after the write, so no output depends on the history. Still a write to shared state (benign race with other readers of the store).",
	"pilot/pkg/networking/core.buildGatewayListenerTLSContext|ServerTLSSettings.CipherSuites": "normalises the Gateway server's cipher list in place with FilterCipherSuites, which is idempotent (filter + dedupe of an already filtered list is the identity): the value generation reads is the same before and after the write, so no output depends on the history. Still a write to shared state (benign race).",
}

type callCtx struct {
	call   *ssa.Call
	caller *ssa.Function
	parent *callCtx
}

type freshAn struct {
	p        *Prog
	callers  map[*ssa.Function][]ssa.CallInstruction
	inFlight map[*ssa.Function]bool
	guards   map[*ssa.Function][]predGuard // pure predicates known to hold while the function runs (for the store under scrutiny)
	useCorr  bool
	pure     map[*ssa.Function]int
}

func copyCtorKind(name string) int { // 0 none, 1 shallow, 2 deep
	for _, pre := range []string{"DeepCopy", "Clone", "CloneVT"} {
		if strings.HasPrefix(name, pre) {
			return 2
		}
	}
	for _, pre := range []string{"ShallowCopy", "ShallowClone", "shadowCopy", "shallowCopy", "Copy"} {
		if strings.HasPrefix(name, pre) {
			return 1
		}
	}
	return 0
}

// fresh: v is an object created for this generation (deep: and so is everything reachable from it).
func (a *freshAn) fresh(v ssa.Value, fn *ssa.Function, depth int, seen map[ssa.Value]bool, ctx *callCtx, deep bool) bool {
	if v == nil || depth < 0 {
		return false
	}
	if seen[v] {
		return true // cycle through a phi: decided by the other edges
	}
	seen[v] = true
	switch x := v.(type) {
	case *ssa.Alloc:
		return true // zero-valued; what is stored into it later is judged at the loads
	case *ssa.Const:
		return true // nil
	case *ssa.MakeMap, *ssa.MakeSlice:
		return true
	case *ssa.TypeAssert:
		return a.fresh(x.X, fn, depth, seen, ctx, deep)
	case *ssa.ChangeType:
		return a.fresh(x.X, fn, depth, seen, ctx, deep)
	case *ssa.Convert:
		return a.fresh(x.X, fn, depth, seen, ctx, deep)
	case *ssa.Extract:
		if call, ok := x.Tuple.(*ssa.Call); ok {
			return a.callFresh(call, x.Index, fn, depth, ctx, deep)
		}
		if ta, ok := x.Tuple.(*ssa.TypeAssert); ok && x.Index == 0 {
			return a.fresh(ta.X, fn, depth, seen, ctx, deep) // v, ok := x.(T)
		}
		return false
	case *ssa.Call:
		return a.callFresh(x, 0, fn, depth, ctx, deep)
	case *ssa.Phi:
		for _, e := range x.Edges {
			if !a.fresh(e, fn, depth, seen, ctx, deep) {
				return false
			}
		}
		return true
	case *ssa.Parameter:
		pi := paramIndex(fn, x)
		if os.Getenv("VERIF_DEBUG_C17R6") != "" {
			fmt.Fprintf(os.Stderr, "      param %s of %s ctx=%v depth=%d callers=%d\n", x.Name(), fn.Name(), ctx != nil, depth, len(a.callers[fn]))
		}
		if ctx != nil && ctx.call != nil && ctx.call.Call.StaticCallee() == fn {
			// evaluated for one known call: the actual argument, in the caller's frame
			if pi >= len(ctx.call.Call.Args) {
				return false
			}
			return a.fresh(ctx.call.Call.Args[pi], ctx.caller, depth, map[ssa.Value]bool{}, ctx.parent, deep)
		}
		if depth == 0 {
			return false
		}
		n, skipped := 0, 0
		for _, cs := range a.callers[fn] {
			par := cs.Parent()
			if isWrapperFn(par) || isGenericOrigin(par) || strings.HasSuffix(a.p.Fset.Position(par.Pos()).Filename, "_test.go") {
				continue
			}
			if os.Getenv("VERIF_DEBUG_C17R6") != "" {
				_, isCall := cs.(*ssa.Call)
				fmt.Fprintf(os.Stderr, "        site %s isCall=%v skip=%v\n", a.p.Fset.Position(cs.Pos()), isCall, a.useCorr)
			}
			if _, isCall := cs.(*ssa.Call); !isCall {
				return false
			}
			if a.useCorr && a.infeasibleSite(fn, cs) {
				skipped++
				continue
			}
			n++
			// while the caller's frame is examined, the pure predicates that guard this call site hold there
			var saved []predGuard
			if a.useCorr {
				saved = a.guards[par]
				a.guards[par] = append(append([]predGuard{}, saved...), a.guardsOf(par, cs.Block())...)
			}
			ok := pi < len(cs.Common().Args) && a.fresh(cs.Common().Args[pi], par, depth-1, map[ssa.Value]bool{}, nil, deep)
			if a.useCorr {
				a.guards[par] = saved
			}
			if !ok {
				return false
			}
		}
		return n > 0 || skipped > 0
	case *ssa.UnOp:
		if x.Op != token.MUL {
			return false
		}
		return a.cellFresh(x.X, x, fn, depth, seen, ctx, deep)
	case *ssa.FieldAddr:
		// address of an embedded struct: as fresh as its container
		return a.fresh(x.X, fn, depth, seen, ctx, deep)
	}
	return false
}

// cellFresh: the value loaded from addr. Every store that reaches the load stores a fresh value; if the value the cell
// had on entry is visible, the holder must be deep-fresh.
func (a *freshAn) cellFresh(addr ssa.Value, load *ssa.UnOp, fn *ssa.Function, depth int, seen map[ssa.Value]bool, ctx *callCtx, deep bool) bool {
	isSt := func(ins ssa.Instruction) (*ssa.Store, bool) {
		st, ok := ins.(*ssa.Store)
		if ok && (st.Addr == addr || sameValue(st.Addr, addr)) {
			return st, true
		}
		return nil, false
	}
	var reaching []*ssa.Store
	initialVisible := false
	type pos struct {
		b *ssa.BasicBlock
		i int
	}
	visited := map[*ssa.BasicBlock]bool{}
	st := []pos{{load.Block(), instrIndex(load)}}
	for len(st) > 0 {
		cur := st[len(st)-1]
		st = st[:len(st)-1]
		found := false
		for k := cur.i - 1; k >= 0; k-- {
			if s, ok := isSt(cur.b.Instrs[k]); ok {
				reaching = append(reaching, s)
				found = true
				break
			}
		}
		if found {
			continue
		}
		if len(cur.b.Preds) == 0 {
			initialVisible = true
			continue
		}
		for _, pr := range cur.b.Preds {
			if !visited[pr] {
				visited[pr] = true
				st = append(st, pos{pr, len(pr.Instrs)})
			}
		}
	}
	for _, s := range reaching {
		if !a.fresh(s.Val, fn, depth, seen, ctx, deep) {
			return false
		}
	}
	if !initialVisible {
		return len(reaching) > 0
	}
	// the value the cell / field had on entry is visible
	switch x := addr.(type) {
	case *ssa.Alloc:
		return true // zero value
	case *ssa.FieldAddr:
		if al, isAlloc := x.X.(*ssa.Alloc); isAlloc {
			// field of a local struct: the zero value, unless the struct was assigned as a whole - then what was
			// assigned must be a deep copy
			if al.Referrers() != nil {
				for _, ref := range *al.Referrers() {
					if st, ok := ref.(*ssa.Store); ok && st.Addr == al {
						if !a.fresh(st.Val, fn, depth, map[ssa.Value]bool{}, ctx, true) {
							return false
						}
					}
				}
			}
			return true
		}
		return a.fresh(x.X, fn, depth, seen, ctx, true)
	}
	return false
}

func (a *freshAn) callFresh(call *ssa.Call, idx int, fn *ssa.Function, depth int, ctx *callCtx, deep bool) bool {
	if _, ok := call.Call.Value.(*ssa.Builtin); ok {
		return false
	}
	kindOK := func(k int) bool { return k == 2 || k == 1 && !deep }
	if call.Call.IsInvoke() {
		return kindOK(copyCtorKind(call.Call.Method.Name()))
	}
	sc := call.Call.StaticCallee()
	if sc == nil {
		return false
	}
	name := sc.Name()
	if o := sc.Origin(); o != nil {
		name = o.Name()
	}
	if k := copyCtorKind(name); k != 0 {
		return kindOK(k)
	}
	if !isIstioFunc(sc) || len(sc.Blocks) == 0 {
		// a generated getter of an API message hands out a part of its receiver: as fresh as a field of the receiver that
		// was not stored here, i.e. the receiver must be deep-fresh
		if strings.HasPrefix(name, "Get") && sc.Signature.Recv() != nil && len(call.Call.Args) == 1 {
			if _, isAPI := isAPIType(sc.Signature.Recv().Type()); isAPI {
				return a.fresh(call.Call.Args[0], fn, depth, map[ssa.Value]bool{}, ctx, true)
			}
		}
		return strings.HasPrefix(name, "New") && !deep
	}
	if depth == 0 || a.inFlight[sc] {
		return false
	}
	a.inFlight[sc] = true
	defer delete(a.inFlight, sc)
	sub := &callCtx{call: call, caller: fn, parent: ctx}
	for _, b := range sc.Blocks {
		r, isR := b.Instrs[len(b.Instrs)-1].(*ssa.Return)
		if !isR || idx >= len(r.Results) {
			continue
		}
		if !a.fresh(retVal(r, idx), sc, depth-1, map[ssa.Value]bool{}, sub, deep) {
			return false
		}
	}
	return true
}

// isPure: nothing reachable from P (module-bounded) writes a field or a map.
func (a *freshAn) isPure(P *ssa.Function) bool {
	if st, ok := a.pure[P]; ok {
		return st == 1
	}
	a.pure[P] = 2
	reach := a.p.CG().Reach([]*ssa.Function{P}, nil)
	ok := len(reach) < 200
	if ok {
		eff := effectsOf(reach)
		ok = len(eff.Writes) == 0
		for f := range reach {
			eachInstr(f, func(ins ssa.Instruction) {
				if _, isMU := ins.(*ssa.MapUpdate); isMU {
					ok = false
				}
			})
		}
	}
	if ok {
		a.pure[P] = 1
	}
	return ok
}

// guardsOf: pure predicates over fn's parameters one of whose edges dominates block b: (P, parameter indices, truth value).
type predGuard struct {
	P      *ssa.Function
	params []int
	truth  bool
}

func (a *freshAn) guardsOf(fn *ssa.Function, b *ssa.BasicBlock) []predGuard {
	var out []predGuard
	for _, i := range allIfs(fn) {
		v, neg := stripNot(i.Cond)
		call, ok := v.(*ssa.Call)
		if !ok {
			continue
		}
		P := call.Call.StaticCallee()
		if P == nil || !isIstioFunc(P) || !a.isPure(P) {
			continue
		}
		var idxs []int
		okArgs := true
		for _, arg := range call.Call.Args {
			par, isPar := arg.(*ssa.Parameter)
			if !isPar {
				okArgs = false
				break
			}
			idxs = append(idxs, paramIndex(fn, par))
		}
		if !okArgs || len(idxs) == 0 {
			continue
		}
		for e := 0; e < 2; e++ {
			if underEdges(fn, b, []Edge{{i.Block(), e}}) {
				out = append(out, predGuard{P, idxs, (e == 0) != neg})
			}
		}
	}
	return out
}

// infeasibleSite: the call site cs of callee lies under the opposite edge of a pure predicate that is known to hold in callee
// (with the corresponding arguments).
func (a *freshAn) infeasibleSite(callee *ssa.Function, cs ssa.CallInstruction) bool {
	g := cs.Parent()
	for _, gd := range a.guards[callee] {
		for _, j := range allIfs(g) {
			v, neg := stripNot(j.Cond)
			call, ok := v.(*ssa.Call)
			if !ok || call.Call.StaticCallee() != gd.P || len(call.Call.Args) != len(gd.params) {
				continue
			}
			same := true
			for k, pi := range gd.params {
				if pi >= len(cs.Common().Args) || !(call.Call.Args[k] == cs.Common().Args[pi] || sameValue(call.Call.Args[k], cs.Common().Args[pi])) {
					same = false
				}
			}
			if !same {
				continue
			}
			e := 0
			if (!gd.truth) == neg {
				e = 1
			}
			if underEdges(g, cs.Block(), []Edge{{j.Block(), e}}) {
				return true
			}
		}
	}
	return false
}

func isAPIType(t types.Type) (*types.Named, bool) {
	if pt, ok := t.(*types.Pointer); ok {
		t = pt.Elem()
	}
	n, ok := t.(*types.Named)
	if !ok || n.Obj().Pkg() == nil {
		return nil, false
	}
	pp := n.Obj().Pkg().Path()
	for _, pre := range []string{"istio.io/api/", "istio.io/client-go/", "k8s.io/api/", "sigs.k8s.io/gateway-api"} {
		if strings.HasPrefix(pp, pre) {
			return n, true
		}
	}
	if extra := os.Getenv("VERIF_C17R6_EXTRA_TYPES"); extra != "" { // development: explore further shared types
		for _, e := range strings.Split(extra, ",") {
			if pp+"."+n.Obj().Name() == e {
				return n, true
			}
		}
	}
	return nil, false
}

func c17r6(c *Ctx) {
	p := c.P
	var entries []*ssa.Function
	for _, fn := range p.AllFuncs {
		if funcPkgPath(fn) == istioMod+"/"+pkgXds && (fn.Name() == "Generate" || fn.Name() == "GenerateDeltas") && fn.Signature.Recv() != nil && !isWrapperFn(fn) {
			entries = append(entries, fn)
		}
	}
	c.Check("generator entry points found", token.NoPos, len(entries) >= 15, fmt.Sprintf("%d Generate/GenerateDeltas methods in pilot/pkg/xds", len(entries)))
	// the snapshot is built from the same shared configuration objects (the store hands out pointers, and the previous
	// snapshot's objects are carried over): its construction is held to the same rule
	entries = append(entries, p.Func(pkgModel, "PushContext", "createNewContext"), p.Func(pkgModel, "PushContext", "updateContext"))
	reach := p.CG().Reach(entries, nil)
	a := &freshAn{p: p, callers: p.staticCallers(), inFlight: map[*ssa.Function]bool{}, pure: map[*ssa.Function]int{}}
	nStores, nFresh, nCorr := 0, 0, 0
	var fns []*ssa.Function
	for fn := range reach {
		fns = append(fns, fn)
	}
	sort.Slice(fns, func(i, j int) bool { return stableFnName(fns[i]) < stableFnName(fns[j]) })
	for _, fn := range fns {
		if strings.HasSuffix(p.Fset.Position(fn.Pos()).Filename, "_test.go") || len(fn.Blocks) == 0 || isWrapperFn(fn) || isGenericOrigin(fn) {
			continue
		}
		if pp := funcPkgPath(fn); strings.Contains(pp, "/test") || strings.HasPrefix(pp, istioMod+"/pkg/config/") || strings.HasPrefix(pp, istioMod+"/pkg/kube/") {
			continue
		}
		eachInstr(fn, func(ins ssa.Instruction) {
			var target ssa.Value // address written through
			var pos token.Pos
			switch x := ins.(type) {
			case *ssa.Store:
				target, pos = x.Addr, x.Pos()
			case *ssa.MapUpdate:
				target, pos = x.Map, x.Pos()
				if u, ok := target.(*ssa.UnOp); ok && u.Op == token.MUL {
					target = u.X
				} else {
					return
				}
			default:
				return
			}
			fa, ok := target.(*ssa.FieldAddr)
			if !ok {
				return
			}
			n, isAPI := isAPIType(fa.X.Type())
			if !isAPI {
				return
			}
			nStores++
			obj := fa.X
			for {
				if f2, ok := obj.(*ssa.FieldAddr); ok {
					obj = f2.X
					continue
				}
				break
			}
			a.useCorr = false
			if a.fresh(obj, fn, 3, map[ssa.Value]bool{}, nil, false) {
				nFresh++
				return
			}
			// call sites that cannot reach this store (opposite edge of the same pure predicate in the caller)
			{
				a.guards = map[*ssa.Function][]predGuard{fn: a.guardsOf(fn, ins.Block())}
				a.useCorr = true
				okCorr := a.fresh(obj, fn, 3, map[ssa.Value]bool{}, nil, false)
				a.useCorr = false
				a.guards = nil
				if okCorr {
					nFresh++
					nCorr++
					c.Infof("fresh for every feasible caller (callers under the opposite edge of the guarding predicate skipped): %s at %s", stableFnName(fn), p.Fset.Position(pos))
					return
				}
			}
			key := stableFnName(fn) + "|" + n.Obj().Name() + "." + fieldVar(fa.X.Type(), fa.Field).Name()
			if why, ok := c17r6Exceptions[key]; ok {
				c.Infof("exception %s: %s", key, why)
				return
			}
			c.Check("generation stores only into configuration objects it created: "+key, pos, false,
				"this store writes a field of a "+n.Obj().Pkg().Name()+"."+n.Obj().Name()+" that was not created here (not allocated, copied or cloned on every feasible path that reaches the store): the object is configuration held by the push context and shared by every generation, so what later generations produce - for this and for other proxies - depends on whether this path ran before, and concurrent generations race on it")
		})
	}
	c.Check("stores into API messages in the generation graph found", token.NoPos, nStores >= 20 && nFresh >= 15, fmt.Sprintf("%d stores into API message fields in the generation graph, %d into fresh objects; fewer than confirmed by hand", nStores, nFresh))
	c.Infof("stores into API message fields: %d, into fresh objects: %d (of which %d by caller correlation)", nStores, nFresh, nCorr)
	c.Floor(2)
}

// C17-R7: locality groups are emitted in sorted order. EndpointBuilder.generate groups the endpoints by locality and
// hands the groups on as a list; the order of that list is the order of `endpoints` in the ClusterLoadAssignment. The
// list is filled in a loop over the locality keys, and those keys were sorted: every append of a *LocalityEndpoints to
// the result happens in a range loop over a slice that was handed to a sort routine on every path to the loop (a
// "fewer than two elements" guard around the sort is accepted). Filling the list while walking the endpoints makes the
// order of the groups the order in which a registry happened to deliver the endpoints.
func c17r7(c *Ctx) {
	p := c.P
	fn := p.Func("pilot/pkg/xds/endpoints", "EndpointBuilder", "generate")
	isGroupPtr := func(t types.Type) bool {
		pt, ok := t.(*types.Pointer)
		if !ok {
			return false
		}
		n, ok := pt.Elem().(*types.Named)
		return ok && n.Obj().Name() == "LocalityEndpoints"
	}
	loops := rangeLoops(fn)
	n := 0
	eachInstr(fn, func(ins ssa.Instruction) {
		call, ok := ins.(*ssa.Call)
		if !ok || !isAppendCall(ins) || len(call.Call.Args) != 2 {
			return
		}
		sl, ok := call.Type().Underlying().(*types.Slice)
		if !ok || !isGroupPtr(sl.Elem()) {
			return
		}
		n++
		// innermost range loop containing the append
		var in *rangeLoop
		for k := range loops {
			l := &loops[k]
			if l.Body != nil && l.Body.Dominates(call.Block()) {
				if in == nil || in.Body.Dominates(l.Body) {
					in = l
				}
			}
		}
		if in == nil || in.Over == nil {
			c.Check("locality groups are appended in a loop over the sorted locality keys", call.Pos(), false,
				"a locality group is appended to the result outside a range loop over the (sorted) locality keys")
			return
		}
		over := in.Over
		isSortOf := func(i ssa.Instruction) bool {
			sc, ok := i.(*ssa.Call)
			if !ok {
				return false
			}
			callee := sc.Call.StaticCallee()
			if callee == nil {
				return false
			}
			o := callee
			if callee.Origin() != nil {
				o = callee.Origin()
			}
			if o.Pkg == nil {
				return false
			}
			pp := o.Pkg.Pkg.Path()
			if pp != "sort" && pp != "slices" && pp != istioMod+"/pkg/slices" {
				return false
			}
			if !(strings.HasPrefix(o.Name(), "Sort") || o.Name() == "Strings" || o.Name() == "Slice" || o.Name() == "SliceStable" || o.Name() == "Stable") {
				return false
			}
			for _, a := range sc.Call.Args {
				a = unwrap(a)
				if a == over || sameValue(a, over) {
					return true
				}
			}
			return false
		}
		// "fewer than two" guards of the same slice may bypass the sort
		var small []Edge
		for _, i := range allIfs(fn) {
			v, neg := stripNot(i.Cond)
			b, ok := v.(*ssa.BinOp)
			if !ok {
				continue
			}
			lc, ok := b.X.(*ssa.Call)
			if !ok {
				continue
			}
			if bi, ok := lc.Call.Value.(*ssa.Builtin); !ok || bi.Name() != "len" || !(lc.Call.Args[0] == over || sameValue(lc.Call.Args[0], over)) {
				continue
			}
			k, ok := b.Y.(*ssa.Const)
			if !ok || k.Value == nil {
				continue
			}
			// len >= 2 / len > 1: the false edge has fewer than two
			if (b.Op == token.GEQ && k.Int64() == 2) || (b.Op == token.GTR && k.Int64() == 1) {
				idx := 1
				if neg {
					idx = 0
				}
				small = append(small, Edge{i.Block(), idx})
			}
		}
		// the ranged list may be the result of a producer that returns it sorted: a library producer, or a function of the
		// package in which every path to a return passes a sort (a "fewer than two" guard may bypass it)
		if pc, isCall := over.(*ssa.Call); isCall {
			sortedProducer := false
			if o := calleeObj(pc); o != nil {
				switch o.Name() {
				case "SortedList", "Sort", "SortBy", "SortFunc", "SortStableFunc", "SeqStable":
					sortedProducer = true
				}
			}
			if sc := pc.Call.StaticCallee(); !sortedProducer && sc != nil && len(sc.Blocks) > 0 && funcPkgPath(sc) == funcPkgPath(fn) {
				isAnySort := func(i ssa.Instruction) bool {
					c2, ok := i.(*ssa.Call)
					if !ok {
						return false
					}
					callee := c2.Call.StaticCallee()
					if callee == nil {
						return false
					}
					o := callee
					if callee.Origin() != nil {
						o = callee.Origin()
					}
					if o.Pkg == nil {
						return false
					}
					pp := o.Pkg.Pkg.Path()
					return (pp == "sort" || pp == "slices" || pp == istioMod+"/pkg/slices") && (strings.HasPrefix(o.Name(), "Sort") || o.Name() == "Strings" || o.Name() == "Slice" || o.Name() == "SliceStable" || o.Name() == "Stable")
				}
				var smallH []Edge
				for _, i := range allIfs(sc) {
					v, neg := stripNot(i.Cond)
					b, ok := v.(*ssa.BinOp)
					if !ok {
						continue
					}
					lc, ok := b.X.(*ssa.Call)
					if !ok {
						continue
					}
					if bi, ok := lc.Call.Value.(*ssa.Builtin); !ok || bi.Name() != "len" {
						continue
					}
					k, ok := b.Y.(*ssa.Const)
					if !ok || k.Value == nil {
						continue
					}
					if (b.Op == token.GEQ && k.Int64() == 2) || (b.Op == token.GTR && k.Int64() == 1) {
						idx := 1
						if neg {
							idx = 0
						}
						smallH = append(smallH, Edge{i.Block(), idx})
					}
				}
				if _, f := pathAvoidingE(sc.Blocks[0], nil, isAnySort, isReturn, smallH, nil); !f {
					sortedProducer = true
				}
			}
			if sortedProducer {
				c.Check("locality groups are appended in a loop over the sorted locality keys", call.Pos(), true, "")
				return
			}
		}
		_, found := pathAvoidingE(fn.Blocks[0], nil, isSortOf, func(i ssa.Instruction) bool { return i.Block() == in.Body }, small, nil)
		c.Check("locality groups are appended in a loop over the sorted locality keys", call.Pos(), !found,
			"the list of locality groups is filled in a loop over a list that was not sorted on every path to the loop: the order of the localities in the ClusterLoadAssignment then follows the order in which the endpoints (or map keys) happened to come, which differs between istiod instances and after a resync for the same endpoint set")
	})
	c.Check("generate appends locality groups", fn.Pos(), n >= 1, "no append of a *LocalityEndpoints found in EndpointBuilder.generate")
	c.Floor(2)
}

// C17-R8: endpoint lists are never built in map order. A []*IstioEndpoint keeps its order all the way to the wire: the
// registries hand it to the endpoint shards verbatim, EDS emits lb_endpoints in shard order (only shard keys and
// localities are sorted), and the push context's per-port copy feeds inline DNS-cluster endpoints and the NDS table.
// In the packages that build such lists (model, the service registries, xds/endpoints) no *IstioEndpoint is appended to
// a slice inside a range over a map unless the function sorts a []*IstioEndpoint afterwards. (Ranging over
// maps.SeqStable / sorted keys is a range over a function or slice, not over a map.) First-wins de-duplication inside
// such a loop additionally makes WHICH duplicate survives depend on map order.
var c17r8Exceptions = map[string]string{
	"(*pilot/pkg/model.PushContext).ServiceEndpointsByPort": "InferencePool branch only: endpoints of all ports of the pool's service are concatenated in the order of the per-port map. Read, not demonstrated: the consumers of this list for InferencePool services are any-match scans (BestEffortInferServiceMTLSMode), a map keyed by address (listeners) and DNS inline endpoints, which InferencePool services (EDS) do not use - no generated byte was found to depend on the order (findings/findR notes it as the same shape, not shown on the wire)",
}

func c17r8(c *Ctx) {
	p := c.P
	isEpSlice := func(t types.Type) bool {
		sl, ok := t.Underlying().(*types.Slice)
		if !ok {
			return false
		}
		pt, ok := sl.Elem().(*types.Pointer)
		if !ok {
			return false
		}
		n, ok := pt.Elem().(*types.Named)
		return ok && n.Obj().Name() == "IstioEndpoint"
	}
	nLoops, nAppends := 0, 0
	for _, fn := range p.AllFuncs {
		if !isIstioFunc(fn) || isWrapperFn(fn) || isGenericOrigin(fn) || len(fn.Blocks) == 0 || strings.HasSuffix(p.Fset.Position(fn.Pos()).Filename, "_test.go") {
			continue
		}
		pp := funcPkgPath(fn)
		if !(pp == istioMod+"/"+pkgModel || strings.HasPrefix(pp, istioMod+"/pilot/pkg/serviceregistry") || pp == istioMod+"/"+pkgEndpoints) || strings.Contains(pp, "/test") || strings.Contains(pp, "/memory") || strings.Contains(pp, "/mock") {
			continue
		}
		sorts := false
		eachInstr(fn, func(ins ssa.Instruction) {
			call, ok := ins.(*ssa.Call)
			if !ok {
				return
			}
			sc := call.Call.StaticCallee()
			if sc == nil {
				return
			}
			o := sc
			if sc.Origin() != nil {
				o = sc.Origin()
			}
			if o.Pkg == nil {
				return
			}
			pth := o.Pkg.Pkg.Path()
			if pth != "sort" && pth != "slices" && pth != istioMod+"/pkg/slices" {
				return
			}
			if !(strings.HasPrefix(o.Name(), "Sort") || o.Name() == "Slice" || o.Name() == "SliceStable" || o.Name() == "Stable") {
				return
			}
			for _, a := range call.Call.Args {
				if isEpSlice(unwrap(a).Type()) {
					sorts = true
				}
			}
		})
		for _, l := range rangeLoops(fn) {
			if l.Over == nil || l.Body == nil || l.Body.Comment != "rangeiter.body" {
				continue
			}
			if _, isMap := l.Over.Type().Underlying().(*types.Map); !isMap {
				continue
			}
			nLoops++
			var first *ssa.Call
			eachInstr(fn, func(ins ssa.Instruction) {
				call, ok := ins.(*ssa.Call)
				if !ok || !isAppendCall(ins) || !isEpSlice(call.Type()) || !l.Body.Dominates(call.Block()) {
					return
				}
				// a slice that belongs to this iteration's key (a map element indexed by the ranged key, or a slice created
				// in the body) is filled in the order of the inner loop, not of the map
				var keyVal ssa.Value
				if l.Header != nil {
					for _, hi := range l.Header.Instrs {
						if nx, ok := hi.(*ssa.Next); ok {
							for _, r := range *nx.Referrers() {
								if ex, ok := r.(*ssa.Extract); ok && ex.Index == 1 {
									keyVal = ex
								}
							}
						}
					}
				}
				tgt := call.Call.Args[0]
				if lk, ok := tgt.(*ssa.Lookup); ok && keyVal != nil && lk.Index == keyVal {
					return
				}
				if al, ok := tgt.(*ssa.Alloc); ok && l.Body.Dominates(al.Block()) {
					return
				}
				if mk, ok := tgt.(*ssa.MakeSlice); ok && l.Body.Dominates(mk.Block()) {
					return
				}
				nAppends++
				if first == nil {
					first = call
				}
			})
			if first == nil {
				continue
			}
			key := stableFnName(fn)
			if why, ok := c17r8Exceptions[key]; ok {
				c.Infof("exception %s: %s", key, why)
				continue
			}
			c.Check("endpoint lists are not built in map order: "+key, first.Pos(), sorts,
				"endpoints are appended to a list inside a range over a map and the list is not sorted afterwards: the list keeps this order all the way to the wire (lb_endpoints of EDS within a locality, inline endpoints of DNS clusters, the NDS address list), so the bytes for an unchanged endpoint set differ between istiod instances and from one rebuild to the next; if the loop also drops duplicates, which duplicate survives follows the map order too")
		}
	}
	c.Check("map ranges in the endpoint-list packages examined (positive control)", token.NoPos, nLoops >= 30, fmt.Sprintf("%d ranges over maps examined", nLoops))
	c.Infof("map ranges examined: %d, endpoint appends under them: %d", nLoops, nAppends)
	c.Floor(1)
}

// C17-R9: no "last one wins" under a map range. Inside a range over a map, a variable that outlives the loop is not
// assigned a value taken from the current key / element unless at most one pass can assign it. What a later pass
// overwrites is decided by map iteration order; when two keys qualify (":authority" and "Host" in one header map) the
// value that ends up in the generated resource differs from generation to generation. Decided in the armed generation
// packages (the ones of R1): for every loop-carried variable of a range over a map (a phi in the loop header that is used
// after the loop) an incoming value from inside the loop that derives from the iteration's key or element is reported,
// except commutative accumulation (x = x OP f(elem) for +,|,&,^,* on numbers / bools) and min/max selection
// (assignment under a comparison of the same variable with the candidate).
// comparators whose totality C17-R2 checks
var c17TotalComparators = map[string]bool{
	"pilot/pkg/model.compareServicesByCreationTime": true,
	"pkg/config/host.MoreSpecific":                  true, // read: wildcard-ness, then length, then alphabetical - total on distinct names (map keys)
}

var c17r9Exceptions = map[string]string{
	"pilot/pkg/model.pickBestVisibleNamespace|first match returned": "the early return for a visible Kubernetes-registry service: the map is keyed by namespace and a Kubernetes service's hostname embeds its namespace (kube.ConvertService, clusterset hosts alike), so at most one entry of the map can be a Kubernetes service - at most one pass can return (findings/findV notes)",
	"pilot/pkg/model.mostSpecificHostWildcardMatch|matchValue": "selection of the most specific wildcard among the map KEYS with host.MoreSpecific, which is a total order on distinct names (wildcard-ness, length, then alphabetical): the winner does not depend on the visiting order",
	"(*pilot/pkg/model.PushContext).ServiceForHostname|first match returned": "fallback for a proxy without SidecarScope, documented as undefined in the code; every connected proxy has a SidecarScope before generation (computeProxyState), so generation never takes this branch",
}

func c17r9(c *Ctx) {
	p := c.P
	entries := []*ssa.Function{
		p.Func(pkgCore, "ConfigGeneratorImpl", "BuildClusters"), p.Func(pkgCore, "ConfigGeneratorImpl", "BuildDeltaClusters"),
		p.Func(pkgCore, "ConfigGeneratorImpl", "BuildListeners"), p.Func(pkgCore, "ConfigGeneratorImpl", "BuildHTTPRoutes"),
		p.Func(pkgCore, "ConfigGeneratorImpl", "BuildNameTable"), p.Func(pkgXds, "EdsGenerator", "buildEndpoints"),
		p.Func(pkgXds, "DiscoveryServer", "pushXds"), p.Func(pkgXds, "DiscoveryServer", "pushDeltaXds"),
	}
	// ... and the snapshot-building graph: what it selects is what every generation starts from
	entries = append(entries, p.Func(pkgModel, "PushContext", "createNewContext"), p.Func(pkgModel, "PushContext", "updateContext"),
		p.Func(pkgXds, "DiscoveryServer", "computeProxyState"))
	reach := p.CG().Reach(entries, nil)
	armed := map[string]bool{}
	for _, e := range strings.Split(os.Getenv("VERIF_C17R9_EXTRA"), ",") {
		if e != "" {
			armed[istioMod+"/"+e] = true
		}
	}
	for _, pk := range []string{pkgEndpoints, pkgRoute, pkgXds, pkgCore, "pilot/pkg/networking/grpcgen", "pilot/pkg/networking/plugin/authn", "pilot/pkg/security/authz/builder", "pkg/dns/server", "pilot/pkg/networking/util", "pilot/pkg/networking/core/envoyfilter", "pilot/pkg/networking/core/extension", "pilot/pkg/networking/core/loadbalancer", "pilot/pkg/security/authn", "pilot/pkg/security/authz/model", pkgModel} {
		armed[istioMod+"/"+pk] = true
	}
	var fns []*ssa.Function
	for fn := range reach {
		fns = append(fns, fn)
	}
	sort.Slice(fns, func(i, j int) bool { return stableFnName(fns[i]) < stableFnName(fns[j]) })
	nLoops := 0
	for _, fn := range fns {
		if !armed[funcPkgPath(fn)] || strings.HasSuffix(p.Fset.Position(fn.Pos()).Filename, "_test.go") || len(fn.Blocks) == 0 {
			continue
		}
		for _, l := range rangeLoops(fn) {
			if l.Over == nil || l.Body == nil || l.Body.Comment != "rangeiter.body" || l.Header == nil {
				continue
			}
			if _, isMap := l.Over.Type().Underlying().(*types.Map); !isMap {
				continue
			}
			nLoops++
			// the iteration's key and element
			iter := map[ssa.Value]bool{}
			for _, hi := range l.Header.Instrs {
				if nx, ok := hi.(*ssa.Next); ok {
					for _, r := range *nx.Referrers() {
						if ex, ok := r.(*ssa.Extract); ok && ex.Index >= 1 {
							iter[ex] = true
						}
					}
				}
			}
			inLoop := func(b *ssa.BasicBlock) bool { return l.Body.Dominates(b) || b == l.Header }
			derives := func(v ssa.Value) bool {
				seen := map[ssa.Value]bool{}
				var walk func(v ssa.Value, d int) bool
				walk = func(v ssa.Value, d int) bool {
					if v == nil || seen[v] || d > 8 {
						return false
					}
					seen[v] = true
					if iter[v] {
						return true
					}
					switch x := v.(type) {
					case *ssa.UnOp:
						return walk(x.X, d+1)
					case *ssa.FieldAddr:
						return walk(x.X, d+1)
					case *ssa.Field:
						return walk(x.X, d+1)
					case *ssa.Convert:
						return walk(x.X, d+1)
					case *ssa.ChangeType:
						return walk(x.X, d+1)
					case *ssa.MakeInterface:
						return walk(x.X, d+1)
					case *ssa.Phi:
						if !inLoop(x.Block()) || x.Block() == l.Header {
							return false
						}
						for _, e := range x.Edges {
							if walk(e, d+1) {
								return true
							}
						}
					case *ssa.Call:
						for _, a := range x.Call.Args {
							if walk(a, d+1) {
								return true
							}
						}
					}
					return false
				}
				return walk(v, 0)
			}
			// "first match in map order": a return from inside the loop of a value taken from the current key / element
			for _, b := range fn.Blocks {
				if !l.Body.Dominates(b) {
					continue
				}
				r, ok := b.Instrs[len(b.Instrs)-1].(*ssa.Return)
				if !ok {
					continue
				}
				for _, rv := range r.Results {
					if !derives(rv) {
						continue
					}
					key := stableFnName(fn) + "|first match returned"
					if why, ok := c17r9Exceptions[key]; ok {
						c.Infof("exception %s: %s", key, why)
						continue
					}
					c.Check("no first-match-wins under a map range: "+key, r.Pos(), false,
						"a value taken from the current key / element is returned from inside a range over a map: when more than one entry qualifies, which one is returned is decided by map iteration order, so what is generated from it differs from generation to generation and between istiod instances for the same configuration")
				}
			}
			// "first match, then break": a phi after the loop that receives an iteration-derived value over an edge that
			// leaves the loop from inside its body
			for _, b := range fn.Blocks {
				if inLoop(b) {
					continue
				}
				for _, bi := range b.Instrs {
					ph, ok := bi.(*ssa.Phi)
					if !ok {
						break
					}
					for k, e := range ph.Edges {
						pred := b.Preds[k]
						if !l.Body.Dominates(pred) {
							continue
						}
						if _, isConst := e.(*ssa.Const); isConst || !derives(e) {
							continue
						}
						if ac, ok := e.(*ssa.Call); ok && isAppendCall(ac) {
							continue
						}
						key := stableFnName(fn) + "|" + ph.Comment + "|first match then break"
						if why, ok := c17r9Exceptions[key]; ok {
							c.Infof("exception %s: %s", key, why)
							continue
						}
						c.Check("no first-match-wins under a map range: "+key, ph.Pos(), false,
							"inside a range over a map the variable `"+ph.Comment+"` takes a value from the current key / element and the loop is left at once: when more than one entry qualifies, which one is kept is decided by map iteration order, so what is generated from it differs from generation to generation and between istiod instances for the same configuration")
					}
				}
			}
			for _, hi := range l.Header.Instrs {
				phi, ok := hi.(*ssa.Phi)
				if !ok {
					continue
				}
				// used after the loop?
				after := false
				for _, r := range *phi.Referrers() {
					if !inLoop(r.Block()) {
						after = true
					}
				}
				if !after {
					continue
				}
				for k, e := range phi.Edges {
					pred := l.Header.Preds[k]
					if !inLoop(pred) {
						continue
					}
					// the value that comes around the back edge: follow phis inside the body to their leaves
					var leaves []ssa.Value
					seenL := map[ssa.Value]bool{}
					var lv func(v ssa.Value)
					lv = func(v ssa.Value) {
						if seenL[v] {
							return
						}
						seenL[v] = true
						if ph, ok := v.(*ssa.Phi); ok && inLoop(ph.Block()) && ph.Block() != l.Header {
							for _, x := range ph.Edges {
								lv(x)
							}
							return
						}
						leaves = append(leaves, v)
					}
					lv(e)
					for _, leaf := range leaves {
						if leaf == ssa.Value(phi) {
							continue // unchanged in this pass
						}
						if _, isConst := leaf.(*ssa.Const); isConst {
							continue // a flag: order-insensitive
						}
						if bo, ok := leaf.(*ssa.BinOp); ok {
							comm := bo.Op == token.ADD || bo.Op == token.OR || bo.Op == token.AND || bo.Op == token.XOR || bo.Op == token.MUL || bo.Op == token.LOR || bo.Op == token.LAND
							isStr := false
							if bt, ok := bo.Type().Underlying().(*types.Basic); ok && bt.Info()&types.IsString != 0 {
								isStr = true
							}
							if comm && !isStr && (bo.X == ssa.Value(phi) || bo.Y == ssa.Value(phi)) {
								continue // commutative accumulation
							}
						}
						if ac, ok := leaf.(*ssa.Call); ok && isAppendCall(ac) {
							continue // list accumulation: the order taint of R1 decides it
						}
						if !derives(leaf) {
							continue
						}
						// min / max selection: the assigning block lies under a comparison that involves the variable itself
						ins, isIns := leaf.(ssa.Instruction)
						sel := false
						for _, i := range allIfs(fn) {
							if !inLoop(i.Block()) {
								continue
							}
							v, _ := stripNot(i.Cond)
							bo, ok := v.(*ssa.BinOp)
							// a comparator that R2 verifies to be total (it breaks ties on name and namespace), with the
							// variable itself as an operand
							viaTotal := func(x ssa.Value) bool {
								call, isCall := x.(*ssa.Call)
								if !isCall {
									return false
								}
								sc := call.Call.StaticCallee()
								if sc == nil || !c17TotalComparators[stableFnName(sc)] {
									return false
								}
								for _, a := range call.Call.Args {
									if a == ssa.Value(phi) {
										return true
									}
								}
								return false
							}
							if !ok {
								if viaTotal(v) {
									sel = true
								}
								continue
							}
							if viaTotal(bo.X) || viaTotal(bo.Y) {
								sel = true
							}
							if bo.X == ssa.Value(phi) || bo.Y == ssa.Value(phi) {
								if bt, isB := phi.Type().Underlying().(*types.Basic); isB && bt.Info()&(types.IsNumeric|types.IsString) != 0 {
									switch bo.Op {
									case token.LSS, token.GTR, token.LEQ, token.GEQ:
										sel = true // scalar min / max: total
									}
								}
							}
						}
						if sel {
							continue
						}
						pos := phi.Pos()
						if isIns && ins.Pos().IsValid() {
							pos = ins.Pos()
						}
						key := stableFnName(fn) + "|" + phi.Comment
						if why, ok := c17r9Exceptions[key]; ok {
							c.Infof("exception %s: %s", key, why)
							continue
						}
						c.Check("no last-one-wins under a map range: "+key, pos, false,
							"inside a range over a map the variable `"+phi.Comment+"` is assigned a value taken from the current key / element, and it is used after the loop: when more than one key qualifies, which value survives is decided by map iteration order, so the generated resource differs from generation to generation and between istiod instances for the same configuration")
					}
				}
			}
		}
	}
	c.Check("map ranges in the armed generation packages examined (positive control)", token.NoPos, nLoops >= 40, fmt.Sprintf("%d ranges over maps examined", nLoops))
	c.Floor(1)
}
