package main

import (
	"go/token"
	"go/types"
	"sort"
	"strings"

	"golang.org/x/tools/go/ssa"
)

const pkgCreds = "pilot/pkg/credentials"
const pkgCredModel = "pilot/pkg/model/credentials"

func init() {
	register(&PropDef{
		ID: "C11",
		Clauses: []string{
			"R1 in SecretGen.Generate every secret handed to the cache (Get/Add) or to generation is an element of filterAuthorizedResources' result, under VerifiedIdentity != nil",
			"R2 key material accessors of credentials.Controller are called only from the frozen set (SecretGen.generate, the multicluster delegations, ECDS pull secrets); SecretGen.generate only from Generate",
			"R3 filterAuthorizedResources appends to the allowed list only: gateway secrets under a verified reference, Kubernetes secrets under same-namespace AND (CA-only OR Authorize), config maps unconditionally; every credential type is named",
			"R4 authenticate precedes connection creation (shared with C05-R3)",
			"R5 Proxy.VerifiedIdentity is written only by authorize, with the identity checkConnectionIdentity returned; the proxy fields that check compares (ConfigNamespace, Metadata) are set before authorize runs",
			"R6 every dereference of Proxy.VerifiedIdentity in the xDS generators is under a non-nil test or after a validator that guarantees it",
		},
		NotDecided: "resource-name parsing of adversarial names, SubjectAccessReview outcomes, the identity-parsing function's accepted language",
		Rules: []Rule{
			{"C11-R1", "authorise before cache and generation", c11r1},
			{"C11-R2", "who may reach key material", c11r2},
			{"C11-R3", "shape of the authorisation filter", c11r3},
			{"C11-R4", "authenticate before serving", func(c *Ctx) { c05r3(c); c.floors[c.curRule] = 10 }},
			{"C11-R5", "verified identity provenance", c11r5},
			{"C11-R6", "verified identity is non-nil where used", c11r6},
			{"C11-R7", "authorization answers are not memoised under a key that omits an input", c11r7},
			{"C11-R8", "the CA-only exemption and the generator decide on the same field", c11r8},
			{"C11-R9", "Gateway-API credentials are read from the config cluster", c11r9},
			{"C11-R10", "a cached authorization answer is used only while it has not expired", c11r10},
			{"C11-R11", "every ReferenceGrant record is built from scratch", c11r11},
		},
	})
}

// derivesFromCallResult: v is (an element of / a load from / phi of) the result of a call to obj.
func derivesFromCallResult(v ssa.Value, obj *types.Func, depth int, seen map[ssa.Value]bool) bool {
	if v == nil || depth > 12 || seen[v] {
		return false
	}
	seen[v] = true
	switch x := v.(type) {
	case *ssa.Call:
		return isCallTo(x, obj)
	case *ssa.UnOp:
		return derivesFromCallResult(x.X, obj, depth+1, seen)
	case *ssa.IndexAddr:
		return derivesFromCallResult(x.X, obj, depth+1, seen)
	case *ssa.Index:
		return derivesFromCallResult(x.X, obj, depth+1, seen)
	case *ssa.MakeInterface:
		return derivesFromCallResult(x.X, obj, depth+1, seen)
	case *ssa.ChangeType:
		return derivesFromCallResult(x.X, obj, depth+1, seen)
	case *ssa.Slice:
		return derivesFromCallResult(x.X, obj, depth+1, seen)
	case *ssa.Phi:
		for _, e := range x.Edges {
			if !derivesFromCallResult(e, obj, depth+1, seen) {
				return false
			}
		}
		return len(x.Edges) > 0
	case *ssa.Alloc:
		// a local copy: all stores into it derive from the call
		ok := false
		for _, r := range *x.Referrers() {
			if s, isS := r.(*ssa.Store); isS && s.Addr == ssa.Value(x) {
				if !derivesFromCallResult(s.Val, obj, depth+1, seen) {
					return false
				}
				ok = true
			}
		}
		return ok
	}
	return false
}

func c11r1(c *Ctx) {
	p := c.P
	fn := p.Func(pkgXds, "SecretGen", "Generate")
	filter := p.FuncObj(pkgXds, "", "filterAuthorizedResources")
	gen := p.FuncObj(pkgXds, "SecretGen", "generate")
	vi := p.Field(pkgModel, "Proxy", "VerifiedIdentity")
	cacheF := p.Field(pkgXds, "SecretGen", "cache")
	var viOK []Edge
	for _, i := range allIfs(fn) {
		if x, eq, ok := nilCmp(i.Cond); ok && fieldOfLoad(x) == vi {
			idx := 0
			if eq {
				idx = 1
			}
			viOK = append(viOK, Edge{i.Block(), idx})
		}
	}
	c.Check("SecretGen.Generate tests VerifiedIdentity", fn.Pos(), len(viOK) == 1, "no nil test of proxy.VerifiedIdentity")
	c.Check("SecretGen.Generate filters", fn.Pos(), len(callsIn(fn, filter)) == 1, "filterAuthorizedResources not called exactly once")
	n := 0
	eachInstr(fn, func(ins ssa.Instruction) {
		ci, ok := ins.(ssa.CallInstruction)
		if !ok {
			return
		}
		cc := ci.Common()
		var arg ssa.Value
		what := ""
		if cc.IsInvoke() && (cc.Method.Name() == "Get" || cc.Method.Name() == "Add") && fieldOfLoad(cc.Value) == cacheF {
			arg, what = cc.Args[0], "cache."+cc.Method.Name()
		} else if isCallTo(ins, gen) {
			arg, what = cc.Args[1], "generate"
		} else {
			return
		}
		n++
		c.Check(what+" receives only authorised secrets", ins.Pos(), derivesFromCallResult(arg, filter, 0, map[ssa.Value]bool{}),
			"the secret passed to "+what+" does not come from filterAuthorizedResources' result: the cache key does not contain the requester, so a cache hit (or generation) hands key material to a proxy that was never authorised for it")
		c.Check(what+" only for an authenticated proxy", ins.Pos(), underEdges(fn, ins.Block(), viOK), what+" is reachable for a proxy without VerifiedIdentity")
	})
	c.Check("cache / generation sites found", fn.Pos(), n >= 3, "expected cache.Get, generate and cache.Add")
	c.Floor(8)
}

func c11r2(c *Ctx) {
	p := c.P
	iface := p.Named(pkgCreds, "Controller")
	material := map[string]bool{"GetCertInfo": true, "GetCaCert": true, "GetConfigMapCaCert": true, "GetDockerCredential": true}
	allowed := map[string]string{
		"(*pilot/pkg/xds.SecretGen).generate":                               "SDS generation, reached only with authorised resources (R1)",
		"(*pilot/pkg/xds.EcdsGenerator).GeneratePullSecrets":                "image pull secrets for WasmPlugins of the proxy's own namespace",
		"(*pilot/pkg/credentials/kube.AggregateController).GetCertInfo":         "multicluster delegation",
		"(*pilot/pkg/credentials/kube.AggregateController).GetCaCert":           "multicluster delegation",
		"(*pilot/pkg/credentials/kube.AggregateController).GetConfigMapCaCert":  "multicluster delegation",
		"(*pilot/pkg/credentials/kube.AggregateController).GetDockerCredential": "multicluster delegation",
	}
	n := 0
	for _, fn := range p.AllFuncs {
		if strings.HasSuffix(p.Fset.Position(fn.Pos()).Filename, "_test.go") || fn.Synthetic != "" {
			continue
		}
		eachInstr(fn, func(ins ssa.Instruction) {
			ci, ok := ins.(ssa.CallInstruction)
			if !ok {
				return
			}
			mname := ""
			if ci.Common().IsInvoke() {
				rt, ok := ci.Common().Value.Type().(*types.Named)
				if !ok || rt.Obj() != iface.Obj() {
					return
				}
				mname = ci.Common().Method.Name()
			} else if g := ci.Common().StaticCallee(); g != nil && g.Signature.Recv() != nil {
				// static call of a concrete implementation's accessor
				if !types.Implements(g.Signature.Recv().Type(), iface.Underlying().(*types.Interface)) {
					return
				}
				mname = g.Name()
			}
			if !material[mname] {
				return
			}
			n++
			root := fn
			for root.Parent() != nil {
				root = root.Parent()
			}
			_, okc := allowed[shortFn(root)]
			c.Check("key-material accessor "+mname+" called from "+shortFn(root), ins.Pos(), okc, "private key / credential material is fetched outside the authorised SDS generation path")
		})
	}
	c.Check("key-material call sites found", token.NoPos, n >= 4, "fewer accessor call sites than confirmed by hand")
	gen := p.FuncObj(pkgXds, "SecretGen", "generate")
	for _, fn := range p.AllFuncs {
		if strings.HasSuffix(p.Fset.Position(fn.Pos()).Filename, "_test.go") {
			continue
		}
		for _, call := range callsIn(fn, gen) {
			c.Check("SecretGen.generate caller:"+shortFn(fn), call.Pos(), shortFn(fn) == "(*pilot/pkg/xds.SecretGen).Generate", "SecretGen.generate (no authorisation of its own) is called from outside Generate")
		}
	}
	c.Floor(6)
}

func c11r3(c *Ctx) {
	p := c.P
	fn := p.Func(pkgXds, "", "filterAuthorizedResources")
	typeF := p.Field(pkgCredModel, "SecretResource", "ResourceType")
	nsF := p.Field(pkgCredModel, "SecretResource", "Namespace")
	idNs := p.Field("pkg/spiffe", "Identity", "Namespace")
	refs := p.Field(pkgModel, "MergedGateway", "VerifiedCertificateReferences")
	constOf := func(name string) string { s, _ := constStringOf(p.Const(pkgCredModel, name)); return s }
	tGateway, tSecret, tConfigMap, tInvalid := constOf("KubernetesGatewaySecretType"), constOf("KubernetesSecretType"), constOf("KubernetesConfigMapType"), constOf("InvalidSecretType")
	// type edges
	typeEdges := map[string][]Edge{}
	for _, i := range allIfs(fn) {
		b, ok := i.Cond.(*ssa.BinOp)
		if !ok || b.Op != token.EQL {
			continue
		}
		if s, ok := constString(b.Y); ok && fieldOfLoadDeep(b.X) == typeF {
			typeEdges[s] = append(typeEdges[s], Edge{i.Block(), 0})
		}
	}
	for name, t := range map[string]string{"gateway secret": tGateway, "kubernetes secret": tSecret, "config map": tConfigMap, "invalid": tInvalid} {
		c.Check("credential type has a case: "+name, fn.Pos(), len(typeEdges[t]) == 1, "the type switch in filterAuthorizedResources no longer names the "+name+" type")
	}
	// predicates
	var sameNs ssa.Value
	var verifiedCall ssa.Value
	eachInstr(fn, func(ins ssa.Instruction) {
		if b, ok := ins.(*ssa.BinOp); ok && b.Op == token.EQL {
			fx, fy := fieldOfLoadDeep(b.X), fieldOfLoadDeep(b.Y)
			if (fx == nsF && fy == idNs) || (fx == idNs && fy == nsF) {
				sameNs = b
			}
		}
		if call, ok := ins.(*ssa.Call); ok {
			if o := calleeObj(call); o != nil && o.Name() == "Contains" && len(call.Call.Args) > 0 && fieldOfLoad(call.Call.Args[0]) == refs {
				verifiedCall = call
			}
			// a (nil-safe) accessor: a bool function every result of which is `false` or that very Contains test
			if g := call.Call.StaticCallee(); g != nil && g.Blocks != nil && isIstioFunc(g) && verifiedCall == nil {
				var inner ssa.Value
				eachInstr(g, func(j ssa.Instruction) {
					if c2, ok := j.(*ssa.Call); ok {
						if o := calleeObj(c2); o != nil && o.Name() == "Contains" && len(c2.Call.Args) > 0 && fieldOfLoad(c2.Call.Args[0]) == refs {
							inner = c2
						}
					}
				})
				if inner != nil {
					okAll := true
					eachInstr(g, func(j ssa.Instruction) {
						r, ok := j.(*ssa.Return)
						if !ok || len(r.Results) != 1 {
							return
						}
						var ls []ssa.Value
						phiLeaves(retVal(r, 0), map[ssa.Value]bool{}, &ls)
						for _, l := range ls {
							if b, isC := constBool(l); isC && !b {
								continue
							}
							if l != inner {
								okAll = false
							}
						}
					})
					if okAll {
						verifiedCall = call
					}
				}
			}
		}
	})
	c.Check("same-namespace predicate compares the secret's namespace with the VERIFIED identity's", fn.Pos(), sameNs != nil, "no comparison r.Namespace == proxy.VerifiedIdentity.Namespace")
	c.Check("verified-reference predicate present", fn.Pos(), verifiedCall != nil, "no VerifiedCertificateReferences.Contains test")
	if sameNs == nil || verifiedCall == nil {
		return
	}
	derivesPhi := func(v, from ssa.Value) bool {
		var ls []ssa.Value
		phiLeaves(v, map[ssa.Value]bool{}, &ls)
		for _, l := range ls {
			if l == from {
				return true
			}
		}
		return false
	}
	sameTrue := edgesWhere(fn, func(v ssa.Value) bool { return derivesPhi(v, sameNs) }, true)
	verTrue := edgesWhere(fn, func(v ssa.Value) bool { return derivesPhi(v, verifiedCall) }, true)
	// authorisation edges: HasSuffix(... SdsCaSuffix) true, or the isAuthorized closure true
	authTrue := edgesWhere(fn, func(v ssa.Value) bool {
		call, ok := v.(*ssa.Call)
		if !ok {
			return false
		}
		if o := calleeObj(call); o != nil && o.Name() == "HasSuffix" {
			return true
		}
		if f := closureOfValue(call.Call.Value); f != nil {
			// the closure that calls Authorize
			calls := false
			eachInstr(f, func(i2 ssa.Instruction) {
				if ci, ok := i2.(ssa.CallInstruction); ok && ci.Common().IsInvoke() && ci.Common().Method.Name() == "Authorize" {
					calls = true
				}
			})
			return calls
		}
		return false
	}, true)
	// phi-valued conditions (`a && (b || c)`) are lowered to chained ifs; the HasSuffix value may be stored in a local first
	authTrue = append(authTrue, edgesWhere(fn, func(v ssa.Value) bool {
		var ls []ssa.Value
		phiLeaves(v, map[ssa.Value]bool{}, &ls)
		for _, l := range ls {
			if call, ok := l.(*ssa.Call); ok {
				if o := calleeObj(call); o != nil && o.Name() == "HasSuffix" {
					return true
				}
			}
		}
		return false
	}, true)...)
	// the allowed list = the slice returned
	n := 0
	var allowedAppends []*ssa.Call
	eachInstr(fn, func(ins ssa.Instruction) {
		r, ok := ins.(*ssa.Return)
		if !ok {
			return
		}
		seen := map[ssa.Value]bool{}
		var walk func(v ssa.Value)
		walk = func(v ssa.Value) {
			if v == nil || seen[v] {
				return
			}
			seen[v] = true
			switch x := v.(type) {
			case *ssa.Phi:
				for _, e := range x.Edges {
					walk(e)
				}
			case *ssa.Call:
				if isAppendCall(x) {
					allowedAppends = append(allowedAppends, x)
					walk(x.Call.Args[0])
				}
			}
		}
		walk(retVal(r, 0))
	})
	for _, ap := range allowedAppends {
		n++
		b := ap.Block()
		switch {
		case underEdges(fn, b, typeEdges[tGateway]):
			c.Check("allowed: gateway secret only under a verified reference", ap.Pos(), underEdges(fn, b, verTrue), "a kubernetes-gateway:// secret is released without a verified certificate reference (same-namespace Gateway or ReferenceGrant)")
		case underEdges(fn, b, typeEdges[tSecret]):
			c.Check("allowed: kubernetes secret only in the verified namespace", ap.Pos(), underEdges(fn, b, sameTrue), "a kubernetes:// secret is released although its namespace differs from the proxy's verified namespace (cross-namespace key material)")
			c.Check("allowed: kubernetes secret only if CA-only or authorised", ap.Pos(), underEdges(fn, b, authTrue), "a kubernetes:// secret with private key material is released without the Authorize (SubjectAccessReview) check")
		case underEdges(fn, b, typeEdges[tConfigMap]):
			c.Check("allowed: config map (ca.crt only, frozen decision)", ap.Pos(), true, "")
		default:
			c.Check("allowed: append outside a known credential type case", ap.Pos(), false, "a resource is added to the authorised list outside the three known credential-type cases")
		}
	}
	c.Check("authorised-list appends found", fn.Pos(), n == 3, "expected exactly the three appends (gateway, config map, kubernetes secret)")
	c.Floor(11)
}

// fieldOfLoadDeep: field of a load, also through one level of local copy (range variable spilled to an Alloc).
func fieldOfLoadDeep(v ssa.Value) *types.Var {
	if f := fieldOfLoad(v); f != nil {
		return f
	}
	return nil
}

func c11r5(c *Ctx) {
	p := c.P
	vi := p.Field(pkgModel, "Proxy", "VerifiedIdentity")
	check := p.FuncObj(pkgXds, "", "checkConnectionIdentity")
	n := 0
	for _, fn := range p.AllFuncs {
		if strings.HasSuffix(p.Fset.Position(fn.Pos()).Filename, "_test.go") || strings.Contains(funcPkgPath(fn), "/test") {
			continue
		}
		for _, st := range storesTo(fn, vi) {
			n++
			okw := shortFn(fn) == "(*pilot/pkg/xds.DiscoveryServer).authorize"
			c.Check("writer of Proxy.VerifiedIdentity:"+shortFn(fn), st.Pos(), okw, "Proxy.VerifiedIdentity is written outside DiscoveryServer.authorize: the identity generators trust can be set without matching the credential against the claimed namespace/service account")
			if okw {
				c.Check("VerifiedIdentity is checkConnectionIdentity's result", st.Pos(), derivesFromCallResult(st.Val, check, 0, map[ssa.Value]bool{}) || extractOfCall(st.Val, check), "the stored identity is not the one checkConnectionIdentity matched")
			}
		}
	}
	c.Check("VerifiedIdentity writers found", token.NoPos, n >= 1, "no writer found")
	// what checkConnectionIdentity compares must be set before authorize runs
	chk := p.SSA.FuncValue(check)
	cmpFields := map[*types.Var]bool{}
	proxyT := p.Struct(pkgModel, "Proxy")
	metaT := structOf(p.Field(pkgModel, "Proxy", "Metadata").Type())
	eff := effectsOfFuncs([]*ssa.Function{chk})
	for _, f := range fieldsOf(proxyT) {
		if _, ok := eff.Reads[f]; ok && f.Name() != "Metadata" && f.Name() != "RWMutex" {
			cmpFields[f] = true
		}
	}
	_ = metaT
	ic := p.Func(pkgXds, "DiscoveryServer", "initConnection")
	authz := p.FuncObj(pkgXds, "DiscoveryServer", "authorize")
	acalls := callsIn(ic, authz)
	c.Check("initConnection authorises", ic.Pos(), len(acalls) == 1, "expected one authorize call")
	var names []string
	for f := range cmpFields {
		names = append(names, f.Name())
	}
	sort.Strings(names)
	c.Infof("checkConnectionIdentity compares proxy fields %v", names)
	if len(acalls) == 1 {
		for f := range cmpFields {
			// a call before authorize whose bounded graph (package xds + model) writes the field
			okp := precededOnAllPaths(ic, acalls[0], func(ins ssa.Instruction) bool {
				if st, ok := ins.(*ssa.Store); ok {
					if fa, ok := st.Addr.(*ssa.FieldAddr); ok && fieldVar(fa.X.Type(), fa.Field) == f {
						return true
					}
				}
				ci, ok := ins.(ssa.CallInstruction)
				if !ok {
					return false
				}
				g := ci.Common().StaticCallee()
				if g == nil || g.Blocks == nil || !isIstioFunc(g) {
					return false
				}
				r := p.CG().Reach([]*ssa.Function{g}, func(h *ssa.Function) bool {
					pp := funcPkgPath(h)
					return pp != istioMod+"/"+pkgXds && pp != istioMod+"/"+pkgModel
				})
				_, w := effectsOf(r).Writes[f]
				return w
			})
			c.Check("Proxy."+f.Name()+" is set before authorize compares it", acalls[0].Pos(), okp, "checkConnectionIdentity compares the credential with Proxy."+f.Name()+", but on some path that field is only set after authorize ran: the comparison sees the zero value and is skipped, so a client can claim a namespace its credential does not prove")
		}
	}
	c.Floor(4)
}

func extractOfCall(v ssa.Value, obj *types.Func) bool {
	if ex, ok := v.(*ssa.Extract); ok {
		if call, ok := ex.Tuple.(*ssa.Call); ok {
			return isCallTo(call, obj)
		}
	}
	return false
}

func c11r6(c *Ctx) {
	p := c.P
	vi := p.Field(pkgModel, "Proxy", "VerifiedIdentity")
	// validators: functions returning error in which every nil-error return is under VerifiedIdentity != nil
	errT := types.Universe.Lookup("error").Type()
	validators := map[*ssa.Function]bool{}
	var scope []*ssa.Function
	for _, fn := range p.AllFuncs {
		if funcPkgPath(fn) != istioMod+"/"+pkgXds || strings.HasSuffix(p.Fset.Position(fn.Pos()).Filename, "_test.go") || fn.Synthetic != "" {
			continue
		}
		scope = append(scope, fn)
		res := fn.Signature.Results()
		if res.Len() == 0 || !types.Identical(res.At(res.Len()-1).Type(), errT) {
			continue
		}
		var okE []Edge
		for _, i := range allIfs(fn) {
			if x, eq, ok := nilCmp(i.Cond); ok && fieldOfLoad(x) == vi {
				idx := 0
				if eq {
					idx = 1
				}
				okE = append(okE, Edge{i.Block(), idx})
			}
		}
		if len(okE) == 0 {
			continue
		}
		isV := true
		eachInstr(fn, func(ins ssa.Instruction) {
			r, ok := ins.(*ssa.Return)
			if !ok {
				return
			}
			if k, isK := retVal(r, len(r.Results)-1).(*ssa.Const); isK && k.IsNil() {
				if !underEdges(fn, r.Block(), okE) {
					isV = false
				}
			}
		})
		if isV {
			validators[fn] = true
		}
	}
	// context: is instruction `at` in fn in a region where VerifiedIdentity is known non-nil?
	var safeAt func(fn *ssa.Function, b *ssa.BasicBlock) bool
	safeAt = func(fn *ssa.Function, b *ssa.BasicBlock) bool {
		var okE []Edge
		for _, i := range allIfs(fn) {
			if x, eq, ok := nilCmp(i.Cond); ok {
				if fieldOfLoad(x) == vi {
					idx := 0
					if eq {
						idx = 1
					}
					okE = append(okE, Edge{i.Block(), idx})
				}
				// err == nil of a validator call
				if call, isCall := x.(*ssa.Call); isCall {
					if g := call.Call.StaticCallee(); g != nil && validators[g] {
						idx := 1
						if eq {
							idx = 0
						}
						okE = append(okE, Edge{i.Block(), idx})
					}
				}
			}
		}
		return underEdges(fn, b, okE)
	}
	n := 0
	for _, fn := range scope {
		eachInstr(fn, func(ins ssa.Instruction) {
			fa, ok := ins.(*ssa.FieldAddr)
			if !ok || fieldOfLoad(fa.X) != vi {
				return
			}
			n++
			okd := safeAt(fn, fa.Block())
			if !okd {
				// closures and helpers: every static call site (one level) must be in a safe region
				root := fn
				for root.Parent() != nil {
					// a closure is safe if it is created in a safe region of its parent, or the parent's callers are safe
					root = root.Parent()
				}
				sites, allSafe := 0, true
				for _, g := range scope {
					eachInstr(g, func(i2 ssa.Instruction) {
						ci, ok := i2.(ssa.CallInstruction)
						if !ok || ci.Common().StaticCallee() != root {
							return
						}
						sites++
						if !safeAt(g, i2.Block()) {
							allSafe = false
						}
					})
				}
				okd = sites > 0 && allSafe
			}
			c.Check("VerifiedIdentity dereference is guarded:"+shortFn(fn), fa.Pos(), okd, "proxy.VerifiedIdentity is dereferenced where it can be nil (plaintext port or identity check disabled): the request handler crashes instead of refusing")
		})
	}
	c.Check("VerifiedIdentity dereferences found", token.NoPos, n >= 4, "fewer dereference sites than confirmed by hand")
	c.Floor(5)
}


// C11-R7: on the path that decides whether a proxy may receive a secret (SDS generation, ReferenceGrant checks while
// gateways are merged) no function memoises a result in a map that outlives the call under a key that leaves out one
// of the inputs the result was computed from (e.g. the requesting namespace): the answer computed for one proxy would
// be handed to another. The detector is exercised on every run against a known memo elsewhere (positive control).
func c11r7(c *Ctx) {
	p := c.P
	entries := []*ssa.Function{
		p.Func(pkgXds, "SecretGen", "Generate"),
		p.Func(pkgModel, "PushContext", "SecretAllowed"),
		p.Func(pkgModel, "", "mergeGateways"),
	}
	reach := p.CG().Reach(entries, func(f *ssa.Function) bool { return !strings.HasPrefix(funcPkgPath(f), istioMod+"/pilot/pkg/") })
	var fns []*ssa.Function
	for f := range reach {
		fns = append(fns, f)
	}
	sort.Slice(fns, func(i, j int) bool { return fnKey(fns[i]) < fnKey(fns[j]) })
	n := 0
	for _, fn := range fns {
		if strings.HasSuffix(p.Fset.Position(fn.Pos()).Filename, "_test.go") {
			continue
		}
		for _, m := range memoSites(p, fn) {
			n++
			c.Check("memo key covers what the value was computed from: "+stableFnName(fn), m.lookup.Pos(), len(m.missing) == 0,
				"a result on the secret-authorization path is stored in a map and reused under a key that does not include "+strings.Join(m.missing, ", ")+": the answer computed for one requester (e.g. a gateway namespace holding a ReferenceGrant) is returned for another that has none, and SDS hands it the private key")
		}
	}
	c.Stat("authorization_path_functions", len(fns))
	c.Check("authorization path functions examined", token.NoPos, len(fns) >= 20, "the secret-authorization call graph came out too small")
	// positive control on every run: a built-in fixture with two incomplete and two complete memos
	why := memoSelfTest()
	c.Check("positive control: the memo detector reports the incomplete keys of its fixture and not the complete ones", token.NoPos, why == "", why)
	c.Floor(2)
}


// C11-R8: a "-cacert" resource is public CA material and is exempt from the RBAC check, while the generator decides
// from the same suffix whether to emit only the CA certificate or the full key pair. Both decisions - every
// strings.HasSuffix(x, SdsCaSuffix) in the SDS generator - must be made on the same field of the parsed resource;
// otherwise a name can be crafted that is exempted as "CA only" by one test and served with its private key by the other.
func c11r8(c *Ctx) {
	p := c.P
	n := 0
	fields := map[string]int{}
	type site struct {
		pos   token.Pos
		field string
		fn    string
	}
	var sites []site
	for _, fn := range p.AllFuncs {
		if funcPkgPath(fn) != istioMod+"/"+pkgXds || strings.HasSuffix(p.Fset.Position(fn.Pos()).Filename, "_test.go") {
			continue
		}
		eachInstr(fn, func(ins ssa.Instruction) {
			call, ok := ins.(*ssa.Call)
			if !ok {
				return
			}
			o := calleeObj(ins)
			if o == nil || o.Pkg() == nil || o.Pkg().Path() != "strings" || o.Name() != "HasSuffix" || len(call.Call.Args) != 2 {
				return
			}
			if sfx, ok := constString(call.Call.Args[1]); !ok || sfx != "-cacert" {
				return
			}
			fv := fieldOfLoad(call.Call.Args[0])
			name := "<not a field>"
			if fv != nil {
				name = fv.Name()
				if nt, ok := derefNamed(ownerTypeOfField(call.Call.Args[0])); ok {
					name = nt.Obj().Name() + "." + name
				}
			}
			if !strings.HasPrefix(name, "SecretResource.") && fv != nil {
				return // a test on some other key type (cache invalidation keys), not on the parsed SDS resource
			}
			n++
			fields[name]++
			sites = append(sites, site{call.Pos(), name, stableFnName(fn)})
		})
	}
	c.Check("CA-only suffix tests found in the SDS generator", token.NoPos, n >= 2, "fewer tests of the -cacert suffix than confirmed by hand (authorization filter, generate)")
	// the majority field is the reference
	ref, best := "", 0
	for f, k := range fields {
		if k > best || (k == best && f < ref) {
			ref, best = f, k
		}
	}
	for _, s := range sites {
		c.Check("CA-only decision made on "+ref+": "+s.fn, s.pos, s.field == ref,
			"this test for the -cacert suffix looks at "+s.field+" while the other tests in the SDS generator look at "+ref+": a resource name can end in -cacert in one of them and not in the other, so the request is exempted from authorization as public CA material and still answered with the private key")
	}
	c.Floor(3)
}

// ownerTypeOfField: the struct type a loaded field belongs to.
func ownerTypeOfField(v ssa.Value) types.Type {
	switch x := v.(type) {
	case *ssa.UnOp:
		if fa, ok := x.X.(*ssa.FieldAddr); ok {
			return fa.X.Type()
		}
	case *ssa.Field:
		return x.X.Type()
	}
	return nil
}


// C11-R9: references of the kubernetes-gateway:// and configmap:// types were verified against objects of the CONFIG
// cluster (ReferenceGrants, the Gateway's namespace). The generator therefore reads them through the controller of
// the config cluster: SecretGen.Generate obtains ForCluster(s.configCluster), and that controller - not the proxy
// cluster's aggregate, which looks into the proxy's own cluster first - reaches generate. Structurally: the result of a
// ForCluster call whose argument is the configCluster field flows into the generate call.
func c11r9(c *Ctx) {
	p := c.P
	gen := p.Func(pkgXds, "SecretGen", "Generate")
	cc := p.Field(pkgXds, "SecretGen", "configCluster")
	var cfgCtl ssa.Value
	eachInstr(gen, func(ins ssa.Instruction) {
		ci, ok := ins.(ssa.CallInstruction)
		if !ok {
			return
		}
		name := ""
		if ci.Common().IsInvoke() {
			name = ci.Common().Method.Name()
		} else if o := calleeObj(ins); o != nil {
			name = o.Name()
		}
		if name != "ForCluster" {
			return
		}
		for _, a := range ci.Common().Args {
			if fieldOfLoad(a) == cc {
				if v, ok := ins.(ssa.Value); ok {
					cfgCtl = v
				}
			}
		}
	})
	c.Check("SecretGen.Generate obtains the config cluster's credentials controller", gen.Pos(), cfgCtl != nil,
		"Generate no longer calls ForCluster(s.configCluster): Gateway-API credential references, verified against config-cluster objects, are read through the proxy cluster's aggregate, which looks into the proxy's own cluster first - a remote gateway receives the key of a same-named Secret of its own cluster for which no grant exists, and the result is cached for config-cluster gateways")
	if cfgCtl == nil {
		c.Floor(1)
		return
	}
	// it reaches the generation call
	genObj := p.FuncObj(pkgXds, "SecretGen", "generate")
	reaches := false
	for _, call := range callsIn(gen, genObj) {
		for _, a := range call.Common().Args {
			var ls []ssa.Value
			phiLeaves(a, map[ssa.Value]bool{}, &ls)
			for _, l := range ls {
				if ex, ok := l.(*ssa.Extract); ok && ex.Tuple == cfgCtl {
					reaches = true
				}
				if l == cfgCtl {
					reaches = true
				}
			}
		}
	}
	c.Check("the config cluster's controller is handed to secret generation", gen.Pos(), reaches,
		"the controller obtained for the config cluster does not reach generate(): Gateway-API references are read from another cluster's view")
	c.Floor(2)
}

// C11-R10: the SubjectAccessReview cache. An answer is served from the cache only while its expiration lies in the
// future: the look-up function itself reads the entry's expiration (directly or by sweeping expired entries first),
// on every path before it reports a hit. If only the insert path sweeps, an identity's own expired "allowed" entry
// stays until some OTHER identity misses the cache - a revoked gateway keeps receiving key material.
func c11r10(c *Ctx) {
	p := c.P
	pkgCreds := "pilot/pkg/credentials/kube"
	fn := p.Func(pkgCreds, "CredentialsController", "cachedAuthorization")
	exp := p.Field(pkgCreds, "authorizationResponse", "expiration")
	readsExp := func(ins ssa.Instruction) bool {
		switch x := ins.(type) {
		case *ssa.FieldAddr:
			return fieldVar(x.X.Type(), x.Field) == exp
		case *ssa.Field:
			return fieldVar(x.X.Type(), x.Field) == exp
		}
		return false
	}
	// a hit: a return whose second result can be true
	isHit := func(ins ssa.Instruction) bool {
		r, ok := ins.(*ssa.Return)
		if !ok || len(r.Results) < 2 {
			return false
		}
		b, isC := constBool(retVal(r, 1))
		return !isC || b
	}
	bad := pathAvoiding(fn, nil, deepMay(readsExp, 2), isHit)
	pos := fn.Pos()
	if bad != nil {
		pos = bad.Pos()
	}
	c.Check("a cached authorization is reported only after its expiration was looked at", pos, bad == nil,
		"cachedAuthorization can report a hit on a path that never reads the entry's expiration (neither directly nor by sweeping expired entries): an expired answer - e.g. `allowed` for a gateway whose RBAC permission was revoked - is served until an unrelated identity happens to trigger the sweep")
	c.Floor(1)
}

// C11-R11: every grant record is built from scratch. ReferenceGrantsCollection flattens a ReferenceGrant object into one
// record per (from, to) pair; `AllowAll` ("any name of that kind") is set only for a `to` entry without a name. The
// record appended in a pass of a loop is either allocated inside the innermost loop that contains the append, or every
// one of its fields is stored on every path from the start of that pass to the append. A record hoisted out of the loop
// keeps `AllowAll` from an earlier `to` entry: a grant for one named Secret then matches every Secret of the namespace.
func c11r11(c *Ctx) {
	p := c.P
	pkgGC := "pilot/pkg/config/kube/gatewaycommon"
	st := p.Struct(pkgGC, "ReferenceGrant")
	n := 0
	for _, fn := range p.AllFuncs {
		if funcPkgPath(fn) != istioMod+"/"+pkgGC || strings.HasSuffix(p.Fset.Position(fn.Pos()).Filename, "_test.go") || isWrapperFn(fn) || len(fn.Blocks) == 0 {
			continue
		}
		// loop headers: blocks with a back edge
		headers := map[*ssa.BasicBlock]bool{}
		for _, b := range fn.Blocks {
			for _, pr := range b.Preds {
				if b.Dominates(pr) {
					headers[b] = true
				}
			}
		}
		eachInstr(fn, func(ins ssa.Instruction) {
			call, ok := ins.(*ssa.Call)
			if !ok || !isAppendCall(ins) || len(call.Call.Args) != 2 {
				return
			}
			sl, ok := call.Type().Underlying().(*types.Slice)
			if !ok || structOf(sl.Elem()) != st || st == nil {
				return
			}
			// the appended element: packed into the varargs array from a load of the record's cell
			var cell *ssa.Alloc
			if s, ok := call.Call.Args[1].(*ssa.Slice); ok {
				if va, ok := s.X.(*ssa.Alloc); ok {
					for _, r := range *va.Referrers() {
						ia, ok := r.(*ssa.IndexAddr)
						if !ok {
							continue
						}
						for _, r2 := range *ia.Referrers() {
							if stv, ok := r2.(*ssa.Store); ok {
								if u, ok := stv.Val.(*ssa.UnOp); ok && u.Op == token.MUL {
									if a, ok := u.X.(*ssa.Alloc); ok {
										cell = a
									}
								}
							}
						}
					}
				}
			}
			if cell == nil {
				return
			}
			// innermost loop containing the append
			var inner *ssa.BasicBlock
			for h := range headers {
				if h.Dominates(call.Block()) && h != call.Block() {
					// is the append inside the loop (can it reach the header again)?
					if inner == nil || inner.Dominates(h) {
						inner = h
					}
				}
			}
			if inner == nil {
				return
			}
			n++
			// (a) allocated in the pass
			inPass := inner.Dominates(cell.Block()) && cell.Block() != inner
			ok2 := inPass
			missing := ""
			if !ok2 {
				// (b) every field stored on every path of the pass
				ok2 = true
				for _, f := range fieldsOf(st) {
					isSt := func(i ssa.Instruction) bool {
						s, ok := i.(*ssa.Store)
						if !ok {
							return false
						}
						if s.Addr == ssa.Value(cell) {
							return true // whole-record assignment
						}
						fa, ok := s.Addr.(*ssa.FieldAddr)
						return ok && fa.X == ssa.Value(cell) && fieldVar(fa.X.Type(), fa.Field) == f
					}
					// from the header's body successor to the append without a store to f
					for _, su := range inner.Succs {
						if !su.Dominates(call.Block()) && su != call.Block() {
							continue
						}
						if _, found := pathAvoidingE(su, nil, isSt, func(i ssa.Instruction) bool { return i == ssa.Instruction(call) }, nil, nil); found {
							ok2 = false
							missing = f.Name()
						}
					}
				}
			}
			det := "the grant record appended here lives outside the loop pass that appends it and not every field is assigned in every pass"
			if missing != "" {
				det += " (" + missing + " keeps the value of an earlier pass)"
			}
			det += ": `AllowAll` set for a `to` entry without a name survives into the records of later entries, so a ReferenceGrant that names one Secret authorises references to every Secret of the namespace - key material is released for references no grant names"
			c.Check("every grant record is built from scratch: "+stableFnName(fn), call.Pos(), ok2, det)
		})
	}
	c.Check("grant records appended in loops found", token.NoPos, n >= 1, "no append of a ReferenceGrant record inside a loop found in gatewaycommon")
	c.Floor(2)
}
