package main

import (
	"os"
	"fmt"
	"go/token"
	"go/types"
	"strings"

	"golang.org/x/tools/go/ssa"
)

const pkgKrt = "pkg/kube/krt"

func init() {
	register(&PropDef{
		ID: "C16",
		Clauses: []string{
			"R2 every field of the fetch filter is set by some Filter* option and takes effect: it is read by Matches / SuppressChange / the list path of fetch / the reverse-index key",
			"R3 a fetch registers its dependency before it lists, on every path with a context (no event between list and registration can be missed)",
			"R4 lock discipline: manyCollection's collectionState/dependencyState/indexes and staticList's vals/indexes are touched only under mu (lock-requiring helpers verified at every caller)",
			"R5 state change and event distribution are atomic: every Distribute call of a mutex-protected collection is made while its mu is held (events are enqueued in the order of the state writes)",
			"R7 in every function that builds the event batch it distributes, one pass of the loop that handles a key appends at most one event to that batch (no path appends twice in the same iteration): a second append is a duplicate add/delete for the subscribers",
			"R8 no operation of a mutex-protected collection reads mutable state in one critical section, releases the lock, and writes state computed from it in a second one (events applied in between are lost from what is published)",
			"R9 sibling rule: every method of the join family that walks the joined collections / indexers and hands their objects on resolves overlapping keys (first hit wins, a seen-set, or a look-up in the higher-priority collections) unless it is on the unchecked-overlap path: List, GetKey and index Lookup must agree",
			"R10 a function that both subscribes to a collection without replaying its existing state (Register*(..., false)) and lists it takes the list AFTER subscribing on every path: an element added between a snapshot and a later subscription is in neither",
			"R11 the per-collection extractor registry of a derived collection (indexedDependenciesExtractor: which collections are fetched un-indexed, by key, by index) is shared by all inputs and not reference counted, so nothing ever deletes from it (positive control: deletions from the per-input reverse index are recognised)",
			"R6 a secondary (dependency) event is matched against both the old and the new object when deciding which inputs to recompute",
		},
		NotDecided: "event-stream consistency in general, output diffing, keys moving between parents, join/merge semantics (a duplicate delete in mergejoin was reported by a seeding agent and is noted in DESIGN.md as untriaged); R1 of the design (untracked reads inside transformations) is not armed",
		Rules: []Rule{
			{"C16-R2", "filter fields all take effect", c16r2},
			{"C16-R3", "register dependency before listing", c16r3},
			{"C16-R4", "krt lock discipline", c16r4},
			{"C16-R5", "events are distributed under the state lock", c16r5},
			{"C16-R6", "secondary events consider old and new object", c16r6},
			{"C16-R7", "one output event per key and pass", c16r7},
			{"C16-R8", "state is not read in one critical section and published in a later one", c16r8},
			{"C16-R9", "every read path of a join resolves overlapping keys", c16r9},
			{"C16-R10", "subscribe before taking the snapshot", c16r10},
			{"C16-R11", "shared dependency markers are never removed", c16r11},
			{"C16-R12", "every subscriber gets its own copy of a batch", c16r12},
		},
	})
}

func krtFunc(p *Prog, name string) *ssa.Function {
	// generic package-level function: prefer an instance (bodies of uninstantiated generics are built on demand)
	obj := p.FuncObj(pkgKrt, "", name)
	for _, f := range p.AllFuncs {
		if o := funcObjOf(f); o == obj && f.Parent() == nil && (f.Synthetic == "" || strings.HasPrefix(f.Synthetic, "instance of")) {
			return f
		}
	}
	f := p.SSA.FuncValue(obj)
	if f == nil || f.Blocks == nil {
		anchorFail("no SSA body for krt.%s", name)
	}
	return f
}

func c16r2(c *Ctx) {
	p := c.P
	st := p.Struct(pkgKrt, "filter")
	// writers: Filter* options (closures storing into d.filter.<field>)
	writes := map[*types.Var]bool{}
	reads := map[*types.Var]bool{}
	isFilterField := map[*types.Var]bool{}
	for _, f := range fieldsOf(st) {
		isFilterField[f] = true
	}
	for _, fn := range p.AllFuncs {
		if funcPkgPath(fn) != istioMod+"/"+pkgKrt || strings.HasSuffix(p.Fset.Position(fn.Pos()).Filename, "_test.go") {
			continue
		}
		root := fn
		for root.Parent() != nil {
			root = root.Parent()
		}
		rn := root.Name()
		e := effectsOfFuncs([]*ssa.Function{fn})
		isOption := strings.HasPrefix(rn, "Filter") || strings.HasPrefix(rn, "withUnsafeSuppressChange")
		isConsumer := false
		if o := funcObjOf(root); o != nil {
			switch o.Name() {
			case "Matches", "SuppressChange", "reverseIndexKey", "fetch":
				isConsumer = true
			}
		}
		for f := range isFilterField {
			if _, w := e.Writes[f]; w && isOption {
				writes[f] = true
			}
			if _, r := e.Reads[f]; r && isConsumer {
				reads[f] = true
			}
		}
	}
	for _, f := range fieldsOf(st) {
		c.Check("filter."+f.Name()+" is set by a Filter option", f.Pos(), writes[f], "no Filter* option sets filter."+f.Name())
		c.Check("filter."+f.Name()+" takes effect", f.Pos(), reads[f], "filter."+f.Name()+" is set by an option but never consulted by Matches / SuppressChange / fetch / reverseIndexKey: a fetch restricted by it returns (and depends on) more than it asked for, or misses changes")
	}
	c.Floor(14)
}

func c16r3(c *Ctx) {
	p := c.P
	fn := krtFunc(p, "fetch")
	ctx := paramNamed(fn, "ctx")
	var nilEdges []Edge
	for _, i := range allIfs(fn) {
		if x, eq, ok := nilCmp(i.Cond); ok && x == ssa.Value(ctx) {
			idx := 1
			if eq {
				idx = 0
			}
			nilEdges = append(nilEdges, Edge{i.Block(), idx})
		}
	}
	c.Check("fetch tests for a context", fn.Pos(), len(nilEdges) == 1, "no nil test of ctx")
	isReg := func(ins ssa.Instruction) bool {
		ci, ok := ins.(ssa.CallInstruction)
		return ok && ci.Common().IsInvoke() && ci.Common().Method.Name() == "registerDependency"
	}
	n := 0
	eachInstr(fn, func(ins ssa.Instruction) {
		ci, ok := ins.(ssa.CallInstruction)
		if !ok {
			return
		}
		name := ""
		if ci.Common().IsInvoke() {
			name = ci.Common().Method.Name()
		} else if fv := fieldOfLoad(ci.Common().Value); fv != nil {
			name = fv.Name() // call through a function-valued field (indexFilter.list)
		}
		switch name {
		case "GetKey", "List", "list":
		default:
			return
		}
		n++
		_, found := pathAvoidingE(fn.Blocks[0], nil, isReg, func(i ssa.Instruction) bool { return i == ins }, nilEdges, nil)
		c.Check("dependency registered before "+name, ins.Pos(), !found, "with a context, fetch can read the collection before registering the dependency: a change that lands between the read and the registration is never delivered, and the derived object stays stale")
	})
	c.Check("list sites found in fetch", fn.Pos(), n >= 3, "expected the key, index and full list paths")
	c.Floor(4)
}

func c16r4(c *Ctx) {
	p := c.P
	checkGuards(c, GuardSpec{
		Name: "manyCollection", Struct: p.Named(pkgKrt, "manyCollection"), Guard: "mu",
		Fields: map[string]bool{"collectionState": true, "dependencyState": true, "indexes": true},
		Locked: map[string]int{"(*pkg/kube/krt.manyCollection[I, O]).assertIndexConsistency": modeR},
		ReadOKFuncs: map[string]string{
			"(*pkg/kube/krt.manyCollection[I, O]).onSecondaryDependencyEvent": "runs only as a task on the collection's own queue goroutine, which is the sole writer of this state; its reads cannot race with a write",
		},
		Exempt: map[string]string{"pkg/kube/krt.newManyCollection[I,O]": "constructor"},
	})
	checkGuards(c, GuardSpec{
		Name: "staticList", Struct: p.Named(pkgKrt, "staticList"), Guard: "mu",
		Fields: map[string]bool{"vals": true, "indexes": true},
		Locked: map[string]int{},
		Exempt: map[string]string{},
	})
	c.Floor(20)
}

func c16r5(c *Ctx) {
	p := c.P
	n := 0
	la := newLockAnalysis(p)
	chosen := map[*ssa.Function]*ssa.Function{}
	for _, fn := range p.AllFuncs {
		if funcPkgPath(fn) != istioMod+"/"+pkgKrt || strings.HasSuffix(p.Fset.Position(fn.Pos()).Filename, "_test.go") {
			continue
		}
		if fn.Synthetic != "" && !strings.HasPrefix(fn.Synthetic, "instance of") {
			continue
		}
		root := fn
		for root.Parent() != nil {
			root = root.Parent()
		}
		if o := root.Origin(); o != nil && o != root {
			if ch, ok := chosen[o]; ok && ch != root {
				continue
			}
			chosen[o] = root
		}
		if fn.Signature.Recv() == nil || fn.Parent() != nil {
			continue
		}
		// receiver struct has a mu field?
		rs := structOf(fn.Signature.Recv().Type())
		hasMu := false
		if rs != nil {
			for i := 0; i < rs.NumFields(); i++ {
				if rs.Field(i).Name() == "mu" {
					hasMu = true
				}
			}
		}
		if !hasMu {
			continue
		}
		recv := fn.Params[0].Name()
		la.run(fn, lockset{}, func(ins ssa.Instruction, held lockset) {
			o := calleeObj(ins)
			if o == nil || o.Name() != "Distribute" {
				return
			}
			n++
			c.Check("Distribute under the collection lock:"+stableFnName(fn), ins.Pos(), held[recv+".mu"] >= modeR,
				"events are handed to the subscribers' queues after the collection's lock was released: two writers of the same key can enqueue their events in the opposite order of their state writes (subscribers then see out-of-order updates, duplicate adds, or updates of unknown keys, and replaying the stream no longer reproduces List())")
		})
	}
	c.Check("Distribute call sites in mutex-protected collections found", token.NoPos, n >= 4, "fewer Distribute sites than confirmed by hand")
	c.Floor(5)
}

func c16r6(c *Ctx) {
	p := c.P
	// dependencyState.changedInputKeys: the per-event lookup uses ev.Items() (old and new), not only ev.Latest()
	var fn *ssa.Function
	for _, f := range p.AllFuncs {
		if funcPkgPath(f) == istioMod+"/"+pkgKrt && f.Parent() == nil && strings.HasSuffix(strings.SplitN(f.Name(), "[", 2)[0], "changedInputKeys") && (f.Synthetic == "" || strings.HasPrefix(f.Synthetic, "instance of")) {
			fn = f
			break
		}
	}
	if fn == nil {
		anchorFail("krt dependencyState.changedInputKeys not found")
	}
	items, latest := 0, 0
	var walk func(f *ssa.Function)
	seen := map[*ssa.Function]bool{}
	walk = func(f *ssa.Function) {
		if seen[f] {
			return
		}
		seen[f] = true
		eachInstr(f, func(ins ssa.Instruction) {
			if o := calleeObj(ins); o != nil {
				switch o.Name() {
				case "Items":
					items++
				case "Latest":
					latest++
				}
			}
		})
		for _, a := range f.AnonFuncs {
			walk(a)
		}
	}
	walk(fn)
	c.Check("changedInputKeys examines old and new objects of an event", fn.Pos(), items >= 1 && latest == 0, "the objects of a secondary event are taken from ev.Latest() only (calls: Items="+itoa(items)+", Latest="+itoa(latest)+"): when an update moves an object out of what an input fetched (index key, labels), that input is never recomputed and its output stays stale")
	c.Floor(1)
}


// C16-R7: functions that build a batch `events` and hand it to Distribute handle one key per iteration of their
// innermost loop. On no path through one iteration are two events appended to the batch: the subscribers would see a
// duplicate (e.g. the same delete twice = a delete of an unknown key).
func c16r7(c *Ctx) {
	p := c.P
	n := 0
	chosen := map[*ssa.Function]bool{}
	for _, fn := range p.AllFuncs {
		if funcPkgPath(fn) != istioMod+"/"+pkgKrt || strings.HasSuffix(p.Fset.Position(fn.Pos()).Filename, "_test.go") {
			continue
		}
		if fn.Synthetic != "" && !strings.HasPrefix(fn.Synthetic, "instance of") {
			continue
		}
		// one instance per generic origin
		if o := fn.Origin(); o != nil && o != fn {
			if chosen[o] {
				continue
			}
			chosen[o] = true
		} else if fn.TypeParams().Len() > 0 || (fn.Signature.Recv() != nil && len(fn.TypeArgs()) == 0 && hasTypeParamRecv(fn)) {
			continue // uninstantiated generic body: analysed through one instance
		}
		// batches handed to Distribute
		var batches []ssa.Value
		eachInstr(fn, func(ins ssa.Instruction) {
			if o := calleeObj(ins); o != nil && o.Name() == "Distribute" {
				ci := ins.(ssa.CallInstruction)
				args := ci.Common().Args
				for _, a := range args {
					if _, isSlice := a.Type().Underlying().(*types.Slice); isSlice {
						batches = append(batches, a)
					}
				}
			}
		})
		if len(batches) == 0 {
			continue
		}
		for _, batch := range batches {
			// appends that feed the batch
			var apps []*ssa.Call
			eachInstr(fn, func(ins ssa.Instruction) {
				if !isAppendCall(ins) {
					return
				}
				call := ins.(*ssa.Call)
				if feedsBatch(batch, call, 0, map[ssa.Value]bool{}) {
					apps = append(apps, call)
				}
			})
			for _, a := range apps {
				// single-element appends only (append(events, e)); spreading another slice is a merge of batches
				if !isSingleAppend(a) {
					continue
				}
				// innermost loop containing a
				var inner *ssa.BasicBlock
				for _, h := range fn.Blocks {
					if !strings.HasSuffix(h.Comment, ".loop") {
						continue
					}
					m := loopMembers(fn, h)
					if m[a.Block()] && (inner == nil || loopMembers(fn, inner)[h]) {
						inner = h
					}
				}
				if inner == nil {
					continue
				}
				n++
				var second ssa.Instruction
				found := false
				// search forward from a, not crossing the innermost loop's header
				type cur struct {
					b *ssa.BasicBlock
					i int
				}
				seen := map[*ssa.BasicBlock]bool{}
				st := []cur{{a.Block(), instrIndex(a) + 1}}
				for len(st) > 0 && !found {
					q := st[len(st)-1]
					st = st[:len(st)-1]
					for i := q.i; i < len(q.b.Instrs); i++ {
						ins := q.b.Instrs[i]
						if other, ok := ins.(*ssa.Call); ok && other != a && isAppendCall(ins) {
							for _, b2 := range apps {
								if b2 == other && isSingleAppend(other) {
									second, found = ins, true
								}
							}
						}
						if found {
							break
						}
					}
					for _, sx := range q.b.Succs {
						if sx == inner || seen[sx] || !loopMembers(fn, inner)[sx] {
							continue
						}
						seen[sx] = true
						st = append(st, cur{sx, 0})
					}
				}
				pos := a.Pos()
				det := ""
				if found {
					det = "after the event appended at " + p.pos(a.Pos()) + " the same pass of the loop can append another event to the batch at " + p.pos(second.Pos()) + ": subscribers receive two events for one change of one key (e.g. the same delete twice, i.e. a delete of a key they no longer know), and replaying the stream no longer reproduces List()"
				}
				c.Check("one event per pass: "+stableFnName(fn)+fmt.Sprintf(" (append #%d)", ordinalOf(apps, a)), pos, !found, det)
			}
		}
	}
	c.Check("event batches handed to Distribute found", token.NoPos, n >= 4, "fewer batch-building appends than confirmed by hand")
	c.Floor(5)
}

func ordinalOf(apps []*ssa.Call, a *ssa.Call) int {
	for i, x := range apps {
		if x == a {
			return i + 1
		}
	}
	return 0
}

func hasTypeParamRecv(fn *ssa.Function) bool {
	r := fn.Signature.Recv()
	if r == nil {
		return false
	}
	t := r.Type()
	if pt, ok := t.(*types.Pointer); ok {
		t = pt.Elem()
	}
	if nt, ok := t.(*types.Named); ok {
		return nt.TypeParams().Len() > 0 && nt.TypeArgs().Len() == 0 || nt.Origin() == nt && nt.TypeParams().Len() > 0
	}
	return false
}


// isSingleAppend: append(s, e1[, e2...]) with explicit elements (go/ssa packs them into a "varargs" array), as opposed
// to append(s, other...).
func isSingleAppend(call *ssa.Call) bool {
	if len(call.Call.Args) != 2 {
		return false
	}
	sl, ok := call.Call.Args[1].(*ssa.Slice)
	if !ok {
		return false
	}
	a, ok := sl.X.(*ssa.Alloc)
	return ok && a.Comment == "varargs"
}


// feedsBatch: the slice value `batch` is (through phis and further appends) built on top of the result of `src`.
func feedsBatch(batch, src ssa.Value, depth int, seen map[ssa.Value]bool) bool {
	if batch == src {
		return true
	}
	if depth > 40 || seen[batch] {
		return false
	}
	seen[batch] = true
	switch x := batch.(type) {
	case *ssa.Phi:
		for _, e := range x.Edges {
			if feedsBatch(e, src, depth+1, seen) {
				return true
			}
		}
	case *ssa.Call:
		if isAppendCall(x) && len(x.Call.Args) > 0 {
			return feedsBatch(x.Call.Args[0], src, depth+1, seen)
		}
	case *ssa.Slice:
		return feedsBatch(x.X, src, depth+1, seen)
	}
	return false
}


// C16-R8: snapshot-then-publish. For every krt type with a `mu` field: in no method is a mutable field of the receiver
// read while mu is held, mu then released (not by defer), acquired again, and a mutable field written. What is written in
// the second critical section was computed from a view that events applied in between have already changed (e.g. an index
// built under RLock and published under a later Lock permanently misses the object added in between).
func c16r8(c *Ctx) {
	p := c.P
	// mutable fields: written outside constructors
	mutable := map[*types.Var]bool{}
	for _, fn := range p.AllFuncs {
		if funcPkgPath(fn) != istioMod+"/"+pkgKrt || strings.HasSuffix(p.Fset.Position(fn.Pos()).Filename, "_test.go") {
			continue
		}
		root := fn
		for root.Parent() != nil {
			root = root.Parent()
		}
		ln := strings.ToLower(root.Name())
		if strings.HasPrefix(ln, "new") || strings.HasPrefix(ln, "with") {
			continue
		}
		e := effectsOfFuncs([]*ssa.Function{fn})
		for f := range e.Writes {
			mutable[f] = true
		}
	}
	n := 0
	chosen := map[*ssa.Function]bool{}
	for _, fn := range p.AllFuncs {
		if funcPkgPath(fn) != istioMod+"/"+pkgKrt || strings.HasSuffix(p.Fset.Position(fn.Pos()).Filename, "_test.go") || fn.Parent() != nil {
			continue
		}
		if fn.Synthetic != "" && !strings.HasPrefix(fn.Synthetic, "instance of") {
			continue
		}
		if o := fn.Origin(); o != nil && o != fn {
			if chosen[o] {
				continue
			}
			chosen[o] = true
		}
		if fn.Signature.Recv() == nil || len(fn.Params) == 0 {
			continue
		}
		rs := structOf(fn.Signature.Recv().Type())
		if rs == nil {
			continue
		}
		var muF *types.Var
		for i := 0; i < rs.NumFields(); i++ {
			if rs.Field(i).Name() == "mu" {
				muF = origVar(rs.Field(i))
			}
		}
		if muF == nil {
			continue
		}
		recv := fn.Params[0]
		onMu := func(ins ssa.Instruction, names ...string) bool {
			ci, ok := ins.(ssa.CallInstruction)
			if !ok {
				return false
			}
			if _, isDefer := ins.(*ssa.Defer); isDefer {
				return false
			}
			o := calleeObj(ins)
			if o == nil {
				return false
			}
			hit := false
			for _, nm := range names {
				if o.Name() == nm {
					hit = true
				}
			}
			if !hit || len(ci.Common().Args) == 0 {
				return false
			}
			fa, ok := ci.Common().Args[0].(*ssa.FieldAddr)
			return ok && fa.X == ssa.Value(recv) && origVar(fieldVar(fa.X.Type(), fa.Field)) == muF
		}
		isLock := func(ins ssa.Instruction) bool { return onMu(ins, "Lock", "RLock") }
		isUnlock := func(ins ssa.Instruction) bool { return onMu(ins, "Unlock", "RUnlock") }
		// how a field address rooted at the receiver is used, descending into nested structs; a map held in the field
		// counts as written when it is updated or deleted from
		var leafUse func(fa *ssa.FieldAddr, depth int) (r, w bool)
		leafUse = func(fa *ssa.FieldAddr, depth int) (r, w bool) {
			fv := origVar(fieldVar(fa.X.Type(), fa.Field))
			mut := mutable[fv]
			if fa.Referrers() == nil || depth > 4 {
				return mut, mut
			}
			for _, ref := range *fa.Referrers() {
				switch x := ref.(type) {
				case *ssa.FieldAddr:
					r2, w2 := leafUse(x, depth+1)
					r, w = r || r2, w || w2
				case *ssa.Store:
					if x.Addr == ssa.Value(fa) && mut {
						w = true
					}
				case *ssa.UnOp:
					if x.Op != token.MUL || !mut {
						continue
					}
					r = true
					if x.Referrers() != nil {
						for _, r2 := range *x.Referrers() {
							switch y := r2.(type) {
							case *ssa.MapUpdate:
								if y.Map == ssa.Value(x) {
									w = true
								}
							case *ssa.Call:
								if bi, ok := y.Call.Value.(*ssa.Builtin); ok && bi.Name() == "delete" && len(y.Call.Args) > 0 && y.Call.Args[0] == ssa.Value(x) {
									w = true
								}
							}
						}
					}
				case ssa.CallInstruction:
					if mut {
						r = true
					}
				}
			}
			return r, w
		}
		access := func(ins ssa.Instruction, write bool) bool {
			fa, ok := ins.(*ssa.FieldAddr)
			if !ok || fa.X != ssa.Value(recv) {
				return false
			}
			if origVar(fieldVar(fa.X.Type(), fa.Field)) == muF {
				return false
			}
			r, w := leafUse(fa, 0)
			if write {
				return w
			}
			return r
		}
		locks := 0
		eachInstr(fn, func(ins ssa.Instruction) {
			if isLock(ins) {
				locks++
			}
		})
		if locks == 0 {
			continue
		}
		n++
		// read (under the first lock) -> unlock -> lock -> write
		var witness ssa.Instruction
		eachInstr(fn, func(l1 ssa.Instruction) {
			if witness != nil || !isLock(l1) {
				return
			}
			// a guarded read after l1 before any unlock
			rd := pathAvoiding(fn, l1, isUnlock, func(i ssa.Instruction) bool { return access(i, false) })
			if rd == nil {
				return
			}
			un := pathAvoiding(fn, rd, func(ssa.Instruction) bool { return false }, isUnlock)
			if un == nil {
				return
			}
			l2 := pathAvoiding(fn, un, func(ssa.Instruction) bool { return false }, isLock)
			if l2 == nil {
				return
			}
			wr := pathAvoiding(fn, l2, isUnlock, func(i ssa.Instruction) bool { return access(i, true) })
			if wr != nil {
				witness = wr
			}
		})
		pos := fn.Pos()
		det := ""
		if witness != nil {
			pos = witness.Pos()
			det = "this method reads mutable state of the collection under its lock, releases the lock, takes it again and writes state at " + p.pos(witness.Pos()) + ": an event applied between the two critical sections is missing from what is published (e.g. an index that permanently lacks the object added while it was being built), so lookups disagree with List()"
		}
		c.Check("single critical section between reading and publishing state: "+stableFnName(fn), pos, witness == nil, det)
	}
	c.Check("methods of mutex-protected krt types examined", token.NoPos, n >= 20, "fewer locking methods than confirmed by hand")
	c.Floor(20)
}


// C16-R9: a (checked) join shows, for a key held by several joined collections, the object of the first collection only.
// Every method of join / joinIndexer that loops over the joined collections (or their indexers) and returns or appends
// what they hold therefore resolves overlaps inside that loop: it returns at the first hit, or consults a seen-set
// (Contains / InsertContains), or asks the higher-priority collections (getFromColIdx); a loop under the
// uncheckedOverlap edge is exempt. A read path without any of these (an index Lookup that simply concatenates) returns
// a key twice, or the shadowed lower-priority copy, and disagrees with List().
func c16r9(c *Ctx) {
	p := c.P
	n := 0
	chosen := map[*ssa.Function]bool{}
	for _, fn := range p.AllFuncs {
		if os.Getenv("VERIF_DEBUG_R9") != "" && strings.Contains(fn.String(), "joinIndexer") {
			fmt.Println("R9 DEBUG", fn.String(), "|", fn.Synthetic, "|", funcPkgPath(fn), fn.Parent() != nil)
		}
		if funcPkgPath(fn) != istioMod+"/"+pkgKrt || strings.HasSuffix(p.Fset.Position(fn.Pos()).Filename, "_test.go") || fn.Parent() != nil {
			continue
		}
		if fn.Synthetic != "" && !strings.HasPrefix(fn.Synthetic, "instance of") {
			continue
		}
		if o := fn.Origin(); o != nil && o != fn {
			if chosen[o] {
				continue
			}
			chosen[o] = true
		}
		if fn.Signature.Recv() == nil {
			continue
		}
		rn, _ := derefNamed(fn.Signature.Recv().Type())
		if rn == nil || (rn.Obj().Name() != "join" && rn.Obj().Name() != "joinIndexer") {
			continue
		}
		// read paths only: the method returns objects (a slice or a pointer), not registrations / dumps
		res := fn.Signature.Results()
		if res.Len() != 1 {
			continue
		}
		switch res.At(0).Type().Underlying().(type) {
		case *types.Slice, *types.Pointer:
		default:
			continue
		}
		unchecked := edgesWhere(fn, func(v ssa.Value) bool {
			fv := fieldOfLoad(v)
			return fv != nil && fv.Name() == "uncheckedOverlap"
		}, true)
		for _, l := range rangeLoops(fn) {
			if l.Over == nil || l.Body == nil {
				continue
			}
			fv := fieldOfLoad(l.Over)
			if fv == nil || (fv.Name() != "collections" && fv.Name() != "indexers") {
				continue
			}
			if underEdges(fn, l.Body, unchecked) {
				continue
			}
			// does the loop hand objects on?
			hands := false
			resolves := false
			var scan func(f *ssa.Function, inBody func(*ssa.BasicBlock) bool)
			scan = func(f *ssa.Function, inBody func(*ssa.BasicBlock) bool) {
				for _, b := range f.Blocks {
					if !inBody(b) {
						continue
					}
					for _, ins := range b.Instrs {
						if isAppendCall(ins) {
							hands = true
						}
						if r, ok := ins.(*ssa.Return); ok && f == fn && len(r.Results) == 1 {
							if k, isC := r.Results[0].(*ssa.Const); !isC || !k.IsNil() {
								hands, resolves = true, true // first hit wins
							}
						}
						if deepMay(func(i ssa.Instruction) bool {
							o := calleeObj(i)
							if o == nil {
								return false
							}
							switch o.Name() {
							case "InsertContains", "Contains", "getFromColIdx":
								return true
							}
							return false
						}, 2)(ins) {
							resolves = true
						}
						if mk, ok := ins.(*ssa.MakeClosure); ok {
							if lit, ok := mk.Fn.(*ssa.Function); ok {
								scan(lit, func(*ssa.BasicBlock) bool { return true })
							}
						}
					}
				}
			}
			scan(fn, func(b *ssa.BasicBlock) bool { return l.Body.Dominates(b) })
			if !hands {
				continue
			}
			n++
			c.Check("join read path resolves overlapping keys: "+stableFnName(fn), l.Body.Instrs[0].Pos(), resolves,
				"this method walks the joined "+fv.Name()+" and hands on what each of them holds without resolving keys held by more than one of them (List and GetKey keep the first collection's object): for an overlapping key the result contains the object twice, or the shadowed lower-priority copy, so index lookups and filtered fetches disagree with List()")
		}
	}
	c.Check("join read paths found", token.NoPos, n >= 3, "fewer read paths over the joined collections than confirmed by hand (List, GetKey, index Lookup)")
	c.Floor(4)
}


// C16-R10: subscribe, then snapshot.
func c16r10(c *Ctx) {
	p := c.P
	n := 0
	chosen := map[*ssa.Function]bool{}
	for _, fn := range p.AllFuncs {
		if funcPkgPath(fn) != istioMod+"/"+pkgKrt || strings.HasSuffix(p.Fset.Position(fn.Pos()).Filename, "_test.go") {
			continue
		}
		if fn.Synthetic != "" && !strings.HasPrefix(fn.Synthetic, "instance of") {
			continue
		}
		root := fn
		for root.Parent() != nil {
			root = root.Parent()
		}
		if o := root.Origin(); o != nil && o != root {
			continue // the generic body is analysed (it is in the universe), instances are copies
		}
		_ = chosen
		type site struct {
			ins  ssa.Instruction
			recv ssa.Value
		}
		var regs, lists []site
		eachInstr(fn, func(ins ssa.Instruction) {
			ci, ok := ins.(ssa.CallInstruction)
			if !ok {
				return
			}
			cc := ci.Common()
			name := ""
			var recv ssa.Value
			if cc.IsInvoke() {
				name, recv = cc.Method.Name(), cc.Value
			} else if o := calleeObj(ins); o != nil && len(cc.Args) > 0 {
				name, recv = o.Name(), cc.Args[0]
			}
			switch name {
			case "RegisterBatch", "Register":
				// without replay of the existing state
				args := cc.Args
				if len(args) > 0 {
					if b, isC := constBool(args[len(args)-1]); isC && !b {
						regs = append(regs, site{ins, recv})
					}
				}
			case "List":
				lists = append(lists, site{ins, recv})
			}
		})
		for _, l := range lists {
			for _, r := range regs {
				if !(l.recv == r.recv || sameValue(l.recv, r.recv)) {
					continue
				}
				n++
				ok := precededOnAllPaths(fn, l.ins, func(i ssa.Instruction) bool { return i == r.ins })
				c.Check("snapshot taken after subscribing: "+stableFnName(fn), l.ins.Pos(), ok,
					"this function lists a collection and subscribes to it without replay, and the list can be taken before the subscription is in place: an element added in between is neither in the snapshot nor announced (e.g. a nested join never subscribes to a collection added during its construction; its objects are missing for good)")
			}
		}
	}
	c.Check("subscribe-and-list sites found", token.NoPos, n >= 1, "no function that subscribes without replay and lists the same collection (NestedJoinWithMergeCollection)")
	c.Floor(2)
}

// C16-R11: grow-only extractor registry.
func c16r11(c *Ctx) {
	p := c.P
	reg := p.Field(pkgKrt, "dependencyState", "indexedDependenciesExtractor")
	rev := p.Field(pkgKrt, "dependencyState", "indexedDependencies")
	nDel, nCtl := 0, 0
	var pos token.Pos
	var where string
	for _, fn := range p.AllFuncs {
		if funcPkgPath(fn) != istioMod+"/"+pkgKrt || strings.HasSuffix(p.Fset.Position(fn.Pos()).Filename, "_test.go") {
			continue
		}
		eachInstr(fn, func(ins ssa.Instruction) {
			ci, ok := ins.(ssa.CallInstruction)
			if !ok {
				return
			}
			isDelete := false
			if bi, ok := ci.Common().Value.(*ssa.Builtin); ok && bi.Name() == "delete" {
				isDelete = true
			} else if o := calleeObj(ins); o != nil && strings.HasPrefix(o.Name(), "Delete") {
				isDelete = true
			}
			if !isDelete {
				return
			}
			for _, a := range ci.Common().Args {
				switch fieldOfLoad(a) {
				case reg:
					nDel++
					pos, where = ins.Pos(), stableFnName(fn)
				case rev:
					nCtl++
				}
			}
		})
	}
	c.Check("nothing deletes from the shared extractor registry", pos, nDel == 0,
		"an entry of indexedDependenciesExtractor is deleted in "+where+": the entry (e.g. the `this collection is also fetched un-indexed` marker) is shared by all inputs of the derived collection and not reference counted, so removing it because ONE input went away makes changedInputKeys trust the reverse index alone and the remaining un-indexed fetchers are never recomputed on secondary changes (derived state stays stale)")
	c.Check("positive control: deletions from the per-input reverse index are recognised", token.NoPos, nCtl >= 1, "the deletion detector no longer sees the DeleteCleanupLast calls on indexedDependencies")
	c.Floor(2)
}

// C16-R12: every subscriber gets its own copy of a batch. Derived collections rewrite the events they receive in place
// (an Add of an input that has since disappeared becomes a Delete: manyCollection.onPrimaryInputEvent,
// mergejoin.refreshEventsLocked) while slower subscribers of the same collection still have the batch queued. In
// handlerSet.Distribute the slice handed to each listener is a copy made for that listener (a Clone / copy call inside
// the loop), never the parameter itself or one value shared by all passes.
func c16r12(c *Ctx) {
	p := c.P
	n := 0
	for _, fn := range p.AllFuncs {
		if funcPkgPath(fn) != istioMod+"/"+pkgKrt || fn.Name() != "Distribute" || fn.Signature.Recv() == nil || isWrapperFn(fn) || len(fn.Blocks) == 0 {
			continue
		}
		recv := fn.Signature.Recv().Type().String()
		if !strings.Contains(recv, "handlerSet") {
			continue
		}
		headers := map[*ssa.BasicBlock]bool{}
		for _, b := range fn.Blocks {
			for _, pr := range b.Preds {
				if b.Dominates(pr) {
					headers[b] = true
				}
			}
		}
		eachInstr(fn, func(ins ssa.Instruction) {
			call, ok := ins.(*ssa.Call)
			if !ok {
				return
			}
			o := calleeObj(call)
			if o == nil {
				return
			}
			if o.Name() != "send" {
				// a per-listener helper that makes the copy itself: a method of the listener that clones its slice
				// parameter and hands the clone to send
				sc := call.Call.StaticCallee()
				if sc != nil && sc.Origin() != nil && (len(sc.Blocks) == 0 || strings.HasPrefix(sc.Synthetic, "instantiation wrapper")) {
					sc = sc.Origin() // inside a generic body the callee is an instantiation wrapper over the type parameters
				}
				if sc == nil || len(sc.Blocks) == 0 || funcPkgPath(sc) != funcPkgPath(fn) {
					return
				}
				clones := false
				eachInstr(sc, func(i2 ssa.Instruction) {
					c2, ok := i2.(*ssa.Call)
					if !ok {
						return
					}
					if o2 := calleeObj(c2); o2 != nil && o2.Name() == "send" {
						for _, a := range c2.Call.Args {
							if cp, isCall := a.(*ssa.Call); isCall {
								if co := calleeObj(cp); co != nil && (co.Name() == "Clone" || co.Name() == "Copy") {
									for _, ca := range cp.Call.Args {
										if _, isPar := ca.(*ssa.Parameter); isPar {
											clones = true
										}
									}
								}
							}
						}
					}
				})
				if !clones {
					return
				}
				inLoop := false
				for h := range headers {
					if h.Dominates(call.Block()) && h != call.Block() {
						inLoop = true
					}
				}
				n++
				c.Check("each listener is sent its own copy of the batch: "+stableFnName(fn), call.Pos(), inLoop, "the copying send helper is not called once per listener")
				return
			}
			// the slice argument
			var arg ssa.Value
			for _, a := range call.Call.Args {
				if _, isSl := a.Type().Underlying().(*types.Slice); isSl {
					arg = a
				}
			}
			if arg == nil {
				return
			}
			n++
			fresh := false
			if cp, isCall := arg.(*ssa.Call); isCall {
				if co := calleeObj(cp); co != nil && (co.Name() == "Clone" || co.Name() == "Copy") {
					// made in the same pass: inside a loop that contains the send
					for h := range headers {
						if h.Dominates(call.Block()) && h.Dominates(cp.Block()) && cp.Block() != h {
							fresh = true
						}
					}
				}
				if bi, isB := cp.Call.Value.(*ssa.Builtin); isB && bi.Name() == "append" {
					if k, isC := cp.Call.Args[0].(*ssa.Const); isC && k.IsNil() {
						fresh = true // append([]T(nil), events...)
					}
				}
			}
			c.Check("each listener is sent its own copy of the batch: "+stableFnName(fn), call.Pos(), fresh,
				"Distribute hands the same event slice to several listeners: derived collections rewrite a batch in place when they process it (an Add whose input has disappeared becomes a Delete), so a slower subscriber of the same collection reads rewritten events - a delete of a key it never saw added, or a dropped add - and the per-subscriber event stream is no longer a consistent history of the collection")
		})
	}
	c.Check("handlerSet.Distribute sends to its listeners", token.NoPos, n >= 1, "no send call found in handlerSet.Distribute")
	c.Floor(2)
}
