package main

import (
	"fmt"
	"sort"
	"go/token"
	"go/types"
	"strings"

	"golang.org/x/tools/go/ssa"
)

func init() {
	register(&PropDef{
		ID: "C13",
		Clauses: []string{
			"R1 lock discipline: EndpointIndex.shardsBySvc only under e.mu, EndpointShards.Shards/ServiceAccounts only under the shard's own lock; helpers documented as lock-requiring are called with it held",
			"R2 no lost update: a shard set obtained from the index (after the index lock was released) is not written unless the index lock is held again; insertion into the index is a check-then-insert under one write lock",
			"R3 every function that mutates a shard set or unlinks one clears the service's cache entries on every path after the mutation (shared with C06-R5)",
		},
		NotDecided: "subset/health/network filters, locality grouping and weights, the push-type decision (endpointUpdateRequiresPush)",
		Rules: []Rule{
			{"C13-R1", "endpoint index lock discipline", c13r1},
			{"C13-R2", "no write to an unlinked shard set", c13r2},
			{"C13-R3", "cache cleared with every mutation", c13r3},
			{"C13-R4", "a delete that may leave a shard set empty reaches the unlink decision", c13r4},
			{"C13-R5", "foreign-cluster shards are merged only after the cluster-local and node-local tests", c13r5},
			{"C13-R6", "the endpoint diff key is injective on the wire identity of a member", c13r6},
			{"C13-R7", "a cluster named in the update is not declared unaffected by the host's current resolution", c13r7},
		},
	})
}

func c13r1(c *Ctx) {
	p := c.P
	checkGuards(c, GuardSpec{
		Name: "EndpointIndex", Struct: p.Named(pkgModel, "EndpointIndex"), Guard: "mu",
		Fields: map[string]bool{"shardsBySvc": true},
		Locked: map[string]int{"(*pilot/pkg/model.EndpointIndex).deleteServiceInner": modeW},
		Exempt: map[string]string{"pilot/pkg/model.NewEndpointIndex": "constructor"},
	})
	checkGuards(c, GuardSpec{
		Name: "EndpointShards", Struct: p.Named(pkgModel, "EndpointShards"), Guard: "RWMutex",
		Fields: map[string]bool{"Shards": true, "ServiceAccounts": true, "unlinked": true},
		Locked: map[string]int{"pilot/pkg/model.updateShardServiceAccount": modeW, "(*pilot/pkg/model.EndpointShards).Keys": modeR},
		Exempt: map[string]string{},
	})
	c.Floor(25)
}

func c13r2(c *Ctx) {
	p := c.P
	getters := []*types.Func{p.FuncObj(pkgModel, "EndpointIndex", "GetOrCreateEndpointShard"), p.FuncObj(pkgModel, "EndpointIndex", "ShardsForService")}
	shardsF := p.Field(pkgModel, "EndpointShards", "Shards")
	saF := p.Field(pkgModel, "EndpointShards", "ServiceAccounts")
	n := 0
	for _, fn := range p.AllFuncs {
		if strings.HasSuffix(p.Fset.Position(fn.Pos()).Filename, "_test.go") || fn.Synthetic != "" {
			continue
		}
		var handles []ssa.Value
		var idx []ssa.Value // the EndpointIndex receiver the handle came from
		eachInstr(fn, func(ins ssa.Instruction) {
			call, ok := ins.(*ssa.Call)
			if !ok || !isCallTo(call, getters...) {
				return
			}
			for _, r := range *call.Referrers() {
				if ex, ok := r.(*ssa.Extract); ok && ex.Index == 0 {
					handles = append(handles, ex)
					idx = append(idx, call.Call.Args[0])
				}
			}
		})
		if len(handles) == 0 {
			continue
		}
		unlinked := p.Field(pkgModel, "EndpointShards", "unlinked")
		la := newLockAnalysis(p)
		la.run(fn, lockset{}, func(ins ssa.Instruction, held lockset) {
			// writes through a handle: MapUpdate / delete / store on handle.Shards, handle.ServiceAccounts,
			// or a call of a function that writes them with the handle as argument
			var base ssa.Value
			what := ""
			switch x := ins.(type) {
			case *ssa.MapUpdate:
				if fv := fieldOfLoad(x.Map); fv == shardsF || fv == saF {
					base, _ = fieldLoadOf(x.Map, fv)
					what = "map update of " + fv.Name()
				}
			case *ssa.Store:
				if fa, ok := x.Addr.(*ssa.FieldAddr); ok {
					if fv := fieldVar(fa.X.Type(), fa.Field); fv == shardsF || fv == saF {
						base, what = fa.X, "store to "+fv.Name()
					}
				}
			case ssa.CallInstruction:
				cc := x.Common()
				if bi, ok := cc.Value.(*ssa.Builtin); ok && bi.Name() == "delete" {
					if fv := fieldOfLoad(cc.Args[0]); fv == shardsF || fv == saF {
						base, _ = fieldLoadOf(cc.Args[0], fv)
						what = "delete from " + fv.Name()
					}
				}
			}
			if base == nil {
				return
			}
			for i, h := range handles {
				if base != h && !phiContains(base, h) {
					continue
				}
				n++
				need := pathOf(idx[i]) + ".mu"
				okh := held[need] >= modeR
				if !okh {
					// re-validation: the write is under the `not unlinked` edge of a test of handle.unlinked, and the handle's
					// own lock is held at the write (the tombstone is set by unlinkers under that lock)
					var live []Edge
					for _, iff := range allIfs(fn) {
						v, neg := stripNot(iff.Cond)
						if fieldOfLoad(v) != unlinked {
							continue
						}
						if b, _ := fieldLoadOf(v, unlinked); b != h && !phiContains(b, h) && !phiContains(h, b) {
							continue
						}
						idx := 1
						if neg {
							idx = 0
						}
						live = append(live, Edge{iff.Block(), idx})
					}
					ownLock := false
					for k, m := range held {
						if strings.HasSuffix(k, ".RWMutex") && m >= modeW {
							ownLock = true
						}
					}
					okh = ownLock && underEdges(fn, ins.Block(), live)
				}
				c.Check("write through a shard-set handle holds the index lock:"+shortFn(fn), ins.Pos(), okh,
					what+" on a *EndpointShards that was looked up in the index and then used after the index lock was released: a concurrent delete of the service's last shard (deleteServiceInner with preserveKeys=false, from DeleteShard/PruneShard/DeleteServiceShard) can unlink this shard set in between, and the registry's latest report is then written into an object nobody reads (lost until that registry reports again)")
			}
		})
	}
	// every unlink sets the tombstone: a delete from a map of shard sets is followed on every path by unlinked = true
	unlinkedF := p.Field(pkgModel, "EndpointShards", "unlinked")
	nu := 0
	for _, fn := range p.AllFuncs {
		if funcPkgPath(fn) != istioMod+"/"+pkgModel || strings.HasSuffix(p.Fset.Position(fn.Pos()).Filename, "_test.go") || fn.Synthetic != "" {
			continue
		}
		eachInstr(fn, func(ins ssa.Instruction) {
			ci, ok := ins.(ssa.CallInstruction)
			if !ok {
				return
			}
			bi, ok := ci.Common().Value.(*ssa.Builtin)
			if !ok || bi.Name() != "delete" {
				return
			}
			mt, ok := ci.Common().Args[0].Type().Underlying().(*types.Map)
			if !ok {
				return
			}
			if nn, ok := derefNamed(mt.Elem()); !ok || nn.Obj().Name() != "EndpointShards" {
				return
			}
			nu++
			bad := pathAvoiding(fn, ins, func(i ssa.Instruction) bool {
				st, ok := i.(*ssa.Store)
				if !ok {
					return false
				}
				fa, ok := st.Addr.(*ssa.FieldAddr)
				if !ok || fieldVar(fa.X.Type(), fa.Field) != unlinkedF {
					return false
				}
				b, isC := constBool(st.Val)
				return isC && b
			}, isReturn)
			c.Check("unlinking a shard set marks it unlinked:"+shortFn(fn), ins.Pos(), bad == nil, "a shard set is removed from the index without being marked unlinked: a writer that looked it up earlier cannot notice and writes into the orphan (lost update)")
		})
	}
	c.Check("unlink sites found", token.NoPos, nu >= 1, "no site removing a shard set from the index found")
	c.Check("writes through looked-up shard sets found", token.NoPos, n >= 1, "no such write found (the rule's positive instance on the pinned tree is UpdateServiceEndpoints)")
	// check-then-insert under one write lock in GetOrCreateEndpointShard
	goc := p.Func(pkgModel, "EndpointIndex", "GetOrCreateEndpointShard")
	bySvc := p.Field(pkgModel, "EndpointIndex", "shardsBySvc")
	la := newLockAnalysis(p)
	lookupsUnderW := map[*ssa.Lookup]bool{}
	la.run(goc, lockset{}, func(ins ssa.Instruction, held lockset) {
		if lk, ok := ins.(*ssa.Lookup); ok && lk.CommaOk && held["e.mu"] >= modeW {
			lookupsUnderW[lk] = true
		}
	})
	m := 0
	eachInstr(goc, func(ins ssa.Instruction) {
		mu, ok := ins.(*ssa.MapUpdate)
		if !ok {
			return
		}
		// only the insertion of a shard set (value type *EndpointShards) or of the per-service map
		if _, isPtr := mu.Value.Type().Underlying().(*types.Pointer); !isPtr {
			if fieldOfLoad(mu.Map) != bySvc {
				return
			}
		}
		m++
		var notFound []Edge
		for _, i := range allIfs(goc) {
			if ex, ok := i.Cond.(*ssa.Extract); ok && ex.Index == 1 {
				if lk, ok := ex.Tuple.(*ssa.Lookup); ok && lookupsUnderW[lk] && (lk.X == mu.Map || sameValue(lk.X, mu.Map)) {
					notFound = append(notFound, Edge{i.Block(), 1})
				}
			}
		}
		c.Check("index insertion is check-then-insert under the write lock", mu.Pos(), underEdges(goc, mu.Block(), notFound),
			"a shard set (or per-service map) is installed in the index without re-checking, under the same write lock, that none exists: two registries reporting a new service concurrently both miss the read-locked fast path and the second install overwrites the first registry's shard set")
	})
	c.Check("index insertions found", goc.Pos(), m >= 2, "expected the per-service map and the shard set insertions")
	c.Floor(4)
}

func c13r3(c *Ctx) {
	p := c.P
	shardsF := p.Field(pkgModel, "EndpointShards", "Shards")
	clear := p.FuncObj(pkgModel, "EndpointIndex", "clearCacheForService")
	n := 0
	for _, fn := range p.AllFuncs {
		if funcPkgPath(fn) != istioMod+"/"+pkgModel || strings.HasSuffix(p.Fset.Position(fn.Pos()).Filename, "_test.go") || fn.Synthetic != "" {
			continue
		}
		eachInstr(fn, func(ins ssa.Instruction) {
			isMut := false
			switch x := ins.(type) {
			case *ssa.MapUpdate:
				isMut = fieldOfLoad(x.Map) == shardsF
			case ssa.CallInstruction:
				cc := x.Common()
				if bi, ok := cc.Value.(*ssa.Builtin); ok && bi.Name() == "delete" && fieldOfLoad(cc.Args[0]) == shardsF {
					isMut = true
				}
			}
			if !isMut {
				return
			}
			// constructors / copies write into fresh objects
			if b, _ := fieldLoadOf(mapOperand(ins), shardsF); b != nil {
				if strings.HasPrefix(pathOf(b), "alloc:") {
					return
				}
			}
			n++
			isClear := func(i ssa.Instruction) bool {
				if isCallTo(i, clear) {
					return true
				}
				o := calleeObj(i)
				return o != nil && o.Name() == "ClearAll"
			}
			bad := pathAvoiding(fn, ins, isClear, isReturn)
			c.Check("shard mutation is followed by a cache clear:"+shortFn(fn), ins.Pos(), bad == nil,
				"a shard set is mutated on a path that returns without clearing the service's cached EDS/CDS entries: a response generated from the old endpoints can be served (or re-inserted) after the change was accepted")
		})
	}
	c.Check("shard mutations found", token.NoPos, n >= 2, "fewer mutation sites than confirmed by hand")
	c.Floor(3)
}

func mapOperand(ins ssa.Instruction) ssa.Value {
	switch x := ins.(type) {
	case *ssa.MapUpdate:
		return x.Map
	case ssa.CallInstruction:
		if len(x.Common().Args) > 0 {
			return x.Common().Args[0]
		}
	}
	return nil
}

// phiContains: v is a phi (transitively) one of whose incoming values is x.
func phiContains(v, x ssa.Value) bool {
	var ls []ssa.Value
	phiLeaves(v, map[ssa.Value]bool{}, &ls)
	if len(ls) == 1 && ls[0] == v {
		return false
	}
	for _, l := range ls {
		if l == x {
			return true
		}
	}
	return false
}


// C13-R4: deleteServiceInner is the only path that removes a service's entry from the index (DeleteServiceShard,
// DeleteShard, PruneShard). Once it holds the shard-set lock, every path on which keys are not to be preserved reaches
// the "is the set empty now?" decision before it returns: an early return (e.g. "this registry had nothing here") would
// leave an empty entry - and its ServiceAccounts - in the index after the service or registry is gone.
func c13r4(c *Ctx) {
	p := c.P
	fn := p.Func(pkgModel, "EndpointIndex", "deleteServiceInner")
	shardsF := p.Field(pkgModel, "EndpointShards", "Shards")
	pk := paramNamed(fn, "preserveKeys")
	var lock ssa.Instruction
	eachInstr(fn, func(ins ssa.Instruction) {
		if o := calleeObj(ins); o != nil && o.Name() == "Lock" && lock == nil {
			lock = ins
		}
	})
	if lock == nil {
		c.Check("deleteServiceInner takes the shard-set lock", fn.Pos(), false, "no Lock call found")
		return
	}
	// the emptiness decision: an If on len(<x>.Shards) == 0
	isEmptyTest := func(ins ssa.Instruction) bool {
		i, ok := ins.(*ssa.If)
		if !ok {
			return false
		}
		v, _ := stripNot(i.Cond)
		b, ok := v.(*ssa.BinOp)
		if !ok {
			return false
		}
		for _, side := range []ssa.Value{b.X, b.Y} {
			if call, ok := side.(*ssa.Call); ok {
				if bi, ok := call.Call.Value.(*ssa.Builtin); ok && bi.Name() == "len" && fieldOfLoad(call.Call.Args[0]) == shardsF {
					return true
				}
			}
		}
		return false
	}
	// edges on which keys are preserved
	var keep []Edge
	for _, i := range allIfs(fn) {
		v, neg := stripNot(i.Cond)
		if v == ssa.Value(pk) {
			idx := 0
			if neg {
				idx = 1
			}
			keep = append(keep, Edge{i.Block(), idx})
		}
	}
	c.Check("deleteServiceInner tests preserveKeys", fn.Pos(), len(keep) >= 1, "no test of preserveKeys found")
	n := 0
	eachInstr(fn, func(ins ssa.Instruction) {
		if isEmptyTest(ins) {
			n++
		}
	})
	c.Check("deleteServiceInner has the emptiness decision", fn.Pos(), n >= 1, "no `len(Shards) == 0` decision found")
	bad, found := pathAvoidingE(nil, lock, isEmptyTest, isReturn, keep, nil)
	pos := fn.Pos()
	if found && bad != nil {
		pos = bad.Pos()
	}
	c.Check("after locking, a non-preserving delete always reaches the emptiness decision", pos, !found,
		"deleteServiceInner can return, with preserveKeys false, without deciding whether the shard set became empty: after `endpoints -> none (keys preserved) -> service deleted / registry removed`, the empty entry and its ServiceAccounts stay in the EndpointIndex, keep feeding secure-naming SANs, and a re-created service is treated as known (incremental instead of full push)")
	c.Floor(3)
}

// C13-R5: shards of other clusters. snapshotShards merges the per-cluster shards of a service for one proxy; a shard of a
// cluster other than the proxy's is taken only after BOTH confinement attributes were looked at: the service being
// cluster-local, and the service being node-local (node names are unique only within a cluster, so the per-endpoint node
// test further down cannot stand in for the shard-level skip). Every path from the "foreign cluster" edge to the append
// passes a branch on EndpointBuilder.clusterLocal and a branch on ServiceAttributes.NodeLocal.
func c13r5(c *Ctx) {
	p := c.P
	fn := p.Func("pilot/pkg/xds/endpoints", "EndpointBuilder", "snapshotShards")
	var foreign []Edge
	for _, i := range allIfs(fn) {
		v, neg := stripNot(i.Cond)
		b, ok := v.(*ssa.BinOp)
		if !ok || (b.Op != token.EQL && b.Op != token.NEQ) {
			continue
		}
		fx, fy := fieldOfLoad(b.X), fieldOfLoad(b.Y)
		if fx == nil || fy == nil {
			continue
		}
		names := map[string]bool{fx.Name(): true, fy.Name(): true}
		if !names["Cluster"] || !names["clusterID"] {
			continue
		}
		idx := 0
		if (b.Op == token.EQL) != neg {
			idx = 1
		}
		foreign = append(foreign, Edge{i.Block(), idx})
	}
	c.Check("snapshotShards: the foreign-cluster test found", fn.Pos(), len(foreign) == 1, "expected one comparison of the shard's cluster with the proxy's cluster")
	isAppend := func(ins ssa.Instruction) bool {
		call, ok := ins.(*ssa.Call)
		if !ok {
			return false
		}
		bi, ok := call.Call.Value.(*ssa.Builtin)
		return ok && bi.Name() == "append"
	}
	branchOn := func(field string) func(ssa.Instruction) bool {
		return func(ins ssa.Instruction) bool {
			i, ok := ins.(*ssa.If)
			if !ok {
				return false
			}
			// the condition depends on the field (directly, or through the phi / operator of a hoisted `a || b`)
			seen := map[ssa.Value]bool{}
			var dep func(v ssa.Value, d int) bool
			dep = func(v ssa.Value, d int) bool {
				if v == nil || seen[v] || d > 6 {
					return false
				}
				seen[v] = true
				if f := fieldOfLoad(v); f != nil && f.Name() == field {
					return true
				}
				switch x := v.(type) {
				case *ssa.UnOp:
					return dep(x.X, d+1)
				case *ssa.BinOp:
					return dep(x.X, d+1) || dep(x.Y, d+1)
				case *ssa.Phi:
					for _, e := range x.Edges {
						if dep(e, d+1) {
							return true
						}
					}
				}
				return false
			}
			return dep(i.Cond, 0)
		}
	}
	// every way to the append that does not cross the "same cluster" edge passes both tests
	var same []Edge
	for _, e := range foreign {
		same = append(same, Edge{e.From, 1 - e.Idx})
	}
	for _, field := range []string{"clusterLocal", "NodeLocal"} {
		bad, found := pathAvoidingE(fn.Blocks[0], nil, deepMust(branchOn(field), 1), isAppend, same, nil)
		pos := fn.Pos()
		if bad != nil {
			pos = bad.Pos()
		}
		c.Check("snapshotShards: a foreign cluster's shard is merged only after the "+field+" test", pos, len(foreign) == 1 && !found,
			"a shard of another cluster can be merged into the proxy's endpoints without a branch on "+field+": for a cluster-local service endpoints of other clusters leak in; for a node-local service the proxy on node N of its cluster is given the endpoints on the equally named node of every other cluster (node names are only unique per cluster, the later per-endpoint node test cannot tell them apart)")
	}
	c.Floor(3)
}

// C13-R6: the key that diffs endpoint reports is injective on what identifies a member on the wire. UpdateServiceEndpoints
// decides "push or not" by comparing the old and the reported members through maps keyed by IstioEndpoint.Key(); two members
// that share a key hide each other (a report that drops one of them finds "nothing changed" and proxies keep the removed
// member). A member is identified on the wire by its socket address, so every IstioEndpoint field that reaches the
// address built for the LbEndpoint (the arguments of util.BuildAddress / net.JoinHostPort in buildEnvoyLbEndpoint, by
// backward slice) is read by Key() (through its callees).
func c13r6(c *Ctx) {
	p := c.P
	gen := p.Func("pilot/pkg/xds/endpoints", "", "buildEnvoyLbEndpoint")
	keyFn := p.Func(pkgModel, "IstioEndpoint", "Key")
	epT := p.Struct(pkgModel, "IstioEndpoint")
	wire := map[*types.Var]token.Pos{}
	seen := map[ssa.Value]bool{}
	var back func(v ssa.Value, d int, pos token.Pos)
	back = func(v ssa.Value, d int, pos token.Pos) {
		if v == nil || seen[v] || d > 8 {
			return
		}
		seen[v] = true
		switch x := v.(type) {
		case *ssa.UnOp:
			back(x.X, d+1, pos)
		case *ssa.FieldAddr:
			if structOf(x.X.Type()) == epT {
				if _, ok := wire[fieldVar(x.X.Type(), x.Field)]; !ok {
					wire[fieldVar(x.X.Type(), x.Field)] = pos
				}
			}
		case *ssa.IndexAddr:
			back(x.X, d+1, pos)
		case *ssa.Index:
			back(x.X, d+1, pos)
		case *ssa.Convert:
			back(x.X, d+1, pos)
		case *ssa.ChangeType:
			back(x.X, d+1, pos)
		case *ssa.Phi:
			for _, e := range x.Edges {
				back(e, d+1, pos)
			}
		case *ssa.Call:
			if o := calleeObj(x); o != nil && (o.Name() == "Itoa" || o.Name() == "FormatInt" || o.Name() == "FormatUint") {
				for _, a := range x.Call.Args {
					back(a, d+1, pos)
				}
			}
		}
	}
	nSites := 0
	eachInstr(gen, func(ins ssa.Instruction) {
		call, ok := ins.(*ssa.Call)
		if !ok {
			return
		}
		o := calleeObj(call)
		if o == nil || !(o.Name() == "BuildAddress" || o.Name() == "JoinHostPort" || o.Name() == "BuildAdditionalAddresses") {
			return
		}
		nSites++
		for _, a := range call.Call.Args {
			back(a, 0, call.Pos())
		}
	})
	// ... and by its network: members of different networks may share an address (auto-registered WorkloadEntries of one
	// group are named group-ip-network but carry the group as workload name), and the network decides whether the member is
	// sent as itself or replaced by its network's gateway
	if nf := p.Field(pkgModel, "IstioEndpoint", "Network"); nf != nil {
		if _, ok := wire[nf]; !ok {
			wire[nf] = gen.Pos()
		}
	}
	c.Check("buildEnvoyLbEndpoint builds the member's address", gen.Pos(), nSites >= 1 && len(wire) >= 3, fmt.Sprintf("%d address-building calls, %d IstioEndpoint fields reaching them", nSites, len(wire)))
	keyReads := effectsOf(p.CG().Reach([]*ssa.Function{keyFn}, nil)).Reads
	var names []string
	for f := range wire {
		names = append(names, f.Name())
	}
	sort.Strings(names)
	for _, nm := range names {
		for f, pos := range wire {
			if f.Name() != nm {
				continue
			}
			_, ok := keyReads[f]
			c.Check("the endpoint diff key covers IstioEndpoint."+nm, pos, ok,
				"IstioEndpoint."+nm+" is part of the socket address a member gets in the ClusterLoadAssignment, but IstioEndpoint.Key() - the key under which UpdateServiceEndpoints compares the old and the reported members - does not read it: two members that differ only in it share a key and hide each other, so a report that drops one of them is classified `no push` and connected proxies keep the removed member")
		}
	}
	c.Floor(3)
}

// C13-R7: a cluster named in the update is never declared unaffected because of what its host resolves to NOW. A partial
// EDS push rebuilds the clusters whose host name is among the updated services (affectedService: a match on the host
// name alone). The host of an update names the service that CHANGED - possibly one that was just deleted or un-exported -
// while ServiceForHostname answers with the service the proxy resolves the host to after the change: when a namesake in
// another namespace takes over, the two differ, and a test that compares them skips exactly the cluster whose content
// changed (the proxy keeps the deleted service's endpoints). The proxy's previous resolution is not available to
// buildEndpoints, so no narrowing by the current one can be right. Decided in EdsGenerator.buildEndpoints: where the
// result of affectedService is merged with a constant (a phi that can turn `true` into `false`), no condition that
// selects among the phi's edges derives from the result of ServiceForHostname.
func c13r7(c *Ctx) {
	p := c.P
	fn := p.Func(pkgXds, "EdsGenerator", "buildEndpoints")
	var aff, svc []ssa.Value
	eachInstr(fn, func(ins ssa.Instruction) {
		call, ok := ins.(*ssa.Call)
		if !ok {
			return
		}
		if o := calleeObj(call); o != nil {
			switch o.Name() {
			case "affectedService":
				aff = append(aff, call)
			case "ServiceForHostname":
				svc = append(svc, call)
			}
		}
	})
	c.Check("buildEndpoints: affectedService and ServiceForHostname calls found", fn.Pos(), len(aff) >= 1 && len(svc) >= 1, fmt.Sprintf("%d affectedService calls, %d ServiceForHostname calls", len(aff), len(svc)))
	isSvc := func(v ssa.Value) bool {
		for _, s := range svc {
			if v == s {
				return true
			}
		}
		return false
	}
	derivesSvc := func(v ssa.Value) bool {
		seen := map[ssa.Value]bool{}
		var walk func(v ssa.Value, d int) bool
		walk = func(v ssa.Value, d int) bool {
			if v == nil || seen[v] || d > 10 {
				return false
			}
			seen[v] = true
			if isSvc(v) {
				return true
			}
			switch x := v.(type) {
			case *ssa.UnOp:
				return walk(x.X, d+1)
			case *ssa.FieldAddr:
				return walk(x.X, d+1)
			case *ssa.Field:
				return walk(x.X, d+1)
			case *ssa.BinOp:
				return walk(x.X, d+1) || walk(x.Y, d+1)
			case *ssa.Convert:
				return walk(x.X, d+1)
			case *ssa.ChangeType:
				return walk(x.X, d+1)
			case *ssa.Phi:
				for _, e := range x.Edges {
					if walk(e, d+1) {
						return true
					}
				}
			case *ssa.Call:
				for _, a := range x.Call.Args {
					if walk(a, d+1) {
						return true
					}
				}
			case *ssa.Alloc:
				if x.Referrers() != nil {
					for _, r := range *x.Referrers() {
						if st, ok := r.(*ssa.Store); ok && st.Addr == ssa.Value(x) && walk(st.Val, d+1) {
							return true
						}
					}
				}
			}
			return false
		}
		return walk(v, 0)
	}
	bad := false
	for _, a := range aff {
		// phis that merge the result with something else
		work := []ssa.Value{a}
		seen := map[ssa.Value]bool{a: true}
		for len(work) > 0 {
			v := work[len(work)-1]
			work = work[:len(work)-1]
			if v.Referrers() == nil {
				continue
			}
			for _, r := range *v.Referrers() {
				ph, ok := r.(*ssa.Phi)
				if !ok || seen[ph] {
					continue
				}
				seen[ph] = true
				work = append(work, ph)
				narrows := false
				for _, e := range ph.Edges {
					if k, isC := constBool(e); isC && !k {
						narrows = true
					}
				}
				if !narrows {
					continue
				}
				// conditions that select among the edges: the Ifs between the definition and the phi
				for _, pr := range ph.Block().Preds {
					for b := pr; b != nil && b != a.(*ssa.Call).Block().Idom(); b = b.Idom() {
						iff := ifOf(b)
						if iff == nil || !a.(*ssa.Call).Block().Dominates(b) {
							continue
						}
						if derivesSvc(iff.Cond) {
							bad = true
							c.Check("a cluster named in the update is not declared unaffected by the host's current resolution", iff.Pos(), false,
								"the result of affectedService - the cluster's host name is among the updated services - is turned into `false` under a condition that depends on the service ServiceForHostname resolves the host to now: when the updated (deleted, un-exported) service was the one the proxy had been using and a namesake in another namespace takes over, the cluster name is unchanged, the test fails and the cluster is skipped - the proxy keeps the deleted service's endpoints and never receives the new service's")
						}
					}
				}
			}
		}
	}
	if !bad {
		c.Check("a cluster named in the update is not declared unaffected by the host's current resolution", fn.Pos(), true, "")
	}
	c.Floor(2)
}
