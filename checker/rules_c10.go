package main

import (
	"fmt"
	"go/ast"
	"go/token"
	"go/types"
	"strings"

	"golang.org/x/tools/go/ssa"
)

const pkgAuthn = "pilot/pkg/security/authn"
const pkgPeerAPI = "istio.io/api/security/v1beta1"

func init() {
	register(&PropDef{
		ID: "C10",
		Clauses: []string{
			"R1 UNSET inherits: every conversion of an API mode into an effective mode at a composition site is guarded by an UNSET test on that mode",
			"R2 precedence by write order: in ComposePeerAuthentication no effective-mode write happens inside the selection loop, per-port inheritance reads the mode after its last write, and the three mode writes are guarded by three distinct selected-policy variables; in addPeerAuthentication no write of the mesh mode is reachable after it was read to resolve a namespace's UNSET",
			"R3 STRICT is an explicit arm of every filter-chain-option switch over the mode and the options it returns contain only TLS chains; the default arm's options contain no TLS chain",
			"R4 oldest wins: each selected-policy variable is replaced only under `unset or CreationTimestamp.Before`",
		},
		NotDecided: "that sidecar, client-side auto-mTLS and the ambient conversion compute the same function (a finite function, but deciding it means evaluating it); the ambient conversion's port-exception logic",
		Rules: []Rule{
			{"C10-R1", "UNSET inherits", c10r1},
			{"C10-R2", "precedence by write order", c10r2},
			{"C10-R3", "STRICT is explicit and TLS-only", c10r3},
			{"C10-R4", "oldest policy wins", c10r4},
			{"C10-R5", "ambient conversion: wider levels are consulted only where the narrower ones are UNSET", c10r5},
			{"C10-R6", "who may use a namespace/mesh-level mode directly", c10r6},
			{"C10-R7", "ambient: PERMISSIVE and DISABLE are treated alike wherever a non-STRICT mode is looked for", c10r7},
			{"C10-R8", "client-side inference: a TLS-on answer always comes after the namespace/mesh policy was consulted", c10r8},
			{"C10-R9", "per-port passthrough chains: the policy's port is matched against workload-side ports only", c10r9},
			{"C10-R10", "every component uses one predicate for a PeerAuthentication without workload selector", c10r10},
		},
	})
}

func c10r1(c *Ctx) {
	p := c.P
	conv := p.FuncObj(pkgModel, "", "ConvertToMutualTLSMode")
	unsetFn := p.FuncObj(pkgAuthn, "", "isMtlsModeUnset")
	sites := []*ssa.Function{p.Func(pkgAuthn, "", "ComposePeerAuthentication"), p.Func(pkgModel, "AuthenticationPolicies", "addPeerAuthentication")}
	n := 0
	for _, fn := range sites {
		// not-UNSET edges
		var okE []Edge
		okE = append(okE, edgesWhere(fn, func(v ssa.Value) bool { call, ok := v.(*ssa.Call); return ok && isCallTo(call, unsetFn) }, false)...)
		for _, i := range allIfs(fn) {
			v, neg := stripNot(i.Cond)
			b, ok := v.(*ssa.BinOp)
			if !ok || (b.Op != token.EQL && b.Op != token.NEQ) {
				continue
			}
			k, ok := b.Y.(*ssa.Const)
			if !ok || k.Value == nil || k.Int64() != 0 {
				continue
			}
			if n, ok := b.X.Type().(*types.Named); !ok || n.Obj().Name() != "PeerAuthentication_MutualTLS_Mode" {
				continue
			}
			isUnsetOnTrue := (b.Op == token.EQL) != neg
			if isUnsetOnTrue {
				okE = append(okE, Edge{i.Block(), 1})
			} else {
				okE = append(okE, Edge{i.Block(), 0})
			}
		}
		for _, call := range callsIn(fn, conv) {
			n++
			c.Check(fn.Name()+": mode conversion guarded by an UNSET test", call.Pos(), underEdges(fn, call.Block(), okE),
				"an API mode is converted into an effective mode without first testing for UNSET: UNSET would become MTLSUnknown/plaintext instead of inheriting from the next wider level")
		}
	}
	c.Check("composition sites found", token.NoPos, n >= 5, "fewer ConvertToMutualTLSMode composition sites than confirmed by hand")
	c.Floor(6)
}

func c10r2(c *Ctx) {
	p := c.P
	fn := p.Func(pkgAuthn, "", "ComposePeerAuthentication")
	modeF := p.Field(pkgAuthn, "MergedPeerAuthentication", "Mode")
	perPort := p.Field(pkgAuthn, "MergedPeerAuthentication", "PerPort")
	loops := rangeLoops(fn)
	var sel *rangeLoop
	for i := range loops {
		if loops[i].Over == ssa.Value(paramNamed(fn, "configs")) {
			sel = &loops[i]
		}
	}
	c.Check("ComposePeerAuthentication: selection loop found", fn.Pos(), sel != nil, "no loop over configs")
	if sel == nil {
		return
	}
	inLoop := map[*ssa.BasicBlock]bool{}
	st := []*ssa.BasicBlock{sel.Body}
	for len(st) > 0 {
		b := st[len(st)-1]
		st = st[:len(st)-1]
		if inLoop[b] || b == sel.Header {
			continue
		}
		inLoop[b] = true
		st = append(st, b.Succs...)
	}
	// the loop exit's successors are not "in loop": remove blocks not able to return to the header
	canReach := func(from, to *ssa.BasicBlock) bool {
		seen := map[*ssa.BasicBlock]bool{}
		s := []*ssa.BasicBlock{from}
		for len(s) > 0 {
			b := s[len(s)-1]
			s = s[:len(s)-1]
			if b == to {
				return true
			}
			if seen[b] {
				continue
			}
			seen[b] = true
			s = append(s, b.Succs...)
		}
		return false
	}
	var modeStores []*ssa.Store
	for _, s := range storesTo(fn, modeF) {
		if s.Block().Index == 0 {
			continue // initial PERMISSIVE
		}
		modeStores = append(modeStores, s)
		c.Check("mode write is outside the selection loop", s.Pos(), !(inLoop[s.Block()] && canReach(s.Block(), sel.Header)), "the effective mode is written while policies are still being selected: the result depends on the order in which policies are listed")
	}
	c.Check("three precedence writes (mesh, namespace, workload)", fn.Pos(), len(modeStores) == 3, "expected three writes of the effective mode after selection")
	// distinct guard variables, in source order
	guards := map[ssa.Value]bool{}
	for _, s := range modeStores {
		for _, i := range allIfs(fn) {
			if x, eq, ok := nilCmp(i.Cond); ok {
				idx := 0
				if eq {
					idx = 1
				}
				if underEdges(fn, s.Block(), []Edge{{i.Block(), idx}}) {
					if _, isPhi := x.(*ssa.Phi); isPhi {
						guards[x] = true
					}
				}
			}
		}
	}
	c.Check("mode writes are guarded by three distinct selected policies", fn.Pos(), len(guards) >= 3, "the three precedence writes are not each guarded by their own selected-policy variable (a level is applied twice or skipped)")
	// per-port inheritance reads Mode after the last write: no Mode store reachable from a PerPort map update
	eachInstr(fn, func(ins ssa.Instruction) {
		mu, ok := ins.(*ssa.MapUpdate)
		if !ok || fieldOfLoad(mu.Map) != perPort {
			return
		}
		_, found := pathAvoidingE(nil, mu, nil, func(i2 ssa.Instruction) bool {
			s, ok := i2.(*ssa.Store)
			if !ok {
				return false
			}
			fa, ok := s.Addr.(*ssa.FieldAddr)
			return ok && fieldVar(fa.X.Type(), fa.Field) == modeF
		}, nil, nil)
		c.Check("per-port modes are resolved after the last mode write", mu.Pos(), !found, "a port-level UNSET inherits the mode before the workload/namespace/mesh precedence has finished")
	})
	// addPeerAuthentication: mesh mode final before namespaces inherit it
	ap := p.Func(pkgModel, "AuthenticationPolicies", "addPeerAuthentication")
	global := p.Field(pkgModel, "AuthenticationPolicies", "globalMutualTLSMode")
	nsMode := p.Field(pkgModel, "AuthenticationPolicies", "namespaceMutualTLSMode")
	n := 0
	eachInstr(ap, func(ins ssa.Instruction) {
		u, ok := ins.(*ssa.UnOp)
		if !ok || u.Op != token.MUL || fieldOfLoad(u) != global {
			return
		}
		n++
		_, found := pathAvoidingE(nil, u, nil, func(i2 ssa.Instruction) bool {
			s, ok := i2.(*ssa.Store)
			if !ok {
				return false
			}
			fa, ok := s.Addr.(*ssa.FieldAddr)
			return ok && fieldVar(fa.X.Type(), fa.Field) == global
		}, nil, nil)
		c.Check("addPeerAuthentication: mesh mode is final when it is read for inheritance", u.Pos(), !found, "the mesh-level mode can still be written after it was read to resolve a namespace policy's UNSET: a namespace policy older than the mesh policy inherits PERMISSIVE instead of the mesh mode (client and server then disagree)")
	})
	c.Check("addPeerAuthentication reads the mesh mode for inheritance", ap.Pos(), n >= 1, "no read of globalMutualTLSMode")
	// namespace map is filled only outside the creation-ordered loop over configs
	for _, l := range rangeLoops(ap) {
		if l.Over != ssa.Value(paramNamed(ap, "configs")) {
			continue
		}
		inL := map[*ssa.BasicBlock]bool{}
		st := []*ssa.BasicBlock{l.Body}
		for len(st) > 0 {
			b := st[len(st)-1]
			st = st[:len(st)-1]
			if inL[b] || b == l.Header {
				continue
			}
			inL[b] = true
			st = append(st, b.Succs...)
		}
		eachInstr(ap, func(ins ssa.Instruction) {
			mu, ok := ins.(*ssa.MapUpdate)
			if !ok || fieldOfLoad(mu.Map) != nsMode {
				return
			}
			c.Check("addPeerAuthentication: namespace modes resolved after all policies were seen", mu.Pos(), !(inL[mu.Block()] && canReach(mu.Block(), l.Header)), "a namespace's effective mode is resolved inside the creation-ordered loop, before every mesh-level policy has been seen")
		})
	}
	c.Floor(8)
}

func c10r3(c *Ctx) {
	p := c.P
	obj := p.FuncObj(pkgCore, "", "getFilterChainMatchOptions")
	decl := p.Decl(obj)
	info := p.InfoFor(obj)
	pk := p.Pkg(pkgCore)
	// global options table: name -> (allTLS, anyTLS)
	tlsOf := func(name string) (all, any bool, found bool) {
		for _, f := range pk.Syntax {
			for _, d := range f.Decls {
				gd, ok := d.(*ast.GenDecl)
				if !ok {
					continue
				}
				for _, s := range gd.Specs {
					vs, ok := s.(*ast.ValueSpec)
					if !ok {
						continue
					}
					for i, n := range vs.Names {
						if n.Name != name || i >= len(vs.Values) {
							continue
						}
						cl, ok := vs.Values[i].(*ast.CompositeLit)
						if !ok {
							return false, false, false
						}
						all, found = true, true
						for _, el := range cl.Elts {
							ecl, ok := el.(*ast.CompositeLit)
							if !ok {
								return false, false, false
							}
							isTLS := false
							for _, kv := range ecl.Elts {
								if k, ok := kv.(*ast.KeyValueExpr); ok {
									if id, ok := k.Key.(*ast.Ident); ok && id.Name == "TLS" {
										if v, ok := k.Value.(*ast.Ident); ok && v.Name == "true" {
											isTLS = true
										}
									}
								}
							}
							if isTLS {
								any = true
							} else {
								all = false
							}
						}
						return all, any, true
					}
				}
			}
		}
		return false, false, false
	}
	n := 0
	ast.Inspect(decl.Body, func(x ast.Node) bool {
		sw, ok := x.(*ast.SwitchStmt)
		if !ok || sw.Tag == nil || !strings.HasSuffix(selectorName(sw.Tag), ".Mode") {
			return true
		}
		n++
		var strict, deflt *ast.CaseClause
		for _, s := range sw.Body.List {
			cc := s.(*ast.CaseClause)
			if cc.List == nil {
				deflt = cc
			}
			for _, e := range cc.List {
				for _, k := range constsIn(info, e, istioMod+"/"+pkgModel) {
					if k == "MTLSStrict" {
						strict = cc
						if len(cc.List) > 1 {
							c.Check("STRICT arm is not shared with another mode", cc.Pos(), false, "MTLSStrict shares a case clause with another mode")
						}
					}
				}
			}
		}
		c.Check("switch over the mode names MTLSStrict", sw.Pos(), strict != nil, "a filter-chain-option switch over the mTLS mode has no explicit STRICT arm: STRICT falls into the default (plaintext-accepting) options")
		retName := func(cc *ast.CaseClause) string {
			if cc == nil {
				return ""
			}
			for _, st := range cc.Body {
				if r, ok := st.(*ast.ReturnStmt); ok && len(r.Results) == 1 {
					if id, ok := r.Results[0].(*ast.Ident); ok {
						return id.Name
					}
				}
			}
			return ""
		}
		if strict != nil {
			name := retName(strict)
			all, _, found := tlsOf(name)
			c.Check("STRICT options contain only TLS chains: "+name, strict.Pos(), found && all, "the options selected for STRICT contain a filter chain match that accepts plaintext")
		}
		if deflt != nil {
			name := retName(deflt)
			_, any, found := tlsOf(name)
			c.Check("DISABLE/default options terminate no TLS: "+name, deflt.Pos(), found && !any, "the options selected for DISABLE contain a TLS-terminating chain")
		}
		return true
	})
	c.Check("mode switches found in getFilterChainMatchOptions", decl.Pos(), n == 3, "expected one switch per listener protocol class")
	c.Floor(9)
}

func c10r4(c *Ctx) {
	p := c.P
	fn := p.Func(pkgAuthn, "", "ComposePeerAuthentication")
	cfgs := paramNamed(fn, "configs")
	isElem := func(v ssa.Value) bool {
		u, ok := v.(*ssa.UnOp)
		if !ok || u.Op != token.MUL {
			return false
		}
		ia, ok := u.X.(*ssa.IndexAddr)
		return ok && ia.X == ssa.Value(cfgs)
	}
	n := 0
	eachInstr(fn, func(ins ssa.Instruction) {
		ph, ok := ins.(*ssa.Phi)
		if !ok {
			return
		}
		for i, e := range ph.Edges {
			if !isElem(e) {
				continue
			}
			n++
			pred := ph.Block().Preds[i]
			// walk back to the block that decided the replacement: the pred chain until a block with >1 preds
			var okE []Edge
			for _, iff := range allIfs(fn) {
				if call, ok := iff.Cond.(*ssa.Call); ok {
					if o := calleeObj(call); o != nil && o.Name() == "Before" {
						okE = append(okE, Edge{iff.Block(), 0})
					} else if sc := call.Call.StaticCallee(); sc != nil && len(sc.Blocks) > 0 && funcPkgPath(sc) == funcPkgPath(fn) && onlyTrueWhenNilOrBefore(sc) {
						// the test spelled as a helper of the package: `createdBefore(cfg, selected)`
						okE = append(okE, Edge{iff.Block(), 0})
					}
				}
				if x, eq, ok := nilCmp(iff.Cond); ok {
					if _, isPhi := x.(*ssa.Phi); isPhi {
						idx := 1
						if eq {
							idx = 0
						}
						okE = append(okE, Edge{iff.Block(), idx})
					}
				}
			}
			c.Check("selected policy replaced only if unset or older", ph.Pos(), underEdges(fn, pred, okE), "a selected PeerAuthentication is replaced without `none yet || CreationTimestamp.Before(selected)`: among several policies at one level a newer one can win, depending on list order")
		}
	})
	c.Check("selected-policy replacements found", fn.Pos(), n >= 3, "fewer replacement sites than the three levels")
	// every applicable policy is a candidate at its level whatever it says: inside the selection loop no condition
	// depends on the policy's mTLS content (mode, port-level modes). The content is consulted after the selection - an
	// UNSET policy that is the oldest at its level still wins the level and inherits from the wider one.
	nLoop := 0
	for _, l := range rangeLoops(fn) {
		if l.Over != ssa.Value(cfgs) || l.Body == nil {
			continue
		}
		nLoop++
		readsContent := func(v ssa.Value) (bool, string) {
			seen := map[ssa.Value]bool{}
			var walk func(v ssa.Value, d int) (bool, string)
			walk = func(v ssa.Value, d int) (bool, string) {
				if v == nil || seen[v] || d > 10 {
					return false, ""
				}
				seen[v] = true
				if fv := fieldOfLoad(v); fv != nil {
					if fv.Name() == "Mtls" || fv.Name() == "PortLevelMtls" {
						return true, fv.Name()
					}
				}
				switch x := v.(type) {
				case *ssa.UnOp:
					return walk(x.X, d+1)
				case *ssa.FieldAddr:
					if n := fieldVar(x.X.Type(), x.Field).Name(); n == "Mtls" || n == "PortLevelMtls" {
						return true, n
					}
					return walk(x.X, d+1)
				case *ssa.BinOp:
					if ok, n := walk(x.X, d+1); ok {
						return ok, n
					}
					return walk(x.Y, d+1)
				case *ssa.Call:
					if o := calleeObj(x); o != nil && (o.Name() == "GetMtls" || o.Name() == "GetPortLevelMtls") {
						return true, o.Name()
					}
					for _, a := range x.Call.Args {
						if ok, n := walk(a, d+1); ok {
							return ok, n
						}
					}
				case *ssa.Phi:
					if !l.Body.Dominates(x.Block()) {
						return false, ""
					}
					for _, e := range x.Edges {
						if ok, n := walk(e, d+1); ok {
							return ok, n
						}
					}
				}
				return false, ""
			}
			return walk(v, 0)
		}
		bad := false
		for _, iff := range allIfs(fn) {
			if !l.Body.Dominates(iff.Block()) {
				continue
			}
			if r, what := readsContent(iff.Cond); r {
				bad = true
				c.Check("selection among the applicable policies does not look at their mTLS content", iff.Pos(), false,
					"inside the loop that selects the mesh / namespace / workload PeerAuthentication a condition depends on the policy's "+what+": which policy wins a level then depends on what it says, not only on its age - an UNSET (or otherwise 'empty') policy that is the oldest at its level no longer wins it, and a newer policy of the same level decides the mode instead of the next wider level")
			}
		}
		if !bad {
			c.Check("selection among the applicable policies does not look at their mTLS content", fn.Pos(), true, "")
		}
	}
	c.Check("selection loop over the applicable policies found", fn.Pos(), nLoop == 1, fmt.Sprintf("%d range loops over configs", nLoop))
	c.Floor(6)
}


const pkgAmbient = "pilot/pkg/serviceregistry/ambient"

// C10-R5: in the ambient conversion of a workload PeerAuthentication the namespace-level and mesh-level modes are
// inherited levels: (a) they are consulted only on paths that established that the workload-level mode is UNSET, and
// (b) the mesh level only where the namespace policy is absent or UNSET. A test of a wider level that is reachable
// otherwise lets the wider level override an explicit narrower mode.
func c10r5(c *Ctx) {
	p := c.P
	fn := p.Func(pkgAmbient, "", "convertPeerAuthentication")
	strictFn := p.FuncObj(pkgAmbient, "", "isMtlsModeStrict")
	unsetFn := p.FuncObj(pkgAmbient, "", "isMtlsModeUnset")
	paramNamed(fn, "cfg")
	paramNamed(fn, "nsCfg")
	paramNamed(fn, "rootCfg")
	// which policy a value is read from: the name of the parameter / captured variable at the root of its access path
	// (the per-port loop is a range-over-func, so its body is a function literal that captures them)
	var rootOf func(v ssa.Value, d int) string
	rootOf = func(v ssa.Value, d int) string {
		if d > 10 {
			return ""
		}
		switch x := v.(type) {
		case *ssa.Parameter:
			return x.Name()
		case *ssa.FreeVar:
			return x.Name()
		case *ssa.Alloc:
			return x.Comment
		case *ssa.FieldAddr:
			return rootOf(x.X, d+1)
		case *ssa.Field:
			return rootOf(x.X, d+1)
		case *ssa.UnOp:
			return rootOf(x.X, d+1)
		case *ssa.Call:
			if len(x.Call.Args) > 0 && !x.Call.IsInvoke() {
				return rootOf(x.Call.Args[0], d+1) // getters: GetMtls(), GetMode()
			}
		}
		return ""
	}
	level := func(v ssa.Value) string {
		switch rootOf(v, 0) {
		case "cfg", "pa", "mode":
			return "workload"
		case "nsCfg":
			return "namespace"
		case "rootCfg":
			return "mesh"
		}
		return ""
	}
	var fns []*ssa.Function
	var addFns func(f *ssa.Function)
	addFns = func(f *ssa.Function) {
		fns = append(fns, f)
		for _, a := range f.AnonFuncs {
			addFns(a)
		}
	}
	addFns(fn)
	n, nW := 0, 0
	ord := map[string]int{}
	for _, f := range fns {
		var wUnset, nAbsent []Edge
		for _, i := range allIfs(f) {
			v, neg := stripNot(i.Cond)
			tIdx := 0
			if neg {
				tIdx = 1
			}
			if call, ok := v.(*ssa.Call); ok && isCallTo(call, unsetFn) {
				switch level(call.Call.Args[0]) {
				case "workload":
					wUnset = append(wUnset, Edge{i.Block(), tIdx})
				case "namespace":
					nAbsent = append(nAbsent, Edge{i.Block(), tIdx})
				}
			}
			// a flag `nsCfg == nil || isUnset(ns)`: a phi of `true` and the call
			if ph, ok := v.(*ssa.Phi); ok {
				all, hasCall := true, false
				for _, e := range ph.Edges {
					if b, isC := constBool(e); isC && b {
						continue
					}
					if call, ok := e.(*ssa.Call); ok && isCallTo(call, unsetFn) && level(call.Call.Args[0]) == "namespace" {
						hasCall = true
						continue
					}
					all = false
				}
				if all && hasCall {
					nAbsent = append(nAbsent, Edge{i.Block(), tIdx})
				}
			}
			if x, eq, ok := nilCmp(v); ok && level(x) == "namespace" && rootOf(x, 0) == "nsCfg" {
				if _, isPtr := x.Type().Underlying().(*types.Pointer); isPtr {
					idx := tIdx
					if !eq {
						idx = 1 - tIdx
					}
					nAbsent = append(nAbsent, Edge{i.Block(), idx})
				}
			}
			if b, ok := v.(*ssa.BinOp); ok && (b.Op == token.EQL || b.Op == token.NEQ) {
				if k, ok := b.Y.(*ssa.Const); ok && k.Value != nil && k.Int64() == 0 && level(b.X) == "workload" {
					if nt, ok := b.X.Type().(*types.Named); ok && nt.Obj().Name() == "PeerAuthentication_MutualTLS_Mode" {
						idx := tIdx
						if b.Op == token.NEQ {
							idx = 1 - tIdx
						}
						wUnset = append(wUnset, Edge{i.Block(), idx})
					}
				}
			}
		}
		nW += len(wUnset)
		if f == fn {
			// outside the per-port loop the wider levels are read once more to decide whether the static STRICT policy is
			// merged in (shouldMergeStrict); that flag only takes effect together with foundNonStrictPortmTLS, which the
			// per-port code sets only where the workload level is STRICT (the merged rule then duplicates the workload's
			// own) or UNSET with a STRICT effective mode. Read and confirmed; not part of the per-port decision.
			continue
		}
		for _, call := range callsIn(f, strictFn, unsetFn) {
			lv := level(call.Common().Args[0])
			if lv != "namespace" && lv != "mesh" {
				continue
			}
			n++
			ord[lv]++
			site := fmt.Sprintf(" (%s-level test #%d of the per-port decision)", lv, ord[lv])
			// where the result is branched on: the If on the call itself, or on a flag (phi) it feeds
			useBlock := call.Block()
			var follow func(v ssa.Value, d int) *ssa.BasicBlock
			follow = func(v ssa.Value, d int) *ssa.BasicBlock {
				if d > 4 || v.Referrers() == nil {
					return nil
				}
				for _, ref := range *v.Referrers() {
					switch x := ref.(type) {
					case *ssa.If:
						return x.Block()
					case *ssa.Phi:
						if b := follow(x, d+1); b != nil {
							return b
						}
					case *ssa.UnOp:
						if b := follow(x, d+1); b != nil {
							return b
						}
					}
				}
				return nil
			}
			if b := follow(call.Value(), 0); b != nil {
				useBlock = b
			}
			c.Check("ambient: "+lv+"-level mode consulted only where the workload level is UNSET"+site, call.Pos(), underEdges(f, useBlock, wUnset),
				"the "+lv+"-level mode is tested on a path that has not established that the workload-level mode is UNSET: a "+lv+"-level STRICT can then stand in for an explicit workload-level PERMISSIVE/DISABLE (the port's STRICT rule is dropped as 'enforced by the parent' although the parent is not STRICT), so ztunnel and a sidecar derive different modes for the port")
			if lv == "mesh" {
				c.Check("ambient: mesh-level mode consulted only where the namespace level is absent or UNSET"+site, call.Pos(), underEdges(f, useBlock, nAbsent),
					"the mesh-level mode is tested on a path where a namespace-level mode may be set: the mesh level overrides the namespace level")
			}
		}
	}
	// (c) a namespace policy that exists but leaves the mode UNSET inherits like an absent one: the conclusion "the
	// namespace level is not STRICT" is only drawn where the namespace mode is known to be set, or is followed by a test
	// of its UNSET-ness before anything is decided.
	for _, f := range fns {
		if f == fn {
			continue
		}
		isNsUnsetCall := func(v ssa.Value) bool {
			call, ok := v.(*ssa.Call)
			return ok && isCallTo(call, unsetFn) && level(call.Call.Args[0]) == "namespace"
		}
		// edges on which the namespace mode is known to be set: !isUnset(ns), or the false edge of a flag
		// `nsCfg == nil || isUnset(ns)` (a phi of `true` and the call)
		var nsSet, nsNil []Edge
		for _, i := range allIfs(f) {
			v, neg := stripNot(i.Cond)
			fIdx := 1
			if neg {
				fIdx = 0
			}
			if isNsUnsetCall(v) {
				nsSet = append(nsSet, Edge{i.Block(), fIdx})
			}
			if ph, ok := v.(*ssa.Phi); ok {
				all, hasCall := true, false
				for _, e := range ph.Edges {
					if b, isC := constBool(e); isC && b {
						continue
					}
					if isNsUnsetCall(e) {
						hasCall = true
						continue
					}
					all = false
				}
				if all && hasCall {
					nsSet = append(nsSet, Edge{i.Block(), fIdx})
				}
			}
			if x, eq, ok := nilCmp(v); ok && rootOf(x, 0) == "nsCfg" {
				if _, isPtr := x.Type().Underlying().(*types.Pointer); isPtr {
					idx := 1 - fIdx // edge on which nsCfg IS nil
					if !eq {
						idx = fIdx
					}
					nsNil = append(nsNil, Edge{i.Block(), idx})
				}
			}
		}
		for _, call := range callsIn(f, strictFn) {
			if level(call.Common().Args[0]) != "namespace" {
				continue
			}
			if underEdges(f, call.Block(), nsSet) {
				n++
				c.Check("ambient: 'namespace level is not STRICT' is concluded only for a set namespace mode"+fmt.Sprintf(" (#%d)", ord["nsneg"]+1), call.Pos(), true, "")
				ord["nsneg"]++
				continue
			}
			// the not-STRICT edges of this call
			for _, i := range allIfs(f) {
				v, neg := stripNot(i.Cond)
				if v != call.Value() {
					continue
				}
				fIdx := 1
				if neg {
					fIdx = 0
				}
				ord["nsneg"]++
				n++
				isTest := func(ins ssa.Instruction) bool {
					cl, ok := ins.(*ssa.Call)
					return ok && isNsUnsetCall(cl)
				}
				isDecision := func(ins ssa.Instruction) bool {
					switch x := ins.(type) {
					case *ssa.Return, *ssa.Store, *ssa.MapUpdate:
						return true
					case *ssa.Call:
						if isCallTo(x, strictFn, unsetFn) {
							return false
						}
						if o := calleeObj(x); o != nil && strings.HasPrefix(o.Name(), "Get") {
							return false
						}
						return true
					}
					return false
				}
				bad, found := pathAvoidingE(i.Block().Succs[fIdx], nil, isTest, isDecision, nsNil, nil)
				pos := call.Pos()
				if found && bad != nil && bad.Pos().IsValid() {
					pos = bad.Pos()
				}
				c.Check("ambient: 'namespace level is not STRICT' is concluded only for a set namespace mode"+fmt.Sprintf(" (#%d)", ord["nsneg"]), pos, !found,
					"the per-port decision concludes from a namespace policy that is merely present (its mode may be UNSET) that the inherited mode is not STRICT: an empty namespace-level PeerAuthentication then hides a STRICT mesh policy, the port's rule is skipped, and the workload ends up referencing a converted policy that is never published (plaintext accepted where a sidecar enforces STRICT)")
			}
		}
	}
	c.Check("ambient: workload-UNSET tests found", fn.Pos(), nW >= 2, "no test of the workload-level mode for UNSET in convertPeerAuthentication")
	c.Check("ambient: inherited-level tests found", fn.Pos(), n >= 4, "fewer tests of namespace/mesh-level modes than confirmed by hand")
	c.Floor(10)
}


// C10-R6: the namespace/mesh-level mode (GetNamespaceMutualTLSMode) ignores workload- and port-level policies. Who may
// call it is frozen: a per-endpoint or per-port decision that consults it directly (e.g. as a fast path) lets the wider
// level override a narrower DISABLE/PERMISSIVE, so client and server derive different modes.
func c10r6(c *Ctx) {
	p := c.P
	obj := p.FuncObj(pkgModel, "AuthenticationPolicies", "GetNamespaceMutualTLSMode")
	allowed := map[string]string{
		"(*pilot/pkg/model.PushContext).BestEffortInferServiceMTLSMode": "documented best-effort per-service inference (no workload is known at cluster level); used only to choose the passthrough cluster's TLS context",
	}
	n := 0
	for _, fn := range p.AllFuncs {
		if strings.HasSuffix(p.Fset.Position(fn.Pos()).Filename, "_test.go") || fn.Synthetic != "" {
			continue
		}
		eachInstr(fn, func(ins ssa.Instruction) {
			ci, ok := ins.(ssa.CallInstruction)
			if !ok {
				return
			}
			hit := isCallTo(ins, obj)
			if !hit && ci.Common().IsInvoke() && ci.Common().Method.Name() == "GetNamespaceMutualTLSMode" {
				hit = true
			}
			if !hit {
				return
			}
			n++
			_, ok = allowed[stableFnName(fn)]
			c.Check("namespace/mesh-level mode used directly only by a confirmed caller: "+stableFnName(fn), ins.Pos(), ok,
				"this function decides from the namespace/mesh-level mTLS mode without composing the workload- and port-level policies: a narrower DISABLE or PERMISSIVE under a STRICT namespace is ignored here while the server side honours it (e.g. the client keeps sending mTLS to a port that terminates no TLS)")
		})
	}
	c.Check("GetNamespaceMutualTLSMode callers found", token.NoPos, n >= 1, "no caller found")
	c.Floor(2)
}


// C10-R7: for ztunnel PERMISSIVE and DISABLE both mean "plaintext accepted"; the ambient conversion looks for
// "a non-STRICT mode" as isMtlsModePermissive(x) || isMtlsModeDisable(x). Every test isMtlsModePermissive(x) in the
// package is paired with isMtlsModeDisable on the same x (the failing edge of the first leads straight to the second):
// a lone PERMISSIVE test ignores a DISABLE at that level, so the port keeps the inherited STRICT mode in ambient while a
// sidecar disables mTLS on it.
func c10r7(c *Ctx) {
	p := c.P
	perm := p.FuncObj(pkgAmbient, "", "isMtlsModePermissive")
	dis := p.FuncObj(pkgAmbient, "", "isMtlsModeDisable")
	n := 0
	for _, fn := range p.AllFuncs {
		if funcPkgPath(fn) != istioMod+"/"+pkgAmbient || strings.HasSuffix(p.Fset.Position(fn.Pos()).Filename, "_test.go") {
			continue
		}
		ord := 0
		for _, call := range callsIn(fn, perm) {
			ord++
			n++
			arg := call.Common().Args[0]
			paired := false
			for _, i := range allIfs(fn) {
				v, neg := stripNot(i.Cond)
				if v != call.Value() {
					continue
				}
				fIdx := 1
				if neg {
					fIdx = 0
				}
				for _, ins := range i.Block().Succs[fIdx].Instrs {
					if c2, ok := ins.(*ssa.Call); ok && isCallTo(c2, dis) && (c2.Call.Args[0] == arg || sameValue(c2.Call.Args[0], arg)) {
						paired = true
					}
				}
			}
			// or in the other order: Disable first, Permissive on its failing edge
			for _, c2 := range callsIn(fn, dis) {
				if !(c2.Common().Args[0] == arg || sameValue(c2.Common().Args[0], arg)) {
					continue
				}
				for _, i := range allIfs(fn) {
					v, neg := stripNot(i.Cond)
					if v != c2.Value() {
						continue
					}
					fIdx := 1
					if neg {
						fIdx = 0
					}
					if i.Block().Succs[fIdx] == call.Block() {
						paired = true
					}
				}
			}
			c.Check(fmt.Sprintf("ambient: PERMISSIVE test is paired with DISABLE: %s (#%d)", stableFnName(fn), ord), call.Pos(), paired,
				"this test looks for PERMISSIVE only; the other places in this package that look for a non-STRICT mode test PERMISSIVE || DISABLE. A DISABLE here is ignored: with a STRICT mesh/namespace policy, an UNSET workload mode and a DISABLE port, the workload keeps referencing only the static STRICT policy, so ztunnel requires mTLS on a port for which a sidecar disables it")
		}
	}
	c.Check("ambient: PERMISSIVE tests found", token.NoPos, n >= 3, "fewer isMtlsModePermissive call sites than confirmed by hand")
	c.Floor(4)
}


// C10-R8: BestEffortInferServiceMTLSMode is the client-side half of "every component that derives this mode agrees" for
// clusters without per-endpoint transport-socket matches. It may answer DISABLE/UNKNOWN early (external service, a
// passthrough cluster with a sidecar-less instance), but any other answer - the one that makes the client send mutual
// TLS - is only given after the namespace/mesh PeerAuthentication was consulted: every path to a return of anything but
// the constants MTLSDisable / MTLSUnknown passes GetNamespaceMutualTLSMode. A short cut (e.g. the passthrough branch
// answering PERMISSIVE itself) makes clients originate mTLS to a namespace whose policy is DISABLE.
func c10r8(c *Ctx) {
	p := c.P
	fn := p.Func(pkgModel, "PushContext", "BestEffortInferServiceMTLSMode")
	obj := p.FuncObj(pkgModel, "AuthenticationPolicies", "GetNamespaceMutualTLSMode")
	early := map[int64]bool{}
	for _, name := range []string{"MTLSDisable", "MTLSUnknown"} {
		k, _ := constInt(p.Const(pkgModel, name))
		early[k] = true
	}
	consult := deepMust(func(ins ssa.Instruction) bool {
		if isCallTo(ins, obj) {
			return true
		}
		ci, ok := ins.(ssa.CallInstruction)
		return ok && ci.Common().IsInvoke() && ci.Common().Method.Name() == "GetNamespaceMutualTLSMode"
	}, 2)
	n := 0
	for _, b := range fn.Blocks {
		r, ok := b.Instrs[len(b.Instrs)-1].(*ssa.Return)
		if !ok || len(r.Results) != 1 {
			continue
		}
		v := retVal(r, 0)
		if k, ok := v.(*ssa.Const); ok && k.Value != nil && early[k.Int64()] {
			continue
		}
		n++
		hit := pathAvoiding(fn, nil, consult, func(ins ssa.Instruction) bool { return ins == ssa.Instruction(r) })
		c.Check("a non-DISABLE answer is given only after the namespace/mesh policy was consulted", r.Pos(), hit == nil,
			"BestEffortInferServiceMTLSMode can answer with a mode other than DISABLE/UNKNOWN on a path that never consults the namespace/mesh PeerAuthentication (GetNamespaceMutualTLSMode): the client then originates mutual TLS (or treats the peer as permissive) for a service whose namespace policy says DISABLE, while the server side terminates no TLS")
	}
	c.Check("BestEffortInferServiceMTLSMode has policy-derived answers", fn.Pos(), n >= 1, "no return other than the DISABLE/UNKNOWN constants")
	c.Floor(2)
}

// C10-R9: needPerPortPassthroughFilterChain decides whether a port named by a port-level PeerAuthentication gets its
// own passthrough filter chain. portLevelMtls keys are WORKLOAD ports, and the chains that already cover a port are
// built per workload-side port (Sidecar ingress listener port / the service target's TargetPort). The port argument is
// therefore only ever compared with those; comparing it with a service port as well suppresses the dedicated chain for
// a workload port that merely equals some service's port number, and the port-level mode is not enforced there.
func c10r9(c *Ctx) {
	p := c.P
	fn := p.Func("pilot/pkg/networking/plugin/authn", "", "needPerPortPassthroughFilterChain")
	okField := func(v ssa.Value) (string, bool) {
		for {
			switch x := v.(type) {
			case *ssa.Convert:
				v = x.X
				continue
			case *ssa.ChangeType:
				v = x.X
				continue
			}
			break
		}
		f := fieldOfLoad(v)
		if f == nil {
			if call, ok := v.(*ssa.Call); ok {
				if o := calleeObj(call); o != nil {
					return o.Name() + "()", o.Name() == "GetNumber" || o.Name() == "GetTargetPort"
				}
			}
			return "", false
		}
		return f.Name(), f.Name() == "TargetPort" || f.Name() == "Number"
	}
	n := 0
	var scan func(f *ssa.Function, port ssa.Value, cell bool, depth int)
	scan = func(f *ssa.Function, port ssa.Value, cell bool, depth int) {
		// cells holding the port (a parameter captured by a literal is spilled into one)
		cells := map[ssa.Value]bool{}
		if cell {
			cells[port] = true
		} else {
			eachInstr(f, func(ins ssa.Instruction) {
				if st, ok := ins.(*ssa.Store); ok && st.Val == port {
					if al, ok := st.Addr.(*ssa.Alloc); ok {
						cells[al] = true
					}
				}
			})
		}
		isPort := func(v ssa.Value) bool {
			for {
				if v == port && !cell {
					return true
				}
				if u, ok := v.(*ssa.UnOp); ok && u.Op == token.MUL && cells[u.X] {
					return true
				}
				switch x := v.(type) {
				case *ssa.Convert:
					v = x.X
					continue
				case *ssa.ChangeType:
					v = x.X
					continue
				}
				return false
			}
		}
		eachInstr(f, func(ins ssa.Instruction) {
			switch x := ins.(type) {
			case *ssa.BinOp:
				if x.Op != token.EQL && x.Op != token.NEQ {
					return
				}
				other := x.Y
				if isPort(x.Y) {
					other = x.X
				} else if !isPort(x.X) {
					return
				}
				n++
				name, ok := okField(other)
				c.Check("the policy's port is compared with a workload-side port", x.Pos(), ok,
					"needPerPortPassthroughFilterChain compares the port-level policy's port with `"+name+"`, which is not a workload-side port (Sidecar ingress Port.Number / service target TargetPort): a workload port that only coincides with a service port number loses its dedicated passthrough chain and the port-level mTLS mode is not enforced on it")
			case *ssa.Call:
				callee := x.Call.StaticCallee()
				if callee == nil || callee.Pkg != f.Pkg || len(callee.Blocks) == 0 || depth == 0 {
					return
				}
				for k, a := range x.Call.Args {
					if isPort(a) && k < len(callee.Params) {
						scan(callee, callee.Params[k], false, depth-1)
					}
				}
			case *ssa.MakeClosure:
				// a literal that captures the port (e.g. the predicate of slices.ContainsFunc)
				lit, ok := x.Fn.(*ssa.Function)
				if !ok || depth == 0 {
					return
				}
				for k, b := range x.Bindings {
					if k >= len(lit.FreeVars) {
						continue
					}
					if cells[b] {
						scan(lit, lit.FreeVars[k], true, depth-1)
					} else if isPort(b) {
						scan(lit, lit.FreeVars[k], false, depth-1)
					}
				}
			}
		})
	}
	scan(fn, paramNamed(fn, "port"), false, 3)
	c.Check("needPerPortPassthroughFilterChain compares the port with the Sidecar ingress ports and the service targets", fn.Pos(), n >= 2,
		"fewer than two comparisons of the port argument found")
	c.Floor(3)
}

// C10-R10: one predicate for "this PeerAuthentication has no workload selector". A policy whose selector is present but
// empty (`selector: {}`) is namespace-/mesh-level for the sidecar side (addPeerAuthentication) and for the ambient
// function that picks the policy keys of a workload; it must be for every other place that classifies a
// PeerAuthentication by its selector too, or the levels the components compose differ. Sibling rule: every test
// `selector == nil` on the selector of a PeerAuthentication is immediately paired (on its non-nil edge) with a test of
// len(MatchLabels). Places that ask through the nil-safe getters (len(GetSelector().GetMatchLabels())) have no nil test
// and are complete by themselves.
func c10r10(c *Ctx) {
	p := c.P
	isPASelector := func(v ssa.Value) bool {
		pt, ok := v.Type().(*types.Pointer)
		if !ok {
			return false
		}
		n, ok := pt.Elem().(*types.Named)
		if !ok || n.Obj().Name() != "WorkloadSelector" {
			return false
		}
		// origin: field Selector of / GetSelector() on a security PeerAuthentication
		isPA := func(t types.Type) bool {
			if q, ok := t.(*types.Pointer); ok {
				t = q.Elem()
			}
			nn, ok := t.(*types.Named)
			return ok && nn.Obj().Name() == "PeerAuthentication" && nn.Obj().Pkg() != nil && strings.HasSuffix(nn.Obj().Pkg().Path(), "security/v1beta1")
		}
		switch x := v.(type) {
		case *ssa.UnOp:
			if fa, ok := x.X.(*ssa.FieldAddr); ok && x.Op == token.MUL {
				return fieldVar(fa.X.Type(), fa.Field).Name() == "Selector" && isPA(fa.X.Type())
			}
		case *ssa.Call:
			if o := calleeObj(x); o != nil && o.Name() == "GetSelector" && len(x.Call.Args) > 0 {
				return isPA(x.Call.Args[0].Type())
			}
		}
		return false
	}
	testsLabels := func(b *ssa.BasicBlock) bool {
		for _, ins := range b.Instrs {
			call, ok := ins.(*ssa.Call)
			if !ok {
				continue
			}
			// the selector evaluated as a label match: an empty selector matches everything, like no selector
			if o := calleeObj(call); o != nil && (o.Name() == "SubsetOf" || o.Name() == "Match") && len(call.Call.Args) > 0 {
				if f := fieldOfLoad(unwrap(call.Call.Args[0])); f != nil && f.Name() == "MatchLabels" {
					return true
				}
			}
			if bi, ok := call.Call.Value.(*ssa.Builtin); ok && bi.Name() == "len" && len(call.Call.Args) == 1 {
				a := call.Call.Args[0]
				if f := fieldOfLoad(a); f != nil && f.Name() == "MatchLabels" {
					return true
				}
				if c2, ok := a.(*ssa.Call); ok {
					if o := calleeObj(c2); o != nil && o.Name() == "GetMatchLabels" {
						return true
					}
				}
			}
		}
		return false
	}
	n := 0
	for _, fn := range p.AllFuncs {
		if !isIstioFunc(fn) || fn.Synthetic != "" || strings.HasSuffix(p.Fset.Position(fn.Pos()).Filename, "_test.go") {
			continue
		}
		pp := funcPkgPath(fn)
		if !strings.HasPrefix(pp, istioMod+"/pilot/pkg/") {
			continue
		}
		ord := 0
		msg := "this place classifies a PeerAuthentication as namespace-/mesh-level only when its selector is nil. A selector that is present but empty (`selector: {}`) is namespace-level for the sidecar side (addPeerAuthentication) and for the ambient function that picks a workload's policy keys; here it is taken for a workload-selector policy, so the namespace/mesh level this component composes differs from theirs (e.g. the converted ambient policy misses the STRICT namespace default the workload side counted on)"
		eachInstr(fn, func(ins ssa.Instruction) {
			bo, isB := ins.(*ssa.BinOp)
			if !isB {
				return
			}
			x, eq, ok := nilCmp(bo)
			if !ok || !isPASelector(x) {
				return
			}
			ord++
			n++
			name := fmt.Sprintf("selector==nil on a PeerAuthentication is paired with the empty-selector test: %s (#%d)", stableFnName(fn), ord)
			// the branch(es) deciding on this comparison
			paired, branches := true, 0
			for _, i := range allIfs(fn) {
				v, neg := stripNot(i.Cond)
				if v != ssa.Value(bo) {
					continue
				}
				branches++
				nonNil := 0
				if eq != neg {
					nonNil = 1
				}
				if !testsLabels(i.Block().Succs[nonNil]) {
					paired = false
				}
			}
			c.Check(name, bo.Pos(), branches > 0 && paired, msg)
		})
	}
	c.Check("selector tests on PeerAuthentication found", token.NoPos, n >= 2, "fewer nil tests on a PeerAuthentication selector than confirmed by hand (addPeerAuthentication, convertedSelectorPeerAuthentications)")
	c.Floor(3)
}


// onlyTrueWhenNilOrBefore: a bool helper all of whose possibly-true answers are "a parameter is nil" or the result of
// Time.Before: every return leaf is the constant false, a `param == nil` comparison, a call of Before, or the constant
// true in a block under the true edge of such a test.
func onlyTrueWhenNilOrBefore(h *ssa.Function) bool {
	good := func(v ssa.Value) bool {
		if call, ok := v.(*ssa.Call); ok {
			if o := calleeObj(call); o != nil && o.Name() == "Before" {
				return true
			}
		}
		if x, eq, ok := nilCmp(v); ok && eq {
			if _, isPar := x.(*ssa.Parameter); isPar {
				return true
			}
		}
		return false
	}
	var okE []Edge
	for _, iff := range allIfs(h) {
		v, neg := stripNot(iff.Cond)
		if good(v) && !neg {
			okE = append(okE, Edge{iff.Block(), 0})
		}
		if x, eq, ok := nilCmp(iff.Cond); ok {
			if _, isPar := x.(*ssa.Parameter); isPar {
				idx := 1
				if eq {
					idx = 0
				}
				okE = append(okE, Edge{iff.Block(), idx})
			}
		}
	}
	n := 0
	for _, b := range h.Blocks {
		r, ok := b.Instrs[len(b.Instrs)-1].(*ssa.Return)
		if !ok {
			continue
		}
		if len(r.Results) != 1 {
			return false
		}
		n++
		var check func(v ssa.Value, blk *ssa.BasicBlock, d int) bool
		check = func(v ssa.Value, blk *ssa.BasicBlock, d int) bool {
			if d > 6 {
				return false
			}
			if k, isC := constBool(v); isC {
				return !k || underEdges(h, blk, okE)
			}
			if good(v) {
				return true
			}
			if ph, ok := v.(*ssa.Phi); ok {
				for j, e := range ph.Edges {
					pb := ph.Block().Preds[j]
					if k, isC := constBool(e); isC && k {
						// true arriving over the true edge of a good test
						if iff := ifOf(pb); iff != nil && pb.Succs[0] == ph.Block() {
							if cv, neg := stripNot(iff.Cond); good(cv) && !neg {
								continue
							}
						}
					}
					if !check(e, pb, d+1) {
						return false
					}
				}
				return true
			}
			return false
		}
		if !check(retVal(r, 0), b, 0) {
			return false
		}
	}
	return n > 0
}
