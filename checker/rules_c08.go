package main

import (
	"fmt"
	"go/ast"
	"go/token"
	"go/types"
	"sort"
	"strings"

	"golang.org/x/tools/go/ssa"
)

const pkgAuthzModel = "pilot/pkg/security/authz/model"
const pkgAuthzBuilder = "pilot/pkg/security/authz/builder"
const pkgAuthzAPI = "istio.io/api/security/v1beta1"
const pkgRbac = "github.com/envoyproxy/go-control-plane/envoy/config/rbac/v3"

func init() {
	register(&PropDef{
		ID: "C08",
		Clauses: []string{
			"R1 every field of the AuthorizationPolicy rule messages (Rule, From, To, Source, Operation, Condition) is read by the translator: no restriction is silently dropped",
			"R2 at every rule registration the positive and negative value lists are the fields X and NotX of the same message, and each attribute key is bound to one generator type",
			"R3 no error is discarded anywhere in the rule-generation graph, and checkError hands the error back unchanged for ALLOW (fail closed)",
			"R4 negative value lists reach the output only wrapped in Not",
			"R5 every constructor of an HTTP-only matcher (header, path, path template, JWT/metadata for request.auth) is called only under forTCP==false in the generators",
			"R6 deny/allow/audit policy lists are built with DENY/ALLOW/LOG; a policy without rules yields the match-never policy",
			"R7 trust-domain migration is applied to every model between New and Generate",
		},
		NotDecided: "matcher semantics (regex escaping, prefix/suffix forms, trust-domain alias expansion values), evaluation over requests, CUSTOM action providers",
		Rules: []Rule{
			{"C08-R1", "every policy field is translated", c08r1},
			{"C08-R2", "value / notValue pairing and key-generator binding", c08r2},
			{"C08-R3", "errors pass through the fail-closed gate", c08r3},
			{"C08-R4", "negation kept", c08r4},
			{"C08-R5", "HTTP-only matchers refuse TCP", c08r5},
			{"C08-R6", "action / policy-list agreement", c08r6},
			{"C08-R7", "trust-domain migration on every model", c08r7},
			{"C08-R8", "stateful generators are constructed with their state", c08r8},
			{"C08-R9", "the TCP/HTTP flag is a constant of the entry point", c08r9},
			{"C08-R10", "a copied authz plugin builder starts with an empty memo", c08r10},
		},
	})
}

func c08r1(c *Ctx) {
	p := c.P
	newFn := p.Func(pkgAuthzModel, "", "New")
	reach := p.CG().Reach([]*ssa.Function{newFn}, nil)
	eff := effectsOf(reach)
	for _, t := range []string{"Rule", "Rule_From", "Rule_To", "Source", "Operation", "Condition"} {
		st := p.Struct(pkgAuthzAPI, t)
		for _, f := range fieldsOf(st) {
			if isProtoInternal(f) {
				continue
			}
			_, read := eff.Reads[f]
			c.Check(t+"."+f.Name()+" is translated", f.Pos(), read, "AuthorizationPolicy field "+t+"."+f.Name()+" is never read by authz/model.New: a restriction written in the policy is silently dropped, which makes an ALLOW rule match more requests than the policy says")
		}
	}
	c.Floor(28)
}

func c08r2(c *Ctx) {
	p := c.P
	newFn := p.Func(pkgAuthzModel, "", "New")
	regNames := map[string]bool{"insertFront": true, "insertFrontExtended": true, "appendLast": true, "appendLastExtended": true}
	keyGen := map[string]map[string]bool{}
	n := 0
	// New itself and the helpers of the package it is split into (e.g. one for the when-conditions, one for from/to)
	scanFns := []*ssa.Function{newFn}
	seenScan := map[*ssa.Function]bool{newFn: true}
	for i := 0; i < len(scanFns) && i < 12; i++ {
		for _, h := range helperCalls(scanFns[i]) {
			if !seenScan[h.callee] && !regNames[h.callee.Name()] {
				seenScan[h.callee] = true
				scanFns = append(scanFns, h.callee)
			}
		}
	}
	for _, scanFn := range scanFns {
		newFn := scanFn
		eachInstr(newFn, func(ins ssa.Instruction) {
			call, ok := ins.(*ssa.Call)
			if !ok {
				return
			}
			o := calleeObj(call)
			if o == nil || !regNames[o.Name()] {
				return
			}
			args := call.Call.Args // recv, g, key, values, notValues
			if len(args) != 5 {
				return
			}
			n++
			fv, fn := fieldOfLoad(args[3]), fieldOfLoad(args[4])
			okp := fv != nil && fn != nil && fn.Name() == "Not"+fv.Name()
			if okp {
				b1, _ := fieldLoadOf(args[3], fv)
				b2, _ := fieldLoadOf(args[4], fn)
				okp = b1 == b2 || sameValue(b1, b2)
			}
			// `when` conditions: Values / NotValues
			names := "?"
			if fv != nil && fn != nil {
				names = fv.Name() + "/" + fn.Name()
			}
			c.Check("registration pairs X with NotX: "+names, call.Pos(), okp, "a rule is registered with value lists that are not the fields X and NotX of the same message: a positive list is negated or a negation is applied to the wrong attribute")
			// key -> generator type
			key := ""
			if s, ok := constString(args[2]); ok {
				key = s
			} else {
				key = "<when.Key>"
				// `case k == attrX:` -> the registration lies under the edge k == "attrX"
				for _, i := range allIfs(newFn) {
					b, ok := i.Cond.(*ssa.BinOp)
					if !ok || b.Op != token.EQL {
						continue
					}
					var ks string
					if b.X == args[2] {
						ks, ok = constString(b.Y)
					} else if b.Y == args[2] {
						ks, ok = constString(b.X)
					} else {
						continue
					}
					if ok && underEdges(newFn, call.Block(), []Edge{{i.Block(), 0}}) {
						key = ks
					}
				}
			}
			gt := "?"
			if mi, ok := args[1].(*ssa.MakeInterface); ok {
				if nn, ok := derefNamed(mi.X.Type()); ok {
					gt = nn.Obj().Name()
				}
			}
			if key != "<when.Key>" {
				if keyGen[key] == nil {
					keyGen[key] = map[string]bool{}
				}
				keyGen[key][gt] = true
			}
		})
	}
	for _, k := range sortedKeys(keyGen) {
		c.Check("attribute "+k+" is bound to one generator", newFn.Pos(), len(keyGen[k]) == 1, "attribute key "+k+" is translated by different generators in different places: "+joinSorted(keyGen[k]))
	}
	c.Check("rule registrations found", newFn.Pos(), n >= 25, "fewer rule registrations than confirmed by hand")
	c.Floor(30)
}

func c08r3(c *Ctx) {
	p := c.P
	entries := []*ssa.Function{p.Func(pkgAuthzModel, "Model", "Generate")}
	reach := p.CG().Reach(entries, func(f *ssa.Function) bool { return funcPkgPath(f) != istioMod+"/"+pkgAuthzModel })
	errT := types.Universe.Lookup("error").Type()
	n := 0
	var fns []*ssa.Function
	for fn := range reach {
		fns = append(fns, fn)
	}
	sort.Slice(fns, func(i, j int) bool { return fnKey(fns[i]) < fnKey(fns[j]) })
	for _, fn := range fns {
		eachInstr(fn, func(ins ssa.Instruction) {
			call, ok := ins.(*ssa.Call)
			if !ok {
				return
			}
			tup, ok := call.Type().(*types.Tuple)
			var errIdx = -1
			if ok {
				for i := 0; i < tup.Len(); i++ {
					if types.Identical(tup.At(i).Type(), errT) {
						errIdx = i
					}
				}
			} else if types.Identical(call.Type(), errT) {
				n++
				c.Check("error used:"+shortFn(fn)+":"+calleeName(call), call.Pos(), hasRealReferrers(call), "an error is discarded in the RBAC generation graph")
				return
			}
			if errIdx < 0 {
				return
			}
			n++
			used := false
			for _, r := range *call.Referrers() {
				if ex, ok := r.(*ssa.Extract); ok && ex.Index == errIdx && hasRealReferrers(ex) {
					used = true
				}
				if _, ok := r.(*ssa.Return); ok {
					used = true // tuple returned as a whole
				}
			}
			c.Check("error used:"+shortFn(fn)+":"+calleeName(call), call.Pos(), used,
				"the error of "+calleeName(call)+" is discarded in the RBAC generation graph: a rule part that cannot be expressed (e.g. an HTTP-only condition on a TCP port) is dropped silently, so an ALLOW rule is emitted with its remaining, weaker conditions instead of matching nothing")
		})
	}
	// checkError: ALLOW => the error itself
	ce := p.Func(pkgAuthzModel, "rule", "checkError")
	allowVal, _ := constInt(p.Const(pkgRbac, "RBAC_ALLOW"))
	var allowEdges []Edge
	for _, i := range allIfs(ce) {
		b, ok := i.Cond.(*ssa.BinOp)
		if !ok || b.Op != token.EQL {
			continue
		}
		if k, ok := b.Y.(*ssa.Const); ok && k.Value != nil && k.Int64() == allowVal {
			allowEdges = append(allowEdges, Edge{i.Block(), 0})
		}
	}
	okc := len(allowEdges) == 1
	if okc {
		_, found := pathAvoidingE(allowEdges[0].To(), nil, nil, func(ins ssa.Instruction) bool {
			r, ok := ins.(*ssa.Return)
			return ok && retVal(r, 0) != ssa.Value(paramNamed(ce, "err"))
		}, nil, nil)
		okc = !found
	}
	c.Check("checkError returns the error unchanged for ALLOW", ce.Pos(), okc, "for an ALLOW policy checkError does not hand the generator's error back: an untranslatable ALLOW rule is no longer dropped as a whole (fail open)")
	c.Floor(12)
	_ = n
}

func calleeName(call *ssa.Call) string {
	if o := calleeObj(call); o != nil {
		return o.Name()
	}
	return "<dynamic>"
}

func c08r4(c *Ctx) {
	p := c.P
	notValues := p.Field(pkgAuthzModel, "rule", "notValues")
	for _, spec := range []struct{ fn, not string }{{"permission", "permissionNot"}, {"principal", "principalNot"}} {
		fn := p.Func(pkgAuthzModel, "rule", spec.fn)
		notObj := p.FuncObj(pkgAuthzModel, "", spec.not)
		// taint: values derived from r.notValues
		tainted := map[ssa.Value]bool{}
		changed := true
		for changed {
			changed = false
			eachInstr(fn, func(ins ssa.Instruction) {
				v, ok := ins.(ssa.Value)
				if !ok || tainted[v] {
					return
				}
				mark := false
				switch x := ins.(type) {
				case *ssa.UnOp:
					if fieldOfLoad(x) == notValues || tainted[x.X] {
						mark = true
					}
				case *ssa.Field:
					if fieldVar(x.X.Type(), x.Field) == notValues {
						mark = true
					}
				case *ssa.IndexAddr:
					mark = tainted[x.X]
				case *ssa.Index:
					mark = tainted[x.X]
				case *ssa.Extract:
					mark = tainted[x.Tuple]
				case *ssa.Phi:
					for _, e := range x.Edges {
						if tainted[e] {
							mark = true
						}
					}
				case *ssa.Slice:
					mark = tainted[x.X]
				case *ssa.Call:
					if isCallTo(x, notObj) {
						return // sanitised
					}
					for _, a := range x.Call.Args {
						if tainted[a] {
							mark = true
						}
					}
					if x.Call.IsInvoke() && tainted[x.Call.Value] {
						mark = true
					}
				}
				if mark {
					tainted[v] = true
					changed = true
				}
			})
		}
		// the returned slice must not receive tainted elements
		n := 0
		eachInstr(fn, func(ins ssa.Instruction) {
			r, ok := ins.(*ssa.Return)
			if !ok {
				return
			}
			n++
			c.Check("rule."+spec.fn+": negative values reach the result only through "+spec.not, r.Pos(), !tainted[retVal(r, 0)],
				"a matcher built from notValues flows into the returned list without being wrapped in "+spec.not+": the negative condition is enforced as a positive one (or not at all)")
		})
		c.Check("rule."+spec.fn+" wraps negatives", fn.Pos(), len(callsIn(fn, notObj)) >= 2, "expected both the simple and the extended negative branch to call "+spec.not)
		_ = n
	}
	c.Floor(6)
}

func c08r5(c *Ctx) {
	p := c.P
	httpOnly := []string{"permissionHeader", "permissionPath", "permissionPathTemplate", "principalHeader"}
	var objs []*types.Func
	for _, n := range httpOnly {
		objs = append(objs, p.FuncObj(pkgAuthzModel, "", n))
	}
	// request.auth.* metadata matchers are HTTP-only as well: generators named request*Generator
	nsites := 0
	for _, fn := range p.AllFuncs {
		if funcPkgPath(fn) != istioMod+"/"+pkgAuthzModel || strings.HasSuffix(p.Fset.Position(fn.Pos()).Filename, "_test.go") {
			continue
		}
		recvName := ""
		if fn.Signature.Recv() != nil {
			if n, ok := derefNamed(fn.Signature.Recv().Type()); ok {
				recvName = n.Obj().Name()
			}
		}
		isGenMethod := recvName != "" && strings.HasSuffix(recvName, "Generator")
		if !isGenMethod {
			continue
		}
		var forTCP *ssa.Parameter
		for _, prm := range fn.Params {
			if prm.Name() == "forTCP" {
				forTCP = prm
			}
		}
		requestAuth := strings.HasPrefix(recvName, "request")
		eachInstr(fn, func(ins ssa.Instruction) {
			call, ok := ins.(*ssa.Call)
			if !ok {
				return
			}
			hit := isCallTo(call, objs...)
			if !hit && requestAuth {
				if o := calleeObj(call); o != nil && (o.Name() == "principalMetadata" || o.Name() == "permissionMetadata") {
					hit = true
				}
			}
			if !hit {
				return
			}
			nsites++
			okg := false
			if forTCP != nil {
				edges := edgesWhere(fn, func(v ssa.Value) bool { return v == ssa.Value(forTCP) }, false)
				okg = underEdges(fn, call.Block(), edges)
			}
			c.Check("HTTP-only matcher under !forTCP:"+recvName+"."+fn.Name()+":"+calleeName(call), call.Pos(), okg,
				"an HTTP-only matcher (header/path/JWT metadata) is built on a path that does not pass forTCP==false: on a TCP filter chain the attribute does not exist, so the condition evaluates unpredictably instead of the rule being dropped (ALLOW) / kept on its remaining conditions (DENY)")
		})
	}
	c.Check("HTTP-only matcher sites found", token.NoPos, nsites >= 8, "fewer HTTP-only matcher construction sites than confirmed by hand")
	c.Floor(9)
}

func c08r6(c *Ctx) {
	p := c.P
	fn := p.Func(pkgAuthzBuilder, "", "build")
	bb := p.FuncObj(pkgAuthzBuilder, "Builder", "build")
	want := map[string]string{"denyPolicies": "RBAC_DENY", "allowPolicies": "RBAC_ALLOW", "auditPolicies": "RBAC_LOG"}
	seen := map[string]bool{}
	// generic function: look at every instance / the generic body
	var bodies []*ssa.Function
	for _, f := range p.AllFuncs {
		// instances first: inside the generic body a call to another generic has no body to follow
		if f.Origin() != nil && f.Origin() == fn && len(f.Blocks) > 0 {
			bodies = append(bodies, f)
		}
	}
	sort.Slice(bodies, func(i, j int) bool { return bodies[i].String() < bodies[j].String() })
	bodies = append(bodies, fn)
	if len(bodies) == 0 {
		bodies = []*ssa.Function{fn}
	}
	// forwards(h): h hands its parameters (list, action) on to Builder.build -> indices of those parameters
	forwards := func(h *ssa.Function) (li, ai int, ok bool) {
		li, ai = -1, -1
		eachInstr(h, func(ins ssa.Instruction) {
			call, isCall := ins.(*ssa.Call)
			if !isCall || !isCallTo(call, bb) || len(call.Call.Args) < 3 {
				return
			}
			if pl, isP := call.Call.Args[1].(*ssa.Parameter); isP {
				li = paramIndex(h, pl)
			}
			if pa, isP := call.Call.Args[2].(*ssa.Parameter); isP {
				ai = paramIndex(h, pa)
			}
		})
		return li, ai, li >= 0 && ai >= 0
	}
	for _, body := range bodies[:1] {
		eachInstr(body, func(ins ssa.Instruction) {
			call, ok := ins.(*ssa.Call)
			if !ok || len(call.Call.Args) < 3 {
				return
			}
			listArg, actArg := 1, 2
			if !isCallTo(call, bb) {
				// a same-package helper that forwards (list, action) to Builder.build
				sc := call.Call.StaticCallee()
				if sc == nil || len(sc.Blocks) == 0 || funcPkgPath(sc) != funcPkgPath(body) {
					return
				}
				li, ai, fw := forwards(sc)
				if !fw || li >= len(call.Call.Args) || ai >= len(call.Call.Args) {
					return
				}
				listArg, actArg = li, ai
			}
			lf := fieldOfLoad(call.Call.Args[listArg])
			if lf == nil {
				if f2, ok := call.Call.Args[listArg].(*ssa.Field); ok {
					lf = fieldVar(f2.X.Type(), f2.Field)
				}
			}
			if lf == nil {
				return
			}
			w, known := want[lf.Name()]
			if !known {
				return
			}
			seen[lf.Name()] = true
			k, ok := call.Call.Args[actArg].(*ssa.Const)
			wv, _ := constInt(p.Const(pkgRbac, w))
			c.Check("policy list "+lf.Name()+" built with "+w, call.Pos(), ok && k.Value != nil && k.Int64() == wv, "the "+lf.Name()+" list is compiled with a different RBAC action: deny rules would admit, or allow rules reject")
		})
	}
	for k := range want {
		c.Check("policy list "+k+" is built", fn.Pos(), seen[k], "no build call for "+k)
	}
	// empty policy => match never
	bfn := p.SSA.FuncValue(bb)
	never := p.Var(pkgAuthzBuilder, "rbacPolicyMatchNever")
	stored := false
	eachInstr(bfn, func(ins ssa.Instruction) {
		if mu, ok := ins.(*ssa.MapUpdate); ok {
			if g := globalOf(mu.Value); g == never.Name() {
				stored = true
				// under len(rules) == 0
				c.Check("match-never policy stored for a policy without rules", mu.Pos(), true, "")
			}
		}
	})
	c.Check("policy without rules maps to match-never", bfn.Pos(), stored, "a policy with zero rules no longer produces the explicit never-matching policy: an ALLOW policy with no rules (deny all) would vanish and admit everything")
	c.Floor(7)
}

func c08r7(c *Ctx) {
	p := c.P
	bfn := p.Func(pkgAuthzBuilder, "Builder", "build")
	newO := p.FuncObj(pkgAuthzModel, "", "New")
	mig := p.FuncObj(pkgAuthzModel, "Model", "MigrateTrustDomain")
	gen := p.FuncObj(pkgAuthzModel, "Model", "Generate")
	news := callsIn(bfn, newO)
	c.Check("Builder.build creates models", bfn.Pos(), len(news) >= 1, "no authzmodel.New call")
	for _, n := range news {
		_, found := pathAvoidingE(nil, n, func(i ssa.Instruction) bool { return isCallTo(i, mig) }, func(i ssa.Instruction) bool { return isCallTo(i, gen) }, nil, nil)
		c.Check("MigrateTrustDomain between New and Generate on every path", n.Pos(), !found,
			"a model can reach Generate without MigrateTrustDomain: principals written with the cluster.local pointer or a trust-domain alias are not rewritten to the mesh's trust domain(s), so DENY rules stop matching real peers and ALLOW rules reject them")
	}
	c.Floor(2)
}

// C08-R8: a generator that carries state (fields its methods read, e.g. the policy namespace used to expand a short
// service-account name) is never constructed with that state left at the zero value: every composite literal of such a
// type in the package sets every field the type's methods read.
func c08r8(c *Ctx) {
	p := c.P
	pk := p.Pkg(pkgAuthzModel)
	gen := p.Named(pkgAuthzModel, "generator").Underlying().(*types.Interface)
	ext := p.Named(pkgAuthzModel, "extendedGenerator").Underlying().(*types.Interface)
	nTypes, nLits := 0, 0
	for _, f := range pk.Syntax {
		if strings.HasSuffix(p.Fset.Position(f.Pos()).Filename, "_test.go") {
			continue
		}
		ast.Inspect(f, func(n ast.Node) bool {
			cl, ok := n.(*ast.CompositeLit)
			if !ok {
				return true
			}
			tv, ok := pk.TypesInfo.Types[cl]
			if !ok {
				return true
			}
			nt, ok := tv.Type.(*types.Named)
			if !ok {
				return true
			}
			st, ok := nt.Underlying().(*types.Struct)
			if !ok || st.NumFields() == 0 {
				return true
			}
			if !types.Implements(nt, gen) && !types.Implements(nt, ext) && !types.Implements(types.NewPointer(nt), gen) && !types.Implements(types.NewPointer(nt), ext) {
				return true
			}
			// fields read by the type's methods
			var ms []*ssa.Function
			for i := 0; i < nt.NumMethods(); i++ {
				if fn := p.SSA.FuncValue(nt.Method(i)); fn != nil && fn.Blocks != nil {
					ms = append(ms, fn)
				}
			}
			eff := effectsOfFuncs(ms)
			set := map[string]bool{}
			positional := len(cl.Elts) == st.NumFields()
			for _, e := range cl.Elts {
				if kv, ok := e.(*ast.KeyValueExpr); ok {
					positional = false
					if id, ok := kv.Key.(*ast.Ident); ok {
						set[id.Name] = true
					}
				}
			}
			nLits++
			for i := 0; i < st.NumFields(); i++ {
				fv := st.Field(i)
				if _, read := eff.Reads[fv]; !read {
					continue
				}
				nTypes++
				c.Check("generator state set at construction: "+nt.Obj().Name()+"."+fv.Name(), cl.Pos(), positional || set[fv.Name()],
					"a "+nt.Obj().Name()+" is constructed without its "+fv.Name()+", which its matcher generation reads: the value is expanded against the zero value (e.g. an empty namespace), the generated matcher matches no identity, a DENY rule using it admits the named principal and an ALLOW rule rejects it")
			}
			return true
		})
	}
	c.Check("stateful generator literals found", token.NoPos, nTypes >= 2 && nLits >= 2, "fewer constructions of stateful generators than confirmed by hand (srcServiceAccountGenerator: source field and when condition)")
	c.Floor(3)
}

// staticCallers: call sites by static callee over the istio functions (memoised per program).
func (p *Prog) staticCallers() map[*ssa.Function][]ssa.CallInstruction {
	if p.callersMemo != nil {
		return p.callersMemo
	}
	m := map[*ssa.Function][]ssa.CallInstruction{}
	for _, fn := range p.AllFuncs {
		if !isIstioFunc(fn) {
			continue
		}
		eachInstr(fn, func(ins ssa.Instruction) {
			if ci, ok := ins.(ssa.CallInstruction); ok {
				if sc := ci.Common().StaticCallee(); sc != nil {
					m[sc] = append(m[sc], ci)
				}
			}
		})
	}
	p.callersMemo = m
	return m
}

func isGenericOrigin(fn *ssa.Function) bool {
	return fn.TypeParams().Len() > 0 && len(fn.TypeArgs()) == 0
}

// C08-R9: whether rules are generated for a TCP filter chain is said by the entry point, as a constant. HTTP-only
// fields are unexpressible exactly when forTCP is true; BuildTCPRulesAsHTTPFilter produces an HTTP *filter* that carries
// TCP *rules* (waypoint tunnel termination), so the flag cannot be derived from the filter type. Every forTCP argument
// of Builder.build is traced back through parameters to constants at exported entry points, and the (entry point,
// constant) pairs must be exactly the table below.
var c08r9Table = map[string]bool{
	"BuildHTTP":                 false,
	"BuildTCP":                  true,
	"BuildTCPRulesAsHTTPFilter": true,
}

func c08r9(c *Ctx) {
	p := c.P
	inner := p.Func(pkgAuthzBuilder, "Builder", "build")
	idx := -1
	for i, q := range inner.Params {
		if q.Name() == "forTCP" {
			idx = i
		}
	}
	if idx < 0 {
		c.Check("Builder.build takes the protocol flag", inner.Pos(), false, "Builder.build has no forTCP parameter any more; the rule needs re-confirmation")
		return
	}
	callers := p.staticCallers()
	seen := map[string]bool{}
	type key struct {
		fn *ssa.Function
		v  ssa.Value
	}
	visited := map[key]bool{}
	var trace func(fn *ssa.Function, v ssa.Value, pos token.Pos, depth int)
	trace = func(fn *ssa.Function, v ssa.Value, pos token.Pos, depth int) {
		if visited[key{fn, v}] {
			return
		}
		visited[key{fn, v}] = true
		if k, ok := constBool(v); ok {
			name := fn.Name()
			if o := fn.Origin(); o != nil {
				name = o.Name()
			}
			want, known := c08r9Table[name]
			seen[name] = true
			c.Check("protocol flag of entry point "+name, pos, known && want == k,
				fmt.Sprintf("%s generates authorization rules with forTCP=%v; confirmed: %v (known entry point: %v). With the wrong flag HTTP-only fields of a rule are either dropped from a TCP chain's DENY rule or - worse - matched against the tunnel's CONNECT request instead of making an ALLOW rule match nothing", stableFnName(fn), k, want, known))
			return
		}
		if par, ok := v.(*ssa.Parameter); ok && depth > 0 {
			pi := paramIndex(fn, par)
			n := 0
			for _, cs := range callers[fn] {
				if isGenericOrigin(cs.Parent()) || isWrapperFn(cs.Parent()) || strings.HasSuffix(p.Fset.Position(cs.Parent().Pos()).Filename, "_test.go") {
					continue
				}
				n++
				trace(cs.Parent(), cs.Common().Args[pi], cs.Pos(), depth-1)
			}
			if n > 0 || isGenericOrigin(fn) {
				return
			}
		}
		c.Check("protocol flag is a constant of the entry point: "+stableFnName(fn), pos, false,
			"the forTCP flag that reaches Builder.build here is computed, not a constant handed down from an exported entry point. It cannot be derived from the filter type: BuildTCPRulesAsHTTPFilter builds an HTTP filter from TCP rules, and with forTCP=false there HTTP-only fields stop being unexpressible (an ALLOW rule with hosts:* admits raw TCP, a DENY rule with paths no longer rejects it)")
	}
	n := 0
	for _, cs := range callers[inner] {
		if strings.HasSuffix(p.Fset.Position(cs.Parent().Pos()).Filename, "_test.go") || isGenericOrigin(cs.Parent()) || isWrapperFn(cs.Parent()) {
			continue
		}
		n++
		trace(cs.Parent(), cs.Common().Args[idx], cs.Pos(), 3)
	}
	for name := range c08r9Table {
		c.Check("entry point "+name+" reaches Builder.build", inner.Pos(), seen[name], "no constant protocol flag flows from "+name+" to Builder.build")
	}
	c.Check("Builder.build call sites found", inner.Pos(), n >= 1, "no call site of Builder.build found")
	c.Floor(6)
}

// isWrapperFn: synthetic method wrappers / thunks / bound-method closures (instances of generics are synthetic too, but real code).
func isWrapperFn(fn *ssa.Function) bool {
	s := fn.Synthetic
	return strings.HasPrefix(s, "wrapper") || strings.HasPrefix(s, "bound") || strings.HasPrefix(s, "thunk") || strings.HasPrefix(s, "from type") || strings.HasPrefix(s, "loaded from")
}

// C08-R10: a copied filter builder does not carry another listener's filters. The authz plugin builder memoises what it
// built (httpBuilt/httpFilters, tcpBuilt/tcpFilters): the filters depend on how the peer identity is read (TLS
// certificate vs. the io.istio.peer_principal filter state), so a builder derived from another one for a different kind of
// listener must start with an empty memo. Wherever a plugin/authz.Builder value is copied (a store of a loaded Builder
// into a new one), every path from the copy to a return resets each memo flag. Constructing a fresh builder
// (NewBuilder) has nothing to reset. Memo fields are derived: the Builder fields that its own methods write.
func c08r10(c *Ctx) {
	p := c.P
	pkgPA := "pilot/pkg/networking/plugin/authz"
	bt := p.Struct(pkgPA, "Builder")
	// memo fields: written by methods of *Builder
	memo := map[*types.Var]bool{}
	for _, fn := range p.AllFuncs {
		if funcPkgPath(fn) != istioMod+"/"+pkgPA || fn.Signature.Recv() == nil || isWrapperFn(fn) || len(fn.Blocks) == 0 {
			continue
		}
		recv := fn.Params[0]
		eachInstr(fn, func(ins ssa.Instruction) {
			st, ok := ins.(*ssa.Store)
			if !ok {
				return
			}
			if fa, ok := st.Addr.(*ssa.FieldAddr); ok && fa.X == ssa.Value(recv) && structOf(fa.X.Type()) == bt {
				memo[fieldVar(fa.X.Type(), fa.Field)] = true
			}
		})
	}
	var flags []*types.Var
	for f := range memo {
		if b, ok := f.Type().Underlying().(*types.Basic); ok && b.Kind() == types.Bool {
			flags = append(flags, f)
		}
	}
	sort.Slice(flags, func(i, j int) bool { return flags[i].Name() < flags[j].Name() })
	c.Check("the authz plugin builder memoises behind flags", token.NoPos, len(flags) >= 2, fmt.Sprintf("%d memo flags derived from the methods of plugin/authz.Builder", len(flags)))
	nCopies := 0
	for _, fn := range p.AllFuncs {
		if !isIstioFunc(fn) || isWrapperFn(fn) || len(fn.Blocks) == 0 || strings.HasSuffix(p.Fset.Position(fn.Pos()).Filename, "_test.go") {
			continue
		}
		eachInstr(fn, func(ins ssa.Instruction) {
			st, ok := ins.(*ssa.Store)
			if !ok {
				return
			}
			// *dst = *src with both of struct type Builder
			if structOf(types.NewPointer(st.Val.Type())) != bt {
				return
			}
			u, ok := st.Val.(*ssa.UnOp)
			if !ok || u.Op != token.MUL {
				return
			}
			nCopies++
			for _, f := range flags {
				isReset := func(i ssa.Instruction) bool {
					s2, ok := i.(*ssa.Store)
					if !ok {
						return false
					}
					fa, ok := s2.Addr.(*ssa.FieldAddr)
					if !ok || fa.X != st.Addr || fieldVar(fa.X.Type(), fa.Field) != f {
						return false
					}
					k, isC := constBool(s2.Val)
					return isC && !k
				}
				hit := pathAvoiding(fn, st, isReset, isReturn)
				c.Check("a copied authz plugin builder starts with an empty memo: "+stableFnName(fn)+"|"+f.Name(), st.Pos(), hit == nil,
					"a plugin/authz.Builder is copied here and "+f.Name()+" is not reset on every path: the copy returns the filters memoised by the builder it was copied from - built for a different kind of listener (peer identity from the TLS certificate instead of the io.istio.peer_principal filter state) - so on the HBONE internal listener source-based DENY rules never match and ALLOW rules by source never admit")
			}
		})
	}
	c.Infof("copies of plugin/authz.Builder values: %d; memo flags: %d", nCopies, len(flags))
	c.Floor(1)
}
