package main

import (
	"fmt"
	"go/token"
	"sort"
	"strings"

	"golang.org/x/tools/go/ssa"
)

// C04-R8: the recorded subscription is replaced, never edited in place. WatchedResource.ResourceNames is the server's
// record of what the client asked for; requests replace it with a new set under the checks of R2/R5. A set handed out by
// the record is shared with whoever reads the record next (the push path, the next request's diff), so a mutating set
// operation applied to it - outside the request paths that own the record - silently changes the subscription: trimming
// it while computing the removals of a push makes the server forget names the client still subscribes to. Decided over
// the module: every call of a mutating method of sets.Set (the methods whose body writes or deletes map entries of the
// receiver, directly or through another such method - extracted from pkg/util/sets on every run), and every direct map
// write / delete, whose target is the value loaded from a WatchedResource's ResourceNames (not a Copy of it) lies in a
// function of the frozen table of record owners.
var c04r8Owners = map[string]string{
	"(pilot/pkg/xds.WorkloadGenerator).generateDeltasOndemand": "on-demand workload discovery: the client asked for a VIP and is answered with the pods behind it; the generator deliberately adds the names it sent to the record (under the proxy lock, assigning the merged set back) so that later changes of those pods are pushed. Documented in place; it only ever adds names that were just sent.",
}

func mutatingSetMethods(p *Prog) map[string]bool {
	mut := map[string]bool{}
	var methods []*ssa.Function
	for _, fn := range p.AllFuncs {
		if funcPkgPath(fn) != istioMod+"/pkg/util/sets" || fn.Signature.Recv() == nil || len(fn.Blocks) == 0 || isWrapperFn(fn) {
			continue
		}
		if !isGenericOrigin(fn) {
			continue
		}
		methods = append(methods, fn)
	}
	for changed := true; changed; {
		changed = false
		for _, fn := range methods {
			if mut[fn.Name()] || len(fn.Params) == 0 {
				continue
			}
			recv := fn.Params[0]
			m := false
			eachInstr(fn, func(ins ssa.Instruction) {
				switch x := ins.(type) {
				case *ssa.MapUpdate:
					if x.Map == recv {
						m = true
					}
				case *ssa.Call:
					if bi, ok := x.Call.Value.(*ssa.Builtin); ok && (bi.Name() == "delete" || bi.Name() == "clear") && len(x.Call.Args) > 0 && x.Call.Args[0] == recv {
						m = true
					}
					if o := calleeObj(x); o != nil && mut[o.Name()] && len(x.Call.Args) > 0 && x.Call.Args[0] == recv && o.Pkg() != nil && strings.HasSuffix(o.Pkg().Path(), "istio/pkg/util/sets") {
						m = true
					}
				}
			})
			if m {
				mut[fn.Name()] = true
				changed = true
			}
		}
	}
	return mut
}

func c04r8(c *Ctx) {
	p := c.P
	mut := mutatingSetMethods(p)
	var names []string
	for n := range mut {
		names = append(names, n)
	}
	sort.Strings(names)
	c.Check("mutating methods of sets.Set extracted (positive control)", token.NoPos, mut["Insert"] && mut["Delete"] && mut["DifferenceInPlace"] && !mut["Copy"] && !mut["Contains"] && !mut["Difference"],
		fmt.Sprintf("extracted %v", names))
	c.Infof("mutating methods of sets.Set: %v", names)
	rn := p.Field(pkgXdsLib, "WatchedResource", "ResourceNames")
	// v is the record's own set: a load of the field, through phis / conversions / mutators that return their receiver
	var isRecordSet func(v ssa.Value, d int) bool
	isRecordSet = func(v ssa.Value, d int) bool {
		if d > 6 {
			return false
		}
		switch x := v.(type) {
		case *ssa.UnOp:
			if x.Op == token.MUL {
				if fa, ok := x.X.(*ssa.FieldAddr); ok && fieldVar(fa.X.Type(), fa.Field) == rn {
					return true
				}
			}
		case *ssa.Field:
			return fieldVar(x.X.Type(), x.Field) == rn
		case *ssa.Phi:
			for _, e := range x.Edges {
				if isRecordSet(e, d+1) {
					return true
				}
			}
		case *ssa.ChangeType:
			return isRecordSet(x.X, d+1)
		case *ssa.Call:
			// a mutator returns its receiver
			if o := calleeObj(x); o != nil && mut[o.Name()] && o.Pkg() != nil && strings.HasSuffix(o.Pkg().Path(), "istio/pkg/util/sets") && len(x.Call.Args) > 0 {
				return isRecordSet(x.Call.Args[0], d+1)
			}
		}
		return false
	}
	n, nLoads := 0, 0
	for _, fn := range p.AllFuncs {
		if !strings.HasPrefix(funcPkgPath(fn), istioMod+"/") || strings.HasSuffix(p.Fset.Position(fn.Pos()).Filename, "_test.go") || len(fn.Blocks) == 0 || isWrapperFn(fn) || isGenericOrigin(fn) {
			continue
		}
		if pp := funcPkgPath(fn); strings.Contains(pp, "/test/") || strings.HasSuffix(pp, "/test") {
			continue
		}
		eachInstr(fn, func(ins ssa.Instruction) {
			if u, ok := ins.(*ssa.UnOp); ok && isRecordSet(u, 0) {
				nLoads++
			}
			var target ssa.Value
			what := ""
			switch x := ins.(type) {
			case *ssa.MapUpdate:
				target, what = x.Map, "a map write"
			case *ssa.Call:
				if bi, ok := x.Call.Value.(*ssa.Builtin); ok && (bi.Name() == "delete" || bi.Name() == "clear") && len(x.Call.Args) > 0 {
					target, what = x.Call.Args[0], bi.Name()
				} else if o := calleeObj(x); o != nil && mut[o.Name()] && o.Pkg() != nil && strings.HasSuffix(o.Pkg().Path(), "istio/pkg/util/sets") && len(x.Call.Args) > 0 {
					target, what = x.Call.Args[0], "sets.Set."+o.Name()
				}
			}
			if target == nil || !isRecordSet(target, 0) {
				return
			}
			n++
			key := stableFnName(fn)
			_, owner := c04r8Owners[key]
			c.Check("the recorded subscription is not edited in place: "+key+"|"+what, ins.Pos(), owner,
				"WatchedResource.ResourceNames - the server's record of what the client subscribed to - is modified in place by "+what+" outside the request paths that own the record: the set is shared with every later reader of the record, so the server forgets (or invents) subscribed names without any request from the client; later pushes skip resources the client still waits for and the next request is diffed against a wrong baseline")
		})
	}
	c.Check("loads of the recorded subscription found (positive control)", token.NoPos, nLoads >= 10, fmt.Sprintf("%d loads of WatchedResource.ResourceNames examined", nLoads))
	c.Infof("in-place edits of the recorded subscription: %d; loads examined: %d", n, nLoads)
	c.Floor(2)
}
