package main

import (
	"fmt"
	"go/ast"
	"go/token"
	"go/types"
	"sort"
	"strings"

	"golang.org/x/tools/go/ssa"
)

const pkgV3 = "pilot/pkg/xds/v3"

func init() {
	register(&PropDef{
		ID: "C03",
		Clauses: []string{
			"R1 every kind admitted to the delta path (deltaConfigTypes for CDS, deltaAwareEdsConfigs for EDS) has a handler case in the generator's kind switch",
			"R2 Generate and GenerateDeltas of every delta-capable generator consult the same *NeedsPush predicate (or one delegates to the other)",
			"R3 on delta, a successful CDS answer is followed by forceEDSPush on every path",
			"R4 removal bookkeeping in pushDeltaXds: RemovedResources is the generator's list when it used delta, watched-minus-generated when it did a full non-incremental generation, and is cleared only for never-remove types",
			"R5 a type whose names are generator-managed (requiresResourceNamesModification) is served by a generator that itself records the names it sent (writes WatchedResource.ResourceNames)",
		},
		NotDecided: "equality of the client-held sets over histories; correctness of deltaFrom* diffing (which clusters a deleted service or DestinationRule owned)",
		Rules: []Rule{
			{"C03-R1", "delta-aware kinds have handlers", c03r1},
			{"C03-R2", "SotW / delta sibling agreement", c03r2},
			{"C03-R3", "CDS implies EDS on delta", c03r3},
			{"C03-R4", "removal bookkeeping shape", c03r4},
			{"C03-R4b", "EDS reports delta semantics exactly when it may omit unchanged clusters", c03r4b},
			{"C03-R5", "generator-managed names are recorded by the generator", c03r5},
			{"C03-R6", "no computed set is dropped in the subscription book-keeping", c03r6},
			{"C03-R7", "an index over the watched names keeps every name", c03r7},
			{"C03-R8", "the delta CDS scope diff looks at the ports of services that stay in scope", c03r8},
			{"C03-R9", "the scope's DestinationRule index covers every rule the scope depends on", c03r9},
			{"C03-R3b", "the forced EDS push after a delta CDS answer is unconditional (shared with C05-R9)", c05r9},
		},
	})
}

func kindSwitchLabels(p *Prog, pkg, recv, name string) []string {
	obj := p.FuncObj(pkg, recv, name)
	decl := p.Decl(obj)
	info := p.InfoFor(obj)
	clauses, _ := switchClauses(info, decl.Body, istioMod+"/"+pkgKind, func(e ast.Expr) bool { return strings.HasSuffix(selectorName(e), ".Kind") })
	if clauses == nil {
		anchorFail("%s: switch over .Kind not found", name)
	}
	return sortedKeys(clauses)
}

func (p *Prog) kindSetIn(pkg, name string) []string {
	e, info := p.varInit(pkg, name)
	ks := constsIn(info, e, istioMod+"/"+pkgKind)
	sort.Strings(ks)
	return ks
}

func c03r1(c *Ctx) {
	p := c.P
	for _, s := range []struct {
		tablePkg, table, fnPkg, recv, fn, typ string
	}{
		{pkgCore, "deltaConfigTypes", pkgCore, "ConfigGeneratorImpl", "BuildDeltaClusters", "CDS"},
		{pkgXds, "deltaAwareEdsConfigs", pkgXds, "EdsGenerator", "buildEndpoints", "EDS"},
	} {
		table := p.kindSetIn(s.tablePkg, s.table)
		labels := kindSwitchLabels(p, s.fnPkg, s.recv, s.fn)
		c.Infof("%s: %s=%v, handler cases=%v", s.typ, s.table, table, labels)
		c.Check(s.typ+":"+s.table+" extracted", token.NoPos, len(table) >= 3, "delta-aware kind table came out (nearly) empty")
		for _, k := range table {
			c.Check(s.typ+":delta-aware kind "+k+" has a handler in "+s.fn, token.NoPos, contains(labels, k),
				"kind "+k+" is admitted to the delta/partial path by "+s.table+" but "+s.fn+" has no case for it: a change of that kind produces no update for the delta client while a state-of-the-world client is rebuilt")
		}
		for _, k := range labels {
			c.Check(s.typ+":handler case "+k+" is admitted by "+s.table, token.NoPos, contains(table, k),
				"the generator handles kind "+k+" incrementally but the admission table does not list it (dead handler or table drift)")
		}
	}
	c.Floor(14)
}

func c03r2(c *Ctx) {
	p := c.P
	iface := p.Named(pkgModel, "XdsDeltaResourceGenerator").Underlying().(*types.Interface)
	n := 0
	for _, nt := range p.CG().named {
		if pkgPathOf(nt.Obj()) != istioMod+"/"+pkgXds {
			continue
		}
		var recvT types.Type = nt
		if !types.Implements(recvT, iface) {
			recvT = types.NewPointer(nt)
			if !types.Implements(recvT, iface) {
				continue
			}
		}
		ms := p.SSA.MethodSets.MethodSet(recvT)
		gen := p.SSA.MethodValue(ms.Lookup(nt.Obj().Pkg(), "Generate"))
		del := p.SSA.MethodValue(ms.Lookup(nt.Obj().Pkg(), "GenerateDeltas"))
		if gen == nil || del == nil {
			continue
		}
		n++
		preds := func(fn *ssa.Function) map[string]bool {
			out := map[string]bool{}
			eachInstr(fn, func(ins ssa.Instruction) {
				if o := calleeObj(ins); o != nil && strings.HasSuffix(o.Name(), "NeedsPush") {
					out[o.Name()] = true
				}
			})
			return out
		}
		delegates := func(a, b *ssa.Function) bool {
			d := false
			eachInstr(a, func(ins ssa.Instruction) {
				if ci, ok := ins.(ssa.CallInstruction); ok {
					if f := ci.Common().StaticCallee(); f != nil && (f == b || (f.Origin() != nil && f.Origin() == b)) {
						d = true
					}
					if o := calleeObj(ins); o != nil && o == funcObjOf(b) {
						d = true
					}
				}
			})
			return d
		}
		pg, pd := preds(gen), preds(del)
		ok := joinSorted(pg) == joinSorted(pd) || delegates(gen, del) || delegates(del, gen)
		c.Check(nt.Obj().Name()+": Generate and GenerateDeltas share their NeedsPush predicate", del.Pos(), ok,
			"Generate consults {"+joinSorted(pg)+"} but GenerateDeltas consults {"+joinSorted(pd)+"}: the two protocols decide differently whether a change concerns the proxy")
	}
	c.Check("delta-capable generators found", token.NoPos, n >= 5, "fewer delta generators than confirmed by hand")
	c.Floor(6)
}

func c03r3(c *Ctx) {
	p := c.P
	fn := p.Func(pkgXds, "DiscoveryServer", "processDeltaRequest")
	pushD := p.FuncObj(pkgXds, "DiscoveryServer", "pushDeltaXds")
	force := p.FuncObj(pkgXds, "DiscoveryServer", "forceEDSPush")
	clusterURL, _ := constStringOf(p.Const(istioMod+"/"+pkgV3, "ClusterType"))
	debugURL, _ := constStringOf(p.Const(istioMod+"/"+pkgV3, "DebugType"))
	calls := callsIn(fn, pushD)
	// the regular (non-debug) push: the call not under the "has debug prefix" edge -> the last one in source order
	var main ssa.CallInstruction
	for _, cl := range calls {
		if main == nil || cl.Pos() > main.Pos() {
			main = cl
		}
	}
	if main == nil {
		c.Check("processDeltaRequest pushes", fn.Pos(), false, "no pushDeltaXds call")
		return
	}
	_ = debugURL
	// edges on which the request is known not to be CDS
	var notCDS []Edge
	for _, i := range allIfs(fn) {
		v, neg := stripNot(i.Cond)
		b, ok := v.(*ssa.BinOp)
		if !ok || (b.Op != token.EQL && b.Op != token.NEQ) {
			continue
		}
		var k ssa.Value
		var other ssa.Value
		if s, ok := constString(b.Y); ok && s == clusterURL {
			k, other = b.Y, b.X
		} else if s, ok := constString(b.X); ok && s == clusterURL {
			k, other = b.X, b.Y
		}
		if k == nil || !loadOfFieldNamed(other, "TypeUrl") {
			continue
		}
		neqOnTrue := (b.Op == token.NEQ) != neg
		if neqOnTrue {
			notCDS = append(notCDS, Edge{i.Block(), 0})
		} else {
			notCDS = append(notCDS, Edge{i.Block(), 1})
		}
	}
	c.Check("processDeltaRequest tests for the CDS type", fn.Pos(), len(notCDS) >= 1, "no comparison of the request type with ClusterType after the push")
	// every return reachable after a successful main push
	seen := map[*ssa.BasicBlock]bool{}
	st := []*ssa.BasicBlock{}
	// successors of the main call's block on the err == nil side
	errV := main.Value()
	for _, i := range allIfs(fn) {
		if x, eq, ok := nilCmp(i.Cond); ok && x == errV {
			idx := 1
			if eq {
				idx = 0
			}
			st = append(st, i.Block().Succs[idx])
		}
	}
	c.Check("processDeltaRequest checks the push error", main.Pos(), len(st) == 1, "expected one nil test of pushDeltaXds' error")
	n := 0
	for len(st) > 0 {
		b := st[len(st)-1]
		st = st[:len(st)-1]
		if seen[b] {
			continue
		}
		seen[b] = true
		for _, ins := range b.Instrs {
			r, ok := ins.(*ssa.Return)
			if !ok {
				continue
			}
			n++
			viaForce := false
			if call, ok := retVal(r, 0).(*ssa.Call); ok && isCallTo(call, force) {
				viaForce = true
			}
			okr := viaForce || underEdges(fn, r.Block(), notCDS)
			c.Check("processDeltaRequest: return after a successful push is non-CDS or goes through forceEDSPush", r.Pos(), okr,
				"after answering a delta CDS request the handler can return without forceEDSPush: Envoy does not re-request EDS on delta, so re-sent clusters stay warming")
		}
		st = append(st, b.Succs...)
	}
	c.Check("processDeltaRequest: returns after push found", fn.Pos(), n >= 2, "expected the non-CDS return and the forceEDSPush return")
	// forceEDSPush pushes the EDS watched resource
	ff := p.Func(pkgXds, "DiscoveryServer", "forceEDSPush")
	c.Check("forceEDSPush pushes", ff.Pos(), len(callsIn(ff, pushD)) == 1, "forceEDSPush no longer calls pushDeltaXds")
	c.Floor(5)
}

func c03r4(c *Ctx) {
	p := c.P
	fn := p.Func(pkgXds, "DiscoveryServer", "pushDeltaXds")
	removedF := p.Field(pkgDiscovery, "DeltaDiscoveryResponse", "RemovedResources")
	never := p.FuncObj(pkgXds, "", "neverRemoveDelta")
	// usedDelta = Extract #3 of the GenerateDeltas invoke
	var usedDelta, deleted ssa.Value
	eachInstr(fn, func(ins ssa.Instruction) {
		ex, ok := ins.(*ssa.Extract)
		if !ok {
			return
		}
		call, ok := ex.Tuple.(*ssa.Call)
		if !ok || !call.Call.IsInvoke() || call.Call.Method.Name() != "GenerateDeltas" {
			return
		}
		switch ex.Index {
		case 3:
			usedDelta = ex
		case 1:
			deleted = ex
		}
	})
	if usedDelta == nil || deleted == nil {
		c.Check("pushDeltaXds calls GenerateDeltas", fn.Pos(), false, "GenerateDeltas results not found")
		return
	}
	// phi-transparent equality
	derives := func(v, from ssa.Value) bool {
		var ls []ssa.Value
		phiLeaves(v, map[ssa.Value]bool{}, &ls)
		for _, l := range ls {
			if l == from {
				return true
			}
		}
		return false
	}
	usedTrue := edgesWhere(fn, func(v ssa.Value) bool { return derives(v, usedDelta) }, true)
	usedFalse := edgesWhere(fn, func(v ssa.Value) bool { return derives(v, usedDelta) }, false)
	neverTrue := edgesWhere(fn, func(v ssa.Value) bool { call, ok := v.(*ssa.Call); return ok && isCallTo(call, never) }, true)
	c.Check("pushDeltaXds tests usedDelta", fn.Pos(), len(usedTrue) >= 1, "no branch on the generator's usedDelta result")
	c.Check("pushDeltaXds tests neverRemoveDelta", fn.Pos(), len(neverTrue) == 1, "no branch on neverRemoveDelta")
	sawGen, sawFull := false, false
	for _, s := range storesTo(fn, removedF) {
		if k, ok := s.Val.(*ssa.Const); ok && k.IsNil() {
			c.Check("pushDeltaXds: RemovedResources cleared only for never-remove types", s.Pos(), underEdges(fn, s.Block(), neverTrue),
				"removals are discarded for a type that is not in neverRemoveDelta: resources that ceased to exist stay with the delta client")
			continue
		}
		if derives(s.Val, deleted) {
			sawGen = true
			c.Check("pushDeltaXds: generator's removal list used only when it used delta", s.Pos(), underEdges(fn, s.Block(), usedTrue),
				"the generator's deleted list is used although it reported a full generation")
			continue
		}
		// computed list: must be on the !usedDelta side
		sawFull = true
		c.Check("pushDeltaXds: computed removals only for full generations", s.Pos(), underEdges(fn, s.Block(), usedFalse),
			"watched-minus-generated removals are computed although the generator produced only a delta: everything it did not regenerate would be removed from the client")
	}
	c.Check("pushDeltaXds: removals taken from the generator on delta", fn.Pos(), sawGen, "the generator's deleted resources never reach RemovedResources")
	c.Check("pushDeltaXds: removals computed for full generations", fn.Pos(), sawFull, "for generators that are not delta-aware nothing computes removed = watched - generated: deleted resources are never removed from a delta client")
	c.Floor(6)
}

// generatorRegistry extracts type-URL -> concrete generator type from InitGenerators.
func generatorRegistry(p *Prog) map[string]*types.Named {
	fn := p.Func("pilot/pkg/bootstrap", "", "InitGenerators")
	out := map[string]*types.Named{}
	concrete := func(v ssa.Value) *types.Named {
		for i := 0; i < 6; i++ {
			switch x := v.(type) {
			case *ssa.MakeInterface:
				if n, ok := derefNamed(x.X.Type()); ok {
					return n
				}
				return nil
			case *ssa.ChangeInterface:
				v = x.X
			default:
				return nil
			}
		}
		return nil
	}
	eachInstr(fn, func(ins ssa.Instruction) {
		mu, ok := ins.(*ssa.MapUpdate)
		if !ok {
			return
		}
		k, ok := constString(mu.Key)
		if !ok {
			return
		}
		if n := concrete(mu.Value); n != nil {
			out[k] = n
		}
	})
	return out
}

func c03r5(c *Ctx) {
	p := c.P
	reg := generatorRegistry(p)
	c.Check("generator registry extracted", token.NoPos, len(reg) >= 8, "InitGenerators registry came out too small")
	rq := p.Func(pkgXds, "", "requiresResourceNamesModification")
	var urls []string
	eachInstr(rq, func(ins ssa.Instruction) {
		if b, ok := ins.(*ssa.BinOp); ok && b.Op == token.EQL {
			if s, ok := constString(b.Y); ok {
				urls = append(urls, s)
			} else if s, ok := constString(b.X); ok {
				urls = append(urls, s)
			}
		}
	})
	sort.Strings(urls)
	c.Check("requiresResourceNamesModification lists types", rq.Pos(), len(urls) >= 2, "no type URLs extracted")
	rn := p.Field(pkgXdsLib, "WatchedResource", "ResourceNames")
	for _, u := range urls {
		g := reg[u]
		short := u[strings.LastIndex(u, ".")+1:]
		if g == nil {
			c.Check("generator-managed type "+short+" has a registered generator", rq.Pos(), false, "no generator registered for "+u)
			continue
		}
		ms := p.SSA.MethodSets.MethodSet(types.NewPointer(g))
		sel := ms.Lookup(g.Obj().Pkg(), "GenerateDeltas")
		if sel == nil {
			c.Check("generator-managed type "+short+": generator is delta-capable", rq.Pos(), false, g.Obj().Name()+" has no GenerateDeltas")
			continue
		}
		del := p.SSA.MethodValue(sel)
		reach := p.CG().Reach([]*ssa.Function{del}, func(f *ssa.Function) bool { return funcPkgPath(f) != istioMod+"/"+pkgXds })
		eff := effectsOf(reach)
		_, writes := eff.Writes[rn]
		// ... and only ever ADDS to them: for these types the record is the subscription itself (pushes are computed as
		// updated ∩ recorded), and only the client's own unsubscribe (deltaWatchedResources) may take a name out. A
		// generator that prunes names it reported as removed / not found ends the subscription behind the client's back:
		// when the name comes (back) into existence, nothing is sent.
		for f := range reach {
			for _, st := range storesTo(f, rn) {
				var shrink *ssa.Call
				seen := map[ssa.Value]bool{}
				var walk func(v ssa.Value, d int)
				walk = func(v ssa.Value, d int) {
					if v == nil || seen[v] || d > 8 || shrink != nil {
						return
					}
					seen[v] = true
					switch x := v.(type) {
					case *ssa.Call:
						if o := calleeObj(x); o != nil {
							switch o.Name() {
							case "Difference", "DifferenceInPlace", "Delete", "DeleteAll", "DeleteAllSet", "Intersection", "IntersectInPlace", "Diff":
								shrink = x
								return
							}
						}
						for _, a := range x.Call.Args {
							walk(a, d+1)
						}
					case *ssa.Phi:
						for _, e := range x.Edges {
							walk(e, d+1)
						}
					case *ssa.ChangeType:
						walk(x.X, d+1)
					case *ssa.Extract:
						walk(x.Tuple, d+1)
					}
				}
				walk(st.Val, 0)
				pos := st.Pos()
				if shrink != nil {
					pos = shrink.Pos()
				}
				c.Check("generator-managed type "+short+": the recorded names only grow in "+stableFnName(f), pos, shrink == nil,
					"the generator stores a ResourceNames set from which names were taken out (Difference/Delete/Intersection). For generator-managed types the record IS the subscription (pushes are updated ∩ recorded): a name the client still subscribes to but that currently resolves to nothing is dropped, and when the workload appears again under that name the long-lived delta client is not told, while a fresh (or state-of-the-world) client would hold it")
			}
		}
		c.Check("generator-managed type "+short+": "+g.Obj().Name()+" records the names it sent", del.Pos(), writes,
			"pushDeltaXds/sendDelta/shouldRespondDelta do not maintain WatchedResource.ResourceNames for "+u+" (requiresResourceNamesModification), and its generator "+g.Obj().Name()+" never writes them either: the server's record of what the client holds stays empty, so removed = held - current is always empty (deleted resources are never removed after a reconnect or forced push)")
	}
	c.Floor(4)
}


// C03-R4b: for EDS the same boolean decides "the answer may omit watched clusters that did not change" (the partial
// argument of buildEndpoints) and "treat the answer as a delta" (the usedDelta result of GenerateDeltas). If they can
// differ, pushDeltaXds computes removals from an answer that is partial and removes clusters the client still needs
// (or keeps clusters that are gone).
func c03r4b(c *Ctx) {
	p := c.P
	gd := p.Func(pkgXds, "EdsGenerator", "GenerateDeltas")
	be := p.FuncObj(pkgXds, "EdsGenerator", "buildEndpoints")
	beFn := p.Func(pkgXds, "EdsGenerator", "buildEndpoints")
	pidx := -1
	for i, prm := range beFn.Params {
		if prm.Name() == "partialPush" {
			pidx = i
		}
	}
	if pidx < 0 {
		anchorFail("buildEndpoints has no parameter partialPush")
	}
	// the buildEndpoints call: in GenerateDeltas itself, or one level down in a method it delegates to
	var site ssa.CallInstruction // call in gd that (transitively, one level) reaches buildEndpoints
	var partial ssa.Value        // the partial argument, expressed in gd's frame when possible
	translated := true
	if calls := callsIn(gd, be); len(calls) == 1 {
		site, partial = calls[0], calls[0].Common().Args[pidx]
	} else {
		eachInstr(gd, func(ins ssa.Instruction) {
			ci, ok := ins.(ssa.CallInstruction)
			if !ok || site != nil {
				return
			}
			callee := ci.Common().StaticCallee()
			if callee == nil || funcPkgPath(callee) != istioMod+"/"+pkgXds {
				return
			}
			inner := callsIn(callee, be)
			if len(inner) != 1 {
				return
			}
			site = ci
			pv := inner[0].Common().Args[pidx]
			// translate `f(param_k)` into `f(arg_k)`
			if call, ok := pv.(*ssa.Call); ok && call.Call.StaticCallee() != nil {
				partial = pv
				for _, a := range call.Call.Args {
					isParam := false
					for _, prm := range callee.Params {
						if a == ssa.Value(prm) {
							isParam = true
						}
					}
					if !isParam {
						translated = false
					}
				}
			} else {
				partial, translated = pv, false
			}
		})
	}
	c.Check("EDS GenerateDeltas reaches buildEndpoints (directly or through one delegate)", gd.Pos(), site != nil,
		"the check cannot find where GenerateDeltas builds the EDS answer")
	if site == nil {
		return
	}
	n := 0
	eachInstr(gd, func(ins ssa.Instruction) {
		r, ok := ins.(*ssa.Return)
		if !ok || len(r.Results) < 4 {
			return
		}
		// returns that follow the build
		if !site.Block().Dominates(r.Block()) {
			return
		}
		n++
		ud := retVal(r, 3)
		same := sameValue(ud, partial)
		if !same {
			// the same pure call on the same arguments (arguments of a delegate translated positionally)
			a, ok1 := ud.(*ssa.Call)
			b, ok2 := partial.(*ssa.Call)
			if ok1 && ok2 && translated && a.Call.StaticCallee() != nil && a.Call.StaticCallee() == b.Call.StaticCallee() && len(a.Call.Args) == len(b.Call.Args) {
				same = true
				callee := site.Common().StaticCallee()
				for i := range a.Call.Args {
					want := b.Call.Args[i]
					if callee != nil && callee != beFn {
						for k, prm := range callee.Params {
							if want == ssa.Value(prm) && k < len(site.Common().Args) {
								want = site.Common().Args[k]
							}
						}
					}
					if !sameValue(a.Call.Args[i], want) {
						same = false
					}
				}
			}
		}
		c.Check("EDS usedDelta is the partial-answer decision", r.Pos(), same,
			"GenerateDeltas reports usedDelta from something other than the value that lets buildEndpoints omit unchanged clusters: when the answer is partial but not reported as a delta, pushDeltaXds removes every watched cluster that was not regenerated (the state-of-the-world client keeps them)")
	})
	c.Check("EDS GenerateDeltas return after buildEndpoints found", gd.Pos(), n >= 1, "no return after the buildEndpoints call")
	c.Floor(3)
}

// C03-R6: no computed set is dropped in the subscription book-keeping. The sets package has two families: Insert /
// InsertAll / Merge / Delete* / *InPlace edit the receiver, Union / Difference / Intersection / Copy / Diff return a new
// value and leave the receiver alone. A call of the second family whose result is discarded does nothing - where the
// author meant the first family, names are silently not recorded (names delivered by a delta push never enter
// WatchedResource.ResourceNames, so they are never reported as removed later). Contradiction rule, no table: every call
// of a pure set operation in the xDS server packages has its result used.
func c03r6(c *Ctx) {
	p := c.P
	pure := map[string]bool{"Union": true, "Difference": true, "Intersection": true, "Copy": true, "Diff": true, "SupersetOf": true,
		"Contains": true, "ContainsAll": true, "Equals": true, "UnsortedList": true, "SortedList": true, "Len": true, "IsEmpty": true}
	scope := []string{"/pilot/pkg/xds", "/pkg/xds", "/pilot/pkg/model", "/pilot/pkg/networking/core"}
	nPure := 0
	for _, fn := range p.AllFuncs {
		if !isIstioFunc(fn) || isWrapperFn(fn) || isGenericOrigin(fn) || strings.HasSuffix(p.Fset.Position(fn.Pos()).Filename, "_test.go") {
			continue
		}
		pp := funcPkgPath(fn)
		in := false
		for _, s := range scope {
			if strings.HasPrefix(pp, istioMod+s) {
				in = true
			}
		}
		if !in || strings.Contains(pp, "/test") {
			continue
		}
		eachInstr(fn, func(ins ssa.Instruction) {
			call, ok := ins.(*ssa.Call)
			if !ok {
				return
			}
			sc := call.Call.StaticCallee()
			if sc == nil {
				return
			}
			o := sc
			if sc.Origin() != nil {
				o = sc.Origin()
			}
			if o.Pkg == nil || o.Pkg.Pkg.Path() != istioMod+"/pkg/util/sets" || !pure[o.Name()] {
				return
			}
			nPure++
			used := false
			for _, r := range *call.Referrers() {
				if _, dbg := r.(*ssa.DebugRef); !dbg {
					used = true
				}
			}
			if !used {
				c.Check("result of a pure set operation is used: "+stableFnName(fn)+"|"+o.Name(), call.Pos(), false,
					"the result of sets."+o.Name()+" is discarded; "+o.Name()+" does not edit its receiver, so this statement has no effect. If it was meant to record names (Merge / InsertAll edit in place), the names delivered by this push never enter the recorded subscription: they are not reported as removed when they cease to exist, and a delta client keeps resources a state-of-the-world client would have dropped")
			}
		})
	}
	c.Check("pure set operations in the xDS server packages found (positive control)", token.NoPos, nPure >= 50, fmt.Sprintf("only %d calls of pure set operations recognised", nPure))
	c.Floor(1)
}
