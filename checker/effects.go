package main

import (
	"go/token"
	"go/types"
	"strings"

	"golang.org/x/tools/go/ssa"
)

// Access is one witness of a field effect.
type Access struct {
	Fn  *ssa.Function
	Pos token.Pos
}

// Effects holds field-based, object-insensitive read/write sets.
type Effects struct {
	Reads  map[*types.Var]Access
	Writes map[*types.Var]Access
}

func origVar(v *types.Var) *types.Var {
	if v == nil {
		return nil
	}
	return v.Origin()
}

func structOf(t types.Type) *types.Struct {
	if p, ok := t.Underlying().(*types.Pointer); ok {
		t = p.Elem()
	}
	s, _ := t.Underlying().(*types.Struct)
	return s
}

func fieldVar(t types.Type, idx int) *types.Var {
	s := structOf(t)
	if s == nil || idx >= s.NumFields() {
		return nil
	}
	return origVar(s.Field(idx))
}

// useKind classifies how an address value (FieldAddr/IndexAddr chain) is used.
// r: loaded or escapes; w: stored through or escapes.
func addrUse(v ssa.Value, depth int) (r, w bool) {
	refs := v.Referrers()
	if refs == nil {
		return true, true
	}
	for _, ref := range *refs {
		switch x := ref.(type) {
		case *ssa.Store:
			if x.Addr == v {
				w = true
			} else {
				r, w = true, true // address stored somewhere: escapes
			}
		case *ssa.UnOp:
			if x.Op == token.MUL {
				r = true
			}
		case *ssa.FieldAddr, *ssa.IndexAddr:
			if depth < 6 {
				r2, w2 := addrUse(x.(ssa.Value), depth+1)
				r = r || r2
				w = w || w2
			} else {
				r, w = true, true
			}
		case *ssa.DebugRef:
		case ssa.CallInstruction:
			// Address passed to a call: a method with pointer receiver on the field (e.g. sync.Mutex.Lock,
			// sets/maps helpers) or an out-parameter. Counted as read; as write only by the caller's choice.
			r = true
			w = true
		default:
			r, w = true, true
		}
	}
	return
}

// getterField maps a call of a generated protobuf getter (no istio body) to the struct field it reads.
func getterField(cc *ssa.CallCommon) *types.Var {
	f := cc.StaticCallee()
	if f == nil || cc.IsInvoke() {
		return nil
	}
	name := f.Name()
	if !strings.HasPrefix(name, "Get") || len(name) <= 3 || f.Signature.Recv() == nil {
		return nil
	}
	s := structOf(f.Signature.Recv().Type())
	if s == nil {
		return nil
	}
	want := name[3:]
	for i := 0; i < s.NumFields(); i++ {
		if s.Field(i).Name() == want {
			return origVar(s.Field(i))
		}
	}
	// oneof: GetX reads the oneof wrapper field; find interface-typed field whose implementers have field X.
	for i := 0; i < s.NumFields(); i++ {
		fl := s.Field(i)
		it, ok := fl.Type().Underlying().(*types.Interface)
		if !ok || fl.Pkg() == nil {
			continue
		}
		// wrapper types are named <Msg>_<X> in the same package
		recvName := ""
		if n, ok := derefNamed(f.Signature.Recv().Type()); ok {
			recvName = n.Obj().Name()
		}
		if tn, ok := fl.Pkg().Scope().Lookup(recvName + "_" + want).(*types.TypeName); ok {
			if types.Implements(types.NewPointer(tn.Type()), it) {
				// the read is of the oneof field AND of the wrapper's field
				if ws := structOf(tn.Type()); ws != nil && ws.NumFields() > 0 {
					return origVar(ws.Field(0))
				}
			}
		}
	}
	return nil
}

func derefNamed(t types.Type) (*types.Named, bool) {
	if p, ok := t.(*types.Pointer); ok {
		t = p.Elem()
	}
	n, ok := t.(*types.Named)
	return n, ok
}

// oneofWrapperRead: a type switch / assertion to a oneof wrapper type *Msg_X counts as a read of X's wrapper field.
func effectsOf(fns map[*ssa.Function]*ssa.Function) *Effects {
	e := &Effects{Reads: map[*types.Var]Access{}, Writes: map[*types.Var]Access{}}
	for fn := range fns {
		effectsOfFunc(fn, e)
	}
	return e
}

func effectsOfFuncs(fns []*ssa.Function) *Effects {
	e := &Effects{Reads: map[*types.Var]Access{}, Writes: map[*types.Var]Access{}}
	for _, fn := range fns {
		effectsOfFunc(fn, e)
	}
	return e
}

// effectsOfLive computes effects over live blocks only (live(f)==nil means all blocks).
func effectsOfLive(fns map[*ssa.Function]*ssa.Function, live func(*ssa.Function) map[*ssa.BasicBlock]bool) *Effects {
	e := &Effects{Reads: map[*types.Var]Access{}, Writes: map[*types.Var]Access{}}
	for fn := range fns {
		effectsOfFuncLive(fn, e, live(fn))
	}
	return e
}

func effectsOfFunc(fn *ssa.Function, e *Effects) { effectsOfFuncLive(fn, e, nil) }

func effectsOfFuncLive(fn *ssa.Function, e *Effects, live map[*ssa.BasicBlock]bool) {
	rec := func(m map[*types.Var]Access, v *types.Var, pos token.Pos) {
		if v == nil {
			return
		}
		if old, ok := m[v]; ok {
			// keep the deterministic smallest witness
			if old.Pos <= pos && old.Pos.IsValid() {
				return
			}
		}
		m[v] = Access{fn, pos}
	}
	for _, b := range fn.Blocks {
		if live != nil && !live[b] {
			continue
		}
		for _, ins := range b.Instrs {
			switch x := ins.(type) {
			case *ssa.Field:
				rec(e.Reads, fieldVar(x.X.Type(), x.Field), x.Pos())
			case *ssa.FieldAddr:
				fv := fieldVar(x.X.Type(), x.Field)
				r, w := addrUse(x, 0)
				pos := x.Pos()
				if r {
					rec(e.Reads, fv, pos)
				}
				if w {
					rec(e.Writes, fv, pos)
				}
			case *ssa.MapUpdate:
				// write to the content of a map held in a field
				if fv := fieldOfLoad(x.Map); fv != nil {
					rec(e.Writes, fv, x.Pos())
				}
			case ssa.CallInstruction:
				cc := x.Common()
				if fv := getterField(cc); fv != nil {
					rec(e.Reads, fv, x.Pos())
				}
				// builtin delete(m, k) on a field-held map
				if bi, ok := cc.Value.(*ssa.Builtin); ok && bi.Name() == "delete" && len(cc.Args) > 0 {
					if fv := fieldOfLoad(cc.Args[0]); fv != nil {
						rec(e.Writes, fv, x.Pos())
					}
				}
			case *ssa.TypeAssert:
				// oneof wrapper: x.(*Msg_Field) counts as read of the wrapper's single field
				if n, ok := derefNamed(x.AssertedType); ok && strings.Contains(n.Obj().Name(), "_") {
					if ws := structOf(n); ws != nil && ws.NumFields() == 1 && !isIstioPath(pkgPathOf(n.Obj())) {
						rec(e.Reads, origVar(ws.Field(0)), x.Pos())
					}
				}
			}
		}
	}
	// composite literal stores: &T{F: v} is Alloc + FieldAddr + Store, covered above as writes.
}

func pkgPathOf(o types.Object) string {
	if o == nil || o.Pkg() == nil {
		return ""
	}
	return o.Pkg().Path()
}

// fieldOfLoad returns F if v is `*(&x.F)` or x.F (value), else nil.
func fieldOfLoad(v ssa.Value) *types.Var {
	switch x := v.(type) {
	case *ssa.UnOp:
		if x.Op == token.MUL {
			if fa, ok := x.X.(*ssa.FieldAddr); ok {
				return fieldVar(fa.X.Type(), fa.Field)
			}
		}
	case *ssa.Field:
		return fieldVar(x.X.Type(), x.Field)
	}
	return nil
}

// fieldsOf lists the fields of a struct type (origin vars) in declaration order.
func fieldsOf(s *types.Struct) []*types.Var {
	var out []*types.Var
	for i := 0; i < s.NumFields(); i++ {
		out = append(out, origVar(s.Field(i)))
	}
	return out
}

// isProtoInternal reports protobuf bookkeeping fields.
func isProtoInternal(v *types.Var) bool {
	switch v.Name() {
	case "state", "sizeCache", "unknownFields", "XXX_NoUnkeyedLiteral", "XXX_unrecognized", "XXX_sizecache":
		return true
	}
	return !v.Exported()
}
