package main

import (
	"fmt"
	"go/token"
	"go/types"
	"sort"
	"strings"

	"golang.org/x/tools/go/ssa"
)

// E3: lockset must-analysis (DESIGN Appendix A).

const (
	modeR = 1
	modeW = 2
)

type lockset map[string]int

func (l lockset) clone() lockset {
	o := lockset{}
	for k, v := range l {
		o[k] = v
	}
	return o
}

func meet(a, b lockset) lockset {
	o := lockset{}
	for k, v := range a {
		if w, ok := b[k]; ok {
			if w < v {
				v = w
			}
			o[k] = v
		}
	}
	return o
}

func (l lockset) equal(o lockset) bool {
	if len(l) != len(o) {
		return false
	}
	for k, v := range l {
		if o[k] != v {
			return false
		}
	}
	return true
}

// pathOf gives a canonical access path for receiver/parameter/captured-variable rooted values.
func pathOf(v ssa.Value) string {
	switch x := v.(type) {
	case *ssa.Parameter:
		return x.Name()
	case *ssa.FreeVar:
		return x.Name()
	case *ssa.Global:
		return x.Pkg.Pkg.Name() + "." + x.Name()
	case *ssa.FieldAddr:
		return pathOf(x.X) + "." + fieldVar(x.X.Type(), x.Field).Name()
	case *ssa.Field:
		return pathOf(x.X) + "." + fieldVar(x.X.Type(), x.Field).Name()
	case *ssa.UnOp:
		if x.Op == token.MUL {
			return pathOf(x.X)
		}
	case *ssa.Alloc:
		if x.Comment != "" && !strings.Contains(x.Comment, " ") && x.Comment != "complit" && x.Comment != "new" {
			// a named variable cell (captured or address-taken): same name as the FreeVar that closures see
			return x.Comment
		}
		return "alloc:" + x.Name()
	case *ssa.ChangeType:
		return pathOf(x.X)
	case *ssa.MakeInterface:
		return pathOf(x.X)
	}
	return "val:" + v.Name()
}

// lockOp classifies a call as a lock operation on a path.
func lockOp(ins ssa.Instruction) (path string, op string) {
	ci, ok := ins.(ssa.CallInstruction)
	if !ok {
		return "", ""
	}
	cc := ci.Common()
	var name string
	var recv ssa.Value
	if cc.IsInvoke() {
		// sync.Locker
		if cc.Method.Pkg() == nil || cc.Method.Pkg().Path() != "sync" {
			return "", ""
		}
		name, recv = cc.Method.Name(), cc.Value
	} else {
		f := cc.StaticCallee()
		if f == nil || f.Pkg == nil || f.Pkg.Pkg.Path() != "sync" || len(cc.Args) == 0 {
			return "", ""
		}
		name, recv = f.Name(), cc.Args[0]
	}
	switch name {
	case "Lock", "RLock", "Unlock", "RUnlock":
		return pathOf(recv), name
	}
	return "", ""
}

type GuardSpec struct {
	Name       string
	Struct     *types.Named
	Guard      string              // mutex path relative to the struct value, e.g. "mu", "cond.L", "RWMutex"
	Fields     map[string]bool     // guarded fields
	WriteCalls map[string][]string // field -> methods on the field's value that mutate it (need the write lock)
	Locked     map[string]int      // function (shortFn) -> mode assumed held on its receiver at entry; verified at callers
	Exempt     map[string]string   // function (shortFn) -> reason (constructors etc.)
	ReadOK     map[string]string   // field -> reason reads without the lock are fine (e.g. immutable after construction)
	ReadOKFuncs map[string]string  // function -> reason its READS need no lock (e.g. runs only on the single writer goroutine)
}

type lockFinding struct {
	Fn     *ssa.Function
	Pos    token.Pos
	Field  string
	Write  bool
	Held   string
	Detail string
}

type lockAnalysis struct {
	p       *Prog
	initial map[*ssa.Function]lockset // lockset inherited by closures
	in      map[*ssa.Function]map[*ssa.BasicBlock]lockset
}

func newLockAnalysis(p *Prog) *lockAnalysis {
	return &lockAnalysis{p: p, initial: map[*ssa.Function]lockset{}, in: map[*ssa.Function]map[*ssa.BasicBlock]lockset{}}
}

// run computes per-instruction locksets of fn and calls visit(ins, heldBefore).
func (a *lockAnalysis) run(fn *ssa.Function, init lockset, visit func(ins ssa.Instruction, held lockset)) {
	if len(fn.Blocks) == 0 {
		return
	}
	in := map[*ssa.BasicBlock]lockset{}
	out := map[*ssa.BasicBlock]lockset{}
	transfer := func(b *ssa.BasicBlock, start lockset, emit bool) lockset {
		cur := start.clone()
		for _, ins := range b.Instrs {
			if emit {
				visit(ins, cur)
			}
			if _, isDefer := ins.(*ssa.Defer); isDefer {
				continue // deferred unlock keeps the lock until function exit
			}
			path, op := lockOp(ins)
			switch op {
			case "Lock":
				cur[path] = modeW
			case "RLock":
				if cur[path] < modeR {
					cur[path] = modeR
				}
			case "Unlock", "RUnlock":
				delete(cur, path)
			}
			// closures created here inherit the current lockset unless started as goroutines
			if mk, ok := ins.(*ssa.MakeClosure); ok {
				if g, ok := mk.Fn.(*ssa.Function); ok {
					inherit := cur.clone()
					if refs := mk.Referrers(); refs != nil {
						for _, r := range *refs {
							if _, isGo := r.(*ssa.Go); isGo {
								inherit = lockset{}
							}
						}
					}
					if emit {
						a.initial[g] = inherit
					}
				}
			}
		}
		return cur
	}
	// iterate to fixpoint (must analysis: start optimistic with "unknown" = nil)
	in[fn.Blocks[0]] = init.clone()
	work := []*ssa.BasicBlock{fn.Blocks[0]}
	visited := map[*ssa.BasicBlock]bool{}
	for len(work) > 0 {
		b := work[0]
		work = work[1:]
		o := transfer(b, in[b], false)
		if visited[b] && out[b] != nil && out[b].equal(o) {
			continue
		}
		visited[b] = true
		out[b] = o
		for _, s := range b.Succs {
			var n lockset
			first := true
			for _, pr := range s.Preds {
				if out[pr] == nil {
					continue
				}
				if first {
					n = out[pr].clone()
					first = false
				} else {
					n = meet(n, out[pr])
				}
			}
			if n == nil {
				n = lockset{}
			}
			if in[s] == nil || !in[s].equal(n) {
				in[s] = n
				work = append(work, s)
			} else if !visited[s] {
				work = append(work, s)
			}
		}
	}
	for _, b := range fn.Blocks {
		if in[b] == nil {
			continue // unreachable
		}
		transfer(b, in[b], true)
	}
}

func isStructPtr(t types.Type, n *types.Named) bool {
	nt, ok := derefNamed(t)
	if !ok {
		return false
	}
	return nt.Origin().Obj() == n.Origin().Obj()
}

// checkGuards verifies a GuardSpec over the whole program and records obligations on c.
func checkGuards(c *Ctx, spec GuardSpec) {
	p := c.P
	a := newLockAnalysis(p)
	// order: parents before closures so that inherited locksets are known
	var fns []*ssa.Function
	chosenInst := map[*ssa.Function]*ssa.Function{}
	for _, fn := range p.AllFuncs {
		if fn.Synthetic != "" && !strings.HasPrefix(fn.Synthetic, "instance of") {
			continue // bound-method / thunk / instantiation wrappers
		}
		// one instance per generic origin (bodies are identical up to type arguments)
		root := fn
		for root.Parent() != nil {
			root = root.Parent()
		}
		if o := root.Origin(); o != nil && o != root {
			if chosen, ok := chosenInst[o]; ok && chosen != root {
				continue
			}
			chosenInst[o] = root
		}
		if strings.HasSuffix(p.Fset.Position(fn.Pos()).Filename, "_test.go") {
			continue
		}
		fns = append(fns, fn)
	}
	sort.SliceStable(fns, func(i, j int) bool { return depthOf(fns[i]) < depthOf(fns[j]) })
	touches := func(fn *ssa.Function) bool {
		t := false
		eachInstr(fn, func(ins ssa.Instruction) {
			if fa, ok := ins.(*ssa.FieldAddr); ok && isStructPtr(fa.X.Type(), spec.Struct) && spec.Fields[fieldVar(fa.X.Type(), fa.Field).Name()] {
				t = true
			}
			if o := calleeObj(ins); o != nil {
				if _, ok := spec.Locked[objKey(o)]; ok {
					t = true
				}
			}
			if _, ok := ins.(*ssa.MakeClosure); ok {
				t = true
			}
		})
		return t
	}
	// Helpers that are always called with the lock held need not be listed: a method of the guarded struct that is not
	// in the table is treated as "called with the lock held (mode m)" when it has at least one static call site and every
	// one of them holds the guard of the receiver in mode >= m. Computed by a pre-pass over the callers (two rounds, so
	// that helpers of helpers are covered); the sites are then verified again by the main pass like the listed ones.
	{
		locked := map[string]int{}
		for k, v := range spec.Locked {
			locked[k] = v
		}
		for round := 0; round < 2; round++ {
			pre := newLockAnalysis(p)
			siteModes := map[string][]int{}
			for _, fn := range fns {
				init := lockset{}
				if fn.Parent() != nil {
					if l, ok := pre.initial[fn]; ok {
						init = l
					}
				} else if o := funcObjOf(fn); o != nil {
					if m, ok := locked[objKey(o)]; ok && len(fn.Params) > 0 {
						init[fn.Params[0].Name()+"."+spec.Guard] = m
					}
				}
				pre.run(fn, init, func(ins ssa.Instruction, held lockset) {
					ci, ok := ins.(ssa.CallInstruction)
					if !ok {
						return
					}
					if _, isGo := ins.(*ssa.Go); isGo {
						return
					}
					callee := ci.Common().StaticCallee()
					if callee == nil || callee.Signature.Recv() == nil || len(ci.Common().Args) == 0 || !isStructPtr(callee.Signature.Recv().Type(), spec.Struct) {
						return
					}
					o := funcObjOf(callee)
					if o == nil {
						return
					}
					base := pathOf(ci.Common().Args[0])
					siteModes[objKey(o)] = append(siteModes[objKey(o)], held[base+"."+spec.Guard])
				})
			}
			for k, modes := range siteModes {
				if _, listed := locked[k]; listed {
					continue
				}
				m := modeW
				for _, x := range modes {
					if x < m {
						m = x
					}
				}
				if m >= modeR {
					locked[k] = m
				}
			}
		}
		// only helpers that do not take the lock themselves
		for k, v := range locked {
			if _, listed := spec.Locked[k]; listed {
				continue
			}
			takes := false
			for _, fn := range fns {
				if fn.Parent() != nil {
					continue
				}
				if o := funcObjOf(fn); o != nil && objKey(o) == k {
					eachInstr(fn, func(ins ssa.Instruction) {
						if oo := calleeObj(ins); oo != nil && (oo.Name() == "Lock" || oo.Name() == "RLock") {
							takes = true
						}
					})
				}
			}
			if !takes {
				if spec.Locked == nil {
					spec.Locked = map[string]int{}
				}
				spec.Locked[k] = v
				c.Infof("%s: %s inferred to be called with %s held (mode %d) at all of its call sites", spec.Name, k, spec.Guard, v)
			}
		}
	}
	nAcc, nCall := 0, 0
	relevant := map[*ssa.Function]bool{}
	for _, fn := range fns {
		// a function is relevant if it or one of its closures touches the struct
		if touches(fn) {
			relevant[fn] = true
		}
	}
	for _, fn := range fns {
		if !relevant[fn] {
			continue
		}
		root := fn
		for root.Parent() != nil {
			root = root.Parent()
		}
		key := stableFnName(fn)
		if _, ok := spec.Exempt[stableFnName(root)]; ok {
			continue
		}
		init := lockset{}
		if fn.Parent() != nil {
			if l, ok := a.initial[fn]; ok {
				init = l
			}
		} else if o := funcObjOf(fn); o != nil {
			if m, ok := spec.Locked[objKey(o)]; ok && len(fn.Params) > 0 {
				init[fn.Params[0].Name()+"."+spec.Guard] = m
			}
		}
		a.run(fn, init, func(ins ssa.Instruction, held lockset) {
			switch x := ins.(type) {
			case *ssa.FieldAddr:
				if !isStructPtr(x.X.Type(), spec.Struct) {
					return
				}
				f := fieldVar(x.X.Type(), x.Field).Name()
				if !spec.Fields[f] {
					return
				}
				base := pathOf(x.X)
				if strings.HasPrefix(base, "alloc:") {
					return // object under construction in this function
				}
				r, w := addrUse(x, 0)
				// method calls on the field value: mutating ones need the write lock, others only read
				w = w && !onlyCallUses(x) || callsMutator(x, spec.WriteCalls[f])
				_ = r
				need := modeR
				if w {
					need = modeW
				}
				if !w {
					if _, ok := spec.ReadOK[f]; ok {
						return
					}
					if _, ok := spec.ReadOKFuncs[key]; ok {
						return
					}
				}
				nAcc++
				have := held[base+"."+spec.Guard]
				ok := have >= need
				det := ""
				if !ok {
					kind := "read"
					if w {
						kind = "written/mutated"
					}
					det = fmt.Sprintf("%s.%s is %s without holding %s.%s (%s) [held: %v]", spec.Struct.Obj().Name(), f, kind, base, spec.Guard, map[int]string{modeR: "read lock needed", modeW: "write lock needed"}[need], heldStr(held))
				}
				c.Check(spec.Name+":"+key+":"+f+accessKind(w), x.Pos(), ok, det)
			case ssa.CallInstruction:
				o := calleeObj(ins)
				if o == nil {
					return
				}
				m, ok := spec.Locked[objKey(o)]
				if !ok {
					return
				}
				args := x.Common().Args
				if len(args) == 0 {
					return
				}
				nCall++
				base := pathOf(args[0])
				have := held[base+"."+spec.Guard]
				okc := have >= m
				det := ""
				if !okc {
					det = fmt.Sprintf("%s must be called with %s.%s held; it is called here without it [held: %v]", o.Name(), base, spec.Guard, heldStr(held))
				}
				c.Check(spec.Name+":"+key+":call "+o.Name()+" with lock held", ins.Pos(), okc, det)
			}
		})
	}
	c.Stat(spec.Name+".guarded_accesses", nAcc)
	c.Stat(spec.Name+".locked_callee_sites", nCall)
}

func accessKind(w bool) string {
	if w {
		return ":w"
	}
	return ":r"
}

func heldStr(l lockset) string {
	var ks []string
	for k, v := range l {
		ks = append(ks, fmt.Sprintf("%s/%d", k, v))
	}
	sort.Strings(ks)
	return strings.Join(ks, ",")
}

func depthOf(fn *ssa.Function) int {
	d := 0
	for g := fn.Parent(); g != nil; g = g.Parent() {
		d++
	}
	return d
}

func objKey(o *types.Func) string {
	return strings.ReplaceAll(o.FullName(), istioMod+"/", "")
}

// onlyCallUses: the field address is used only as a method receiver / loaded for calls (no direct store).
func onlyCallUses(fa *ssa.FieldAddr) bool {
	refs := fa.Referrers()
	if refs == nil {
		return false
	}
	for _, r := range *refs {
		switch x := r.(type) {
		case *ssa.Store:
			if x.Addr == ssa.Value(fa) {
				return false
			}
		case *ssa.FieldAddr, *ssa.IndexAddr:
			_, w := addrUse(x.(ssa.Value), 1)
			if w {
				return false
			}
		}
	}
	return true
}

// callsMutator: the field's value (or address) is the receiver of one of the listed mutating methods,
// or is the operand of a map update / delete / append-store.
func callsMutator(fa *ssa.FieldAddr, methods []string) bool {
	mut := false
	var visit func(v ssa.Value, d int)
	visit = func(v ssa.Value, d int) {
		refs := v.Referrers()
		if refs == nil || d > 3 {
			return
		}
		for _, r := range *refs {
			switch x := r.(type) {
			case *ssa.UnOp:
				if x.Op == token.MUL {
					visit(x, d+1)
				}
			case *ssa.MapUpdate:
				if x.Map == v {
					mut = true
				}
			case ssa.CallInstruction:
				cc := x.Common()
				if bi, ok := cc.Value.(*ssa.Builtin); ok && (bi.Name() == "delete" || bi.Name() == "clear") && len(cc.Args) > 0 && cc.Args[0] == v {
					mut = true
				}
				name := ""
				if cc.IsInvoke() && cc.Value == v {
					name = cc.Method.Name()
				} else if f := cc.StaticCallee(); f != nil && len(cc.Args) > 0 && cc.Args[0] == v {
					name = f.Name()
				}
				for _, m := range methods {
					if m == name {
						mut = true
					}
				}
			}
		}
	}
	visit(fa, 0)
	return mut
}

// funcObjOf returns the (generic origin) function object of fn, also for instances.
func funcObjOf(fn *ssa.Function) *types.Func {
	if o, ok := fn.Object().(*types.Func); ok && o != nil {
		return o.Origin()
	}
	if g := fn.Origin(); g != nil {
		if o, ok := g.Object().(*types.Func); ok && o != nil {
			return o.Origin()
		}
	}
	return nil
}

// stableFnName names a function independently of which generic instance was analysed.
func stableFnName(fn *ssa.Function) string {
	suffix := ""
	g := fn
	for g.Parent() != nil {
		// closure: keep its $n suffix relative to the root
		g = g.Parent()
	}
	if fn != g {
		name := fn.Name()
		if i := strings.Index(name, "$"); i >= 0 {
			suffix = name[i:]
		}
	}
	if o := funcObjOf(g); o != nil {
		return objKey(o) + suffix
	}
	return shortFn(g) + suffix
}
