package main

import (
	"go/types"
	"go/token"
	"strings"

	"golang.org/x/tools/go/ssa"
)

const pkgNACache = "security/pkg/nodeagent/cache"

func init() {
	register(&PropDef{
		ID: "C18",
		Clauses: []string{
			"R1 single flight: the CA client's CSRSign is called only from generateNewSecret, which is called only from GenerateSecret with generateMutex held; the mutex is still held when the new secret is published to the cache (registerSecret)",
			"R2 double-checked cache: the signing call is dominated by a cache lookup made after the lock was taken, whose hit returns",
			"R3 a failed signing attempt stores nothing: registerSecret is reached only on the err==nil edge of generateNewSecret; the workload cache is set non-nil only in registerSecret",
			"R4 exactly one renewal per stored certificate: SetWorkload(item) and PushDelayed lie on the same paths under `nothing cached`; the delayed task clears the cache only under the CreatedTime equality test and clears BEFORE it notifies",
			"R5 a changed root is announced: OnSecretUpdate(ROOTCA) lies on the edge where old and new root differ, after SetRoot",
			"R6 secretCache fields only under mu",
		},
		NotDecided: "the rotation-delay arithmetic over all (lifetime, ratio, jitter), key/cert matching, trust-bundle contents, CA client reconnect stickiness",
		Rules: []Rule{
			{"C18-R1", "single flight under generateMutex", c18r1},
			{"C18-R2", "double-checked cache", c18r2},
			{"C18-R3", "failure is not sticky", c18r3},
			{"C18-R4", "one renewal per certificate", c18r4},
			{"C18-R5", "root change is announced", c18r5},
			{"C18-R6", "secretCache lock discipline", c18r6},
			{"C18-R7", "the renewal is scheduled with the computed rotation delay", c18r7},
			{"C18-R8", "every connected stream is told about every secret event", c18r8},
			{"C18-R9", "a connection field is not left closed", c18r9},
			{"C18-R10", "a failed watch is forgotten so that it is retried", c18r10},
			{"C18-R11", "a key pair read from files is served only after these very bytes were checked", c18r11},
			{"C18-R12", "the rotation task announces the workload certificate", c18r12},
		},
	})
}

func c18r1(c *Ctx) {
	p := c.P
	gen := p.FuncObj(pkgNACache, "SecretManagerClient", "generateNewSecret")
	reg := p.FuncObj(pkgNACache, "SecretManagerClient", "registerSecret")
	// CSRSign callers
	n := 0
	for _, fn := range p.AllFuncs {
		if funcPkgPath(fn) != istioMod+"/"+pkgNACache || strings.HasSuffix(p.Fset.Position(fn.Pos()).Filename, "_test.go") {
			continue
		}
		eachInstr(fn, func(ins ssa.Instruction) {
			ci, ok := ins.(ssa.CallInstruction)
			if !ok || !ci.Common().IsInvoke() || ci.Common().Method.Name() != "CSRSign" {
				return
			}
			n++
			c.Check("CSRSign caller:"+shortFn(fn), ins.Pos(), funcObjOf(fn) == gen, "the CA is asked to sign outside generateNewSecret (outside the single-flight lock)")
		})
	}
	c.Check("CSRSign call sites found", token.NoPos, n >= 1, "no CSRSign call found")
	// callers of generateNewSecret / registerSecret hold generateMutex
	la := newLockAnalysis(p)
	m := 0
	for _, fn := range p.AllFuncs {
		if funcPkgPath(fn) != istioMod+"/"+pkgNACache || strings.HasSuffix(p.Fset.Position(fn.Pos()).Filename, "_test.go") || fn.Synthetic != "" {
			continue
		}
		if len(callsIn(fn, gen, reg)) == 0 {
			continue
		}
		la.run(fn, lockset{}, func(ins ssa.Instruction, held lockset) {
			if isCallTo(ins, gen) {
				m++
				c.Check("generateNewSecret called with generateMutex held:"+shortFn(fn), ins.Pos(), held["sc.generateMutex"] >= modeW, "a signing request can be sent without holding generateMutex: concurrent GenerateSecret calls each send a CSR and get different key/cert pairs")
			}
			if isCallTo(ins, reg) {
				m++
				c.Check("registerSecret called with generateMutex held:"+shortFn(fn), ins.Pos(), held["sc.generateMutex"] >= modeW, "the new certificate is published to the cache after generateMutex was released: a second caller can take the lock in between, see an empty cache and send a second CSR (its pair is then handed out but never cached or renewed)")
			}
		})
	}
	c.Check("signing / publishing call sites found", token.NoPos, m >= 2, "expected generateNewSecret and registerSecret calls")
	c.Floor(5)
}

func c18r2(c *Ctx) {
	p := c.P
	fn := p.Func(pkgNACache, "SecretManagerClient", "GenerateSecret")
	gen := p.FuncObj(pkgNACache, "SecretManagerClient", "generateNewSecret")
	get := p.FuncObj(pkgNACache, "SecretManagerClient", "getCachedSecret")
	la := newLockAnalysis(p)
	lockedLookups := map[ssa.Instruction]bool{}
	la.run(fn, lockset{}, func(ins ssa.Instruction, held lockset) {
		if isCallTo(ins, get) && held["sc.generateMutex"] >= modeW {
			lockedLookups[ins] = true
		}
	})
	c.Check("cache is re-checked after taking the lock", fn.Pos(), len(lockedLookups) >= 1, "no cache lookup is made while holding generateMutex")
	for _, call := range callsIn(fn, gen) {
		// under the miss edge of a locked lookup
		var miss []Edge
		for _, i := range allIfs(fn) {
			if x, eq, ok := nilCmp(i.Cond); ok {
				if ci, isI := x.(ssa.Instruction); isI && lockedLookups[ci] {
					idx := 1
					if eq {
						idx = 0
					}
					miss = append(miss, Edge{i.Block(), idx})
				}
			}
		}
		c.Check("signing only on a cache miss seen under the lock", call.Pos(), underEdges(fn, call.Block(), miss), "a CSR is sent although a certificate cached by a concurrent caller may exist: the re-check under the lock is missing or does not return on a hit")
	}
	c.Floor(2)
}

func c18r3(c *Ctx) {
	p := c.P
	fn := p.Func(pkgNACache, "SecretManagerClient", "GenerateSecret")
	gen := p.FuncObj(pkgNACache, "SecretManagerClient", "generateNewSecret")
	reg := p.FuncObj(pkgNACache, "SecretManagerClient", "registerSecret")
	setW := p.FuncObj(pkgNACache, "secretCache", "SetWorkload")
	gcalls := callsIn(fn, gen)
	c.Check("GenerateSecret signs", fn.Pos(), len(gcalls) == 1, "expected one generateNewSecret call")
	if len(gcalls) == 1 {
		ev := errOf(gcalls[0])
		var okE []Edge
		for _, i := range allIfs(fn) {
			if x, eq, ok := nilCmp(i.Cond); ok && (x == ev || storedFrom(x, ev)) {
				idx := 1
				if eq {
					idx = 0
				}
				okE = append(okE, Edge{i.Block(), idx})
			}
		}
		for _, r := range callsIn(fn, reg) {
			c.Check("certificate registered only if signing succeeded", r.Pos(), underEdges(fn, r.Block(), okE), "registerSecret is reachable when generateNewSecret failed: a nil/partial secret is cached and the failure becomes sticky")
		}
	}
	// who sets the workload non-nil
	for _, f := range p.AllFuncs {
		if funcPkgPath(f) != istioMod+"/"+pkgNACache || strings.HasSuffix(p.Fset.Position(f.Pos()).Filename, "_test.go") {
			continue
		}
		for _, call := range callsIn(f, setW) {
			arg := call.Common().Args[1]
			if k, ok := arg.(*ssa.Const); ok && k.IsNil() {
				continue
			}
			root := f
			for root.Parent() != nil {
				root = root.Parent()
			}
			c.Check("non-nil SetWorkload caller:"+shortFn(f), call.Pos(), funcObjOf(root) == reg, "the workload certificate is cached outside registerSecret (without scheduling its rotation)")
		}
	}
	c.Floor(3)
}

// storedFrom: x is a load of a cell (named result / local) into which v was stored.
func storedFrom(x, v ssa.Value) bool {
	u, ok := x.(*ssa.UnOp)
	if !ok || u.Op != token.MUL {
		return false
	}
	a, ok := u.X.(*ssa.Alloc)
	if !ok {
		return false
	}
	for _, r := range *a.Referrers() {
		if s, ok := r.(*ssa.Store); ok && s.Addr == ssa.Value(a) && s.Val == v {
			return true
		}
	}
	return false
}

func c18r4(c *Ctx) {
	p := c.P
	fn := p.Func(pkgNACache, "SecretManagerClient", "registerSecret")
	setW := p.FuncObj(pkgNACache, "secretCache", "SetWorkload")
	getW := p.FuncObj(pkgNACache, "secretCache", "GetWorkload")
	var sets, pushes []ssa.Instruction
	eachInstr(fn, func(ins ssa.Instruction) {
		if isCallTo(ins, setW) {
			sets = append(sets, ins)
		}
		if ci, ok := ins.(ssa.CallInstruction); ok && ci.Common().IsInvoke() && ci.Common().Method.Name() == "PushDelayed" {
			pushes = append(pushes, ins)
		}
	})
	c.Check("registerSecret stores once and schedules once", fn.Pos(), len(sets) == 1 && len(pushes) == 1, "expected exactly one SetWorkload and one PushDelayed in registerSecret")
	if len(sets) != 1 || len(pushes) != 1 {
		return
	}
	// both under the `nothing cached` edge
	var empty []Edge
	for _, i := range allIfs(fn) {
		if x, eq, ok := nilCmp(i.Cond); ok {
			if call, isC := x.(*ssa.Call); isC && isCallTo(call, getW) {
				idx := 1
				if eq {
					idx = 0
				}
				empty = append(empty, Edge{i.Block(), idx})
			}
		}
	}
	c.Check("store and schedule only when nothing is cached", sets[0].Pos(), underEdges(fn, sets[0].Block(), empty) && underEdges(fn, pushes[0].Block(), empty), "a second certificate can be stored/scheduled while one is cached: two rotation tasks for one certificate")
	// same paths: from the store every path to return passes the schedule, and the schedule is preceded by the store
	_, miss := pathAvoidingE(nil, sets[0], func(i ssa.Instruction) bool { return i == pushes[0] }, isReturn, nil, nil)
	c.Check("a stored certificate always gets its rotation scheduled", sets[0].Pos(), !miss, "a path stores the certificate without scheduling its renewal: it is served until it expires")
	c.Check("a scheduled rotation always belongs to a stored certificate", pushes[0].Pos(), precededOnAllPaths(fn, pushes[0], func(i ssa.Instruction) bool { return i == sets[0] }), "a rotation is scheduled for a certificate that was not stored")
	// the delayed task
	// the function literal handed to PushDelayed, or the named method / helper it delegates to
	var task *ssa.Function
	for _, a := range fn.AnonFuncs {
		if g := funcHoldingDeep(a, func(i ssa.Instruction) bool { return isCallTo(i, setW) }, 2); g != nil {
			task = g
		}
	}
	if task == nil {
		c.Check("rotation task found", fn.Pos(), false, "the delayed rotation closure (which clears the cache) was not found")
		return
	}
	onUpd := p.FuncObj(pkgNACache, "SecretManagerClient", "OnSecretUpdate")
	clears := callsIn(task, setW)
	notifies := callsIn(task, onUpd)
	c.Check("rotation task clears and notifies once", task.Pos(), len(clears) == 1 && len(notifies) == 1, "expected one SetWorkload(nil) and one OnSecretUpdate in the rotation task")
	if len(clears) == 1 && len(notifies) == 1 {
		// stale-task guard: CreatedTime equality
		var eqE []Edge
		for _, i := range allIfs(task) {
			if call, ok := i.Cond.(*ssa.Call); ok {
				if o := calleeObj(call); o != nil && o.Name() == "Equal" {
					eqE = append(eqE, Edge{i.Block(), 0})
				}
			}
			cv, neg := stripNot(i.Cond)
			if b, ok := cv.(*ssa.BinOp); ok && (b.Op == token.EQL || b.Op == token.NEQ) {
				if fx, fy := fieldOfLoad(b.X), fieldOfLoad(b.Y); fx != nil && fy != nil && fx.Name() == "CreatedTime" && fy.Name() == "CreatedTime" {
					idx := 0 // the edge on which the two times are equal
					if (b.Op == token.NEQ) != neg {
						idx = 1
					}
					eqE = append(eqE, Edge{i.Block(), idx})
				}
			}
		}
		c.Check("rotation task acts only on the certificate it was scheduled for", clears[0].Pos(), underEdges(task, clears[0].Block(), eqE), "the delayed task clears the cache without comparing CreatedTime: a stale task (superseded by a trust-bundle re-sign) throws away a fresh certificate")
		c.Check("rotation task clears the cache before notifying subscribers", notifies[0].Pos(), precededOnAllPaths(task, notifies[0], func(i ssa.Instruction) bool { return i == ssa.Instruction(clears[0]) }),
			"subscribers are told the certificate is due while the old one is still cached: a subscriber that re-requests synchronously gets the old certificate back, no CSR is sent, and after the clear nothing is scheduled any more (the certificate runs into its expiry)")
	}
	c.Floor(7)
}

func c18r5(c *Ctx) {
	p := c.P
	fn := p.Func(pkgNACache, "SecretManagerClient", "GenerateSecret")
	onUpd := p.FuncObj(pkgNACache, "SecretManagerClient", "OnSecretUpdate")
	setRoot := p.FuncObj(pkgNACache, "secretCache", "SetRoot")
	getRoot := p.FuncObj(pkgNACache, "secretCache", "GetRoot")
	// `!bytes.Equal(oldRoot, new)` edges where oldRoot comes from GetRoot
	var diff []Edge
	for _, i := range allIfs(fn) {
		v, neg := stripNot(i.Cond)
		call, ok := v.(*ssa.Call)
		if !ok {
			continue
		}
		o := calleeObj(call)
		if o == nil || o.Name() != "Equal" || o.Pkg() == nil || o.Pkg().Path() != "bytes" {
			continue
		}
		fromGet := false
		for _, a := range call.Call.Args {
			if ac, ok := a.(*ssa.Call); ok && isCallTo(ac, getRoot) {
				fromGet = true
			}
		}
		if !fromGet {
			continue
		}
		idx := 1
		if neg {
			idx = 0
		}
		diff = append(diff, Edge{i.Block(), idx})
	}
	c.Check("GenerateSecret compares the new root with the cached one", fn.Pos(), len(diff) == 1, "no bytes.Equal(cache.GetRoot(), newRoot) comparison")
	if len(diff) == 1 {
		start := diff[0].To()
		_, miss := pathAvoidingE(start, nil, func(i ssa.Instruction) bool { return isCallTo(i, onUpd) }, isReturn, nil, nil)
		c.Check("a changed root is announced to subscribers", fn.Pos(), !miss, "when the CA's root differs from the cached one a path returns without OnSecretUpdate(ROOTCA): proxies keep validating peers against the old trust bundle")
		_, miss = pathAvoidingE(start, nil, func(i ssa.Instruction) bool { return isCallTo(i, setRoot) }, func(i ssa.Instruction) bool { return isCallTo(i, onUpd) }, nil, nil)
		c.Check("the new root is stored before it is announced", fn.Pos(), !miss, "subscribers are notified before the new root is stored: the ROOTCA request they send sees the old root")
		for _, call := range callsIn(fn, onUpd) {
			a := call.Common().Args
			okc := false
			if len(a) >= 2 {
				if s, ok := constString(a[1]); ok && s == "ROOTCA" {
					okc = true
				}
			}
			c.Check("the announcement names the root resource", call.Pos(), okc, "OnSecretUpdate is not called with the ROOTCA resource name")
		}
	}
	c.Floor(4)
}

func c18r6(c *Ctx) {
	p := c.P
	checkGuards(c, GuardSpec{
		Name: "secretCache", Struct: p.Named(pkgNACache, "secretCache"), Guard: "mu",
		Fields: map[string]bool{"workload": true, "certRoot": true},
		Exempt: map[string]string{},
	})
	c.Floor(5)
}


// C18-R7: rotateTime places the renewal inside the certificate's validity (before NotAfter by the grace period). The
// delay handed to the delayed queue in registerSecret is that value itself: anything applied to it afterwards (a lower
// bound against "spinning", rounding up) can move the renewal past the expiry of a short-lived or late-delivered
// certificate, which is then served from the cache after it expired.
func c18r7(c *Ctx) {
	p := c.P
	fn := p.Func(pkgNACache, "SecretManagerClient", "registerSecret")
	rt := p.Var(pkgNACache, "rotateTime")
	var computed ssa.Value
	eachInstr(fn, func(ins ssa.Instruction) {
		call, ok := ins.(*ssa.Call)
		if !ok {
			return
		}
		if u, ok := call.Call.Value.(*ssa.UnOp); ok {
			if g, ok := u.X.(*ssa.Global); ok && g.Object() == types.Object(rt) {
				computed = call
			}
		}
	})
	c.Check("registerSecret computes the delay with rotateTime", fn.Pos(), computed != nil, "no call through the rotateTime variable found")
	n := 0
	eachInstr(fn, func(ins ssa.Instruction) {
		ci, ok := ins.(ssa.CallInstruction)
		if !ok {
			return
		}
		name := ""
		if ci.Common().IsInvoke() {
			name = ci.Common().Method.Name()
		} else if o := calleeObj(ins); o != nil {
			name = o.Name()
		}
		if name != "PushDelayed" {
			return
		}
		n++
		args := ci.Common().Args
		d := args[len(args)-1]
		c.Check("the delay scheduled is the one rotateTime computed", ins.Pos(), computed != nil && d == computed,
			"the delay passed to PushDelayed is not the value rotateTime returned ("+d.String()+"): a transformation of it (e.g. a minimum delay) can schedule the renewal after the certificate's NotAfter; until then GenerateSecret keeps serving the expired certificate from the cache")
	})
	c.Check("registerSecret schedules the renewal", fn.Pos(), n == 1, "expected one PushDelayed call")
	c.Floor(3)
}

// C18-R8: sdsservice.push fans a secret event (a secret NAME: default / ROOTCA / a file cert) out to every connected
// stream. Inside the loop over the clients every iteration hands the name on (starts the sender goroutine): an iteration
// that can skip it - e.g. because "a push is already queued for this connection" - drops the event for that stream,
// and since events carry different names the stream never regenerates that secret.
func c18r8(c *Ctx) {
	p := c.P
	fn := p.Func("security/pkg/nodeagent/sds", "sdsservice", "push")
	clientsF := p.Field("security/pkg/nodeagent/sds", "sdsservice", "clients")
	n := 0
	for _, l := range rangeLoops(fn) {
		if l.Over == nil || fieldOfLoad(l.Over) != clientsF {
			continue
		}
		n++
		isGo := func(ins ssa.Instruction) bool { _, ok := ins.(*ssa.Go); return ok }
		isSend := func(ins ssa.Instruction) bool { _, ok := ins.(*ssa.Send); return ok }
		bad, found := pathAvoidingE(l.Body, nil, func(i ssa.Instruction) bool { return isGo(i) || isSend(i) }, nil, nil, l.Header)
		pos := fn.Pos()
		if bad != nil {
			pos = bad.Pos()
		}
		c.Check("every client in the loop is handed the secret name", pos, !found,
			"an iteration over the connected streams can finish without starting the sender for that stream: the event (a specific secret name) is dropped for it, and a following event for another name does not make up for it - e.g. after a trust-bundle update the workload stream never hears about `default`, no rotation task is left, and Envoy's certificate is never renewed")
	}
	c.Check("push loops over the connected clients", fn.Pos(), n == 1, "no loop over sdsservice.clients in push")
	c.Floor(2)
}


// C18-R9: typestate of a long-lived client's connection field. In the CA clients of the agent, a method that closes the
// connection held in a field of its receiver (and is not the receiver's own Close) replaces the field on every path
// before it returns. Otherwise a failure between the close and the replacement leaves the client holding a closed
// connection for good: every later CSR fails locally and - closing a closed connection being an error itself - the
// rebuild is never attempted again (a transient failure becomes sticky).
func c18r9(c *Ctx) {
	p := c.P
	n := 0
	for _, fn := range p.AllFuncs {
		pp := funcPkgPath(fn)
		if !strings.HasPrefix(pp, istioMod+"/security/pkg/nodeagent/caclient") || strings.HasSuffix(p.Fset.Position(fn.Pos()).Filename, "_test.go") {
			continue
		}
		if fn.Signature.Recv() == nil || len(fn.Params) == 0 || fn.Parent() != nil {
			continue
		}
		ln := strings.ToLower(fn.Name())
		if ln == "close" || ln == "stop" || ln == "shutdown" {
			continue // terminal: the client is not used afterwards
		}
		recv := fn.Params[0]
		eachInstr(fn, func(ins ssa.Instruction) {
			ci, ok := ins.(ssa.CallInstruction)
			if !ok {
				return
			}
			if _, isDefer := ins.(*ssa.Defer); isDefer {
				return
			}
			name := ""
			if ci.Common().IsInvoke() {
				name = ci.Common().Method.Name()
			} else if o := calleeObj(ins); o != nil {
				name = o.Name()
			}
			if name != "Close" {
				return
			}
			var target ssa.Value
			if ci.Common().IsInvoke() {
				target = ci.Common().Value
			} else if len(ci.Common().Args) > 0 {
				target = ci.Common().Args[0]
			}
			fv := fieldOfLoad(target)
			if fv == nil {
				return
			}
			base, _ := fieldLoadOf(target, fv)
			if base != ssa.Value(recv) {
				return
			}
			n++
			replaced := func(i ssa.Instruction) bool {
				st, ok := i.(*ssa.Store)
				if !ok {
					return false
				}
				fa, ok := st.Addr.(*ssa.FieldAddr)
				return ok && fa.X == ssa.Value(recv) && fieldVar(fa.X.Type(), fa.Field) == fv
			}
			bad := pathAvoiding(fn, ins, replaced, isReturn)
			pos := ins.Pos()
			c.Check("connection field closed here is replaced on every path: "+stableFnName(fn)+"."+fv.Name(), pos, bad == nil,
				"after "+fv.Name()+".Close() the method can return without storing a new connection into the field: the client then holds a closed connection, every later request fails with `the client connection is closing`, and since closing it again fails too, the rebuild is never retried - a transient failure (e.g. the root cert being unreadable while it is rotated) is sticky until the agent restarts")
		})
	}
	c.Check("connection-closing methods of the CA clients found", token.NoPos, n >= 1, "no method closing a connection field found in the caclient providers")
	c.Floor(2)
}

// C18-R10: the file-watch registry. A key inserted into fileCerts before the watcher is added is removed again on the
// failure path of that addition. The lookups "already watching => nothing to do" trust the map: an entry without a watch
// makes the retry loop (and every later request) stop at once, and the file's changes are never seen.
func c18r10(c *Ctx) {
	p := c.P
	fc := p.Field(pkgNACache, "SecretManagerClient", "fileCerts")
	n := 0
	for _, fn := range p.AllFuncs {
		if funcPkgPath(fn) != istioMod+"/"+pkgNACache || strings.HasSuffix(p.Fset.Position(fn.Pos()).Filename, "_test.go") {
			continue
		}
		eachInstr(fn, func(ins ssa.Instruction) {
			mu, ok := ins.(*ssa.MapUpdate)
			if !ok || fieldOfLoad(mu.Map) != fc {
				return
			}
			// watcher additions after the insert whose error is tested
			isDel := func(i ssa.Instruction) bool {
				call, ok := i.(*ssa.Call)
				if !ok {
					return false
				}
				bi, ok := call.Call.Value.(*ssa.Builtin)
				return ok && bi.Name() == "delete" && fieldOfLoad(call.Call.Args[0]) == fc
			}
			eachInstr(fn, func(j ssa.Instruction) {
				call, ok := j.(*ssa.Call)
				if !ok {
					return
				}
				name := ""
				if call.Call.IsInvoke() {
					name = call.Call.Method.Name()
				} else if o := calleeObj(j); o != nil {
					name = o.Name()
				}
				if name != "Add" || !types.Identical(call.Type(), types.Universe.Lookup("error").Type()) {
					return
				}
				// reachable after the insert?
				if pathAvoiding(fn, ins, func(ssa.Instruction) bool { return false }, func(i ssa.Instruction) bool { return i == j }) == nil {
					return
				}
				n++
				var errEdges []Edge
				for _, i := range allIfs(fn) {
					x, eq, ok := nilCmp(i.Cond)
					if !ok || x != ssa.Value(call) {
						continue
					}
					idx := 0
					if eq {
						idx = 1
					}
					errEdges = append(errEdges, Edge{i.Block(), idx})
				}
				okAll := len(errEdges) > 0
				var pos token.Pos = j.Pos()
				for _, e := range errEdges {
					if bad, found := pathAvoidingE(e.To(), nil, deepMust(isDel, 2), isReturn, nil, nil); found {
						okAll = false
						if bad != nil {
							pos = bad.Pos()
						}
					}
				}
				if why, ok := map[string]string{
					"(*security/pkg/nodeagent/cache.SecretManagerClient).handleSymlinkChange": "not a registration that is retried through the `already watching` gate: the entry describes the symlink, whose own watch persists, and is rewritten on the next symlink event; a failed Add of the new target is logged (read and confirmed; in-place writes to the new target until the next swap are the only loss)",
				}[stableFnName(fn)]; ok {
					_ = why
					c.Check("failed watcher.Add forgets the key it registered (frozen exception): "+stableFnName(fn), pos, true, "")
					return
				}
				c.Check("failed watcher.Add forgets the key it registered: "+stableFnName(fn), pos, okAll,
					"the file is entered into fileCerts before the watcher is added, and the failure path of the addition returns without deleting the entry: the retry (and every later request) finds `already watching` and stops, so the file is never watched and a rotated file-mounted certificate is never picked up")
			})
		})
	}
	c.Check("watch registrations found", token.NoPos, n >= 2, "fewer fileCerts insertions followed by a watcher addition than confirmed by hand (file and symlink watchers)")
	c.Floor(3)
}

// C18-R11: the key pair read from files is served only after THESE bytes were checked against each other. A secret item
// whose private key was read from a file (file-mounted certificates, file-cert: resources) is written by another process,
// key and certificate in two steps; checking the pair in one read and serving the result of another read lets a rotation
// slip in between. Wherever a SecretItem gets a PrivateKey that comes from a file read, the very values stored as
// CertificateChain and PrivateKey are the two arguments of a tls.X509KeyPair call that every path to the construction
// passes, and the construction lies under the no-error edge of that call.
func c18r11(c *Ctx) {
	p := c.P
	pkgCache := "security/pkg/nodeagent/cache"
	pkF := p.Field("pkg/security", "SecretItem", "PrivateKey")
	ccF := p.Field("pkg/security", "SecretItem", "CertificateChain")
	fromFile := func(v ssa.Value) bool {
		ex, ok := v.(*ssa.Extract)
		if !ok {
			return false
		}
		call, ok := ex.Tuple.(*ssa.Call)
		if !ok {
			return false
		}
		o := calleeObj(call)
		return o != nil && (strings.Contains(o.Name(), "ReadFile") || strings.Contains(o.Name(), "readFile"))
	}
	n := 0
	for _, fn := range p.AllFuncs {
		if funcPkgPath(fn) != istioMod+"/"+pkgCache || strings.HasSuffix(p.Fset.Position(fn.Pos()).Filename, "_test.go") || isWrapperFn(fn) {
			continue
		}
		for _, st := range storesTo(fn, pkF) {
			if !fromFile(st.Val) {
				continue
			}
			n++
			fa := st.Addr.(*ssa.FieldAddr)
			var chain ssa.Value
			for _, st2 := range storesTo(fn, ccF) {
				if fa2, ok := st2.Addr.(*ssa.FieldAddr); ok && fa2.X == fa.X {
					chain = st2.Val
				}
			}
			var check *ssa.Call
			eachInstr(fn, func(ins ssa.Instruction) {
				call, ok := ins.(*ssa.Call)
				if !ok {
					return
				}
				o := calleeObj(call)
				if o == nil || o.Pkg() == nil || o.Pkg().Path() != "crypto/tls" || o.Name() != "X509KeyPair" || len(call.Call.Args) != 2 {
					return
				}
				if chain != nil && call.Call.Args[0] == chain && call.Call.Args[1] == st.Val {
					check = call
				}
			})
			name := "a key pair read from files is served only after these bytes were checked: " + stableFnName(fn)
			msg := "this function builds a SecretItem whose private key was read from a file without having passed the very bytes it serves (certificate chain and key) through tls.X509KeyPair: a pair that was validated in a separate read is not the pair that is returned, and a non-atomic rotation on disk (new key written, new certificate not yet) that lands in between is handed to Envoy as a private key that does not match its certificate"
			if check == nil {
				c.Check(name, st.Pos(), false, msg)
				continue
			}
			okNil := false
			for _, i := range allIfs(fn) {
				if x, eq, ok := nilCmp(i.Cond); ok {
					if ex, isEx := x.(*ssa.Extract); isEx && ex.Tuple == ssa.Value(check) && ex.Index == 1 {
						idx := 1
						if eq {
							idx = 0
						}
						if underEdges(fn, st.Block(), []Edge{{i.Block(), idx}}) {
							okNil = true
						}
					}
				}
			}
			c.Check(name, st.Pos(), okNil, msg)
		}
	}
	c.Check("file-backed secret items found", token.NoPos, n >= 1, "no SecretItem whose PrivateKey comes from a file read found in the agent's secret cache")
	c.Floor(2)
}

// C18-R12: the rotation task announces the workload certificate. Whichever request triggered the CSR (`default` or, on a
// cold cache / after a trust-bundle update, `ROOTCA`), the renewal task scheduled by registerSecret tells the subscribers
// of the WORKLOAD certificate: the name handed to OnSecretUpdate in the task is the constant
// security.WorkloadKeyCertResourceName - literally, or as the ResourceName of the registered item after registerSecret
// stored that constant into it. Announcing the triggering request's name leaves the workload subscribers uninformed and
// their certificate expires.
func c18r12(c *Ctx) {
	p := c.P
	pkgCache := "security/pkg/nodeagent/cache"
	fn := p.Func(pkgCache, "SecretManagerClient", "registerSecret")
	upd := p.FuncObj(pkgCache, "SecretManagerClient", "OnSecretUpdate")
	want, _ := constStringOf(p.Const("pkg/security", "WorkloadKeyCertResourceName"))
	rn := p.Field("pkg/security", "SecretItem", "ResourceName")
	// the parameter's cell, and the constant store into its ResourceName
	nameFixed := false
	var fixPos token.Pos
	eachInstr(fn, func(ins ssa.Instruction) {
		st, ok := ins.(*ssa.Store)
		if !ok {
			return
		}
		fa, ok := st.Addr.(*ssa.FieldAddr)
		if !ok || fieldVar(fa.X.Type(), fa.Field) != rn {
			return
		}
		if s, isC := constString(st.Val); isC && s == want {
			nameFixed = true
			fixPos = st.Pos()
		}
	})
	n := 0
	scanned := map[*ssa.Function]bool{}
	var scan func(f *ssa.Function)
	scan = func(f *ssa.Function) {
		eachInstr(f, func(ins ssa.Instruction) {
			if mk, ok := ins.(*ssa.MakeClosure); ok {
				if lit, ok := mk.Fn.(*ssa.Function); ok {
					scan(lit)
				}
			}
			call, ok := ins.(*ssa.Call)
			if ok && !isCallTo(call, upd) {
				// the task body extracted into a method / function of the package that is handed the item
				if sc := call.Call.StaticCallee(); sc != nil && len(sc.Blocks) > 0 && funcPkgPath(sc) == funcPkgPath(fn) && !scanned[sc] && sc != fn {
					takesItem := false
					for _, a := range call.Call.Args {
						if structOf(a.Type()) == p.Struct("pkg/security", "SecretItem") {
							takesItem = true
						}
					}
					if takesItem {
						scanned[sc] = true
						scan(sc)
					}
				}
				return
			}
			if !ok {
				return
			}
			n++
			arg := call.Call.Args[len(call.Call.Args)-1]
			ok2 := false
			if s, isC := constString(arg); isC && s == want {
				ok2 = true
			}
			if f := fieldOfLoad(arg); f == rn && nameFixed {
				ok2 = true
			}
			c.Check("the rotation task announces the workload certificate's name", call.Pos(), ok2,
				"the renewal task scheduled by registerSecret hands OnSecretUpdate a name that is not fixed to `"+want+"`: when a ROOTCA request triggered the CSR (cold cache, or first request after a trust-bundle update) the task announces ROOTCA, the subscribers of the workload certificate are never told and keep it past its expiry, while the ROOTCA subscriber re-requests and repeats the cycle")
		})
	}
	scan(fn)
	_ = fixPos
	c.Check("registerSecret schedules an announcement", fn.Pos(), n >= 1, "no OnSecretUpdate call in registerSecret or its task")
	c.Floor(2)
}
