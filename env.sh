# Environment for building and running the checker offline (sourced by setup.sh and run.sh).
export PATH=/opt/veriftools/go1.26.8/bin:$PATH
export GOFLAGS=-mod=mod GOPROXY=off GOSUMDB=off GOTOOLCHAIN=local GOWORK=off
export CARGO_NET_OFFLINE=true PIP_NO_INDEX=1
