#!/usr/bin/env python3
"""Regenerates MANIFEST.json from manifest_src.json (claimed properties and their level texts).
Run after adding/removing a property's rules. Validates against the schema when jsonschema is available."""
import json, sys, os
src = json.load(open('manifest_src.json'))
base = json.load(open('/root/.vp/BASELINE.json'))['cmd'] if os.path.exists('/root/.vp/BASELINE.json') else src['baseline_cmd']
allp = [json.loads(l)['id'] for l in open('properties.jsonl')]
checks = []
for pid in allp:
    c = src['claimed'].get(pid)
    if not c: continue
    checks.append({
        "property_id": pid,
        "quick_cmd": f"./run.sh {pid} quick",
        "thorough_cmd": f"./run.sh {pid} thorough",
        "evidence_file": f"evidence/{pid}.json",
        "replay_cmd_template": f"./run.sh {pid} --explain {{path}}",
        "engine": "istiocheck",
        "level_claimed": {"category": "other", "text": c['text'], "design_ref": c.get('design_ref', f"DESIGN.md section 4, {pid}")},
        "level_note": c['note'],
        "technique": c['technique'],
    })
na = []
for pid in allp:
    if pid in src['claimed']: continue
    na.append({"property_id": pid, "reason": src['not_applicable'].get(pid, "no static check built for it yet")})
m = {
    "version": 1,
    "setup_cmd": "./setup.sh",
    "hooks": {"guard": "verif", "enable": "none needed: static analysis reads /repo's source; no hooks or instrumentation are compiled into istio",
              "baseline_off_cmd": base, "source_commits": [], "add_only": True},
    "engines": [{"name": "istiocheck", "path": "checker/", "serves_properties": sorted(src['claimed'].keys()),
                 "kind_free_text": "custom static analyser over go/packages + go/types + go/ssa (x/tools v0.29.0): bounded call graph + field effect sets, CFG dominance/must-pass-through, locksets, table agreement, order taint, provenance slices"}],
    "checks": checks,
    "notes": src['notes'],
    "not_applicable": na,
}
json.dump(m, open('MANIFEST.json', 'w'), indent=1)
try:
    import jsonschema
    jsonschema.validate(m, json.load(open('/root/.vp/MANIFEST.schema.json')))
    print("MANIFEST.json valid;", len(checks), "checks,", len(na), "not applicable")
except ImportError:
    print("written (jsonschema not available to validate)")
