#!/bin/bash
# Builds the checker from files on disk only and warms Go's export-data cache for /repo.
set -euo pipefail
cd "$(dirname "$0")"
. ./env.sh
(cd checker && go build -o istiocheck .)
# Warm-up: one load of /repo (go list -export compiles dependencies into the build cache). Not a check.
(cd /repo && go list -trimpath -export -deps ./pilot/... ./pkg/... ./security/... ./tools/istio-iptables/... ./tools/common/... >/dev/null 2>&1) || true
echo "setup ok"
