// Copyright Istio Authors
//
// Licensed under the Apache License, Version 2.0 (the "License");
// you may not use this file except in compliance with the License.
// You may obtain a copy of the License at
//
//     http://www.apache.org/licenses/LICENSE-2.0
//
// Unless required by applicable law or agreed to in writing, software
// distributed under the License is distributed on an "AS IS" BASIS,
// WITHOUT WARRANTIES OR CONDITIONS OF ANY KIND, either express or implied.
// See the License for the specific language governing permissions and
// limitations under the License.

package model

// Place this file in pilot/pkg/model/ (package model).
//
// Demonstrates that pickBestVisibleNamespace (PILOT_SIDECAR_PICK_BEST_SERVICE_NAMESPACE=true, the default)
// lets Go map iteration order decide which namespace's ServiceEntry a sidecar imports for a VirtualService
// destination host when two visible ServiceEntries for that host have the SAME creationTimestamp.

import (
	"fmt"
	"sort"
	"strings"
	"testing"
	"time"

	networking "istio.io/api/networking/v1alpha3"
	"istio.io/istio/pilot/pkg/features"
	"istio.io/istio/pilot/pkg/serviceregistry/provider"
	"istio.io/istio/pkg/config"
	"istio.io/istio/pkg/config/host"
	"istio.io/istio/pkg/config/mesh"
	"istio.io/istio/pkg/config/mesh/meshwatcher"
	"istio.io/istio/pkg/config/protocol"
	"istio.io/istio/pkg/config/schema/gvk"
	"istio.io/istio/pkg/kube"
	"istio.io/istio/pkg/kube/krt"
	"istio.io/istio/pkg/test"
)

const (
	findVHost       = "shared.example.com"
	findVIterations = 100
)

// findVServices returns what the ServiceEntry registry produces for two ServiceEntries with
// hosts: [shared.example.com] living in ns-a and ns-b (Attributes.Name == hostname, registry External).
// They are distinguishable: ns-a serves http/80 (STATIC), ns-b serves https/443 (DNS).
func findVServices(tA, tB time.Time) []*Service {
	return []*Service{
		{
			Hostname:     findVHost,
			Ports:        PortList{{Name: "http", Port: 80, Protocol: protocol.HTTP}},
			Resolution:   ClientSideLB,
			CreationTime: tA,
			Attributes: ServiceAttributes{
				ServiceRegistry: provider.External,
				Name:            findVHost,
				Namespace:       "ns-a",
			},
		},
		{
			Hostname:     findVHost,
			Ports:        PortList{{Name: "https", Port: 443, Protocol: protocol.HTTPS}},
			Resolution:   DNSLB,
			CreationTime: tB,
			Attributes: ServiceAttributes{
				ServiceRegistry: provider.External,
				Name:            findVHost,
				Namespace:       "ns-b",
			},
		},
	}
}

// findVPushContext builds a PushContext the same way TestCreateSidecarScope does: real initServiceRegistry and
// real initVirtualServices, with one VirtualService in namespace "app" routing to shared.example.com.
func findVPushContext(t *testing.T, services []*Service) *PushContext {
	t.Helper()
	ps := NewPushContext()
	env := NewEnvironment()
	env.Watcher = meshwatcher.NewTestWatcher(mesh.DefaultMeshConfig())
	ps.Mesh = env.Mesh()
	env.ServiceDiscovery = &localServiceDiscovery{services: services}
	ps.initDefaultExportMaps()
	ps.initServiceRegistry(env, nil)

	vs := config.Config{
		Meta: config.Meta{
			GroupVersionKind: gvk.VirtualService,
			Name:             "to-shared",
			Namespace:        "app",
		},
		Spec: &networking.VirtualService{
			Hosts: []string{"frontend.app.svc.cluster.local"},
			Http: []*networking.HTTPRoute{{
				Route: []*networking.HTTPRouteDestination{{Destination: &networking.Destination{Host: findVHost}}},
			}},
		},
	}
	var controller ConfigStoreController = NewFakeStore()
	if _, err := controller.Create(vs); err != nil {
		t.Fatalf("could not create %v: %v", vs.Name, err)
	}
	env.VirtualServiceController = NewVirtualServiceController(
		controller,
		VSControllerOptions{KrtDebugger: krt.GlobalDebugHandler},
		env.Watcher,
	)
	stop := test.NewStop(t)
	go controller.Run(stop)
	go env.VirtualServiceController.Run(stop)
	kube.WaitForCacheSync("test", stop, controller.HasSynced)
	kube.WaitForCacheSync("test", stop, env.VirtualServiceController.HasSynced)
	env.ConfigStore = controller
	ps.initVirtualServices(env)
	return ps
}

// findVSidecar is the ubiquitous "only my own namespace" Sidecar: the ServiceEntries in ns-a/ns-b are NOT imported
// through egress.hosts, so the host is only pulled in because the imported VirtualService routes to it.
func findVSidecar() *config.Config {
	return &config.Config{
		Meta: config.Meta{
			GroupVersionKind: gvk.Sidecar,
			Name:             "default",
			Namespace:        "app",
		},
		Spec: &networking.Sidecar{
			Egress: []*networking.IstioEgressListener{{Hosts: []string{"./*"}}},
		},
	}
}

// findVDescribe renders what the proxy would get for the host: namespace, ports and resolution of the imported
// service. CDS cluster names (outbound|80|| vs outbound|443||), cluster type (EDS vs STRICT_DNS) and the set of
// applicable DestinationRules all derive from this.
func findVDescribe(sc *SidecarScope) string {
	svc := sc.servicesByHostname[host.Name(findVHost)]
	if svc == nil {
		return "<not imported>"
	}
	ports := make([]string, 0, len(svc.Ports))
	for _, p := range svc.Ports {
		ports = append(ports, fmt.Sprintf("%s/%d", p.Name, p.Port))
	}
	return fmt.Sprintf("ns=%s ports=%s resolution=%v", svc.Attributes.Namespace, strings.Join(ports, ","), svc.Resolution)
}

func findVFormat(outcomes map[string]int) string {
	keys := make([]string, 0, len(outcomes))
	for k := range outcomes {
		keys = append(keys, k)
	}
	sort.Strings(keys)
	var sb strings.Builder
	for _, k := range keys {
		fmt.Fprintf(&sb, "\n    %3dx  %s", outcomes[k], k)
	}
	return sb.String()
}

func findVScopeOutcomes(t *testing.T, services []*Service, sidecar *config.Config) map[string]int {
	t.Helper()
	test.SetForTest(t, &features.SidecarPickBestServiceNamespace, true) // the default, pinned for clarity
	ps := findVPushContext(t, services)
	outcomes := map[string]int{}
	for i := 0; i < findVIterations; i++ {
		// Same PushContext, same Sidecar, same namespace: this is what every istiod replica does on every
		// full push that rebuilds the sidecar scope.
		sc := convertToSidecarScope(ps, sidecar, "app")
		sc.initFunc()
		outcomes[findVDescribe(sc)]++
	}
	return outcomes
}

// Direct call of the function under suspicion.
func TestFindV_PickBestVisibleNamespace_EqualCreationTime(t *testing.T) {
	ts := time.Unix(1700000000, 0) // k8s creationTimestamp has 1s resolution: one `kubectl apply` => same value
	ps := findVPushContext(t, findVServices(ts, ts))
	byNamespace := ps.ServiceIndex.HostnameAndNamespace[host.Name(findVHost)]
	if len(byNamespace) != 2 {
		t.Fatalf("expected the host in 2 namespaces, got %v", byNamespace)
	}
	outcomes := map[string]int{}
	for i := 0; i < findVIterations; i++ {
		outcomes[pickBestVisibleNamespace(ps, byNamespace, "app")]++
	}
	t.Logf("pickBestVisibleNamespace outcomes over %d calls:%s", findVIterations, findVFormat(outcomes))
	if len(outcomes) != 1 {
		t.Fatalf("pickBestVisibleNamespace is not deterministic for equal creation times: %d distinct outcomes:%s",
			len(outcomes), findVFormat(outcomes))
	}
	if _, ok := outcomes["ns-a"]; !ok {
		t.Fatalf("expected the tie to be broken in favour of ns-a (same rule as SortServicesByCreationTime), got:%s", findVFormat(outcomes))
	}
}

// Whole SidecarScope construction: which ServiceEntry does the proxy in "app" import?
func TestFindV_SidecarScope_EqualCreationTime(t *testing.T) {
	ts := time.Unix(1700000000, 0)
	outcomes := findVScopeOutcomes(t, findVServices(ts, ts), findVSidecar())
	t.Logf("SidecarScope outcomes over %d rebuilds:%s", findVIterations, findVFormat(outcomes))
	if len(outcomes) != 1 {
		t.Fatalf("SidecarScope for the same proxy and the same configuration is not deterministic: %d distinct outcomes:%s",
			len(outcomes), findVFormat(outcomes))
	}

	// With a total rule the restricted Sidecar must agree with the default (no Sidecar resource) scope, where the
	// winner for equal creation times is decided by SortServicesByCreationTime (creation time, name, namespace).
	def := findVScopeOutcomes(t, findVServices(ts, ts), nil)
	t.Logf("default SidecarScope outcomes over %d rebuilds:%s", findVIterations, findVFormat(def))
	if len(def) != 1 {
		t.Fatalf("default SidecarScope is not deterministic:%s", findVFormat(def))
	}
	for k := range outcomes {
		if _, ok := def[k]; !ok {
			t.Fatalf("restricted Sidecar picked %q but default scope picked:%s", k, findVFormat(def))
		}
	}
}

// Control: with distinct creation times there is exactly one outcome (the older one), whichever namespace is older.
func TestFindV_Control_DifferentCreationTime(t *testing.T) {
	older, newer := time.Unix(1700000000, 0), time.Unix(1700000001, 0)
	for _, tc := range []struct {
		name   string
		tA, tB time.Time
		want   string
	}{
		{"ns-a older", older, newer, "ns=ns-a ports=http/80 resolution=" + fmt.Sprint(ClientSideLB)},
		{"ns-b older", newer, older, "ns=ns-b ports=https/443 resolution=" + fmt.Sprint(DNSLB)},
	} {
		t.Run(tc.name, func(t *testing.T) {
			outcomes := findVScopeOutcomes(t, findVServices(tc.tA, tc.tB), findVSidecar())
			t.Logf("SidecarScope outcomes over %d rebuilds:%s", findVIterations, findVFormat(outcomes))
			if len(outcomes) != 1 || outcomes[tc.want] != findVIterations {
				t.Fatalf("expected only %q, got:%s", tc.want, findVFormat(outcomes))
			}
		})
	}
}
