// Copyright Istio Authors
//
// Licensed under the Apache License, Version 2.0 (the "License");
// you may not use this file except in compliance with the License.
// You may obtain a copy of the License at
//
//     http://www.apache.org/licenses/LICENSE-2.0
//
// Unless required by applicable law or agreed to in writing, software
// distributed under the License is distributed on an "AS IS" BASIS,
// WITHOUT WARRANTIES OR CONDITIONS OF ANY KIND, either express or implied.
// See the License for the specific language governing permissions and
// limitations under the License.

package model

import (
	"fmt"
	"os"
	"reflect"
	"runtime"
	"sort"
	"strconv"
	"sync"
	"sync/atomic"
	"testing"
	"time"

	istiolog "istio.io/istio/pkg/log"
	"istio.io/istio/pkg/util/sets"
)

// Linearizability stress test for EndpointIndex: an endpoint update of registry B
// (UpdateServiceEndpoints, what xds.DiscoveryServer.EDSUpdate/EDSCacheUpdate call) runs
// concurrently with an operation of registry A that may unlink the *EndpointShards of the same
// service (DeleteServiceShard(preserveKeys=false) == SvcUpdate(EventDelete), DeleteShard ==
// RemoveShard, PruneShard).
//
// The assertion is purely about the observable end state: once both operations returned, the index
// content for the service must equal the content produced by one of the two sequential orders
// (A;B or B;A) applied to the same initial state. The oracle is computed by really running the two
// sequential orders on fresh indexes, nothing is hard coded.

const (
	racyHost = "foo.ns.svc.cluster.local"
	racyNs   = "ns"
)

var (
	racyShardA = ShardKey{Cluster: "cluster-a", Provider: "Kubernetes"}
	racyShardB = ShardKey{Cluster: "cluster-b", Provider: "Kubernetes"}
)

func racyEndpoints(prefix string, n int) []*IstioEndpoint {
	out := make([]*IstioEndpoint, 0, n)
	for i := 0; i < n; i++ {
		out = append(out, &IstioEndpoint{
			Addresses:       []string{prefix + strconv.Itoa(i+1)},
			ServicePortName: "http",
			EndpointPort:    80,
			Namespace:       racyNs,
			HostName:        racyHost,
		})
	}
	return out
}

// racySnapshot renders what a reader of the index (EDS generation) sees for the service.
func racySnapshot(e *EndpointIndex) string {
	es, f := e.ShardsForService(racyHost, racyNs)
	if !f {
		return "<service not in index>"
	}
	return racyRender(es)
}

func racyRender(es *EndpointShards) string {
	es.RLock()
	defer es.RUnlock()
	parts := make([]string, 0, len(es.Shards))
	for k, eps := range es.Shards {
		addrs := make([]string, 0, len(eps))
		for _, ep := range eps {
			addrs = append(addrs, ep.Addresses...)
		}
		sort.Strings(addrs)
		parts = append(parts, fmt.Sprintf("%s=%v", k, addrs))
	}
	sort.Strings(parts)
	return fmt.Sprintf("%v", parts)
}

type racyScenario struct {
	name string
	// keepLogs leaves the "model" scope at its (production default) info level. It is only needed
	// for the scenario whose window contains a log statement; the others are silenced because
	// their per round setup would otherwise print one line per round.
	keepLogs bool
	setup    func(e *EndpointIndex)
	opA      func(e *EndpointIndex) // the registry A operation that may unlink
	opB      func(e *EndpointIndex) // the registry B endpoint update
}

func racyScenarios() []racyScenario {
	epsA := racyEndpoints("10.0.0.", 2)
	epsB := racyEndpoints("10.1.0.", 3)
	updateB := func(e *EndpointIndex) { e.UpdateServiceEndpoints(racyShardB, racyHost, racyNs, epsB, true) }
	onlyA := func(e *EndpointIndex) { e.UpdateServiceEndpoints(racyShardA, racyHost, racyNs, epsA, true) }
	return []racyScenario{
		{
			// cluster-a deletes Service foo/ns (SvcUpdate(EventDelete)) while cluster-b reports its first
			// endpoints for foo/ns.
			name:  "svcDeleteA-vs-updateB",
			setup: onlyA,
			opA:   func(e *EndpointIndex) { e.DeleteServiceShard(racyShardA, racyHost, racyNs, false) },
			opB:   updateB,
		},
		{
			// cluster-a is removed (RemoveShard) while cluster-b reports its first endpoints for foo/ns.
			name:  "removeClusterA-vs-updateB",
			setup: onlyA,
			opA:   func(e *EndpointIndex) { e.DeleteShard(racyShardA) },
			opB:   updateB,
		},
		{
			// cluster-a finished a resync in which foo/ns does not exist any more (PruneShard).
			name:  "pruneA-vs-updateB",
			setup: onlyA,
			opA:   func(e *EndpointIndex) { e.PruneShard(racyShardA, map[string]sets.String{}) },
			opB:   updateB,
		},
		{
			// Variant: cluster-a never had anything to do with foo/ns. cluster-b's endpoints went to zero
			// earlier (keys are preserved, so an *EndpointShards with no shard stays linked) and now flip
			// back to non-zero while cluster-a is removed.
			name: "removeClusterA-vs-flipB",
			setup: func(e *EndpointIndex) {
				e.UpdateServiceEndpoints(racyShardB, racyHost, racyNs, epsB, true)
				e.UpdateServiceEndpoints(racyShardB, racyHost, racyNs, nil, true)
			},
			opA: func(e *EndpointIndex) { e.DeleteShard(racyShardA) },
			opB: updateB,
		},
		{
			// Variant: foo/ns is brand new, cluster-b's update creates the *EndpointShards, then logs
			// "Full push, new service" and only then locks it. cluster-a (unrelated to foo/ns) is removed.
			name:     "removeClusterA-vs-firstUpdateB",
			keepLogs: true,
			setup:    func(e *EndpointIndex) {},
			opA:      func(e *EndpointIndex) { e.DeleteShard(racyShardA) },
			opB:      updateB,
		},
	}
}

func racyDuration() time.Duration {
	if v := os.Getenv("RACY_DURATION"); v != "" {
		if d, err := time.ParseDuration(v); err == nil {
			return d
		}
	}
	return 4 * time.Second
}

func TestEndpointIndexUpdateVsUnlinkIsLinearizable(t *testing.T) {
	for _, sc := range racyScenarios() {
		t.Run(sc.name, func(t *testing.T) {
			if !sc.keepLogs {
				old := log.GetOutputLevel()
				log.SetOutputLevel(istiolog.NoneLevel)
				defer log.SetOutputLevel(old)
			}

			// Oracle: the two sequential orders.
			seqAB := NewEndpointIndex(DisabledCache{})
			sc.setup(seqAB)
			sc.opA(seqAB)
			sc.opB(seqAB)
			seqBA := NewEndpointIndex(DisabledCache{})
			sc.setup(seqBA)
			sc.opB(seqBA)
			sc.opA(seqBA)
			allowed := []string{racySnapshot(seqAB), racySnapshot(seqBA)}
			t.Logf("allowed end states: A;B -> %s   B;A -> %s", allowed[0], allowed[1])

			// Independent workers (each with its own index and its own A/B goroutine pair) just to
			// get more rounds per second out of the machine.
			workers := runtime.GOMAXPROCS(0) / 2
			if workers < 1 {
				workers = 1
			}
			deadline := time.Now().Add(racyDuration())
			var (
				rounds   atomic.Int64
				stop     atomic.Bool
				mu       sync.Mutex
				failures []string
				wg       sync.WaitGroup
			)
			for w := 0; w < workers; w++ {
				wg.Add(1)
				go func() {
					defer wg.Done()
					for !stop.Load() && time.Now().Before(deadline) {
						e := NewEndpointIndex(DisabledCache{})
						sc.setup(e)
						initial := racySnapshot(e)
						// the object linked before the round, only used for the diagnostic message
						pre, _ := e.ShardsForService(racyHost, racyNs)

						// barrier: both goroutines spin until released to maximise the overlap.
						var ready atomic.Int32
						var done sync.WaitGroup
						done.Add(2)
						run := func(op func(*EndpointIndex)) {
							defer done.Done()
							ready.Add(1)
							for ready.Load() < 2 {
							}
							op(e)
						}
						go run(sc.opA)
						go run(sc.opB)
						done.Wait()

						n := rounds.Add(1)
						got := racySnapshot(e)
						if got != allowed[0] && got != allowed[1] {
							mu.Lock()
							msg := fmt.Sprintf("round %d: initial %s; after A||B the index holds %s", n, initial, got)
							if pre != nil {
								msg += fmt.Sprintf("; the *EndpointShards that was linked before the round (now orphaned) holds %s", racyRender(pre))
							}
							failures = append(failures, msg)
							mu.Unlock()
							// RACY_COUNT=1: keep going for the whole duration to measure the hit rate.
							if os.Getenv("RACY_COUNT") == "" {
								stop.Store(true)
							}
						}
					}
				}()
			}
			wg.Wait()
			if len(failures) > 0 {
				t.Fatalf("not linearizable: %d violation(s) in %d rounds (%d workers); first: %s\n  allowed: %s  or  %s",
					len(failures), rounds.Load(), workers, failures[0], allowed[0], allowed[1])
			}
			if !reflect.DeepEqual(allowed[0], allowed[1]) {
				t.Logf("note: the two sequential orders differ")
			}
			t.Logf("no violation in %d rounds (%d workers, %v)", rounds.Load(), workers, racyDuration())
		})
	}
}
