// Copyright Istio Authors
//
// Licensed under the Apache License, Version 2.0 (the "License");
// you may not use this file except in compliance with the License.
// You may obtain a copy of the License at
//
//     http://www.apache.org/licenses/LICENSE-2.0
//
// Unless required by applicable law or agreed to in writing, software
// distributed under the License is distributed on an "AS IS" BASIS,
// WITHOUT WARRANTIES OR CONDITIONS OF ANY KIND, either express or implied.
// See the License for the specific language governing permissions and
// limitations under the License.

package xds_test

// Demonstrations for the property
//
//	"a merged PushRequest is at least as strong as each request merged into it".
//
// PushRequest.Merge/CopyMerge OR the Forced flag and UNION ConfigsUpdated, so a mesh-wide forced request
// (Forced=true, ConfigsUpdated empty) merged with an endpoint or Secret event becomes
// Forced=true, ConfigsUpdated={that key}. Consumers that look at ConfigsUpdated *before* looking at
// Forced then treat the merged request as the weaker of the two.
//
//	A: pushConnection / pushConnectionDelta skip computeProxyState when ConfigsUpdated only has Endpoints.
//	B: EcdsGenerator.Generate skips the push when ConfigsUpdated only has (unrelated) Secrets.
//
// Every test runs a control case (the forced request alone) against the same setup, so what is shown is
// that the MERGE weakens the request.

import (
	"testing"
	"time"

	core "github.com/envoyproxy/go-control-plane/envoy/config/core/v3"
	listener "github.com/envoyproxy/go-control-plane/envoy/config/listener/v3"
	discovery "github.com/envoyproxy/go-control-plane/envoy/service/discovery/v3"
	"google.golang.org/protobuf/types/known/anypb"

	meshconfig "istio.io/api/mesh/v1alpha1"
	"istio.io/istio/pilot/pkg/model"
	xdsserver "istio.io/istio/pilot/pkg/xds"
	v3 "istio.io/istio/pilot/pkg/xds/v3"
	"istio.io/istio/pilot/test/xds"
	"istio.io/istio/pilot/test/xdstest"
	"istio.io/istio/pkg/config"
	"istio.io/istio/pkg/config/constants"
	"istio.io/istio/pkg/config/mesh"
	"istio.io/istio/pkg/config/mesh/meshwatcher"
	"istio.io/istio/pkg/config/schema/kind"
	"istio.io/istio/pkg/test"
	"istio.io/istio/pkg/util/sets"
)

type findMDelivery string

const (
	// The forced request alone (control).
	findMForcedAlone findMDelivery = "control_forced_alone"
	// forced.CopyMerge(other) handed to DiscoveryServer.Push: exactly what the debouncer / push queue produce.
	findMMergedPush findMDelivery = "merged_direct_Push"
	// ConfigUpdate(forced); ConfigUpdate(other) inside one debounce window: the real debounce() does the merge.
	findMMergedDebounce findMDelivery = "merged_via_debounce"
)

var findMDeliveries = []findMDelivery{findMForcedAlone, findMMergedPush, findMMergedDebounce}

const findMDebounce = 200 * time.Millisecond

// findMGlobalForced is what bootstrap's initMeshHandlers sends on a mesh config change (also used for namespace
// discovery changes, trust bundle updates, ...).
func findMGlobalForced() *model.PushRequest {
	return &model.PushRequest{Forced: true, Reason: model.NewReasonStats(model.GlobalUpdate)}
}

// findMEndpointEvent is what DiscoveryServer.EDSUpdate sends for an incremental endpoint change.
func findMEndpointEvent() *model.PushRequest {
	return &model.PushRequest{
		ConfigsUpdated: sets.New(model.ConfigKey{Kind: kind.Endpoints, Name: "some-svc.default.svc.cluster.local", Namespace: "default"}),
		Reason:         model.NewReasonStats(model.EndpointUpdate),
	}
}

// findMSecretEvent is what the kube secrets controller sends when a Secret changes.
func findMSecretEvent() *model.PushRequest {
	return &model.PushRequest{
		ConfigsUpdated: sets.New(model.ConfigKey{Kind: kind.Secret, Name: "unrelated-secret", Namespace: "default"}),
		Reason:         model.NewReasonStats(model.SecretTrigger),
	}
}

func findMDeliver(t *testing.T, s *xds.FakeDiscoveryServer, how findMDelivery, forced, other *model.PushRequest) {
	t.Helper()
	switch how {
	case findMForcedAlone:
		s.Discovery.Push(forced)
	case findMMergedPush:
		merged := forced.CopyMerge(other)
		if !merged.Forced {
			t.Fatalf("merged request must be forced")
		}
		s.Discovery.Push(merged)
	case findMMergedDebounce:
		// Both land in the debouncer well within the findMDebounce quiet period, so debounce() Merge()s them
		// into one request and calls Push once.
		s.Discovery.ConfigUpdate(forced)
		s.Discovery.ConfigUpdate(other)
	}
}

func findMSetRegistryOnly(s *xds.FakeDiscoveryServer) {
	m := mesh.DefaultMeshConfig()
	m.OutboundTrafficPolicy = &meshconfig.MeshConfig_OutboundTrafficPolicy{Mode: meshconfig.MeshConfig_OutboundTrafficPolicy_REGISTRY_ONLY}
	// The fake server has no mesh handler wired to ConfigUpdate (bootstrap.initMeshHandlers does that in istiod),
	// so this only changes what env.Mesh() returns; the test sends the resulting push itself.
	s.Env().Watcher.(meshwatcher.TestWatcher).Set(m)
}

// findMCatchAllCluster returns the cluster the sidecar's virtualOutbound listener sends unknown TCP traffic to:
// PassthroughCluster for ALLOW_ANY, BlackHoleCluster for REGISTRY_ONLY. It is derived from proxy.SidecarScope.
func findMCatchAllCluster(t *testing.T, resources []*anypb.Any) string {
	t.Helper()
	ll := make([]*listener.Listener, 0, len(resources))
	for _, r := range resources {
		ll = append(ll, xdstest.UnmarshalAny[listener.Listener](t, r))
	}
	vo := xdstest.ExtractListener(model.VirtualOutboundListenerName, ll)
	if vo == nil {
		t.Fatalf("no %s listener in response, got %v", model.VirtualOutboundListenerName, xdstest.ExtractListenerNames(ll))
	}
	fc := xdstest.ExtractFilterChain(model.VirtualOutboundCatchAllTCPFilterChainName, vo)
	if fc == nil {
		t.Fatalf("no catch all filter chain, got %v", xdstest.ExtractFilterChainNames(vo))
	}
	return xdstest.ExtractTCPProxy(t, fc).GetCluster()
}

// Defect A, state of the world.
//
// A sidecar is connected and watches LDS while the mesh is ALLOW_ANY. The mesh config is switched to
// outboundTrafficPolicy REGISTRY_ONLY and the resulting mesh-wide forced push is delivered
//   - alone (control): the client gets a virtualOutbound listener that blackholes unknown traffic;
//   - merged with an endpoint event: LDS is still regenerated and sent (Forced), but from the stale
//     SidecarScope, so the client keeps PassthroughCluster: the lockdown is not applied.
func TestFindM_A_SotW_ForcedMergedWithEndpointsKeepsStaleSidecarScope(t *testing.T) {
	for _, how := range findMDeliveries {
		t.Run(string(how), func(t *testing.T) {
			s := xds.NewFakeDiscoveryServer(t, xds.FakeOptions{DebounceTime: findMDebounce})
			ads := s.ConnectADS().WithType(v3.ListenerType).WithTimeout(5 * time.Second)

			resp := ads.RequestResponseAck(t, nil)
			if got := findMCatchAllCluster(t, resp.Resources); got != "PassthroughCluster" {
				t.Fatalf("initial (ALLOW_ANY) catch all cluster: got %q", got)
			}
			proxy := s.Discovery.Clients()[0].Proxy()
			proxy.RLock()
			scopeBefore, pushBefore := proxy.SidecarScope, proxy.LastPushContext
			proxy.RUnlock()

			findMSetRegistryOnly(s)
			// Nothing pushes on its own in the fake.
			time.Sleep(2 * findMDebounce)
			ads.ExpectNoResponse(t)

			findMDeliver(t, s, how, findMGlobalForced(), findMEndpointEvent())

			resp = ads.ExpectResponse(t)
			got := findMCatchAllCluster(t, resp.Resources)

			proxy.RLock()
			scopeAfter, pushAfter := proxy.SidecarScope, proxy.LastPushContext
			proxy.RUnlock()
			t.Logf("%s: client catch-all cluster=%s sidecarScopeRecomputed=%v lastPushContextAdvanced=%v (global push context version %s, proxy's %s)",
				how, got, scopeAfter != scopeBefore, pushAfter != pushBefore, s.PushContext().PushVersion, pushAfter.PushVersion)

			if got != "BlackHoleCluster" {
				t.Errorf("%s: after REGISTRY_ONLY the client must blackhole unknown traffic; virtualOutbound catch all cluster is %q", how, got)
			}
			if scopeAfter == scopeBefore {
				t.Errorf("%s: proxy.SidecarScope was not recomputed by a forced push", how)
			}
			if pushAfter != s.PushContext() {
				t.Errorf("%s: proxy.LastPushContext (%s) is not the push context of the forced push (%s)",
					how, pushAfter.PushVersion, s.PushContext().PushVersion)
			}
		})
	}
}

// Defect A, persistence: the stale SidecarScope is not repaired by the next push unless that push happens to carry
// a config kind for which computeProxyState resets the scope (ServiceEntry, DestinationRule, VirtualService,
// PeerAuthentication, Sidecar, Ingress) or is itself forced. Here the merged forced push is followed by an ordinary
// AuthorizationPolicy event for the proxy's namespace, which regenerates LDS: the client must see REGISTRY_ONLY by
// then at the latest.
func TestFindM_A_SotW_StaleSidecarScopeSurvivesLaterPush(t *testing.T) {
	s := xds.NewFakeDiscoveryServer(t, xds.FakeOptions{DebounceTime: findMDebounce})
	ads := s.ConnectADS().WithType(v3.ListenerType).WithTimeout(5 * time.Second)
	resp := ads.RequestResponseAck(t, nil)
	if got := findMCatchAllCluster(t, resp.Resources); got != "PassthroughCluster" {
		t.Fatalf("initial (ALLOW_ANY) catch all cluster: got %q", got)
	}

	findMSetRegistryOnly(s)
	findMDeliver(t, s, findMMergedPush, findMGlobalForced(), findMEndpointEvent())
	resp = ads.ExpectResponse(t)
	t.Logf("after merged forced push: catch-all cluster=%s", findMCatchAllCluster(t, resp.Resources))

	s.Discovery.Push(&model.PushRequest{
		ConfigsUpdated: sets.New(model.ConfigKey{Kind: kind.AuthorizationPolicy, Name: "some-policy", Namespace: "default"}),
		Reason:         model.NewReasonStats(model.ConfigUpdate),
	})
	resp = ads.ExpectResponse(t)
	got := findMCatchAllCluster(t, resp.Resources)
	t.Logf("after a later AuthorizationPolicy push: catch-all cluster=%s", got)
	if got != "BlackHoleCluster" {
		t.Errorf("REGISTRY_ONLY still not applied after a later non-endpoint push: catch all cluster is %q", got)
	}
}

// Defect A, delta: same scenario through pushConnectionDelta.
func TestFindM_A_Delta_ForcedMergedWithEndpointsKeepsStaleSidecarScope(t *testing.T) {
	for _, how := range findMDeliveries {
		t.Run(string(how), func(t *testing.T) {
			s := xds.NewFakeDiscoveryServer(t, xds.FakeOptions{DebounceTime: findMDebounce})
			ads := s.ConnectDeltaADS().WithType(v3.ListenerType).WithTimeout(5 * time.Second)

			toAny := func(resp *discovery.DeltaDiscoveryResponse) []*anypb.Any {
				res := make([]*anypb.Any, 0, len(resp.Resources))
				for _, r := range resp.Resources {
					res = append(res, r.Resource)
				}
				return res
			}

			resp := ads.RequestResponseAck(nil)
			if got := findMCatchAllCluster(t, toAny(resp)); got != "PassthroughCluster" {
				t.Fatalf("initial (ALLOW_ANY) catch all cluster: got %q", got)
			}

			findMSetRegistryOnly(s)
			time.Sleep(2 * findMDebounce)
			ads.ExpectNoResponse()

			findMDeliver(t, s, how, findMGlobalForced(), findMEndpointEvent())

			resp = ads.ExpectResponse()
			got := findMCatchAllCluster(t, toAny(resp))
			t.Logf("%s: client catch-all cluster=%s", how, got)
			if got != "BlackHoleCluster" {
				t.Errorf("%s: after REGISTRY_ONLY the client must blackhole unknown traffic; virtualOutbound catch all cluster is %q", how, got)
			}
		})
	}
}

// Defect B.
//
// A proxy in namespace "default" is subscribed to two ECDS resources: a TrafficExtension in its own namespace and
// one that lives in namespace "new-root". While the mesh root namespace is istio-system the latter does not apply
// to the proxy and is not served. The mesh config then makes "new-root" the root namespace, which turns it into
// a mesh-wide extension, and the resulting mesh-wide forced push is delivered
//   - alone (control): the client receives both extension configs;
//   - merged with the event of a Secret nobody references: EcdsGenerator.Generate looks at ConfigsUpdated first,
//     sees "only secrets, none of them a wasm pull secret" and returns nothing, so the client never gets it.
func TestFindM_B_ForcedMergedWithUnrelatedSecretSkipsECDS(t *testing.T) {
	const (
		ownName  = "extensions.istio.io/trafficextension/default.default-extension"
		rootName = "extensions.istio.io/trafficextension/new-root.root-extension"
	)
	names := func(resp *discovery.DiscoveryResponse) []string {
		var out []string
		for _, r := range resp.Resources {
			out = append(out, xdstest.UnmarshalAny[core.TypedExtensionConfig](t, r).Name)
		}
		return sets.SortedList(sets.New(out...))
	}
	for _, how := range findMDeliveries {
		t.Run(string(how), func(t *testing.T) {
			s := xds.NewFakeDiscoveryServer(t, xds.FakeOptions{
				DebounceTime: findMDebounce,
				Configs:      []config.Config{trafficExtension, makeTrafficExtension("root-extension", "new-root", "")},
			})
			ads := s.ConnectADS().WithType(v3.ExtensionConfigurationType).WithTimeout(3 * time.Second)
			md := model.NodeMetadata{ClusterID: constants.DefaultClusterName}
			resp := ads.RequestResponseAck(t, &discovery.DiscoveryRequest{
				Node:          &core.Node{Id: ads.ID, Metadata: md.ToStruct()},
				ResourceNames: []string{ownName, rootName},
			})
			// new-root is neither the proxy's nor the root namespace: only the proxy's own extension is served.
			if got := names(resp); len(got) != 1 || got[0] != ownName {
				t.Fatalf("initial ECDS: got %v, want only %s", got, ownName)
			}

			m := mesh.DefaultMeshConfig()
			m.RootNamespace = "new-root"
			s.Env().Watcher.(meshwatcher.TestWatcher).Set(m)
			time.Sleep(2 * findMDebounce)
			ads.ExpectNoResponse(t)

			versionBefore := s.PushContext().PushVersion
			findMDeliver(t, s, how, findMGlobalForced(), findMSecretEvent())

			resp, err := findMNextResponse(ads)
			if err != nil {
				t.Fatalf("%s: forced push (push context %s -> %s) did not deliver ECDS resource %s to the client: %v",
					how, versionBefore, s.PushContext().PushVersion, rootName, err)
			}
			got := names(resp)
			t.Logf("%s: client received ECDS %v", how, got)
			if len(got) != 2 || got[0] != ownName || got[1] != rootName {
				t.Errorf("got ECDS resources %v, want [%s %s]", got, ownName, rootName)
			}
		})
	}
}

// Defect B without the mesh config twist: a subscribed proxy is re-sent its ECDS resource by a forced push,
// and is not by the same forced push once an unrelated Secret event is merged into it.
func TestFindM_B_ForcedMergedWithUnrelatedSecretSkipsECDS_Resend(t *testing.T) {
	const resourceName = "extensions.istio.io/trafficextension/default.default-extension"
	for _, how := range findMDeliveries {
		t.Run(string(how), func(t *testing.T) {
			s := xds.NewFakeDiscoveryServer(t, xds.FakeOptions{
				DebounceTime: findMDebounce,
				Configs:      []config.Config{trafficExtension},
			})
			ads := s.ConnectADS().WithType(v3.ExtensionConfigurationType).WithTimeout(3 * time.Second)
			md := model.NodeMetadata{ClusterID: constants.DefaultClusterName}
			ads.RequestResponseAck(t, &discovery.DiscoveryRequest{
				Node:          &core.Node{Id: ads.ID, Metadata: md.ToStruct()},
				ResourceNames: []string{resourceName},
			})

			versionBefore := s.PushContext().PushVersion
			findMDeliver(t, s, how, findMGlobalForced(), findMSecretEvent())

			resp, err := findMNextResponse(ads)
			if err != nil {
				t.Fatalf("%s: forced push (push context %s -> %s) did not deliver ECDS resource %s to the client: %v",
					how, versionBefore, s.PushContext().PushVersion, resourceName, err)
			}
			t.Logf("%s: client received %d ECDS resource(s)", how, len(resp.Resources))
		})
	}
}

// findMNextResponse returns the next response, or an error if none arrives within the AdsTest timeout.
func findMNextResponse(ads *xdsserver.AdsTest) (*discovery.DiscoveryResponse, error) {
	var resp *discovery.DiscoveryResponse
	err := test.Wrap(func(t test.Failer) { resp = ads.ExpectResponse(t) })
	return resp, err
}
