// Copyright Istio Authors
//
// Licensed under the Apache License, Version 2.0 (the "License");
// you may not use this file except in compliance with the License.
// You may obtain a copy of the License at
//
//     http://www.apache.org/licenses/LICENSE-2.0
//
// Unless required by applicable law or agreed to in writing, software
// distributed under the License is distributed on an "AS IS" BASIS,
// WITHOUT WARRANTIES OR CONDITIONS OF ANY KIND, either express or implied.
// See the License for the specific language governing permissions and
// limitations under the License.

package xds_test

// Demonstration of a lost push for a connecting proxy.
//
// (*DiscoveryServer).initConnection reads the global push context into proxy.LastPushContext, THEN
// authorizes the client, and only THEN registers the connection (addCon). A push whose
// SetPushContext + fan-out (StartPush over AllClients()) both fall between the read and addCon is
// neither part of the captured context nor enqueued for the new connection: the proxy is
// initialised and answered from the older context and nothing is queued for it.
//
// The only code between the read and addCon that a test can influence without editing non-test
// code is authorize() -> checkConnectionIdentity(), which walks the identity list returned by the
// configured authenticators and calls spiffe.ParseIdentity on each. There is no blocking seam, so
// the test widens the window instead: a test authenticator returns a long list of identities that
// are expensive to reject, followed by one that matches. The schedule is verified post hoc (the
// connection is still unregistered after the push has been committed and fanned out).

import (
	"context"
	"fmt"
	"net"
	"strings"
	"sync"
	"sync/atomic"
	"testing"
	"time"

	cluster "github.com/envoyproxy/go-control-plane/envoy/config/cluster/v3"
	core "github.com/envoyproxy/go-control-plane/envoy/config/core/v3"
	discovery "github.com/envoyproxy/go-control-plane/envoy/service/discovery/v3"
	"google.golang.org/grpc"
	"google.golang.org/grpc/credentials/insecure"

	networking "istio.io/api/networking/v1alpha3"
	"istio.io/istio/pilot/pkg/features"
	v3 "istio.io/istio/pilot/pkg/xds/v3"
	xdsfake "istio.io/istio/pilot/test/xds"
	"istio.io/istio/pkg/config"
	"istio.io/istio/pkg/config/host"
	"istio.io/istio/pkg/config/schema/gvk"
	"istio.io/istio/pkg/security"
	"istio.io/istio/pkg/spiffe"
	"istio.io/istio/pkg/test"
	"istio.io/istio/pkg/util/sets"
)

const (
	findWNodeID        = "sidecar~1.1.1.1~test.default~default.svc.cluster.local"
	findWValidIdentity = "spiffe://cluster.local/ns/default/sa/default"
)

// findWAuthenticator is a security.Authenticator. When slow is set, the identity list it returns
// makes checkConnectionIdentity (called from authorize, i.e. between the capture of the global push
// context and addCon) take a long time before it finally succeeds.
type findWAuthenticator struct {
	slow    atomic.Bool
	slowIDs []string

	mu     sync.Mutex
	called chan struct{} // closed when Authenticate is called in slow mode
}

func (a *findWAuthenticator) AuthenticatorType() string { return "findW" }

func (a *findWAuthenticator) Authenticate(security.AuthContext) (*security.Caller, error) {
	if !a.slow.Load() {
		return &security.Caller{Identities: []string{findWValidIdentity}}, nil
	}
	a.mu.Lock()
	select {
	case <-a.called:
	default:
		close(a.called)
	}
	a.mu.Unlock()
	return &security.Caller{Identities: a.slowIDs}, nil
}

// findWClient is a minimal SotW ADS client which records CDS responses without failing on timeouts.
type findWClient struct {
	t      *testing.T
	stream discovery.AggregatedDiscoveryService_StreamAggregatedResourcesClient
	resp   chan *discovery.DiscoveryResponse
}

func findWConnect(t *testing.T, s *xdsfake.FakeDiscoveryServer) *findWClient {
	t.Helper()
	conn, err := grpc.Dial("buffcon",
		grpc.WithTransportCredentials(insecure.NewCredentials()),
		grpc.WithBlock(),
		grpc.WithContextDialer(func(context.Context, string) (net.Conn, error) {
			return s.BufListener.Dial()
		}))
	if err != nil {
		t.Fatalf("failed to connect: %v", err)
	}
	ctx, cancel := context.WithCancel(context.Background())
	stream, err := discovery.NewAggregatedDiscoveryServiceClient(conn).StreamAggregatedResources(ctx)
	if err != nil {
		cancel()
		t.Fatal(err)
	}
	c := &findWClient{t: t, stream: stream, resp: make(chan *discovery.DiscoveryResponse, 64)}
	t.Cleanup(func() {
		cancel()
		_ = conn.Close()
	})
	go func() {
		for {
			r, err := stream.Recv()
			if err != nil {
				close(c.resp)
				return
			}
			c.resp <- r
		}
	}()
	return c
}

func (c *findWClient) requestCDS(versionInfo, nonce string) {
	c.t.Helper()
	if err := c.stream.Send(&discovery.DiscoveryRequest{
		TypeUrl:       v3.ClusterType,
		Node:          &core.Node{Id: findWNodeID},
		VersionInfo:   versionInfo,
		ResponseNonce: nonce,
	}); err != nil {
		c.t.Fatal(err)
	}
}

// next returns the cluster names of the next CDS response (and ACKs it), or ok=false on timeout.
func (c *findWClient) next(timeout time.Duration) (names sets.String, ok bool) {
	c.t.Helper()
	select {
	case r, open := <-c.resp:
		if !open {
			c.t.Fatalf("stream closed unexpectedly")
		}
		names = sets.New[string]()
		for _, res := range r.Resources {
			cl := &cluster.Cluster{}
			if err := res.UnmarshalTo(cl); err != nil {
				c.t.Fatal(err)
			}
			names.Insert(cl.Name)
		}
		c.requestCDS(r.VersionInfo, r.Nonce)
		return names, true
	case <-time.After(timeout):
		return nil, false
	}
}

func findWServiceEntry(name, hostname string) config.Config {
	return config.Config{
		Meta: config.Meta{
			Name:             name,
			Namespace:        "default",
			GroupVersionKind: gvk.ServiceEntry,
		},
		Spec: &networking.ServiceEntry{
			Hosts: []string{hostname},
			Ports: []*networking.ServicePort{{Number: 80, Name: "http", Protocol: "HTTP"}},
			Endpoints: []*networking.WorkloadEntry{
				{Address: "10.10.10.10"},
			},
			Resolution: networking.ServiceEntry_STATIC,
		},
	}
}

// findWSlowIdentities builds an identity list which takes checkConnectionIdentity about `d` to walk.
func findWSlowIdentities(d time.Duration) []string {
	// A well-prefixed identity with a long tail is rejected only after strings.Split scanned it.
	junk := spiffe.URIPrefix + strings.Repeat("a", 1<<20)
	const probes = 50
	start := time.Now()
	for i := 0; i < probes; i++ {
		if _, err := spiffe.ParseIdentity(junk); err == nil {
			panic("junk identity unexpectedly parsed")
		}
	}
	per := time.Since(start) / probes
	if per <= 0 {
		per = time.Microsecond
	}
	n := int(d/per) + 1
	ids := make([]string, 0, n+1)
	for i := 0; i < n; i++ {
		ids = append(ids, junk)
	}
	return append(ids, findWValidIdentity)
}

// TestFindW_PushBetweenContextCaptureAndAddConIsLost drives the schedule
//
//	conn:  LastPushContext = global (OLD)            (initConnection)
//	conn:  authorize() ... (long)
//	push:      SetPushContext(NEW); StartPush over AllClients() (conn is not in there)
//	conn:  addCon; initializeProxy from OLD; first CDS answered from OLD; nothing queued
//
// and checks that the new client is nevertheless brought to the current state.
func TestFindW_PushBetweenContextCaptureAndAddConIsLost(t *testing.T) {
	if !features.XDSAuth || !features.EnableXDSIdentityCheck {
		t.Skip("requires XDS_AUTH and PILOT_ENABLE_XDS_IDENTITY_CHECK (defaults)")
	}
	test.SetForTest(t, &security.AuthPlaintext, true)

	const hostname = "findw.example.com"
	const wantCluster = "outbound|80||" + hostname

	window := 3 * time.Second
	for attempt := 1; attempt <= 3; attempt++ {
		achieved := findWRun(t, attempt, window, hostname, wantCluster)
		if achieved {
			return
		}
		window *= 2
	}
	t.Skip("could not establish the schedule (connection left the window too early); nothing shown")
}

func findWRun(t *testing.T, attempt int, window time.Duration, hostname, wantCluster string) (scheduleAchieved bool) {
	s := xdsfake.NewFakeDiscoveryServer(t, xdsfake.FakeOptions{})
	auth := &findWAuthenticator{called: make(chan struct{})}
	s.Discovery.Authenticators = []security.Authenticator{auth}

	// Control: a client connecting now does not see the service (it does not exist yet).
	pre := findWConnect(t, s)
	pre.requestCDS("", "")
	names, ok := pre.next(10 * time.Second)
	if !ok {
		t.Fatal("control client got no CDS response")
	}
	if names.Contains(wantCluster) {
		t.Fatalf("%s exists before it was created", wantCluster)
	}
	oldVersion := s.PushContext().PushVersion

	// The client under test. Its authorization takes ~window.
	auth.slowIDs = findWSlowIdentities(window)
	auth.slow.Store(true)
	before := len(s.Discovery.AllClients())
	c := findWConnect(t, s)
	t0 := time.Now()
	c.requestCDS("", "")
	select {
	case <-auth.called:
	case <-time.After(10 * time.Second):
		t.Fatal("authenticator not called")
	}
	auth.slow.Store(false)
	// Stream() authenticated; next it receives the first request and runs initConnection:
	// initProxyMetadata, capture of the global push context, then the long authorize().
	time.Sleep(300 * time.Millisecond)
	if got := len(s.Discovery.AllClients()); got != before {
		t.Logf("attempt %d: connection already registered after %v, window too short", attempt, time.Since(t0))
		return false
	}

	// Commit a change while the connection sits between the capture and addCon.
	if _, err := s.Store().Create(findWServiceEntry("findw", hostname)); err != nil {
		t.Fatal(err)
	}
	findWWaitPushed(t, s, hostname)
	newVersion := s.PushContext().PushVersion
	if newVersion == oldVersion {
		t.Fatalf("push context version did not advance (%s)", oldVersion)
	}
	if got := len(s.Discovery.AllClients()); got != before {
		t.Logf("attempt %d: connection registered before the push was fanned out (%v), window too short", attempt, time.Since(t0))
		return false
	}
	t.Logf("attempt %d: schedule established: push %s -> %s committed and fanned out after %v, connection still unregistered",
		attempt, oldVersion, newVersion, time.Since(t0))

	// Let the connection finish. Collect everything it is sent until it has been quiet for a grace period.
	var last sets.String
	responses := 0
	names, ok = c.next(window*4 + 20*time.Second)
	if !ok {
		t.Fatal("client under test never got a CDS response")
	}
	last = names
	responses++
	t.Logf("first CDS response after %v: has %s = %v", time.Since(t0), wantCluster, names.Contains(wantCluster))
	for {
		names, ok = c.next(3 * time.Second)
		if !ok {
			break
		}
		last = names
		responses++
	}

	// What the server believes about its proxies (the pre control client received the push and is current).
	var lastVersion string
	for _, con := range s.Discovery.Clients() {
		p := con.Proxy()
		p.RLock()
		v := p.LastPushContext.PushVersion
		p.RUnlock()
		if v != s.PushContext().PushVersion {
			lastVersion = v
			t.Logf("connection %s: proxy.LastPushContext version %s, global %s", con.ID(), v, s.PushContext().PushVersion)
		}
	}

	// Control: a client connecting now sees the service.
	post := findWConnect(t, s)
	post.requestCDS("", "")
	names, ok = post.next(10 * time.Second)
	if !ok || !names.Contains(wantCluster) {
		t.Fatalf("fresh control client does not see %s (ok=%v)", wantCluster, ok)
	}

	if !last.Contains(wantCluster) {
		t.Errorf("LOST PUSH: the change committed while the client was connecting never reached it: "+
			"after %d CDS response(s) and 3s of silence its clusters lack %s (a fresh client has it); "+
			"stale proxy.LastPushContext=%q, global=%q",
			responses, wantCluster, lastVersion, s.PushContext().PushVersion)
	}
	return true
}

// findWWaitPushed waits until the push carrying hostname has been committed (global push context
// replaced) AND fanned out: the config store delivers events asynchronously, so first wait for the
// service to show up in the global context (SetPushContext done, InboundUpdates already bumped), then
// for CommittedUpdates to catch up, which debounce() bumps only after Push() - including StartPush's
// loop over AllClients() - has returned.
func findWWaitPushed(t *testing.T, s *xdsfake.FakeDiscoveryServer, hostname string) {
	t.Helper()
	deadline := time.Now().Add(10 * time.Second)
	for !findWHasService(s, hostname) {
		if time.Now().After(deadline) {
			t.Fatalf("service %s never reached the global push context", hostname)
		}
		time.Sleep(time.Millisecond)
	}
	s.EnsureSynced(t)
}

func findWHasService(s *xdsfake.FakeDiscoveryServer, hostname string) bool {
	return s.PushContext().ServiceForHostname(nil, host.Name(hostname)) != nil
}

// TestFindW_StressNaturalWindow races connecting clients against config changes WITHOUT widening
// the window (no authenticator; authorize() is a no-op). It reports how many clients ended up stale.
// The natural window is a handful of instructions on the connection side that has to contain
// SetPushContext..AllClients() on the push side, so hits are not expected in a bounded run; the test
// fails only if a stale client is actually observed.
func TestFindW_StressNaturalWindow(t *testing.T) {
	s := xdsfake.NewFakeDiscoveryServer(t, xdsfake.FakeOptions{})
	findWStress(t, s, 12*time.Second, 100*time.Microsecond)
}

// TestFindW_StressWidenedWindow is the same unorchestrated race (no sleeps aimed at the window, no
// check of the schedule), but with an authenticator that makes authorize() take a few milliseconds.
func TestFindW_StressWidenedWindow(t *testing.T) {
	if !features.XDSAuth || !features.EnableXDSIdentityCheck {
		t.Skip("requires XDS_AUTH and PILOT_ENABLE_XDS_IDENTITY_CHECK (defaults)")
	}
	test.SetForTest(t, &security.AuthPlaintext, true)
	s := xdsfake.NewFakeDiscoveryServer(t, xdsfake.FakeOptions{})
	auth := &findWAuthenticator{called: make(chan struct{}), slowIDs: findWSlowIdentities(5 * time.Millisecond)}
	auth.slow.Store(true)
	s.Discovery.Authenticators = []security.Authenticator{auth}
	findWStress(t, s, 12*time.Second, 500*time.Microsecond)
}

func findWStress(t *testing.T, s *xdsfake.FakeDiscoveryServer, d time.Duration, spread time.Duration) {
	deadline := time.Now().Add(d)
	const clientsPerRound = 8
	rounds, clients, stale := 0, 0, 0
	for time.Now().Before(deadline) {
		rounds++
		round := rounds
		hostname := fmt.Sprintf("stress-%d.example.com", round)
		want := "outbound|80||" + hostname
		var wg sync.WaitGroup
		start := make(chan struct{})
		cs := make([]*findWClient, clientsPerRound)
		for i := range cs {
			cs[i] = findWConnect(t, s)
		}
		for i := range cs {
			wg.Add(1)
			go func(i int) {
				defer wg.Done()
				<-start
				// spread the first requests around the moment the push is committed
				time.Sleep(time.Duration(i) * spread)
				cs[i].requestCDS("", "")
			}(i)
		}
		wg.Add(1)
		go func() {
			defer wg.Done()
			<-start
			if _, err := s.Store().Create(findWServiceEntry(fmt.Sprintf("stress-%d", round), hostname)); err != nil {
				t.Error(err)
			}
		}()
		close(start)
		wg.Wait()
		findWWaitPushed(t, s, hostname)
		// Before the next change heals it: every client of this round must end up with this round's service.
		var mu sync.Mutex
		for i := range cs {
			wg.Add(1)
			go func(c *findWClient) {
				defer wg.Done()
				var last sets.String
				names, ok := c.next(10 * time.Second)
				for ok {
					last = names
					names, ok = c.next(150 * time.Millisecond)
				}
				mu.Lock()
				defer mu.Unlock()
				clients++
				if last == nil || !last.Contains(want) {
					stale++
				}
				_ = c.stream.CloseSend()
			}(cs[i])
		}
		wg.Wait()
	}
	t.Logf("rounds=%d clients=%d stale=%d", rounds, clients, stale)
	if stale > 0 {
		t.Errorf("%d of %d clients never received the change committed while they were connecting", stale, clients)
	}
}
