// Copyright Istio Authors
//
// Licensed under the Apache License, Version 2.0 (the "License");
// you may not use this file except in compliance with the License.
// You may obtain a copy of the License at
//
//     http://www.apache.org/licenses/LICENSE-2.0
//
// Unless required by applicable law or agreed to in writing, software
// distributed under the License is distributed on an "AS IS" BASIS,
// WITHOUT WARRANTIES OR CONDITIONS OF ANY KIND, either express or implied.
// See the License for the specific language governing permissions and
// limitations under the License.

package xds_test

// C17 (map-order determinism) triage, pilot/pkg/networking/core/cluster_waypoint.go:321
// (ClusterBuilder.buildWaypointInboundVIP, `for _, svc := range svcs`). It lives here and not next to
// core/c17_core_sites_test.go because the services of a waypoint come from the ambient index, which only the
// FakeDiscoveryServer sets up (setupWaypointTest and the waypoint* fixtures are those of waypoint_test.go).

import (
	"fmt"
	"sort"
	"strings"
	"testing"

	"google.golang.org/protobuf/proto"

	"istio.io/istio/pilot/pkg/model"
)

const c17iGenerations = 300

func c17iWaypointServiceEntry(name, hostname, address string) string {
	return fmt.Sprintf(`apiVersion: networking.istio.io/v1
kind: ServiceEntry
metadata:
  name: %s
  namespace: default
  labels:
    istio.io/use-waypoint: waypoint
spec:
  hosts: [%s]
  addresses: [%s]
  ports:
  - number: 80
    name: http
    protocol: HTTP
  resolution: STATIC
`, name, hostname, address)
}

// c17iAssertStableCDS runs the real CDS generator (ConfigGeneratorImpl.BuildClusters; CdsGenerator.Generate returns its result
// 1:1, pilot/pkg/xds/cds.go:147-148) c17iGenerations times for the same proxy and PushContext.
func c17iAssertStableCDS(t *testing.T, wantVIPClusters int, configs ...string) {
	t.Helper()
	d, proxy := setupWaypointTest(t, configs...)
	push := d.PushContext()
	orders := map[string]int{}
	var first map[string]string
	for i := 0; i < c17iGenerations; i++ {
		res, _ := d.ConfigGen.BuildClusters(proxy, &model.PushRequest{Push: push})
		var names []string
		b := map[string]string{}
		vip := 0
		for _, r := range res {
			names = append(names, r.Name)
			if strings.HasPrefix(r.Name, "inbound-vip|") {
				vip++
			}
			bs, err := proto.MarshalOptions{Deterministic: true}.Marshal(r)
			if err != nil {
				t.Fatal(err)
			}
			b[r.Name] = string(bs)
		}
		if vip != wantVIPClusters {
			t.Fatalf("expected %d inbound-vip clusters, got %v", wantVIPClusters, names)
		}
		orders[strings.Join(names, " , ")]++
		if first == nil {
			first = b
		}
		for n := range b {
			if b[n] != first[n] {
				t.Fatalf("generation #%d: cluster %s is not byte-identical to generation #0", i, n)
			}
		}
	}
	if len(orders) != 1 {
		l := make([]string, 0, len(orders))
		for k, n := range orders {
			l = append(l, fmt.Sprintf("%4dx [%s]", n, k))
		}
		sort.Strings(l)
		t.Errorf("the clusters of the CDS response came in %d distinct orders over %d generations of the same state:\n    %s",
			len(orders), c17iGenerations, strings.Join(l, "\n    "))
	}
}

// A waypoint that serves three services (each: one HTTP port -> one cluster "inbound-vip|80|http|host").
func TestC17I_WaypointInboundVIPClusters(t *testing.T) {
	c17iAssertStableCDS(t, 3, waypointGateway, waypointSvc, waypointInstance,
		c17iWaypointServiceEntry("app-a", "a.example.com", "1.2.3.4"),
		c17iWaypointServiceEntry("app-b", "b.example.com", "1.2.3.5"),
		c17iWaypointServiceEntry("app-c", "c.example.com", "1.2.3.6"))
}

// Control: one service.
func TestC17I_WaypointInboundVIPClusters_Control_OneService(t *testing.T) {
	c17iAssertStableCDS(t, 1, waypointGateway, waypointSvc, waypointInstance,
		c17iWaypointServiceEntry("app-a", "a.example.com", "1.2.3.4"))
}
