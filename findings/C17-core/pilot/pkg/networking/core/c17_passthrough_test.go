// Copyright Istio Authors
//
// Licensed under the Apache License, Version 2.0 (the "License");
// you may not use this file except in compliance with the License.
// You may obtain a copy of the License at
//
//     http://www.apache.org/licenses/LICENSE-2.0
//
// Unless required by applicable law or agreed to in writing, software
// distributed under the License is distributed on an "AS IS" BASIS,
// WITHOUT WARRANTIES OR CONDITIONS OF ANY KIND, either express or implied.
// See the License for the specific language governing permissions and
// limitations under the License.

package core

import (
	"testing"

	"istio.io/istio/pilot/pkg/model"
)

// C17: authn.Builder.ForPassthrough ranges over the port-level mTLS map of the workload's PeerAuthentication; the
// per-port passthrough filter chains of virtualInbound are built in that order.
func TestC17I_PassthroughPerPortFilterChains(t *testing.T) {
	cfg := `
apiVersion: security.istio.io/v1
kind: PeerAuthentication
metadata:
  name: ports
  namespace: default
spec:
  selector:
    matchLabels:
      app: foo
  mtls:
    mode: STRICT
  portLevelMtls:
    9001:
      mode: DISABLE
    9002:
      mode: PERMISSIVE
    9003:
      mode: DISABLE
    9004:
      mode: PERMISSIVE
`
	cg := NewConfigGenTest(t, TestOptions{ConfigString: cfg})
	proxy := cg.SetupProxy(&model.Proxy{
		ConfigNamespace: "default",
		Labels:          map[string]string{"app": "foo"},
		Metadata:        &model.NodeMetadata{Labels: map[string]string{"app": "foo"}, Namespace: "default"},
	})
	c17iAssertStable(t, c17iListeners(cg, proxy))
}
