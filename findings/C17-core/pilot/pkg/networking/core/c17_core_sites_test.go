// Copyright Istio Authors
//
// Licensed under the Apache License, Version 2.0 (the "License");
// you may not use this file except in compliance with the License.
// You may obtain a copy of the License at
//
//     http://www.apache.org/licenses/LICENSE-2.0
//
// Unless required by applicable law or agreed to in writing, software
// distributed under the License is distributed on an "AS IS" BASIS,
// WITHOUT WARRANTIES OR CONDITIONS OF ANY KIND, either express or implied.
// See the License for the specific language governing permissions and
// limitations under the License.

package core

// C17 (map-order determinism) triage of the "slice filled in map order, not sorted in the same function" reports in
// pilot/pkg/networking/core. (The waypoint sites need the ambient index and live in pilot/pkg/xds/c17_core_waypoint_test.go,
// the grpcgen sites in pilot/pkg/networking/grpcgen/c17_grpcgen_test.go.)
//
// Every test builds ONE fixed state, runs the REAL generator c17iGenerations times on it and requires
//   - the order of the resources (and of the removed names) of every generation to be the order of generation #0, and
//   - every resource to be byte-identical (deterministic protobuf marshalling) to the one of generation #0.
// This file is self-contained (it does not use the helpers of c17_maporder_test.go).

import (
	"fmt"
	"sort"
	"strings"
	"testing"

	discovery "github.com/envoyproxy/go-control-plane/envoy/service/discovery/v3"
	"google.golang.org/protobuf/proto"

	"istio.io/api/label"
	meshconfig "istio.io/api/mesh/v1alpha1"
	"istio.io/istio/pilot/pkg/features"
	"istio.io/istio/pilot/pkg/model"
	"istio.io/istio/pilot/test/xdstest"
	"istio.io/istio/pkg/config/constants"
	"istio.io/istio/pkg/config/host"
	"istio.io/istio/pkg/config/mesh"
	"istio.io/istio/pkg/config/protocol"
	"istio.io/istio/pkg/config/schema/kind"
	"istio.io/istio/pkg/test"
	"istio.io/istio/pkg/util/sets"
)

const c17iGenerations = 300

// c17iOutput is what one generation sends: named resources in response order, plus (delta only) the removed names.
type c17iOutput struct {
	names   []string
	msgs    []proto.Message
	removed []string
}

type c17iOrders map[string]int

func (o c17iOrders) String() string {
	l := make([]string, 0, len(o))
	for k, n := range o {
		l = append(l, fmt.Sprintf("%4dx [%s]", n, k))
	}
	sort.Strings(l)
	if len(l) > 8 {
		l = append(l[:8], fmt.Sprintf("... and %d more", len(l)-8))
	}
	return "\n    " + strings.Join(l, "\n    ")
}

// c17iAssertStable is the property.
func c17iAssertStable(t *testing.T, gen func() c17iOutput) {
	t.Helper()
	resOrders, delOrders := c17iOrders{}, c17iOrders{}
	var first map[string]string
	contentDiff := ""
	for i := 0; i < c17iGenerations; i++ {
		out := gen()
		if len(out.names) != len(out.msgs) {
			t.Fatalf("bad generator")
		}
		resOrders[strings.Join(out.names, " , ")]++
		delOrders[strings.Join(out.removed, " , ")]++
		b := map[string]string{}
		for j, m := range out.msgs {
			bs, err := proto.MarshalOptions{Deterministic: true}.Marshal(m)
			if err != nil {
				t.Fatal(err)
			}
			b[out.names[j]] = string(bs)
		}
		if first == nil {
			first = b
			continue
		}
		for n, bs := range b {
			if fb, f := first[n]; (!f || fb != bs) && contentDiff == "" {
				contentDiff = fmt.Sprintf("generation #%d: resource %q is not byte-identical to generation #0 (present in #0: %v)", i, n, f)
			}
		}
	}
	if contentDiff != "" {
		t.Error(contentDiff)
	}
	if len(resOrders) != 1 {
		t.Errorf("the resources of the response came in %d distinct orders over %d generations of the same state:%v",
			len(resOrders), c17iGenerations, resOrders)
	}
	if len(delOrders) != 1 {
		t.Errorf("the removed resource names came in %d distinct orders over %d generations of the same state:%v",
			len(delOrders), c17iGenerations, delOrders)
	}
}

func c17iFromResources(res []*discovery.Resource, removed []string) c17iOutput {
	out := c17iOutput{removed: removed}
	for _, r := range res {
		out.names = append(out.names, r.Name)
		out.msgs = append(out.msgs, r)
	}
	return out
}

// c17iListeners is LDS: LdsGenerator.Generate copies BuildListeners() 1:1 into the response (pilot/pkg/xds/lds.go:120-127).
func c17iListeners(cg *ConfigGenTest, proxy *model.Proxy) func() c17iOutput {
	return func() c17iOutput {
		out := c17iOutput{}
		for _, l := range cg.ConfigGen.BuildListeners(proxy, cg.PushContext()) {
			out.names = append(out.names, l.Name)
			out.msgs = append(out.msgs, l)
		}
		return out
	}
}

func c17iRoutes(cg *ConfigGenTest, proxy *model.Proxy, routeNames ...string) func() c17iOutput {
	return func() c17iOutput {
		res, _ := cg.ConfigGen.BuildHTTPRoutes(proxy, &model.PushRequest{Push: cg.PushContext()}, routeNames)
		return c17iFromResources(res, nil)
	}
}

// c17iDeltaClusters is delta CDS: CdsGenerator.GenerateDeltas returns BuildDeltaClusters() 1:1 (pilot/pkg/xds/cds.go:159-160).
func c17iDeltaClusters(t *testing.T, cg *ConfigGenTest, proxy *model.Proxy, updated sets.Set[model.ConfigKey], watched ...string) func() c17iOutput {
	return func() c17iOutput {
		res, removed, _, usedDelta := cg.ConfigGen.BuildDeltaClusters(proxy,
			&model.PushRequest{Push: cg.PushContext(), ConfigsUpdated: updated},
			&model.WatchedResource{ResourceNames: sets.New(watched...)})
		if !usedDelta {
			t.Fatalf("expected a delta generation")
		}
		return c17iFromResources(res, removed)
	}
}

func c17iServiceEntry(name, hostname, address string, ports ...int) string {
	sb := &strings.Builder{}
	fmt.Fprintf(sb, `
---
apiVersion: networking.istio.io/v1
kind: ServiceEntry
metadata:
  name: %s
  namespace: default
spec:
  hosts:
  - %q
  addresses:
  - %s
  location: MESH_EXTERNAL
  resolution: DNS
  ports:
`, name, hostname, address)
	for _, p := range ports {
		fmt.Fprintf(sb, "  - number: %d\n    name: http-%d\n    protocol: HTTP\n", p, p)
	}
	return sb.String()
}

func c17iFourServices() string {
	return c17iServiceEntry("se-a", "a.example.com", "10.10.10.1", 80) +
		c17iServiceEntry("se-b", "b.example.com", "10.10.10.2", 80) +
		c17iServiceEntry("se-c", "c.example.com", "10.10.10.3", 80) +
		c17iServiceEntry("se-d", "d.example.com", "10.10.10.4", 80)
}

func c17iSEKey(hostname string) model.ConfigKey {
	return model.ConfigKey{Kind: kind.ServiceEntry, Name: hostname, Namespace: "default"}
}

// ---------------------------------------------------------------------------------------------------------------------
// listener.go:577 finalizeOutboundListeners, `for _, le := range listenerMap`
// ---------------------------------------------------------------------------------------------------------------------

// One ServiceEntry with three HTTP ports -> three outbound listeners 0.0.0.0_80 / _8080 / _9090.
func TestC17I_SidecarOutboundListeners(t *testing.T) {
	cg := NewConfigGenTest(t, TestOptions{ConfigString: c17iServiceEntry("se-a", "a.example.com", "10.10.10.1", 80, 8080, 9090)})
	c17iAssertStable(t, c17iListeners(cg, cg.SetupProxy(nil)))
}

// Control: a single outbound listener.
func TestC17I_SidecarOutboundListeners_Control_OnePort(t *testing.T) {
	cg := NewConfigGenTest(t, TestOptions{ConfigString: c17iServiceEntry("se-a", "a.example.com", "10.10.10.1", 80)})
	c17iAssertStable(t, c17iListeners(cg, cg.SetupProxy(nil)))
}

// ---------------------------------------------------------------------------------------------------------------------
// gateway.go:213 buildGatewayListeners, `for _, ml := range mutableopts` (and gateway.go:162 `range transportToServers`)
// ---------------------------------------------------------------------------------------------------------------------

func c17iGateway(servers string) string {
	return `
apiVersion: networking.istio.io/v1
kind: Gateway
metadata:
  name: gw
  namespace: default
spec:
  selector:
    istio: ingressgateway
  servers:
` + servers
}

func c17iHTTPServer(port int) string {
	return fmt.Sprintf(`
  - port:
      number: %d
      name: http-%d
      protocol: HTTP
    hosts:
    - "*.example.com"
`, port, port)
}

func c17iRouter(cg *ConfigGenTest) *model.Proxy {
	return cg.SetupProxy(&model.Proxy{
		Type:            model.Router,
		ConfigNamespace: "default",
		Labels:          map[string]string{"istio": "ingressgateway"},
		Metadata:        &model.NodeMetadata{Labels: map[string]string{"istio": "ingressgateway"}, Namespace: "default"},
	})
}

// One Gateway with three plain HTTP servers -> three listeners.
func TestC17I_GatewayListeners(t *testing.T) {
	cg := NewConfigGenTest(t, TestOptions{ConfigString: c17iGateway(c17iHTTPServer(80) + c17iHTTPServer(8080) + c17iHTTPServer(9090))})
	c17iAssertStable(t, c17iListeners(cg, c17iRouter(cg)))
}

// Control: one server -> one gateway listener.
func TestC17I_GatewayListeners_Control_OneServer(t *testing.T) {
	cg := NewConfigGenTest(t, TestOptions{ConfigString: c17iGateway(c17iHTTPServer(80))})
	c17iAssertStable(t, c17iListeners(cg, c17iRouter(cg)))
}

// gateway.go:162: ONE server port that is served over both transports (HTTPS + HTTP/3). The TCP and the QUIC listener have
// different names ("0.0.0.0_443" / "udp_0.0.0.0_443"), i.e. the transport loop only decides in which order two DIFFERENT keys
// are inserted into the map `mutableopts`; the `append(mopts.opts.filterChainOpts, ...)` of line 205 is only reached for a
// later ServerPort (a slice) with the same bind+number+transport. This test fails on the unmodified tree (because of line
// 213) and passes as soon as line 213 alone iterates sorted keys, with line 162 left as it is.
func TestC17I_GatewayListeners_BothTransportsOnOnePort(t *testing.T) {
	test.SetForTest(t, &features.EnableQUICListeners, true)
	cg := NewConfigGenTest(t, TestOptions{ConfigString: c17iGateway(`
  - port:
      number: 443
      name: https
      protocol: HTTPS
    hosts:
    - "*.example.com"
    tls:
      mode: SIMPLE
      credentialName: cred
`)})
	// QUIC listeners are only generated when the gateway Service exposes the same port number over UDP
	cg.MemRegistry.WantGetProxyServiceTargets = []model.ServiceTarget{{
		Service: &model.Service{Hostname: "istio-ingressgateway.default.svc.cluster.local"},
		Port: model.ServiceInstancePort{
			ServicePort: &model.Port{Port: 443, Protocol: protocol.UDP},
			TargetPort:  443,
		},
	}}
	proxy := c17iRouter(cg)
	gen := c17iListeners(cg, proxy)
	if got := strings.Join(gen().names, ","); !strings.Contains(got, "udp_0.0.0.0_443") || !strings.Contains(","+got, ",0.0.0.0_443") {
		t.Fatalf("expected a TCP and a QUIC listener on port 443, got %s", got)
	}
	c17iAssertStable(t, gen)
}

// ---------------------------------------------------------------------------------------------------------------------
// cluster.go:121 BuildDeltaClusters, `for key := range updates.ConfigsUpdated`
// ---------------------------------------------------------------------------------------------------------------------

// Four ServiceEntries updated in one (debounced) push; the proxy watches their four clusters.
func TestC17I_DeltaClusters_UpdatedServices(t *testing.T) {
	cg := NewConfigGenTest(t, TestOptions{ConfigString: c17iFourServices()})
	updated := sets.New(c17iSEKey("a.example.com"), c17iSEKey("b.example.com"), c17iSEKey("c.example.com"), c17iSEKey("d.example.com"))
	c17iAssertStable(t, c17iDeltaClusters(t, cg, cg.SetupProxy(nil), updated,
		"outbound|80||a.example.com", "outbound|80||b.example.com", "outbound|80||c.example.com", "outbound|80||d.example.com"))
}

// Control: the same state, one ServiceEntry updated.
func TestC17I_DeltaClusters_Control_OneUpdatedService(t *testing.T) {
	cg := NewConfigGenTest(t, TestOptions{ConfigString: c17iFourServices()})
	c17iAssertStable(t, c17iDeltaClusters(t, cg, cg.SetupProxy(nil), sets.New(c17iSEKey("a.example.com")),
		"outbound|80||a.example.com", "outbound|80||b.example.com", "outbound|80||c.example.com", "outbound|80||d.example.com"))
}

// ---------------------------------------------------------------------------------------------------------------------
// cluster.go:272 deltaFromServiceDiff, `for _, service := range allServices` (SidecarScope.ServicesByHostname())
// ---------------------------------------------------------------------------------------------------------------------

// A Sidecar (or VirtualService) change made four services visible that the proxy does not watch yet: ONE updated key.
func TestC17I_DeltaClusters_ServiceDiffNewServices(t *testing.T) {
	cg := NewConfigGenTest(t, TestOptions{ConfigString: c17iFourServices()})
	proxy := cg.SetupProxy(nil)
	proxy.SetSidecarScope(cg.PushContext()) // second computation: PrevSidecarScope is now set, like on every push after the first
	updated := sets.New(model.ConfigKey{Kind: kind.Sidecar, Name: "default", Namespace: "default"})
	c17iAssertStable(t, c17iDeltaClusters(t, cg, proxy, updated, "outbound|80||other.example.com"))
}

// Control: the proxy already watches three of the four, so one service is new.
func TestC17I_DeltaClusters_Control_ServiceDiffOneNewService(t *testing.T) {
	cg := NewConfigGenTest(t, TestOptions{ConfigString: c17iFourServices()})
	proxy := cg.SetupProxy(nil)
	proxy.SetSidecarScope(cg.PushContext())
	updated := sets.New(model.ConfigKey{Kind: kind.Sidecar, Name: "default", Namespace: "default"})
	c17iAssertStable(t, c17iDeltaClusters(t, cg, proxy, updated,
		"outbound|80||a.example.com", "outbound|80||b.example.com", "outbound|80||c.example.com"))
}

// ---------------------------------------------------------------------------------------------------------------------
// FALSE ALARMS cluster.go:185, :192 (175/176), :241 (238), :279, :288 (283/284): every `deleted` list is inserted into the set
// deletedClusters (cluster.go:148) and the response uses sets.SortedList(deletedClusters) (cluster.go:161).
// ---------------------------------------------------------------------------------------------------------------------

func TestC17I_DeltaClusters_RemovedNamesAreSorted(t *testing.T) {
	cg := NewConfigGenTest(t, TestOptions{ConfigString: c17iFourServices() + `
---
apiVersion: networking.istio.io/v1
kind: DestinationRule
metadata:
  name: dr-b
  namespace: default
spec:
  host: b.example.com
  subsets:
  - name: v1
    labels: {version: v1}
`})
	proxy := cg.SetupProxy(nil)
	proxy.SetSidecarScope(cg.PushContext())
	watched := []string{
		// deltaFromServices, service deleted (cluster.go:175/176 -> :192): default and subset clusters of a service that is gone
		"outbound|80||gone1.example.com", "outbound|81||gone1.example.com", "outbound|82||gone1.example.com", "outbound|83||gone1.example.com",
		"outbound|80|v1|gone1.example.com", "outbound|80|v2|gone1.example.com", "outbound|80|v3|gone1.example.com",
		// deltaFromServices, ports removed from an existing service (cluster.go:185)
		"outbound|80||a.example.com", "outbound|81||a.example.com", "outbound|82||a.example.com", "outbound|83||a.example.com", "outbound|84||a.example.com",
		// deltaFromDestinationRules (cluster.go:238 -> :241): subsets that no longer exist
		"outbound|80||b.example.com", "outbound|80|v1|b.example.com", "outbound|80|v2|b.example.com", "outbound|80|v3|b.example.com",
		"outbound|80|v4|b.example.com", "outbound|80|v5|b.example.com",
		// deltaFromServiceDiff (cluster.go:279/283/284 -> :288): services that are no longer visible
		"outbound|80||gone2.example.com", "outbound|80|v1|gone2.example.com", "outbound|80|v2|gone2.example.com",
		"outbound|80||gone3.example.com", "outbound|80||gone4.example.com", "outbound|80||gone5.example.com",
		"outbound|80||c.example.com", "outbound|80||d.example.com",
	}
	updated := sets.New(
		c17iSEKey("gone1.example.com"),
		c17iSEKey("a.example.com"),
		model.ConfigKey{Kind: kind.DestinationRule, Name: "dr-b", Namespace: "default"},
		model.ConfigKey{Kind: kind.Sidecar, Name: "default", Namespace: "default"},
	)
	gen := c17iDeltaClusters(t, cg, proxy, updated, watched...)
	out := gen()
	// 22 = 7 (gone1) + 4 (ports 81..84 of a) + 5 (subsets v1..v5 of b; v1 selects no endpoint) + 6 (gone2..gone5)
	if len(out.removed) != 22 || !sort.StringsAreSorted(out.removed) {
		t.Fatalf("expected 22 removed clusters in sorted order, got %d: %v", len(out.removed), out.removed)
	}
	// only the REMOVED names are under test here (the order of the built clusters is the subject of the tests above)
	c17iAssertStable(t, func() c17iOutput { return c17iOutput{removed: gen().removed} })
}

// ---------------------------------------------------------------------------------------------------------------------
// FALSE ALARM httproute.go:733 mergeAllVirtualHosts, `for p, vhosts := range vHostPortMap`: its only caller's only caller
// sorts the result by the (unique) virtual host name: util.SortVirtualHosts, httproute.go:211.
// ---------------------------------------------------------------------------------------------------------------------

func TestC17I_MergeAllVirtualHosts_HTTPProxyRoute(t *testing.T) {
	m := mesh.DefaultMeshConfig()
	m.ProxyHttpPort = 15080
	m.OutboundTrafficPolicy = &meshconfig.MeshConfig_OutboundTrafficPolicy{Mode: meshconfig.MeshConfig_OutboundTrafficPolicy_ALLOW_ANY}
	cg := NewConfigGenTest(t, TestOptions{
		MeshConfig: m,
		ConfigString: c17iServiceEntry("se-a", "a.example.com", "10.10.10.1", 80, 8080, 9090) +
			c17iServiceEntry("se-b", "b.example.com", "10.10.10.2", 80, 8080, 7070) +
			c17iServiceEntry("se-c", "c.example.com", "10.10.10.3", 7070, 6060),
	})
	proxy := cg.SetupProxy(nil)
	gen := c17iRoutes(cg, proxy, model.RDSHttpProxy)
	if n := len(gen().names); n != 1 {
		t.Fatalf("expected the http_proxy route, got %d resources", n)
	}
	c17iAssertStable(t, gen)
}

// ---------------------------------------------------------------------------------------------------------------------
// FALSE ALARM httproute.go:261 selectVirtualServices, `for svcHost := range servicesByName` -> wcSvcHosts: the slice is only
// scanned for ANY match (slices.ContainsFunc(wcSvcHosts, lch.Matches), httproute.go:294).
// ---------------------------------------------------------------------------------------------------------------------

func TestC17I_SelectVirtualServices_WildcardServiceHosts(t *testing.T) {
	vs := func(name, h string) string {
		return fmt.Sprintf(`
---
apiVersion: networking.istio.io/v1
kind: VirtualService
metadata:
  name: %s
  namespace: default
spec:
  hosts:
  - %s
  http:
  - name: %s
    route:
    - destination:
        host: a.example.com
        port:
          number: 8080
`, name, h, name)
	}
	// wildcard hosts require resolution NONE
	wc := func(name, h string) string {
		return strings.Replace(c17iServiceEntry(name, h, "", 8080), "  addresses:\n  - \n  location: MESH_EXTERNAL\n  resolution: DNS", "  resolution: NONE", 1)
	}
	// listener port != 80, so selectVirtualServices runs; four wildcard service hosts, VirtualService hosts that are only
	// selected through one (or several) of the wildcard hosts.
	cg := NewConfigGenTest(t, TestOptions{ConfigString: c17iServiceEntry("se-a", "a.example.com", "10.10.10.1", 8080) +
		wc("wc-1", "*.one.example.com") + wc("wc-2", "*.two.example.com") + wc("wc-3", "*.example.com") + wc("wc-4", "*.four.example.org") +
		vs("vs-1", "x.one.example.com") + vs("vs-2", "y.two.example.com") + vs("vs-3", "z.four.example.org") + vs("vs-4", "nomatch.example.net")})
	proxy := cg.SetupProxy(nil)
	// the flagged function on the real inputs of the RDS generator (see BuildSidecarOutboundVirtualHosts): vs-1..vs-3 are
	// selected through the wildcard service hosts, in the order of the INPUT list of virtual services, every time.
	el := proxy.SidecarScope.GetEgressListenerForRDS(8080, "8080")
	servicesByName := map[host.Name]*model.Service{}
	for _, s := range el.Services() {
		servicesByName[s.Hostname] = s
	}
	for i := 0; i < c17iGenerations; i++ {
		var got []string
		for _, c := range selectVirtualServices(el.VirtualServices(), servicesByName) {
			got = append(got, c.Name)
		}
		if strings.Join(got, ",") != "vs-1,vs-2,vs-3" {
			t.Fatalf("run #%d: selected %v, expected [vs-1 vs-2 vs-3]", i, got)
		}
	}
	c17iAssertStable(t, c17iRoutes(cg, proxy, "8080"))
}

// ---------------------------------------------------------------------------------------------------------------------
// tracing.go:771 buildCustomTagsFromProvider / tracing.go:822 buildCustomTagsFromProxyConfig, `for tagName, tagInfo := range`:
// the only caller (configureCustomTags) sorts the combined list by tag name: sort.Slice, tracing.go:758.
// ---------------------------------------------------------------------------------------------------------------------

func c17iLiteralTags(names ...string) string {
	sb := &strings.Builder{}
	for _, n := range names {
		fmt.Fprintf(sb, "      %s:\n        literal:\n          value: value-of-%s\n", n, n)
	}
	return sb.String()
}

// Telemetry API path (buildCustomTagsFromProvider).
func c17iTelemetryTracing(tags ...string) (*meshconfig.MeshConfig, string) {
	m := mesh.DefaultMeshConfig()
	m.ExtensionProviders = append(m.ExtensionProviders, &meshconfig.MeshConfig_ExtensionProvider{
		Name: "c17-zipkin",
		Provider: &meshconfig.MeshConfig_ExtensionProvider_Zipkin{
			Zipkin: &meshconfig.MeshConfig_ExtensionProvider_ZipkinTracingProvider{Service: "a.example.com", Port: 80},
		},
	})
	return m, c17iServiceEntry("se-a", "a.example.com", "10.10.10.1", 80) + `
---
apiVersion: telemetry.istio.io/v1
kind: Telemetry
metadata:
  name: mesh-default
  namespace: istio-system
spec:
  tracing:
  - providers:
    - name: c17-zipkin
    customTags:
` + c17iLiteralTags(tags...)
}

// legacy MeshConfig path (buildCustomTagsFromProxyConfig).
func c17iProxyConfigTracing(tags ...string) (*meshconfig.MeshConfig, string) {
	m := mesh.DefaultMeshConfig()
	m.EnableTracing = true
	m.DefaultConfig.Tracing = &meshconfig.Tracing{CustomTags: map[string]*meshconfig.Tracing_CustomTag{}}
	for _, n := range tags {
		m.DefaultConfig.Tracing.CustomTags[n] = &meshconfig.Tracing_CustomTag{
			Type: &meshconfig.Tracing_CustomTag_Literal{Literal: &meshconfig.Tracing_Literal{Value: "value-of-" + n}},
		}
	}
	return m, c17iServiceEntry("se-a", "a.example.com", "10.10.10.1", 80)
}

// c17iTracingListener generates LDS and keeps the one outbound HTTP listener, whose HttpConnectionManager carries the tags.
// It also records the order of the (tag name = literal value) pairs of every generation in `tagOrders`.
func c17iTracingListener(t *testing.T, m *meshconfig.MeshConfig, cfg string, wantTags int, tagOrders c17iOrders) func() c17iOutput {
	cg := NewConfigGenTest(t, TestOptions{MeshConfig: m, ConfigString: cfg})
	proxy := cg.SetupProxy(nil)
	return func() c17iOutput {
		l := xdstest.ExtractListener("0.0.0.0_80", cg.ConfigGen.BuildListeners(proxy, cg.PushContext()))
		if l == nil {
			t.Fatalf("expected the outbound listener 0.0.0.0_80")
		}
		h := xdstest.ExtractHTTPConnectionManager(t, l.FilterChains[len(l.FilterChains)-1])
		var tags []string
		custom := 0
		for _, ct := range h.GetTracing().GetCustomTags() {
			if v := ct.GetLiteral().GetValue(); strings.HasPrefix(v, "value-of-") {
				custom++
				tags = append(tags, ct.Tag+"=CUSTOM")
			} else if strings.HasPrefix(ct.Tag, "istio.") && !strings.Contains(ct.Tag, "dry_run") {
				tags = append(tags, ct.Tag+"=builtin")
			}
		}
		if custom != wantTags {
			t.Fatalf("expected %d custom tags in the listener, found %d", wantTags, custom)
		}
		tagOrders[strings.Join(tags, " , ")]++
		return c17iOutput{names: []string{l.Name}, msgs: []proto.Message{l}}
	}
}

func c17iAssertTagsStable(t *testing.T, m *meshconfig.MeshConfig, cfg string, wantTags int) {
	t.Helper()
	tagOrders := c17iOrders{}
	c17iAssertStable(t, c17iTracingListener(t, m, cfg, wantTags, tagOrders))
	if len(tagOrders) != 1 {
		t.Errorf("HttpConnectionManager.tracing.custom_tags came in %d distinct orders over %d generations (dry-run policy tags omitted):%v",
			len(tagOrders), c17iGenerations, tagOrders)
	}
}

// Control / false-alarm evidence for the normal case: 16 custom tags with names of their own.
var c17iTagNames = []string{"t01", "t02", "t03", "t04", "t05", "t06", "t07", "t08", "t09", "t10", "t11", "t12", "t13", "t14", "t15", "t16"}

func TestC17I_TracingCustomTags_Control_TelemetryProvider(t *testing.T) {
	m, cfg := c17iTelemetryTracing(c17iTagNames...)
	c17iAssertTagsStable(t, m, cfg, len(c17iTagNames))
}

func TestC17I_TracingCustomTags_Control_ProxyConfig(t *testing.T) {
	m, cfg := c17iProxyConfigTracing(c17iTagNames...)
	c17iAssertTagsStable(t, m, cfg, len(c17iTagNames))
}

// Corner: the sort key is only the tag NAME and sort.Slice is not stable (pdqsort; insertion sort, which is stable, up to 12
// elements). A custom tag that has the name of one of the built-in Istio tags (9 of them: istio.canonical_revision,
// istio.canonical_service, istio.cluster_id, istio.mesh_id, istio.namespace and the four dry-run policy tags) is a second
// element with an equal key, and which of the two comes first then depends on the (map) order of the input. Envoy keeps the
// first of two custom tags with the same name, so this decides whether the override is effective.
// (Smallest failing configuration found: "istio.canonical_service" + 6 other custom tags = 16 tags in total.)
var c17iOverridingTagNames = []string{"istio.canonical_service", "t01", "t02", "t03", "t04", "t05", "t06"}

func TestC17I_TracingCustomTags_NameOfABuiltinTag_TelemetryProvider(t *testing.T) {
	m, cfg := c17iTelemetryTracing(c17iOverridingTagNames...)
	c17iAssertTagsStable(t, m, cfg, len(c17iOverridingTagNames))
}

func TestC17I_TracingCustomTags_NameOfABuiltinTag_ProxyConfig(t *testing.T) {
	m, cfg := c17iProxyConfigTracing(c17iOverridingTagNames...)
	c17iAssertTagsStable(t, m, cfg, len(c17iOverridingTagNames))
}

// ---------------------------------------------------------------------------------------------------------------------
// listener_waypoint.go:170 buildEastWestTLSPassthroughListeners, `for _, ml := range mutableopts`
// ---------------------------------------------------------------------------------------------------------------------

func c17iEastWestGateway(t *testing.T, ports ...int) func() c17iOutput {
	test.SetForTest(t, &features.EnableAmbientMultiNetwork, true)
	cfg := &strings.Builder{}
	cfg.WriteString(c17iServiceEntry("se-a", "a.example.com", "10.10.10.1", 80) + `
---
apiVersion: networking.istio.io/v1
kind: Gateway
metadata:
  name: eastwest
  namespace: default
spec:
  selector:
    istio: eastwestgateway
  servers:
`)
	for _, p := range ports {
		fmt.Fprintf(cfg, "  - port:\n      number: %d\n      name: tcp-%d\n      protocol: TCP\n    hosts:\n    - \"*\"\n", p, p)
	}
	cfg.WriteString(`
---
apiVersion: networking.istio.io/v1
kind: VirtualService
metadata:
  name: eastwest
  namespace: default
spec:
  hosts:
  - "*"
  gateways:
  - eastwest
  tcp:
`)
	for _, p := range ports {
		fmt.Fprintf(cfg, "  - match:\n    - port: %d\n    route:\n    - destination:\n        host: a.example.com\n        port:\n          number: 80\n", p)
	}
	cg := NewConfigGenTest(t, TestOptions{ConfigString: cfg.String()})
	labels := map[string]string{"istio": "eastwestgateway", label.GatewayManaged.Name: constants.ManagedGatewayEastWestControllerLabel}
	proxy := cg.SetupProxy(&model.Proxy{
		Type:            model.Waypoint,
		ConfigNamespace: "default",
		Labels:          labels,
		Metadata:        &model.NodeMetadata{Labels: labels, Namespace: "default"},
	})
	if !proxy.IsAmbientEastWestGateway() || proxy.MergedGateway == nil {
		t.Fatalf("expected an ambient east-west gateway with a merged gateway")
	}
	gen := c17iListeners(cg, proxy)
	got := ", " + strings.Join(gen().names, " , ") + " ,"
	for _, p := range ports {
		if !strings.Contains(got, fmt.Sprintf(" 0.0.0.0_%d ", p)) {
			t.Fatalf("expected a passthrough listener for port %d, got %s", p, got)
		}
	}
	return gen
}

// An ambient east-west gateway that additionally exposes three plain TCP ports (Gateway + VirtualService tcp routes).
func TestC17I_EastWestPassthroughListeners(t *testing.T) {
	c17iAssertStable(t, c17iEastWestGateway(t, 9001, 9002, 9003))
}

// Control: one extra port.
func TestC17I_EastWestPassthroughListeners_Control_OnePort(t *testing.T) {
	c17iAssertStable(t, c17iEastWestGateway(t, 9001))
}
