// Copyright Istio Authors
//
// Licensed under the Apache License, Version 2.0 (the "License");
// you may not use this file except in compliance with the License.
// You may obtain a copy of the License at
//
//     http://www.apache.org/licenses/LICENSE-2.0
//
// Unless required by applicable law or agreed to in writing, software
// distributed under the License is distributed on an "AS IS" BASIS,
// WITHOUT WARRANTIES OR CONDITIONS OF ANY KIND, either express or implied.
// See the License for the specific language governing permissions and
// limitations under the License.

package grpcgen_test

// C17 (map-order determinism) triage of the reports in pilot/pkg/networking/grpcgen:
//   grpcgen.go:59/61/63  w.ResourceNames.UnsortedList() passed to BuildListeners / BuildClusters / BuildHTTPRoutes
//   cds.go:40            `for defaultClusterName, subsetFilter := range filter`
//   lds.go:371           listenerNames.inboundNames, `for key := range f`
//
// Every test runs the real proxyless-gRPC generator (GrpcConfigGenerator.Generate, the function the discovery server calls for
// a node with metadata GENERATOR=grpc) c17iGenerations times for the same proxy, the same PushContext and the same watched
// resource names and requires the resources to come in the same order with the same bytes every time.

import (
	"fmt"
	"sort"
	"strings"
	"testing"

	"google.golang.org/protobuf/proto"

	"istio.io/istio/pilot/pkg/model"
	"istio.io/istio/pilot/pkg/networking/core"
	"istio.io/istio/pilot/pkg/networking/grpcgen"
	v3 "istio.io/istio/pilot/pkg/xds/v3"
	"istio.io/istio/pkg/config/protocol"
	"istio.io/istio/pkg/istio-agent/grpcxds"
	"istio.io/istio/pkg/util/sets"
)

const c17iGenerations = 300

func c17iServiceEntries(hostnames ...string) string {
	sb := &strings.Builder{}
	for i, h := range hostnames {
		fmt.Fprintf(sb, `
---
apiVersion: networking.istio.io/v1
kind: ServiceEntry
metadata:
  name: se-%d
  namespace: default
spec:
  hosts:
  - %s
  addresses:
  - 10.10.10.%d
  location: MESH_INTERNAL
  resolution: STATIC
  ports:
  - number: 80
    name: grpc-80
    protocol: GRPC
  - number: 81
    name: grpc-81
    protocol: GRPC
  endpoints:
  - address: 10.20.0.%d
`, i, h, i+1, i+1)
	}
	return sb.String()
}

var c17iHosts = []string{"a.example.com", "b.example.com", "c.example.com", "d.example.com"}

func c17iAssertStable(t *testing.T, cg *core.ConfigGenTest, proxy *model.Proxy, typeURL string, wantResources int, watched ...string) {
	t.Helper()
	gen := &grpcgen.GrpcConfigGenerator{}
	w := &model.WatchedResource{TypeUrl: typeURL, ResourceNames: sets.New(watched...)}
	req := &model.PushRequest{Push: cg.PushContext()}
	orders := map[string]int{}
	var first map[string]string
	for i := 0; i < c17iGenerations; i++ {
		res, _, err := gen.Generate(proxy, w, req)
		if err != nil {
			t.Fatal(err)
		}
		var names []string
		b := map[string]string{}
		for _, r := range res {
			names = append(names, r.Name)
			bs, err := proto.MarshalOptions{Deterministic: true}.Marshal(r)
			if err != nil {
				t.Fatal(err)
			}
			b[r.Name] = string(bs)
		}
		if len(names) != wantResources {
			t.Fatalf("expected %d resources, got %v", wantResources, names)
		}
		orders[strings.Join(names, " , ")]++
		if first == nil {
			first = b
		}
		for n := range b {
			if b[n] != first[n] {
				t.Fatalf("generation #%d: resource %s is not byte-identical to generation #0", i, n)
			}
		}
	}
	if len(orders) != 1 {
		l := make([]string, 0, len(orders))
		for k, n := range orders {
			l = append(l, fmt.Sprintf("%4dx [%s]", n, k))
		}
		sort.Strings(l)
		if len(l) > 8 {
			l = append(l[:8], fmt.Sprintf("... and %d more", len(l)-8))
		}
		t.Errorf("the resources of the %s response came in %d distinct orders over %d generations of the same state:\n    %s",
			v3.GetShortType(typeURL), len(orders), c17iGenerations, strings.Join(l, "\n    "))
	}
}

func c17iGrpcProxy(cg *core.ConfigGenTest) *model.Proxy {
	return cg.SetupProxy(&model.Proxy{Metadata: &model.NodeMetadata{Generator: "grpc", Namespace: "default"}})
}

// --- cds.go:40 (reached from grpcgen.go:61) -------------------------------------------------------------------------

// A gRPC client that uses four services watches four clusters.
func TestC17I_GrpcCDS(t *testing.T) {
	cg := core.NewConfigGenTest(t, core.TestOptions{ConfigString: c17iServiceEntries(c17iHosts...)})
	c17iAssertStable(t, cg, c17iGrpcProxy(cg), v3.ClusterType, 4,
		"outbound|80||a.example.com", "outbound|80||b.example.com", "outbound|80||c.example.com", "outbound|80||d.example.com")
}

// Control: the default cluster and two subset clusters of ONE service share one key of the map built by newClusterFilter;
// inside one key the order is "default cluster, then subsets in DestinationRule order" (clusterBuilder.build).
func TestC17I_GrpcCDS_Control_OneService(t *testing.T) {
	cg := core.NewConfigGenTest(t, core.TestOptions{ConfigString: c17iServiceEntries(c17iHosts...) + `
---
apiVersion: networking.istio.io/v1
kind: DestinationRule
metadata:
  name: dr-a
  namespace: default
spec:
  host: a.example.com
  subsets:
  - name: v2
    labels: {version: v2}
  - name: v1
    labels: {version: v1}
  - name: v3
    labels: {version: v3}
`})
	c17iAssertStable(t, cg, c17iGrpcProxy(cg), v3.ClusterType, 4,
		"outbound|80|v1|a.example.com", "outbound|80||a.example.com", "outbound|80|v3|a.example.com", "outbound|80|v2|a.example.com")
}

// --- grpcgen.go:63 ---------------------------------------------------------------------------------------------------

func TestC17I_GrpcRDS(t *testing.T) {
	cg := core.NewConfigGenTest(t, core.TestOptions{ConfigString: c17iServiceEntries(c17iHosts...)})
	c17iAssertStable(t, cg, c17iGrpcProxy(cg), v3.RouteType, 4,
		"outbound|80||a.example.com", "outbound|80||b.example.com", "outbound|80||c.example.com", "outbound|80||d.example.com")
}

func TestC17I_GrpcRDS_Control_OneRoute(t *testing.T) {
	cg := core.NewConfigGenTest(t, core.TestOptions{ConfigString: c17iServiceEntries(c17iHosts...)})
	c17iAssertStable(t, cg, c17iGrpcProxy(cg), v3.RouteType, 1, "outbound|80||a.example.com")
}

// --- grpcgen.go:59, outbound listeners: FALSE ALARM --------------------------------------------------------------------

// The names only fill a map (newListenerNameFilter); the outbound listeners are emitted in the order of
// SidecarScope.Services() x sets.SortedList(RequestedNames) x Service.Ports (buildOutboundListeners, lds.go:281-288).
// The mix of "host", "host:port" and short names exercises the order-sensitive looking port-map logic of newListenerNameFilter.
func TestC17I_GrpcLDS_Outbound(t *testing.T) {
	cg := core.NewConfigGenTest(t, core.TestOptions{ConfigString: c17iServiceEntries(
		"a.example.com", "b.example.com", "c.example.com", "d.example.com", "e.default.svc.cluster.local")})
	// 13 = a:2, b:2 (no port: all ports), c:1, d:2, e: the three spellings share the FQDN key, whose port set becomes {80,81} -> 3x2
	c17iAssertStable(t, cg, c17iGrpcProxy(cg), v3.ListenerType, 13,
		"a.example.com:80", "a.example.com:81",
		"b.example.com", "b.example.com:80",
		"c.example.com:81",
		"d.example.com",
		"e:80", "e.default:81", "e.default.svc.cluster.local:80",
	)
}

// --- lds.go:371 (reached from grpcgen.go:59), inbound listeners ------------------------------------------------------

func c17iGrpcServer(cg *core.ConfigGenTest, ports ...int) (*model.Proxy, []string) {
	svc := &model.Service{
		Hostname:   "server.default.svc.cluster.local",
		Attributes: model.ServiceAttributes{Name: "server", Namespace: "default"},
	}
	var targets []model.ServiceTarget
	var names []string
	for _, p := range ports {
		port := &model.Port{Name: fmt.Sprintf("grpc-%d", p), Port: p, Protocol: protocol.GRPC}
		svc.Ports = append(svc.Ports, port)
		targets = append(targets, model.ServiceTarget{Service: svc, Port: model.ServiceInstancePort{ServicePort: port, TargetPort: uint32(p)}})
		names = append(names, fmt.Sprintf("%s0.0.0.0:%d", grpcxds.ServerListenerNamePrefix, p))
	}
	cg.MemRegistry.WantGetProxyServiceTargets = targets
	return c17iGrpcProxy(cg), names
}

// A proxyless gRPC server that serves on four ports (xds.NewGRPCServer + four Serve() calls) watches four inbound listeners.
func TestC17I_GrpcLDS_Inbound(t *testing.T) {
	cg := core.NewConfigGenTest(t, core.TestOptions{ConfigString: c17iServiceEntries(c17iHosts...)})
	proxy, names := c17iGrpcServer(cg, 8080, 8081, 8082, 8083)
	c17iAssertStable(t, cg, proxy, v3.ListenerType, 4, names...)
}

func TestC17I_GrpcLDS_Inbound_Control_OnePort(t *testing.T) {
	cg := core.NewConfigGenTest(t, core.TestOptions{ConfigString: c17iServiceEntries(c17iHosts...)})
	proxy, names := c17iGrpcServer(cg, 8080)
	c17iAssertStable(t, cg, proxy, v3.ListenerType, 1, names...)
}
