// Copyright Istio Authors
//
// Licensed under the Apache License, Version 2.0 (the "License");
// you may not use this file except in compliance with the License.
// You may obtain a copy of the License at
//
//     http://www.apache.org/licenses/LICENSE-2.0
//
// Unless required by applicable law or agreed to in writing, software
// distributed under the License is distributed on an "AS IS" BASIS,
// WITHOUT WARRANTIES OR CONDITIONS OF ANY KIND, either express or implied.
// See the License for the specific language governing permissions and
// limitations under the License.

package ambient

// findN: a PeerAuthentication written with an EMPTY selector (`selector: {}`) is a namespace-level
// (mesh-level in the root namespace) policy for sidecars (pilot/pkg/model/authentication.go
// addPeerAuthentication, pilot/pkg/security/authn ComposePeerAuthentication) and for the ambient
// function that decides which policy keys a workload references (convertedSelectorPeerAuthentications).
// The ambient sites that build the policies themselves (policies.go PeerAuthByNamespace index and
// PeerAuthDerivedPolicies, authorization.go convertPeerAuthentication) and the root-namespace fetch
// of workloads.go fetchPeerAuthentications only test `Selector == nil`.
//
// Every test below runs the same configuration twice: once with `selector: {}` on the
// namespace-/mesh-level policy and once with the selector absent (control). What is checked is what
// ztunnel would enforce end to end: the keys in Workload.AuthorizationPolicies are resolved against
// the policies the index serves (index.Policies, the source of the WorkloadAuthorization xDS type) and
// the resulting DENY policies are evaluated for a plaintext (no peer identity) connection per port.
// The expectation is computed by the sidecar code (authn.ComposePeerAuthentication): plaintext must be
// rejected on exactly the ports whose effective mode is STRICT.

import (
	"fmt"
	"sort"
	"strings"
	"testing"
	"time"

	corev1 "k8s.io/api/core/v1"
	"sigs.k8s.io/yaml"

	securityclient "istio.io/client-go/pkg/apis/security/v1"
	"istio.io/istio/pilot/pkg/model"
	"istio.io/istio/pilot/pkg/security/authn"
	"istio.io/istio/pkg/config"
	"istio.io/istio/pkg/config/labels"
	"istio.io/istio/pkg/config/schema/gvk"
	"istio.io/istio/pkg/config/validation"
	"istio.io/istio/pkg/test/util/retry"
	"istio.io/istio/pkg/workloadapi/security"
)

const (
	findNEmptySelector = "selector: {}"
	findNNoSelector    = ""
)

var (
	findNPodLabels = map[string]string{"app": "a"}
	// 9090 is the only port that appears in a portLevelMtls; 80 stands for "every other port"
	findNPorts = []uint32{80, 9090}
)

// findNParse builds the PeerAuthentication objects exactly as they are decoded from the API server's JSON/YAML.
func findNParse(t *testing.T, docs ...string) []*securityclient.PeerAuthentication {
	t.Helper()
	var res []*securityclient.PeerAuthentication
	for _, d := range docs {
		pa := &securityclient.PeerAuthentication{}
		if err := yaml.Unmarshal([]byte(d), pa); err != nil {
			t.Fatalf("cannot parse %s: %v", d, err)
		}
		// The configuration has to be one that istiod admits (a warning is fine).
		_, err := validation.ValidatePeerAuthentication(config.Config{
			Meta: config.Meta{GroupVersionKind: gvk.PeerAuthentication, Name: pa.Name, Namespace: pa.Namespace},
			Spec: &pa.Spec,
		})
		if err != nil {
			t.Fatalf("%s/%s is rejected by validation, the scenario is not reachable: %v", pa.Namespace, pa.Name, err)
		}
		res = append(res, pa)
	}
	return res
}

// findNSidecarStrictPorts is the oracle: for which of the ports is the effective mode STRICT according to the code used for sidecars.
// The selection of the applicable policies mirrors model.getConfigsForWorkload (own + root namespace, matchLabels subset of the
// workload's labels); the merge is the real authn.ComposePeerAuthentication.
func findNSidecarStrictPorts(pas []*securityclient.PeerAuthentication, ns string, workloadLabels map[string]string) map[uint32]bool {
	var cfgs []*config.Config
	for _, pa := range pas {
		if pa.Namespace != ns && pa.Namespace != systemNS {
			continue
		}
		if !labels.Instance(pa.Spec.GetSelector().GetMatchLabels()).SubsetOf(workloadLabels) {
			continue
		}
		cfgs = append(cfgs, &config.Config{
			Meta: config.Meta{
				GroupVersionKind:  gvk.PeerAuthentication,
				Name:              pa.Name,
				Namespace:         pa.Namespace,
				CreationTimestamp: pa.CreationTimestamp.Time,
			},
			Spec: &pa.Spec,
		})
	}
	merged := authn.ComposePeerAuthentication(systemNS, cfgs)
	res := map[uint32]bool{}
	for _, p := range findNPorts {
		mode := merged.Mode
		if m, f := merged.PerPort[p]; f {
			mode = m
		}
		res[p] = mode == model.MTLSStrict
	}
	return res
}

// findNMatchPlaintext evaluates one Match for a connection without peer identity to the given port. Only the fields that
// the PeerAuthentication conversion emits are understood, anything else fails the test.
func findNMatchPlaintext(t *testing.T, m *security.Match, port uint32) bool {
	t.Helper()
	if len(m.Namespaces)+len(m.NotNamespaces)+len(m.ServiceAccounts)+len(m.NotServiceAccounts)+len(m.Principals)+
		len(m.SourceIps)+len(m.NotSourceIps)+len(m.DestinationIps)+len(m.NotDestinationIps) != 0 {
		t.Fatalf("unexpected match field in a PeerAuthentication derived policy: %v", m)
	}
	for _, np := range m.NotPrincipals {
		if _, presence := np.MatchType.(*security.StringMatch_Presence); !presence {
			t.Fatalf("unexpected notPrincipals match: %v", np)
		}
		// notPrincipals:[presence] holds iff the peer has NO identity, which is the case for plaintext: keep going
	}
	if len(m.DestinationPorts) > 0 {
		found := false
		for _, p := range m.DestinationPorts {
			found = found || p == port
		}
		if !found {
			return false
		}
	}
	for _, p := range m.NotDestinationPorts {
		if p == port {
			return false
		}
	}
	return true
}

// findNDeniesPlaintext: groups are OR-ed, the rules of a group are AND-ed, the matches of a rule are OR-ed
// (pkg/workloadapi/security/authorization.proto, ztunnel rbac).
func findNDeniesPlaintext(t *testing.T, pol *security.Authorization, port uint32) bool {
	t.Helper()
	if pol.Action != security.Action_DENY {
		t.Fatalf("the test only attaches PeerAuthentication derived (DENY) policies, got %v", pol)
	}
	for _, g := range pol.Groups {
		all := true
		for _, r := range g.Rules {
			anyMatch := false
			for _, m := range r.Matches {
				anyMatch = anyMatch || findNMatchPlaintext(t, m, port)
			}
			all = all && anyMatch
		}
		if all {
			return true
		}
	}
	return false
}

type findNObservation struct {
	// Workload.AuthorizationPolicies
	refs []string
	// keys of refs for which the index serves no policy
	dangling []string
	// port -> ztunnel rejects a plaintext connection
	rejectsPlaintext map[uint32]bool
	// the referenced policies, for the failure message
	dump string
}

func findNObserve(t *testing.T, s *ambientTestServer, ip string) (findNObservation, error) {
	t.Helper()
	addrs := s.lookup(s.addrXdsName(ip))
	if len(addrs) != 1 || addrs[0].GetWorkload() == nil {
		return findNObservation{}, fmt.Errorf("workload %s not found", ip)
	}
	served := map[string]*security.Authorization{}
	for _, p := range s.Policies(nil) { // what the WorkloadAuthorization xDS generator sends
		served[p.Authorization.Namespace+"/"+p.Authorization.Name] = p.Authorization
	}
	o := findNObservation{
		refs:             addrs[0].GetWorkload().GetAuthorizationPolicies(),
		rejectsPlaintext: map[uint32]bool{},
	}
	var dump []string
	for _, p := range findNPorts {
		o.rejectsPlaintext[p] = false
	}
	for _, ref := range o.refs {
		pol, f := served[ref]
		if !f {
			o.dangling = append(o.dangling, ref)
			continue
		}
		dump = append(dump, fmt.Sprintf("%s: %v", ref, pol))
		for _, p := range findNPorts {
			if findNDeniesPlaintext(t, pol, p) {
				o.rejectsPlaintext[p] = true
			}
		}
	}
	sort.Strings(dump)
	o.dump = strings.Join(dump, "\n    ")
	return o, nil
}

func findNRun(t *testing.T, docs ...string) {
	t.Helper()
	pas := findNParse(t, docs...)
	want := findNSidecarStrictPorts(pas, testNS, findNPodLabels)

	s := newAmbientTestServer(t, testC, testNW, "")
	for _, pa := range pas {
		s.pa.CreateOrUpdate(pa)
	}
	s.addPods(t, "127.0.0.1", "pod1", "sa1", findNPodLabels, nil, true, corev1.PodRunning)

	var got findNObservation
	err := retry.UntilSuccess(func() error {
		var err error
		got, err = findNObserve(t, s, "127.0.0.1")
		if err != nil {
			return err
		}
		for _, p := range findNPorts {
			if got.rejectsPlaintext[p] != want[p] {
				return fmt.Errorf("port %d", p)
			}
		}
		if len(got.dangling) > 0 {
			return fmt.Errorf("dangling")
		}
		return nil
	}, retry.Timeout(2*time.Second), retry.BackoffDelay(5*time.Millisecond))
	t.Logf("Workload.AuthorizationPolicies=%v\n  referenced but not served: %v\n  served:\n    %s\n  plaintext rejected by ztunnel: %v\n  effective mode STRICT (sidecar): %v",
		got.refs, got.dangling, got.dump, got.rejectsPlaintext, want)
	if err != nil {
		for _, p := range findNPorts {
			if want[p] && !got.rejectsPlaintext[p] {
				t.Errorf("port %d: effective PeerAuthentication mode is STRICT but the policy sent to ztunnel ACCEPTS plaintext", p)
			}
			if !want[p] && got.rejectsPlaintext[p] {
				t.Errorf("port %d: effective PeerAuthentication mode is not STRICT but the policy sent to ztunnel REJECTS plaintext", p)
			}
		}
		if len(got.dangling) > 0 {
			t.Errorf("the workload references %v but no such policy is generated", got.dangling)
		}
	}
}

func findNBoth(t *testing.T, run func(t *testing.T, selector string)) {
	t.Run("empty selector", func(t *testing.T) { run(t, findNEmptySelector) })
	t.Run("control: no selector", func(t *testing.T) { run(t, findNNoSelector) })
}

// `selector: {}` survives decoding as a non-nil selector without labels - nothing normalises it to nil.
func TestFindN_EmptySelectorIsNotNil(t *testing.T) {
	pa := findNParse(t, fmt.Sprintf(findNNamespacePolicy, "ns-strict", testNS, findNEmptySelector, "STRICT"))[0]
	if pa.Spec.Selector == nil || len(pa.Spec.Selector.MatchLabels) != 0 {
		t.Fatalf("expected a non-nil selector without labels, got %#v", pa.Spec.Selector)
	}
	pa = findNParse(t, fmt.Sprintf(findNNamespacePolicy, "ns-strict", testNS, findNNoSelector, "STRICT"))[0]
	if pa.Spec.Selector != nil {
		t.Fatalf("expected a nil selector, got %#v", pa.Spec.Selector)
	}
}

const findNNamespacePolicy = `
apiVersion: security.istio.io/v1
kind: PeerAuthentication
metadata:
  name: %s
  namespace: %s
spec:
  %s
  mtls:
    mode: %s
`

// mode unset, a single port level entry
const findNWorkloadPolicy = `
apiVersion: security.istio.io/v1
kind: PeerAuthentication
metadata:
  name: w
  namespace: ns1
spec:
  selector:
    matchLabels:
      app: a
  portLevelMtls:
    9090:
      mode: %s
`

// Namespace policy STRICT, workload policy {mode unset, 9090: PERMISSIVE}: every port but 9090 is STRICT.
// The workload references only the converted policy of "w" (which is supposed to carry the merged STRICT default).
func TestFindN_NamespaceStrict_PermissivePort(t *testing.T) {
	findNBoth(t, func(t *testing.T, selector string) {
		findNRun(t,
			fmt.Sprintf(findNNamespacePolicy, "ns-strict", testNS, selector, "STRICT"),
			fmt.Sprintf(findNWorkloadPolicy, "PERMISSIVE"),
		)
	})
}

// The same with the STRICT default coming from the mesh-level policy (root namespace).
func TestFindN_MeshStrict_PermissivePort(t *testing.T) {
	findNBoth(t, func(t *testing.T, selector string) {
		findNRun(t,
			fmt.Sprintf(findNNamespacePolicy, "mesh-strict", systemNS, selector, "STRICT"),
			fmt.Sprintf(findNWorkloadPolicy, "PERMISSIVE"),
		)
	})
}

// Only a mesh-level STRICT policy: every workload of every namespace is STRICT (workloads.go fetchPeerAuthentications site).
func TestFindN_MeshStrictOnly(t *testing.T) {
	findNBoth(t, func(t *testing.T, selector string) {
		findNRun(t,
			fmt.Sprintf(findNNamespacePolicy, "mesh-strict", systemNS, selector, "STRICT"),
		)
	})
}

// Mesh STRICT (no selector), namespace PERMISSIVE, workload policy {mode unset, 9090: STRICT}: only 9090 is STRICT.
func TestFindN_MeshStrict_NamespacePermissive_StrictPort(t *testing.T) {
	findNBoth(t, func(t *testing.T, selector string) {
		findNRun(t,
			fmt.Sprintf(findNNamespacePolicy, "mesh-strict", systemNS, findNNoSelector, "STRICT"),
			fmt.Sprintf(findNNamespacePolicy, "ns-permissive", testNS, selector, "PERMISSIVE"),
			fmt.Sprintf(findNWorkloadPolicy, "STRICT"),
		)
	})
}

// Mesh STRICT (no selector), namespace PERMISSIVE, workload policy {mode unset, 9090: STRICT, 8080: DISABLE}: only 9090 is
// STRICT. Here the wrong answer is in the other direction (ambient rejects plaintext where the effective mode is PERMISSIVE).
func TestFindN_MeshStrict_NamespacePermissive_MixedPorts(t *testing.T) {
	findNBoth(t, func(t *testing.T, selector string) {
		findNRun(t,
			fmt.Sprintf(findNNamespacePolicy, "mesh-strict", systemNS, findNNoSelector, "STRICT"),
			fmt.Sprintf(findNNamespacePolicy, "ns-permissive", testNS, selector, "PERMISSIVE"),
			fmt.Sprintf(findNWorkloadPolicy, "STRICT")+"    8080:\n      mode: DISABLE\n",
		)
	})
}
